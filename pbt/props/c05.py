"""C05 - signal objects own their data; analysis functions do not mutate their inputs."""
import copy
import itertools
import os
import shutil
import tempfile
import warnings

import numpy as np
from hypothesis import strategies as st
from hypothesis.stateful import rule, initialize

import eqsig
from eqsig import sdof, im, surface, stockwell, multiple, loader, design_spectra
from eqsig import displacements as disp_mod
from eqsig.fns import average as f_av, generic as f_gen, frequency as f_fr, peaks_and_crossings as f_pk
from eqsig.fns import time_shift as f_ts, time_step as f_tstep

from pbt import core, gen
from pbt.core import clause, machine_clause, history_machine_base
from pbt.props import c04 as c04mod

PROPERTY = "C05"
CLAUSES = []
ASSUMPTIONS = [
    "ownership: caller containers are float64 / int64 ndarrays or lists of floats; in-place corrections (running average, rolling "
    "average, baseline corrections) are only applied while the object's values are floating point (integer data cannot hold them)",
    "mutator arguments as in C04 (valid by construction)",
    "pure functions: every public array-level / signal-level analysis function in eqsig is called with valid arguments built from "
    "generated records (float64, int64 and list variants); a function that rejects a container (raises) is counted as 'rejected' "
    "- not a C05 matter - but its inputs must still be unchanged; results of two successive calls are compared NaN-aware, exactly",
    "caching an auxiliary attribute on a signal argument (get_max_stockwell_freq stores asig.swtf) is not a mutation of its data; "
    "values, dt, npts of signal arguments are compared",
    "transform_w_scipy_fft is called with real input only (it overwrites complex input: outside 'real records')",
    "registry = the public functions of eqsig/sdof.py, displacements.py, im.py, fns/*.py, stockwell.py, surface.py, multiple.py (+ loader.save_*) "
    "that take an array or a signal; not called: underscore-private helpers (a private helper may legitimately work in place on a "
    "temporary of its public caller), the plot_* functions (need a matplotlib axis), functions of scalars only (gen_ricker_wavelet_asig, "
    "generate_gaussian, time_the_generation_of_response_spectra), the file readers of loader.py",
    "option crosses: every optional argument is either left out or given one (for a few, two) non-default value(s); the surface functions' "
    "up_red / down_red are varied together (two scalars or two arrays of one value per travel time - the library accepts no mixture); "
    "get_section_average / time_indices are crossed separately for index=False (times) and index=True (sample numbers); in the small-record "
    "clause the all-default and the all-non-default member of every cross product run in every case, the other members in one case out of four",
    "results and aliasing (decided after the audit): the statement does not forbid a result that is a view of the INPUT (documented pass-through "
    "trim_to_length(trim=False, start=False), a slice view, `return values` for a no-op); such result arrays are labelled, not failed and "
    "not overwritten.  Kept, because the statement implies them: (i) 'returns the same result when called again' is asserted after the caller "
    "overwrote every other array of the first result in place (a result that is a buffer kept by the library or cached on the signal "
    "argument then differs the second time); an exception in the second call after a successful first call is a violation, not a "
    "rejection; (ii) a returned Signal owns its data (sentence 1): it is not one of the arguments and its values share no memory with one",
    "two calls with identical arguments in one process are compared exactly (NaN-aware): vcheck pins OMP/BLAS threads to 1 and NumPy's pocketfft "
    "is deterministic, so any pure function returns identical bits; no tolerance is needed and none would be derivable from the statement",
    "a signal ARGUMENT is snapshotted as: values, dt, npts, its settings arrays (response_times, smooth_fa_freqs - plain attribute reads) and, for "
    "the third of the call forms whose signal objects are warmed beforehand (fa / smoothed spectrum / velocity / displacement / peaks read, "
    "response spectra for a quarter of those), every array in the object's instance dict that was present before the call; additionally the "
    "arrays present after the first call must be unchanged by the second.  Each form gets its own fresh signal objects; AccSignal arguments "
    "carry the short period list [0, 1.5, 3, 12, 40] dt in two environments out of three, the 100 default periods otherwise",
    "parameter-ownership covers the CONSTRUCTOR arguments response_times / smooth_fa_freqs.  Not asserted (pinned behaviour, reported): the "
    "setters `asig.response_times = T`, gen_response_spectrum(response_times=T) and gen_smooth_fa_spectrum(smooth_fa_freqs=F) store the caller's "
    "array itself; the statement names construction and reset_values only",
    "design_spectra: c_h_factor (array / list periods) and sd_nzs (1-element array; a longer array is rejected by its scalar comparisons) are in the "
    "registry; t_eff takes scalars only",
    "time == dt*[0..npts-1] is asserted to 4 ulps of each entry (dt*arange, arange*dt and linspace(0, dt*(npts-1), npts) all qualify); "
    "cluster members: len(values) == npts (not == the input length: a trimming time_match is correct)",
    "forms that raise on the pinned tree for every input are still called (inputs must stay unchanged) but are not counted as unexpected "
    "rejections: np.trapz is gone from NumPy 2.x (calc_acc_rms, calc_vsi_temporal, calc_fourier_moment, get_bandwidth_boore_2003), calc_a_rms "
    "was removed by the authors (always raises), calc_sir unpacks the scalar that calc_significant_duration returns",
    "mid-range lengths are bounded per call form by a cost category (CAPS: the longest record for which one call stays below ~0.3 s quick / "
    "~1.5 s thorough): 300 000 / 1 500 000 samples for the vectorised functions, 120 000 / 600 000 for FFT / filter / python-min-max functions, "
    "40 000 / 200 000 for the loops over peaks and the (n/2 x 50) smoothing matrix, 6 000 / 60 000 for the per-sample python loop of the sdof "
    "response (2 400 / 20 000 with the 100-241 default periods), 4 000 / 20 000 for get_major_change_indices and the tol>0 zero crossings "
    "(quadratic), ~2 000 / 4 000 for the functions with n x n temporaries (step-function error, Stockwell, default-frequency smoothing, "
    "Duhamel integral); beyond these lengths those functions are not exercised.  Python lists longer than 60 000 (thorough 240 000) elements "
    "are not generated (list conversion dominates); a 2-d time-frequency table argument is a random complex table of <= 600 x 1 600",
    "mid-range records are noise x envelope, sines + noise or a random walk + noise with a non-zero mean (int64 variant: round(8 a))",
]


class RecordArray(np.ndarray):
    """A plain ndarray subclass (stands for np.memmap, masked arrays, astropy/pint quantities ...)."""


class ArrayLike(object):
    """A pandas-like column: not an ndarray, exposes its buffer through __array__ without copying."""

    def __init__(self, a):
        self.a = np.array(a, dtype=float)

    def __array__(self, dtype=None, copy=None):
        # NumPy 2 protocol: copy=True must copy (np.array), copy=None/False may hand out the buffer (np.asarray)
        out = self.a if dtype is None else self.a.astype(dtype, copy=False)
        return out.copy() if copy else out

    def __len__(self):
        return len(self.a)

    def __getitem__(self, i):
        return self.a[i]

    def __setitem__(self, i, v):
        self.a[i] = v


def _zero_start_downward(a):
    """The record rebased on its first sample and, if necessary, negated: it starts at exactly 0 and its first move is downward
    (-sin(t), a baseline-corrected record): a function that skips its defensive copy when 'nothing needs rebasing' and then
    normalises the sign in place only shows on such a record (round 6 of the seeding)."""
    a = np.array(a, dtype=float)
    a = a - a[0]
    nz = np.flatnonzero(a)
    if len(nz) and a[nz[0]] > 0:
        a = 0.0 - a
    return a


def _container(spec, how):
    a = gen.build(spec)
    if spec.get("zs"):
        a = _zero_start_downward(a)
    if how == "int":
        return np.array(np.round(a * 8), dtype=np.int64)
    if how in gen.NARROW_DTYPES:  # raw digitiser counts using the dtype's full range (most negative sample = the dtype's minimum)
        return gen.narrow_int(a, how)[0]
    if how == "list":
        return [float(v) for v in a]
    if how in ("view", "readonly", "negstride"):  # the same float64 values in a non-contiguous / read-only / reversed-stride array
        return gen.as_container({"as": how}, np.array(a, dtype=float))
    if how == "subclass":
        return np.array(a, dtype=float).view(RecordArray)
    if how == "arraylike":
        return ArrayLike(a)
    return np.array(a, dtype=float)


def _snap(x):
    if isinstance(x, ArrayLike):
        return ("arraylike", _snap(x.a))
    if isinstance(x, np.ndarray):
        return ("nd", x.dtype.str, x.shape, x.tobytes())
    if isinstance(x, list):
        return ("list", copy.deepcopy(x), [type(v).__name__ for v in x])
    if isinstance(x, tuple):
        return ("tuple", tuple(_snap(v) for v in x))
    if isinstance(x, eqsig.Signal):
        v = x.values
        # a signal ARGUMENT: its record, dt, npts, its settings arrays (always present) and - when the object was warmed before the
        # call (every cached series / spectrum already computed, see _warm) - every array the object holds.  Nothing here triggers a
        # lazy computation: the settings are plain attribute reads, the cached arrays are taken from the instance dict.
        return ("sig", type(x).__name__, _snap(v if isinstance(v, np.ndarray) else list(v)), x.dt, x.npts, _sig_settings(x),
                _sig_state(x) if getattr(x, "_c05_warm", False) else None)
    return ("other", repr(x))


def _arr_snap(v):
    if isinstance(v, np.ndarray):
        return ("nd", v.dtype.str, v.shape, v.tobytes())
    if isinstance(v, (list, tuple)) and len(v) <= 100000 and all(isinstance(e, (int, float, np.number)) for e in v):
        return ("seq", type(v).__name__, tuple(float(e) for e in v))
    return None


def _sig_settings(x):
    """The settings arrays of a signal (periods of the response spectra, target frequencies of the smoothed spectrum)."""
    out = []
    for name in ("response_times", "smooth_fa_freqs"):
        try:
            v = getattr(x, name)
        except Exception:  # noqa  (a Signal has no response_times)
            continue
        out.append((name, _arr_snap(v)))
    return tuple(out)


def _sig_state(x):
    """Every array the signal object holds (instance dict, one level into dicts): cached velocity / displacement / Fourier / smoothed /
    response spectra, settings, anything a function stored on it.  Keys are only labels; no property is read."""
    out = []
    # a cache slot whose validity flag is off holds a placeholder (the constructor's zeros, a result invalidated by clear_cache):
    # computing it lazily inside an analysis function is not a mutation of the argument, so such slots are not part of the snapshot
    # (before the call) and are ignored when they appear later - found by the thorough tier: calc_bandwidth_f_max on a 100 000-sample
    # signal whose smoothed spectrum had not been warmed 'modified' the constructor's placeholder (a harness false alarm)
    stale = set()
    for flag, names in (("_cached_smooth_fa", ("_smooth_fa_spectrum",)), ("_cached_fa", ("_fa_spectrum", "_fa_freqs")),
                        ("_cached_disp_and_velo", ("_velocity", "_displacement")),
                        ("_cached_response_spectra", ("_s_a", "_s_v", "_s_d"))):
        if not vars(x).get(flag, True):
            stale.update(names)
    for k in sorted(vars(x)):
        if k in stale:
            continue
        v = vars(x)[k]
        if isinstance(v, dict):
            for kk in sorted(v, key=str):
                sn = _arr_snap(v[kk])
                if sn is not None:
                    out.append((k + "." + str(kk), sn))
        else:
            sn = _arr_snap(v)
            if sn is not None:
                out.append((k, sn))
    return tuple(out)


def _warm(sig, n_max_smooth=40000, n_max_spectra=3000, spectra=True):
    """Read every cached observable once, so that it is present (and comparable) before an analysis function is called."""
    names = ["fa_spectrum", "fa_frequencies"]
    if sig.npts <= n_max_smooth:
        names.append("smooth_fa_spectrum")
    if isinstance(sig, eqsig.AccSignal):
        names += ["velocity", "displacement", "pga", "pgv", "pgd"]
        if spectra and sig.npts <= n_max_spectra:
            names += ["s_a", "s_v", "s_d"]
    for nm in names:
        try:
            with warnings.catch_warnings():
                warnings.simplefilter("ignore")
                getattr(sig, nm)
        except Exception:  # noqa  (a degenerate record: whatever could be computed is cached)
            pass
    sig._c05_warm = True
    return sig


def _time_ok(t, dt, npts):
    """time == dt*[0..npts-1] up to a few ulps (dt*arange, arange*dt, linspace(0, dt*(npts-1), npts) all qualify)."""
    if not (isinstance(t, np.ndarray) and t.shape == (npts,)):
        return False
    want = float(dt) * np.arange(npts)
    return bool(np.all(np.abs(np.asarray(t, dtype=float) - want) <= 4 * np.finfo(float).eps * np.abs(want)))


# ---------------------------------------------------------------------------
# clause 1: ownership (state machine)

IN_PLACE = {"running_average", "rra_velocity", "rra_acc", "rebase_displacement", "zero_res_velocity", "zero_res_displacement",
            "zero_res_disp_and_velocity", "correct_me", "butter_pass", "remove_poly"}

class Own(object):
    def __init__(self, init, ctx):
        self.ctx = ctx
        self.dt = init["dt"]
        self.acc = bool(init["acc"])
        self.arr = {k: _container(init[k], init["how"][k]) for k in ("A", "B")}
        self.snap = {k: _snap(v) for k, v in self.arr.items()}
        self.obj = None
        self.after_reset = False
        self.did_inplace_after_reset = False
        self._construct("A")
        ctx.cls("acc" if self.acc else "sig", "A=" + init["how"]["A"], "B=" + init["how"]["B"])

    def _construct(self, src):
        cls = eqsig.AccSignal if self.acc else eqsig.Signal
        self.obj = self.ctx.lib(cls, self.arr[src], self.dt)
        self.after_reset = False

    def _check(self, what):
        ctx = self.ctx
        for k, v in self.arr.items():
            if _snap(v) != self.snap[k]:
                ctx.fail("%s modified the caller's container %s (%s): now %s" % (what, k, type(v).__name__, core._short(v)))
        vals = self.obj.values
        ctx.check(isinstance(vals, np.ndarray), "%s: Signal.values is a %s, not a numeric array" % (what, type(vals).__name__))
        ctx.check(vals.dtype.kind in "fiu", "%s: Signal.values has dtype %s" % (what, vals.dtype))
        ctx.check(vals.ndim == 1 and len(vals) == self.obj.npts, "%s: len(values)=%s but npts=%s" % (what, vals.shape, self.obj.npts))
        t = self.obj.time
        ctx.check(_time_ok(t, self.dt, self.obj.npts), "%s: time is not dt*[0..npts-1]" % what)

    def step(self, op, args):
        ctx = self.ctx
        if op == "construct":
            self._construct(args["src"])
            self._check("constructing from %s" % args["src"])
        elif op == "reset":
            self.ctx.lib(self.obj.reset_values, self.arr[args["src"]])
            self.after_reset = True
            ctx.cls("reset=" + type(self.arr[args["src"]]).__name__ + ("/" + str(getattr(self.arr[args["src"]], "dtype", ""))))
            self._check("reset_values(%s)" % args["src"])
        elif op == "caller_write":
            k = args["src"]
            arr = self.arr[k]
            i = args["i"] % len(arr)
            before = _snap(self.obj.values if isinstance(self.obj.values, np.ndarray) else list(self.obj.values))
            if isinstance(arr, np.ndarray) and arr.dtype.kind == "i":
                arr[i] = int(args["v"])
            else:
                arr[i] = float(args["v"])  # (ArrayLike forwards the write to its buffer)
            self.snap[k] = _snap(arr)
            after = _snap(self.obj.values if isinstance(self.obj.values, np.ndarray) else list(self.obj.values))
            ctx.check(before == after, "a caller write into its own container %s changed the signal's values" % k)
            self._check("caller write into %s" % k)
        else:
            if op in c04mod.ACC_ONLY and not self.acc:
                return
            vals = self.obj.values
            isfloat = isinstance(vals, np.ndarray) and vals.dtype.kind == "f"
            if op in IN_PLACE and not isfloat:
                return
            if op == "butter_pass" and self.obj.npts <= 3 * (2 * args.get("order", 4) + 1) + 2:
                return
            if op == "remove_poly" and self.obj.npts < args.get("k", 1) + 4:
                return
            if op in ("zero_res_velocity",) and not np.any(np.asarray(vals, dtype=float)):
                return  # pga == 0: division by zero inside the method, not an ownership matter
            if c04mod._apply(ctx, self.obj, op, args):
                ctx.cls("mut=" + op)
                if self.after_reset:
                    ctx.nt(True)
            if not np.all(np.isfinite(np.asarray(self.obj.values, dtype=float))):
                self._construct("A")  # the history overflowed the record; start again from A
            self._check(op)

    def finish(self):
        self._check("end of history")


# time steps: decimal ones and ones with more than 6 decimals (1/128 s, 1/120 s: a time axis rounded to the microsecond is not dt*k)
OWN_DTS = [0.005, 0.01, 0.02, 0.0078125, 1.0 / 120.0]
HM = history_machine_base()
_small = gen.record_specs(min_n=40, max_n=120, small_max=60, kinds=["noise", "sines", "walk", "dyadic", "vals"], amp_lo=-2, amp_hi=2,
                          allow_zero_runs=False)
_how = st.sampled_from(["float", "float", "int", "list", "subclass", "arraylike"])


class OwnMachine(HM):
    @initialize(A=_small, B=_small, dt=st.sampled_from(OWN_DTS), acc=st.booleans(), ha=_how, hb=_how)
    def init(self, A, B, dt, acc, ha, hb):
        self.start({"A": A, "B": B, "dt": dt, "acc": acc, "how": {"A": ha, "B": hb}})

    @rule(src=st.sampled_from(["A", "B"]))
    def construct(self, src):
        self.do("construct", {"src": src})

    @rule(src=st.sampled_from(["A", "B"]))
    def reset(self, src):
        self.do("reset", {"src": src})

    @rule(src=st.sampled_from(["A", "B"]), w=st.integers(2, 9))
    def reset_then_average(self, src, w):
        self.do("reset", {"src": src})
        self.do("running_average", {"w": w})

    @rule(src=st.sampled_from(["A", "B"]), c=st.floats(-3, 3, allow_nan=False))
    def reset_then_add(self, src, c):
        self.do("reset", {"src": src})
        self.do("add_constant", {"c": c})

    @rule(src=st.sampled_from(["A", "B"]), i=st.integers(0, 200), v=st.integers(-50, 50))
    def caller_write(self, src, i, v):
        self.do("caller_write", {"src": src, "i": i, "v": v})

    @rule(w=st.integers(1, 25))
    def running_average(self, w):
        self.do("running_average", {"w": w})

    @rule(width=st.integers(1, 30), mtype=st.sampled_from(["rra_velocity", "rra_acc"]))
    def rolling(self, width, mtype):
        self.do(mtype, {"width": width})

    @rule(which=st.sampled_from(["rebase_displacement", "zero_res_displacement", "correct_me"]))
    def baseline(self, which):
        self.do(which, {})

    @rule(which=st.sampled_from(["zero_res_velocity", "zero_res_disp_and_velocity"]),
          tz=st.one_of(st.none(), st.tuples(st.floats(0.0, 0.6), st.one_of(st.none(), st.floats(0.7, 1.0)))))
    def residual(self, which, tz):
        self.do(which, {"tz": None if tz is None else list(tz)})

    @rule(c=st.floats(-10, 10, allow_nan=False))
    def add_constant(self, c):
        self.do("add_constant", {"c": c})

    @rule(seed=st.integers(0, 10 ** 6), which=st.sampled_from(["add_series", "add_signal"]))
    def add(self, seed, which):
        self.do(which, {"seed": seed})

    @rule(k=st.integers(0, 3))
    def remove_poly(self, k):
        self.do("remove_poly", {"k": k})

    @rule(section=st.one_of(st.just(-1), st.integers(2, 30)))
    def remove_average(self, section):
        self.do("remove_average", {"section": section})

    @rule(lo=gen.log_uniform(0.05, 0.4), order=st.integers(1, 3), gibbs=st.sampled_from([None, "start", "end", "mid"]))
    def butter(self, lo, order, gibbs):
        self.do("butter_pass", {"lo": lo, "hi": min(0.8, lo * 2), "order": order, "gibbs": gibbs})


machine_clause(CLAUSES, "ownership", OwnMachine, Own, quick=250, thorough=400, quick_steps=25, thorough_steps=50,
               rule="Hypothesis rule-based state machine: caller containers A, B (float64 / int64 ndarray or list) with byte snapshots; rules: "
                    "construct Signal/AccSignal from A|B, reset_values(A|B), 15 mutators incl. every in-place correction, 'caller writes into A|B'; "
                    "non-trivial = at least one mutator applied after a reset_values",
               oracle="invariants after every step: caller containers equal their snapshots (dtype, shape, bytes); a caller write does not change "
                      "Signal.values; values is a 1-d numeric ndarray with len == npts; time == dt*arange(npts) to 4 ulps",
               min_nontrivial=0.2)


_POST = ["running_average", "add_constant", "remove_poly", "remove_average", "butter_pass", "add_series", "rra_velocity", "zero_res_displacement"]
_POST_ARGS = {"running_average": {"w": 4}, "add_constant": {"c": 0.3}, "remove_poly": {"k": 1}, "remove_average": {"section": 10},
              "butter_pass": {"lo": 0.1, "hi": 0.5, "order": 2, "gibbs": None}, "add_series": {"seed": 9}, "rra_velocity": {"width": 6},
              "zero_res_displacement": {}}


@st.composite
def _cluster_cases(draw):
    n = draw(st.integers(40, 120))
    k = draw(st.integers(2, 4))
    post = draw(st.lists(st.tuples(st.integers(0, k - 1), st.sampled_from(_POST + ["caller_write", "caller_write"]), st.integers(0, 200),
                                   st.integers(-9, 9)), min_size=0, max_size=6))
    return {"n": n, "k": k, "seed": draw(st.integers(0, 10 ** 6)), "lags": draw(st.lists(st.integers(-6, 6), min_size=k, max_size=k)),
            "master": draw(st.integers(0, k - 1)), "steps": draw(st.integers(7, 12)), "stype": draw(st.sampled_from(["custom", "acc"])),
            "how": draw(st.sampled_from(["ndarray", "lists", "rows"])), "names": draw(st.booleans()), "trim": draw(st.booleans()),
            "extra": draw(st.sampled_from(["", "", "combine", "spectra"])), "post": [list(x) for x in post]}


@clause(CLAUSES, "cluster-values", _cluster_cases(), quick=150, thorough=500,
        rule="Cluster of 2-4 lagged copies of a random record (lags -6..6) given as a 2-d ndarray, a list of lists or a list of row views of one "
             "2-d array, any master, Signal or AccSignal members, optional names list; time_match (trim option) then same_start, optionally "
             "combine_motions / generate_response_spectrums, then up to 6 further steps: an in-place correction on one member signal or a "
             "caller write into its own input; non-trivial = some non-zero lag and at least one later step",
        oracle="invariants after every step: every member's values stay a 1-d numeric ndarray with len == npts; the caller's input (2-d array / "
               "lists / names) equals its snapshot - no correction on a member reaches it; a caller write changes no member's values",
        min_nontrivial=0.3)
def cluster_values(case, ctx):
    rs = np.random.RandomState(case["seed"])
    n, k = case["n"], case["k"]
    base = rs.standard_normal(n + 40)
    rows = [base[20 + lag:20 + lag + n].copy() for lag in case["lags"]]
    how = case.get("how", "ndarray")
    block = np.array(rows)
    vals = block if how == "ndarray" else ([block[i] for i in range(k)] if how == "rows" else [list(map(float, r)) for r in rows])
    names = ["rec%d" % i for i in range(k)] if case.get("names") else None
    names_snap = copy.deepcopy(names)

    def snap_in():
        return (_snap(block), copy.deepcopy(vals) if how == "lists" else None)
    snap = snap_in()
    post = case.get("post", [])
    ctx.nt(any(l != case["lags"][case["master"]] for l in case["lags"]) and len(post) > 0)
    ctx.cls("k=%d" % k, "master=%d" % case["master"], "stype=" + case["stype"], "in=" + how)
    kw = {} if names is None else {"names": names}
    cl = ctx.lib(multiple.Cluster, vals, 0.01, master_index=case["master"], stypes=case["stype"], **kw)

    def check(what):
        for i in range(k):
            s = cl.signal_by_index(i)
            v = s.values
            ctx.check(isinstance(v, np.ndarray) and v.dtype.kind in "fiu" and v.ndim == 1,
                      "%s: signal %d has values of type %s" % (what, i, type(v).__name__))
            # (the statement asks len == npts; a time_match that trims all members to a common shorter length is also correct)
            ctx.check(len(v) == s.npts, "%s: signal %d: len(values)=%d but npts=%s" % (what, i, len(v), s.npts))
        ctx.check(snap_in() == snap, "%s: the Cluster / one of its signals modified the caller's input values" % what)
        ctx.check(names == names_snap, "%s: the caller's names list was modified" % what)
    check("construction")
    ctx.lib(cl.time_match, steps=case["steps"], trim=case.get("trim", True))
    check("time_match")
    ctx.lib(cl.same_start, start=0, end=0.2)
    check("same_start")
    if case.get("extra") == "combine" and all(cl.signal_by_index(i).npts > 30 for i in (0, 1)):
        ctx.lib(cl.combine_motions, 5.0, low_index=0, high_index=1, order=2)
        ctx.cls("combine_motions")
        check("combine_motions")
    elif case.get("extra") == "spectra" and case["stype"] == "acc":
        ctx.lib(cl.generate_response_spectrums)
        ctx.cls("generate_response_spectrums")
        check("generate_response_spectrums")
    for i, op, j, v in post:
        sig = cl.signal_by_index(i)
        if op == "caller_write":
            before = [_snap(np.array(cl.signal_by_index(q).values)) for q in range(k)]
            if how == "lists":
                vals[i][j % len(vals[i])] = float(v)
            else:
                block[i, j % block.shape[1]] = float(v)
            snap = snap_in()
            after = [_snap(np.array(cl.signal_by_index(q).values)) for q in range(k)]
            ctx.check(before == after, "a caller write into row %d of its own input changed a cluster signal's values" % i)
            ctx.cls("caller_write")
        else:
            if op in c04mod.ACC_ONLY and case["stype"] != "acc":
                continue
            if op == "butter_pass" and sig.npts <= 20:
                continue
            if c04mod._apply(ctx, sig, op, _POST_ARGS[op]):
                ctx.cls("post=" + op)
        check("after %s on signal %d" % (op, i))


# ---------------------------------------------------------------------------
# clause 1c: ownership of PARAMETER arrays given to the constructors (periods of the response spectra, target frequencies of the
# smoothed spectrum): "signal objects own their data" - neither side's later in-place edit reaches the other

@st.composite
def _param_cases(draw):
    kind = draw(st.sampled_from(["response_times", "smooth_fa_freqs"]))
    m = draw(st.integers(2, 12))
    ops = draw(st.lists(st.one_of(
        st.tuples(st.just("caller_write"), st.integers(0, 50), st.floats(0.05, 9.0, allow_nan=False)),
        st.tuples(st.just("scale"), st.just(0), st.sampled_from([0.5, 1.25, 2.0])),
        st.tuples(st.just("read"), st.just(0), st.just(0.0)),
        st.tuples(st.just("regen"), st.just(0), st.just(0.0))), min_size=1, max_size=6))
    return {"kind": kind, "m": m, "n": draw(st.integers(40, 160)), "seed": draw(st.integers(0, 10 ** 6)), "dt": draw(st.sampled_from([0.005, 0.01, 0.02])),
            "how": draw(st.sampled_from(["float", "float", "list", "subclass", "arraylike", "view"])), "lead0": draw(st.booleans()),
            "ops": [list(o) for o in ops]}


@clause(CLAUSES, "parameter-ownership", _param_cases(), quick=120, thorough=400,
        rule="AccSignal(values, dt, response_times=P) / Signal|AccSignal(values, dt, smooth_fa_freqs=P) with P a float64 ndarray, list, ndarray "
             "subclass, __array__ object or non-contiguous view of 2-12 periods (optionally a leading 0) / frequencies; then 1-6 steps: caller "
             "writes P[i] = v, object-side in-place edit (`obj.response_times *= c`, `obj.smooth_fa_freqs *= c`), read of the spectra, explicit "
             "regeneration; non-trivial = at least one write / in-place edit",
        oracle="invariants after every step: P equals its snapshot (an object-side edit or a library operation never reaches it); a caller write "
               "into P leaves the object's setting (snapshot of obj.response_times / obj.smooth_fa_freqs) unchanged",
        min_nontrivial=0.4)
def parameter_ownership(case, ctx):
    rs = np.random.RandomState(case["seed"])
    dt, m = case["dt"], case["m"]
    vals = rs.standard_normal(case["n"]) * np.hanning(case["n"]) + 0.02
    if case["kind"] == "response_times":
        p = dt * np.sort(rs.uniform(6.0, 150.0, m))
        if case["lead0"]:
            p[0] = 0.0
    else:
        p = np.sort(rs.uniform(0.2, 0.4 / dt, m))
    how = case["how"]
    P = _container({"k": "vals", "v": [float(x) for x in p]}, how)
    snapP = _snap(P)
    name = case["kind"]
    ctx.cls("param=" + name, "how=" + how)
    if name == "response_times":
        obj = ctx.lib(eqsig.AccSignal, vals, dt, response_times=P)
    else:
        obj = ctx.lib(eqsig.AccSignal if case["seed"] % 2 else eqsig.Signal, vals, dt, smooth_fa_freqs=P)

    def setting():
        return _arr_snap(np.array(getattr(obj, name), dtype=float))

    def check(what):
        ctx.check(_snap(P) == snapP, "%s modified the caller's %s container (%s)" % (what, name, how))
    check("the constructor")
    for op, i, v in case["ops"]:
        if op == "caller_write":
            before = setting()
            P[i % len(P)] = float(v)
            snapP = _snap(P)
            ctx.check(setting() == before, "a caller write into its own %s container (%s) changed the object's %s" % (name, how, name))
            ctx.nt(True)
        elif op == "scale":
            arr = getattr(obj, name)
            if isinstance(arr, np.ndarray) and arr.dtype.kind == "f" and arr.flags.writeable:
                arr *= v  # what `obj.<name> *= c` does: in-place on the object's array, then assigned back
                setattr(obj, name, arr)
                ctx.nt(True)
                check("an in-place edit of obj.%s" % name)
        elif op == "read":
            ctx.lib(lambda: np.array(obj.s_a) if name == "response_times" else np.array(obj.smooth_fa_spectrum))
            check("reading the spectrum")
        else:
            if name == "response_times":
                ctx.lib(obj.generate_response_spectrum)
            else:
                ctx.lib(obj.generate_smooth_fa_spectrum)
            check("regenerating the spectrum")


# ---------------------------------------------------------------------------
# clause 2: pure functions
#
# The registry is declarative: a *call form* = (function, positional arguments, keyword arguments) whose argument items
# are literals, "$key" references into a lazily built environment (Env) or V(...) values computed from it.  `cross()`
# generates one form per element of the cross product of a function's optional arguments (D = option left out, i.e. at
# its default), so that a defect needing two options to be non-default together is requested.


class V(object):
    """A value computed from the environment when the form is resolved."""

    def __init__(self, f):
        self.f = f


class L(object):
    """An option value with an explicit label (for values whose repr is not a usable name)."""

    def __init__(self, label, value):
        self.label = label
        self.value = value


D = L("", None)  # the option is not passed (left at its default)

# size caps per cost category: (quick, thorough) longest record (samples) / largest product given to a form of the category in
# the mid-range enumerations; measured so that one call stays below ~0.3 s (quick) / ~1.5 s (thorough)
CAPS = {
    "vec": (300000, 1500000),     # O(n) vectorised
    "vec2": (120000, 600000),     # O(n) vectorised, several passes / FFTs / python-level min()/max() / filters
    "resample": (50000, 250000),  # FFT resampling (arbitrary, also prime, lengths)
    "peaks": (40000, 200000),     # python loop over the peaks of the record
    "zctol": (4000, 10000),       # quadratic in the number of crossings (list membership in a loop)
    "major": (4000, 20000),       # python loop, one np.mean + np.isclose per sample
    "sdof": (6000, 60000),        # python loop over the samples, a handful of periods
    "sdofmany": (2400, 20000),    # same with the 100-241 default periods (and an interpolated record)
    "smooth": (40000, 200000),    # (n/2 x 50) smoothing matrix
    "quad": (2000, 3600),         # O(n^2) memory (n x n temporaries)
    "stock": (1700, 4000),        # O(n^2) complex temporaries
    "elastic": (2500, 8000),      # O(n^2) time
    "elastic3": (1500, 4000),
    "save": (30000, 200000),      # python loop writing one line per sample
}
LADDER_LO = {"quad": 900, "stock": 900, "elastic": 900, "elastic3": 700, "zctol": 1200, "sdofmany": 1000}


class Form(object):
    __slots__ = ("name", "fn", "args", "kwargs", "cap", "primary", "count", "flags")

    def __init__(self, name, fn, args, kwargs, cap, primary, count, flags):
        self.name, self.fn, self.args, self.kwargs, self.cap, self.primary, self.count, self.flags = (
            name, fn, tuple(args), dict(kwargs or {}), cap, primary, count, flags)


FORMS = {}


def form(name, fn, args, kwargs=None, cap="vec", primary=True, count=None, **flags):
    """count: cost category of the form when the *count* dimension (periods, shifts, travel times, exponents, target frequencies,
    table rows) is laddered instead of the record length: 'nm' = O(n*m) vectorised, 'loop' = python loop over n with m-vectors."""
    if name in FORMS:
        raise core.HarnessError("duplicate call form %r" % name)
    assert cap in CAPS, cap
    FORMS[name] = Form(name, fn, args, kwargs, cap, primary, count, flags)


def _lab(v):
    if isinstance(v, L):
        return v.label, v.value
    if isinstance(v, str) and v.startswith("$"):
        return v[1:], v
    if isinstance(v, float):
        return "%g" % v, v
    return repr(v).replace("'", ""), v


def opt(kw, *values):
    """An optional argument: left out (default) or one of `values`."""
    return (kw, [D] + list(values))


def cross(name, fn, args, opts, cap="vec", count=None, skip=None, **flags):
    """One form per element of the cross product of the optional arguments `opts` = [opt(kw, v1, v2..), ...].  The all-default
    and the 'every option at its first non-default value' corners are *primary* (run in every small-record case); the others
    rotate through the small-record cases and are all enumerated at mid-range sizes."""
    corner = tuple(vals[1] for _, vals in opts)
    for combo in itertools.product(*[vals for _, vals in opts]):
        kw, labs = {}, []
        for (k, _), v in zip(opts, combo):
            if v is D:
                continue
            lab, val = _lab(v)
            kw[k] = val
            labs.append("%s=%s" % (k, lab))
        if skip is not None and skip(kw):
            continue
        nm = name if not labs else "%s(%s)" % (name, ",".join(labs))
        prim = all(v is D for v in combo) or all(a is b for a, b in zip(combo, corner))
        form(nm, fn, args, kw, cap=cap, primary=prim, count=count, **flags)


def _resolve(x, E):
    if isinstance(x, V):
        return x.f(E)
    if isinstance(x, str) and x.startswith("$"):
        return E[x[1:]]
    return x


# -- the lazily built environment ------------------------------------------------------------------------------------------

class Env(object):
    """Arguments for the call forms, built on first use from the two records (containers a, b), dt, an RNG seed and the optional
    *count* m (number of periods / shifts / travel times / exponents / target frequencies / table rows; None = the small
    legacy lists)."""

    def __init__(self, a, b, dt, seed, m=None):
        self.d = {"dt": dt, "seed": int(seed), "m": m, "warm": False, "warm_spectra": False}
        self.lazy = {"a": a, "b": b}  # containers, or callables making them (mid-range records are built when a form needs them)
        self.tmpdirs = []

    def __getitem__(self, k):
        if k not in self.d:
            if k in self.lazy:
                v = self.lazy[k]
                self.d[k] = v() if callable(v) else v
            else:
                self.d[k] = _BUILD[k](self)
        return self.d[k]

    def new_form(self, name):
        """Every call form gets its OWN signal objects (nothing cached on them by an earlier form): cold (nothing computed yet: the first
        call on a fresh object is judged) or, for a hash-chosen third, warmed (every cached series / spectrum read beforehand, so that
        the snapshot of the argument covers them)."""
        for k in SIG_KEYS:
            self.d.pop(k, None)
        self.d["warm"] = _hh("warm", name, self.d["seed"]) % 3 == 0
        self.d["warm_spectra"] = _hh("warmsp", name, self.d["seed"]) % 4 == 0

    def cleanup(self):
        for d in self.tmpdirs:
            shutil.rmtree(d, ignore_errors=True)
        self.tmpdirs = []
        self.d.pop("tmpfile", None)


SIG_KEYS = ("asig", "bsig", "sig", "asig_long", "asig_even", "asig_sw")


def _hh(*parts):
    import hashlib
    return int(hashlib.blake2b(":".join(str(p) for p in parts).encode(), digest_size=8).hexdigest(), 16)


def _sigb(make):
    """A signal builder: AccSignal members carry, in two environments out of three, their own short period list (a zero period, one below
    two time steps, three ordinary ones) instead of the 100 default periods; warmed when the form asks for it."""
    def build(E):
        o = make(E)
        if E["warm"]:
            _warm(o, spectra=E["warm_spectra"])
        return o
    return build


def _acc(E, values):
    rt = E["rt_own"]
    if rt is None:
        return eqsig.AccSignal(values, E["dt"])
    return eqsig.AccSignal(values, E["dt"], response_times=np.array(rt))


def _rs(E, salt):
    return np.random.RandomState((E["seed"] * 131 + salt) % (2 ** 31 - 1))


def _tmpfile(E):
    d = tempfile.mkdtemp(prefix="verif_c05_")
    E.tmpdirs.append(d)
    return os.path.join(d, "p.txt")


def _b_T(E):
    dt, m = E["dt"], E["m"]
    if m is None:
        return np.array([0.0, 3 * dt, 12 * dt, 40 * dt])
    return np.concatenate([[0.0], dt * np.logspace(np.log10(3.0), np.log10(400.0), max(1, m - 1))])


def _b_T_mixed(E):
    dt = E["dt"]
    if E["m"] is None:
        return np.array([12 * dt, 40 * dt, 3 * dt, 25 * dt])
    return np.array(_rs(E, 1).permutation(E["T"][1:]))


def _b_tt(E):
    dt, m = E["dt"], E["m"]
    if m is None:
        return np.array([0.0, 1.5 * dt, 4 * dt])
    k = max(4.0, min(E["n"] / 8.0, 60.0))
    return dt * np.concatenate([[0.0], np.sort(_rs(E, 2).uniform(0.5, k, max(1, m - 1)))])


def _b_shifts(E):
    m = E["m"]
    if m is None:
        return np.array([-2, 0, 3])
    k = int(max(3, min(E["n"] // 8, 50)))
    s = _rs(E, 3).randint(-k, k + 1, m)
    s[0], s[-1] = -k, k
    return s


def _b_xf(E):
    m = E["m"]
    return np.arange(6 if m is None else max(6, m // 2), dtype=float)


def _b_xq(E):
    if E["m"] is None:
        return np.array([-0.5, 0.0, 1.25, 4.0, 5.5])
    return _rs(E, 4).uniform(-0.5, len(E["xf"]) - 0.5, E["m"])


def _b_xq_in(E):
    if E["m"] is None:
        return np.array([0.0, 1.25, 4.0, 5.0])
    q = _rs(E, 5).uniform(0.0, len(E["xf"]) - 1.0, E["m"])
    q[0] = 0.0
    return q


def _b_stock(E):
    n = E["n"]
    if n <= 400:
        return stockwell.transform(E["af"])
    r, c = min(n // 2, 600), min(n, 1600)  # any 2-d complex array is a valid time-frequency table for the two consumers
    rs = _rs(E, 6)
    return rs.standard_normal((r, c)) + 1j * rs.standard_normal((r, c))


def _b_asig_sw(E):
    o = _acc(E, np.array(E["af"][:400]))
    o.swtf = stockwell.transform(o.values)
    return o


def _b_e2d(E):
    tt, dt = E["tt"], E["dt"]
    return _rs(E, 7).standard_normal((len(tt), E["n"] + int(np.max(2 * tt / dt))))


def _fresh(E):
    return eqsig.AccSignal(np.array(E["af"]), E["dt"])


_BUILD = {
    "af": lambda E: np.array(E["a"], dtype=float),
    "bf": lambda E: np.array(E["b"], dtype=float),
    "n": lambda E: len(E["af"]),
    "a2": lambda E: copy.deepcopy(E["a"]),
    "T": _b_T,
    "Tnz": lambda E: np.array(E["T"][1:]),
    "T_desc": lambda E: np.array(E["T"][1:][::-1]),
    "T_mixed": _b_T_mixed,
    "w": lambda E: 2 * np.pi / E["T"][1:],
    "xis": lambda E: np.array([0.05, 0.1]),
    "rt_own": lambda E: None if _hh("rt", E["seed"]) % 3 == 0 else E["dt"] * np.array([0.0, 1.5, 3.0, 12.0, 40.0]),
    "asig": _sigb(lambda E: _acc(E, np.array(E["a"], dtype=float))),
    "bsig": _sigb(lambda E: _acc(E, np.array(E["b"], dtype=float))),
    "sig": _sigb(lambda E: eqsig.Signal(np.array(E["a"], dtype=float), E["dt"])),
    "asig_long": _sigb(lambda E: _acc(E, np.resize(E["af"], max(E["n"], int(2.2 / E["dt"]) + 2)) * 1.0)),
    "asig_even": _sigb(lambda E: _acc(E, np.array(E["af"][:2 * (E["n"] // 2)]))),
    "asig_sw": _sigb(_b_asig_sw),
    "Tper": lambda E: np.concatenate([[0.0, 0.05, 0.2, 0.7, 2.0, 3.5], np.array(E["T"][1:]) * 10.0]),
    "Tper_list": lambda E: [float(t) for t in E["Tper"]],
    "T1": lambda E: np.array([0.7]),
    "cut_list": lambda E: [float(c) for c in E["cut"]],
    "cut_lo": lambda E: (None, float(E["cut"][1])),
    "vals_copy": lambda E: np.array(E["af"]),
    "fa": lambda E: f_fr.calc_fa_spectrum(eqsig.Signal(np.array(E["af"]), E["dt"])),
    "fa_spec": lambda E: E["fa"][0],
    "fa_freqs": lambda E: E["fa"][1],
    "sm_freqs": lambda E: np.logspace(-0.5, 1.2, 12 if E["m"] is None else E["m"]),
    "smooth": lambda E: np.array(_fresh(E).smooth_fa_spectrum),
    "smat": lambda E: f_fr.calc_smoothing_matrix_konno_1998(_fresh(E).fa_frequencies, E["sm_freqs"]),
    "tt": _b_tt,
    "tt0": lambda E: float(E["tt"][-1]),
    "red": lambda E: np.linspace(1.0, 0.8, len(E["tt"])),
    "red2": lambda E: np.linspace(0.95, 0.7, len(E["tt"])),
    "stt": lambda E: float(np.max(E["tt"])),
    "e2d": _b_e2d,
    "shifts": _b_shifts,
    "ashifts": lambda E: np.abs(E["shifts"]),
    "tshifts": lambda E: np.abs(E["shifts"]) * E["dt"],
    "thr": lambda E: float(0.3 * np.max(np.abs(E["af"]))) if np.any(E["af"]) else 0.1,
    "aref": lambda E: float(0.65 * max(np.max(np.abs(E["af"])), 1e-9)),
    "bexp": lambda E: np.array([0.2, 0.34, 0.5]) if E["m"] is None else np.linspace(0.2, 0.5, E["m"]),
    "xf": _b_xf,
    "ftab": lambda E: _rs(E, 8).standard_normal((len(E["xf"]), 3)),
    "ycol": lambda E: _rs(E, 9).standard_normal(len(E["xf"])),
    "xq": _b_xq,
    "xq_in": _b_xq_in,
    "stock": _b_stock,
    "apos": lambda E: np.abs(E["af"]) + 1.0,
    "m2d": lambda E: np.array(E["af"][:4 * (E["n"] // 4)].reshape(4, -1)),
    "dt0": lambda E: np.array(E["dt"]),
    "F_desc": lambda E: np.array([20.0, 5.0, 1.0, 0.3]) if E["m"] is None else np.logspace(1.3, -0.5, E["m"]),
    "cut": lambda E: np.array([0.05 / E["dt"] * 0.2, 0.05 / E["dt"] * 2.0]),
    "half_t": lambda E: (E["n"] // 2) * E["dt"],
    "half_i": lambda E: E["n"] // 2,
    "third_i": lambda E: E["n"] // 3,
    "n_fft": lambda E: 2 * E["n"] + 3,
    "tmpfile": _tmpfile,
}


def _on_fresh(E, f):
    """Run a method of a freshly constructed AccSignal (so that calling twice is repeatable and the object itself is not an argument)."""
    return f(_fresh(E))


def _m(f):
    """An object-method form: fn(arr) applies `f(obj, arr)` to a fresh AccSignal of the record."""
    return V(lambda E: (lambda arr: _on_fresh(E, lambda o: f(o, arr))))


def _build_forms():
    dtv = {"dt/2.5": V(lambda E: E["dt"] / 2.5), "dt*2.5": V(lambda E: E["dt"] * 2.5), "dt": V(lambda E: E["dt"]),
           "dt/3": V(lambda E: E["dt"] / 3), "dt/2": V(lambda E: E["dt"] / 2)}

    # --- sdof
    for nm, fn in (("response_series", sdof.response_series), ("pseudo_response_spectra", sdof.pseudo_response_spectra),
                   ("true_response_spectra", sdof.true_response_spectra)):
        form("sdof.%s" % nm, fn, ("$a", "$dt", "$T", 0.05), cap="sdof", count="loop")
    form("sdof.nigam_and_jennings_response", sdof.nigam_and_jennings_response, ("$a", "$dt", "$T", 0.0), cap="sdof", count="loop")
    form("sdof.response_series(list periods)", sdof.response_series, ("$a", "$dt", V(lambda E: [float(t) for t in E["T"]]), 0.05),
         cap="sdof", count="loop")
    cross("sdof.calc_resp_uke_spectrum", sdof.calc_resp_uke_spectrum, ("$asig",), [opt("periods", "$T"), opt("xi", 0.02)],
          cap="sdofmany", count="loop")
    cross("sdof.calc_input_energy_spectrum", sdof.calc_input_energy_spectrum, ("$asig",),
          [opt("periods", "$T"), opt("xi", 0.02), opt("series", True)], cap="sdofmany", count="loop")
    cross("sdof.absmax(2d)", sdof.absmax, ("$m2d",), [opt("axis", 1, 0)])
    form("sdof.absmax(1d)", sdof.absmax, ("$a",))
    form("sdof.compute_a_and_b", sdof.compute_a_and_b, (0.05, "$w", "$dt"), count="nm")
    form("sdof.single_elastic_response", sdof.single_elastic_response, ("$a", "$dt", V(lambda E: 12 * E["dt"]), 0.05), cap="elastic")
    form("sdof.slow_response_spectra", sdof.slow_response_spectra, ("$a", "$dt", V(lambda E: E["T"][1:4]), "$xis"), cap="elastic3")

    # --- displacements
    for nm, fn in (("calc_velo_and_disp_from_accel_arr", disp_mod.calc_velo_and_disp_from_accel_arr),
                   ("velocity_and_displacement_from_acceleration", disp_mod.velocity_and_displacement_from_acceleration)):
        cross("disp.%s" % nm, fn, ("$a", "$dt"), [opt("trap", False)])
    cross("disp.calc_velo_and_disp_from_accel_arr(0-d dt)", disp_mod.calc_velo_and_disp_from_accel_arr, ("$a", "$dt0"), [opt("trap", False)])

    # --- im
    sd = [opt("start", 0.1), opt("end", 0.8)]
    cross("im.calc_sig_dur_vals", im.calc_sig_dur_vals, ("$a", "$dt"), sd + [opt("se", True)])
    cross("im.calc_significant_duration", im.calc_significant_duration, ("$a", "$dt"), sd)
    cross("im.calc_sig_dur", im.calc_sig_dur, ("$asig",), sd + [opt("im", L("calc_cav", im.calc_cav)), opt("se", True)])
    form("im.calc_peak", im.calc_peak, ("$a",), cap="vec2")
    form("im.calculate_peak", im.calculate_peak, ("$a",), cap="vec2")
    for nm in ("calc_sir", "calc_arias_intensity", "calc_cav", "calc_isv", "calc_integral_of_abs_velocity",
               "calc_cumulative_abs_displacement", "calc_integral_of_abs_acceleration", "calc_unit_kinetic_energy", "max_fa_period"):
        form("im.%s" % nm, getattr(im, nm), ("$asig",), cap="vec2")
    form("im.calc_cav_dp", im.calc_cav_dp, ("$asig_long",), cap="vec2")
    cross("im.cumulative_response_spectra", im.cumulative_response_spectra, ("$asig", "arias_intensity"),
          [opt("periods", "$T"), opt("xi", 0.02)], cap="sdofmany", count="loop")
    form("im.calc_max_velocity_period", im.calc_max_velocity_period, ("$asig",), cap="sdofmany")
    form("im.max_acceleration_period", im.max_acceleration_period, ("$asig",), cap="sdofmany")
    for nm in ("calc_bandwidth_freqs", "calc_bandwidth_f_min", "calc_bandwidth_f_max"):
        cross("im.%s" % nm, getattr(im, nm), ("$asig",), [opt("ratio", 0.5)], cap="smooth")
    cross("im.calc_brac_dur", im.calc_brac_dur, ("$asig", "$thr"), [opt("se", True)])
    form("im.calc_brac_dur(never exceeded,se)", im.calc_brac_dur, ("$asig", V(lambda E: 10.0 * np.max(np.abs(E["af"])) + 1.0)), {"se": True})
    form("im.calc_bracketed_duration", im.calc_bracketed_duration, ("$asig", "$thr"))
    form("im.calc_acc_rms", im.calc_acc_rms, ("$asig", "$thr"))
    form("im.calc_a_rms", im.calc_a_rms, ("$asig", "$thr"))
    cross("im.calc_n_cyc_array_w_power_law", im.calc_n_cyc_array_w_power_law, ("$a", "$aref", 0.3), [opt("cut_off", 0.05)], cap="peaks")
    cross("im.calc_n_cyc_array_w_power_law(array b)", im.calc_n_cyc_array_w_power_law, ("$a", "$aref", "$bexp"), [opt("cut_off", 0.05)],
          cap="peaks", count="nm")
    form("im.calc_cyc_amp_array_w_power_law", im.calc_cyc_amp_array_w_power_law, ("$a", 15, 0.3), cap="peaks")
    form("im.calc_cyc_amp_array_w_power_law(array b)", im.calc_cyc_amp_array_w_power_law, ("$a", 7.5, "$bexp"), cap="peaks", count="nm")
    form("im.calc_cyc_amp_gm_arrays_w_power_law", im.calc_cyc_amp_gm_arrays_w_power_law, ("$a", "$b", 15, 0.3), cap="peaks")
    form("im.calc_cyc_amp_gm_arrays_w_power_law(array b)", im.calc_cyc_amp_gm_arrays_w_power_law, ("$a", "$b", 15, "$bexp"), cap="peaks",
         count="nm")
    form("im.calc_cyc_amp_combined_arrays_w_power_law", im.calc_cyc_amp_combined_arrays_w_power_law, ("$a", "$b", 15, 0.3), cap="peaks")
    for nm in ("calc_asi", "calc_vsi", "calc_vsi_temporal"):
        cross("im.%s" % nm, getattr(im, nm), ("$asig",), [opt("xi", 0.02), opt("periods", "$T", "$Tnz")], cap="sdofmany", count="loop")

    # --- fns.average
    cross("average.get_section_average", f_av.get_section_average, ("$sig",),
          [opt("start", L("2dt", V(lambda E: 2 * E["dt"]))), opt("end", "$half_t")])
    cross("average.get_section_average(index)", f_av.get_section_average, ("$sig",), [opt("start", 2), opt("end", "$half_i")],
          fixed={"index": True})
    cross("average.calc_step_fn_vals_error", f_av.calc_step_fn_vals_error, ("$a",), [opt("pow", 2), opt("dir", "down", "up")], cap="quad")
    cross("average.calc_step_fn_steps_vals", f_av.calc_step_fn_steps_vals, ("$a",), [opt("ind", "$third_i")], cap="quad")
    for steps in (5, 12):
        cross("average.calc_roll_av_vals(%d)" % steps, f_av.calc_roll_av_vals, ("$a", steps), [opt("mode", "backward", "centre")])

    # --- fns.generic
    form("generic.interp2d", f_gen.interp2d, ("$xq", "$xf", "$ftab"), count="nm")
    cross("generic.interp_left", f_gen.interp_left, ("$xq_in", "$xf"), [opt("y", "$ycol")], count="nm")
    cross("generic.interp_left(scalar)", f_gen.interp_left, (1.25, "$xf"), [opt("y", "$ycol")])
    cross("generic.remove_poly", f_gen.remove_poly, ("$a",), [opt("poly_fit", 2, 1)])

    # --- fns.frequency
    cross("frequency.get_sig_freq_range", f_fr.get_sig_freq_range, ("$asig",), [opt("ratio", 5)], cap="smooth")
    cross("frequency.get_sig_array_indexes_range", f_fr.get_sig_array_indexes_range, ("$smooth",), [opt("ratio", 5)], cap="smooth")
    form("frequency.calc_fourier_moment", f_fr.calc_fourier_moment, ("$asig", 2), cap="vec2")
    form("frequency.get_bandwidth_boore_2003", f_fr.get_bandwidth_boore_2003, ("$asig",), cap="vec2")
    cross("frequency.calc_smooth_fa_spectrum", f_fr.calc_smooth_fa_spectrum, ("$fa_freqs", "$fa_spec", "$sm_freqs"), [opt("band", 20)],
          cap="smooth", count="nm")
    cross("frequency.calc_smooth_fa_spectrum(default freqs)", f_fr.calc_smooth_fa_spectrum, ("$fa_freqs", "$fa_spec"), [opt("band", 20)],
          cap="quad")
    cross("frequency.generate_smooth_fa_spectrum", f_fr.generate_smooth_fa_spectrum, ("$sm_freqs", "$fa_freqs", "$fa_spec"),
          [opt("band", 20)], cap="smooth", count="nm")
    cross("frequency.calc_smoothing_matrix_konno_1998", f_fr.calc_smoothing_matrix_konno_1998, ("$fa_freqs", "$sm_freqs"), [opt("band", 20)],
          cap="smooth", count="nm")
    cross("frequency.calc_smoothing_matrix_konno_1998(default freqs)", f_fr.calc_smoothing_matrix_konno_1998, ("$fa_freqs",),
          [opt("band", 20)], cap="quad")
    form("frequency.calc_smooth_fa_spectrum_w_custom_matrix", f_fr.calc_smooth_fa_spectrum_w_custom_matrix, ("$asig", "$smat"), cap="smooth",
         count="nm")
    cross("frequency.generate_fa_spectrum", f_fr.generate_fa_spectrum, ("$sig",), [opt("n_pad", False)], cap="vec2")
    cross("frequency.calc_fa_spectrum", f_fr.calc_fa_spectrum, ("$sig",), [opt("n", "$n_fft"), opt("p2_plus", 1)], cap="vec2")
    form("frequency.fas2values", f_fr.fas2values, ("$fa_spec", "$dt"), cap="vec2")
    cross("frequency.fas2signal", f_fr.fas2signal, ("$fa_spec", "$dt"), [opt("stype", "acc")], cap="vec2")

    # --- fns.peaks_and_crossings
    cross("peaks.get_peak_array_indices", f_pk.get_peak_array_indices, ("$a",), [opt("ptype", "max", "min")])
    form("peaks.get_peak_indices", f_pk.get_peak_indices, ("$asig",))
    cross("peaks.get_zero_crossings_array_indices", f_pk.get_zero_crossings_array_indices, ("$a",), [opt("keep_adj_zeros", True)])
    cross("peaks.get_zero_crossings_array_indices(tol)", f_pk.get_zero_crossings_array_indices, ("$a",), [opt("keep_adj_zeros", True)],
          cap="zctol", fixed={"tol": "$thr"})
    cross("peaks.get_zero_crossings_array_indices(one-signed)", f_pk.get_zero_crossings_array_indices, ("$apos",),
          [opt("keep_adj_zeros", True), opt("tol", 0.5)])
    form("peaks.get_zero_crossings_indices", f_pk.get_zero_crossings_indices, ("$asig",))
    cross("peaks.get_zero_and_peak_array_indices", f_pk.get_zero_and_peak_array_indices, ("$a",), [opt("zvals", "$a2"), opt("min_step", 2)],
          cap="peaks")
    cross("peaks.get_major_change_indices", f_pk.get_major_change_indices, ("$a",),
          [opt("rtol", 1e-3), opt("atol", 1e-2), opt("already_diff", True), opt("dx", 0.5)], cap="major")
    for nm in ("determine_peaks_only_delta_series", "determine_pseudo_cyclic_peak_only_series", "determine_indices_of_peaks_for_cleaned_array",
               "determine_indices_of_peaks_for_cleaned", "clean_out_non_changing", "determine_peak_only_delta_series_4_cleaned_data"):
        form("peaks.%s" % nm, getattr(f_pk, nm), ("$a",))
    form("peaks.get_switched_peak_indices", f_pk.get_switched_peak_indices, ("$asig",), cap="peaks")
    form("peaks.get_switched_peak_indices(array)", f_pk.get_switched_peak_indices, ("$a",), cap="peaks")
    cross("peaks.get_switched_peak_array_indices", f_pk.get_switched_peak_array_indices, ("$a",), [opt("tol", "$thr")], cap="peaks")
    cross("peaks.get_switched_peak_array_indices(one-signed)", f_pk.get_switched_peak_array_indices, ("$apos",), [opt("tol", 0.5)], cap="peaks")
    cross("peaks.get_n_cyc_array", f_pk.get_n_cyc_array, ("$a",), [opt("opt", "switched"), opt("start", "peak")], cap="peaks")

    # --- fns.time_shift
    cross("time_shift.put_array_in_2d_array", f_ts.put_array_in_2d_array, ("$a", "$shifts"), [opt("clip", "both", "end", "start")], count="nm")
    cross("time_shift.join_values_w_shifts", f_ts.join_values_w_shifts, ("$a", "$ashifts"), [opt("jtype", "sub")], count="nm")
    cross("time_shift.join_sig_w_time_shift", f_ts.join_sig_w_time_shift, ("$sig", "$tshifts"), [opt("jtype", "sub")], count="nm")
    form("time_shift.time_indices", f_ts.time_indices, ("$n", "$dt", 0, "$half_t", False))
    form("time_shift.time_indices(index)", f_ts.time_indices, ("$n", "$dt", 2, "$half_i", True))

    # --- fns.time_step
    tds = [L(k, dtv[k]) for k in ("dt/2.5", "dt*2.5", "dt")]
    form("time_step.time_series_from_motion", f_tstep.time_series_from_motion, ("$a", "$dt"))
    cross("time_step.interp_array_to_approx_dt", f_tstep.interp_array_to_approx_dt, ("$a", "$dt"), [opt("target_dt", *tds), opt("even", False)])
    cross("time_step.interp_array_to_approx_dt(0-d dt)", f_tstep.interp_array_to_approx_dt, ("$a", "$dt0"),
          [opt("target_dt", *tds), opt("even", False)])
    cross("time_step.interp_to_approx_dt", f_tstep.interp_to_approx_dt, ("$asig",),
          [opt("target_dt", L("dt/3", dtv["dt/3"]), L("dt*2.5", dtv["dt*2.5"]), L("dt", dtv["dt"])), opt("even", False)])
    cross("time_step.interp_to_approx_dt(even record)", f_tstep.interp_to_approx_dt, ("$asig_even",), [opt("target_dt", L("dt", dtv["dt"]))])
    cross("time_step.resample_to_approx_dt", f_tstep.resample_to_approx_dt, ("$asig",),
          [opt("target_dt", L("dt/2", dtv["dt/2"]), L("dt*2.5", dtv["dt*2.5"]), L("dt", dtv["dt"])), opt("even", False)], cap="resample")
    cross("time_step.resample_to_approx_dt(even record)", f_tstep.resample_to_approx_dt, ("$asig_even",), [opt("target_dt", L("dt", dtv["dt"]))],
          cap="resample")

    # --- stockwell
    cross("stockwell.transform", stockwell.transform, ("$a",), [opt("interp", True)], cap="stock")
    cross("stockwell.transform_w_scipy_fft", stockwell.transform_w_scipy_fft, ("$a",), [opt("interp", True)], cap="stock")
    cross("stockwell.transform_slow", stockwell.transform_slow, ("$a",), [opt("interp", True), opt("ith", 2)], cap="stock")
    form("stockwell.itransform", stockwell.itransform, ("$stock",), cap="vec2")
    form("stockwell.dep_itransform", stockwell.dep_itransform, ("$stock",), cap="vec2")
    form("stockwell.get_max_tifq_vals_freq", stockwell.get_max_tifq_vals_freq, ("$stock", "$dt"), cap="vec2")
    form("stockwell.get_max_stockwell_freq", stockwell.get_max_stockwell_freq, ("$asig",), cap="stock")
    form("stockwell.get_stockwell_freqs", stockwell.get_stockwell_freqs, ("$asig_sw",))
    form("stockwell.get_stockwell_times", stockwell.get_stockwell_times, ("$asig_sw",))

    # --- surface
    reds = [opt("nodal", False), opt("red", L("0.9", 0.9), L("arrays", "arrays")), opt("stt", "$stt"), opt("trim", True), opt("start", True)]
    for nm in ("calc_surface_energy", "calc_cum_abs_surface_energy", "get_time_shift_motions"):
        cross("surface.%s" % nm, getattr(surface, nm), ("$asig", "$tt"), reds, cap="vec2", count="nm", red=True)
        cross("surface.%s(scalar travel time)" % nm, getattr(surface, nm), ("$asig", "$tt0"), [opt("nodal", False), opt("trim", True)])
    cross("surface.trim_to_length", surface.trim_to_length, ("$e2d", "$n", "$tt", "$dt"),
          [opt("trim", True), opt("start", True), opt("s2s_travel_time", "$stt")], count="nm",
          passthrough=lambda kw: not kw.get("trim") and not kw.get("start"))

    # --- multiple
    form("multiple.combine_at_angle", multiple.combine_at_angle, ("$asig", "$bsig", 33.0))
    cross("multiple.compute_rotated(pga)", multiple.compute_rotated, ("$asig", "$bsig"), [opt("angle_off_ns", 20.0)],
          fixed={"parameter": "pga", "points": 5}, cap="vec2")
    cross("multiple.compute_rotated(arias)", multiple.compute_rotated, ("$asig", "$bsig"), [opt("angle_off_ns", 20.0)],
          fixed={"parameter": "arias_intensity", "points": 4}, cap="vec2")
    cross("multiple.compute_rotated(func)", multiple.compute_rotated, ("$asig", "$bsig"), [opt("angle_off_ns", 20.0)],
          fixed={"func": im.calc_cav, "points": 3}, cap="vec2")

    # --- object methods that take caller arrays (settings): the arrays must come back unchanged
    form("AccSignal.generate_response_spectrum(periods)", _m(lambda o, arr: (o.generate_response_spectrum(response_times=arr), np.array(o.s_a))[1]),
         ("$T_desc",), cap="sdofmany", count="loop")
    form("AccSignal.gen_response_spectrum(periods, ratio)",
         _m(lambda o, arr: (o.gen_response_spectrum(response_times=arr, min_dt_ratio=2), np.array(o.s_d))[1]), ("$T_mixed",), cap="sdofmany",
         count="loop")
    form("AccSignal.gen_response_spectrum(periods, xi, ratio)",
         _m(lambda o, arr: (o.gen_response_spectrum(response_times=arr, xi=0.02, min_dt_ratio=8), np.array(o.s_v))[1]), ("$T_mixed",),
         cap="sdofmany", count="loop")
    form("AccSignal.response_series(periods)", _m(lambda o, arr: o.response_series(response_times=arr, xi=0.02)), ("$T_desc",), cap="sdof",
         count="loop")
    form("AccSignal.response_times=", _m(lambda o, arr: (setattr(o, "response_times", arr), np.array(o.s_a))[1]), ("$T_mixed",), cap="sdofmany",
         count="loop")
    form("Signal.smooth_fa_freqs=", _m(lambda o, arr: (setattr(o, "smooth_fa_freqs", arr), np.array(o.smooth_fa_spectrum))[1]), ("$F_desc",),
         cap="smooth", count="nm")
    form("Signal.gen_smooth_fa_spectrum(freqs)", _m(lambda o, arr: (o.gen_smooth_fa_spectrum(smooth_fa_freqs=arr), np.array(o.smooth_fa_spectrum))[1]),
         ("$F_desc",), cap="smooth", count="nm")
    form("Signal.gen_smooth_fa_spectrum(freqs, band)",
         _m(lambda o, arr: (o.gen_smooth_fa_spectrum(smooth_fa_freqs=arr, band=20), np.array(o.smooth_fa_spectrum))[1]), ("$F_desc",),
         cap="smooth", count="nm")
    form("Signal.butter_pass(ndarray cut-offs)", _m(lambda o, arr: (o.butter_pass(arr, filter_order=2), np.array(o.values))[1]), ("$cut",), cap="vec2")
    form("Signal.add_series", _m(lambda o, arr: (o.add_series(arr), np.array(o.values))[1]), ("$a",))
    form("Signal.add_signal", _m(lambda o, other: (o.add_signal(other), np.array(o.values))[1]), ("$bsig",))
    form("Signal.reset_values", _m(lambda o, arr: (o.reset_values(arr), np.array(o.values))[1]), ("$a",))
    # the time step as a 0-d ndarray (what np.load / np.loadtxt return for a stored scalar): it is an argument like any other
    form("sdof.response_series(0-d dt)", sdof.response_series, ("$a", "$dt0", "$T", 0.05), cap="sdof")
    form("sdof.pseudo_response_spectra(0-d dt)", sdof.pseudo_response_spectra, ("$af", "$dt0", "$T", 0.05), cap="sdof")
    form("AccSignal(0-d dt).s_a",
         V(lambda E: (lambda d0: (lambda o: (np.array(o.s_a), np.array(o.time), o.pgv, float(o.dt)))(
             eqsig.AccSignal(np.array(E["af"]), d0, response_times=np.array([3 * E["dt"], 9 * E["dt"], 30 * E["dt"]]))))), ("$dt0",),
         cap="sdofmany")
    form("interp_to_approx_dt(AccSignal with 0-d dt)",
         V(lambda E: (lambda d0: (lambda o: (f_tstep.interp_to_approx_dt(o, target_dt=E["dt"] / 3), float(o.dt)))(
             eqsig.AccSignal(np.array(E["af"]), d0)))), ("$dt0",), cap="vec2")
    form("Signal.butter_pass(list cut-offs)", _m(lambda o, arr: (o.butter_pass(arr, filter_order=2), np.array(o.values))[1]), ("$cut_list",), cap="vec2")
    form("Signal.butter_pass((None, f), gibbs)", _m(lambda o, arr: (o.butter_pass(arr, filter_order=2, remove_gibbs="end"), np.array(o.values))[1]),
         ("$cut_lo",), cap="vec2")
    # settings arrays given to the constructors
    form("AccSignal(response_times=).s_a", V(lambda E: (lambda arr: np.array(eqsig.AccSignal(np.array(E["af"]), E["dt"], response_times=arr).s_a))),
         ("$T_mixed",), cap="sdofmany", count="loop")
    form("AccSignal(response_times=list).response_series", V(lambda E: (lambda arr: eqsig.AccSignal(np.array(E["af"]), E["dt"], response_times=arr).response_series())),
         (V(lambda E: [float(t) for t in E["T_desc"]]),), cap="sdof", count="loop")
    form("Signal(smooth_fa_freqs=).smooth_fa_spectrum",
         V(lambda E: (lambda arr: np.array(eqsig.Signal(np.array(E["af"]), E["dt"], smooth_fa_freqs=arr).smooth_fa_spectrum))), ("$F_desc",),
         cap="smooth", count="nm")
    # design spectra: the period argument may be an array / a list
    cross("design.c_h_factor", design_spectra.c_h_factor, ("$Tper",), [opt("site_class", "D", "E")], count="nm")
    cross("design.c_h_factor(list)", design_spectra.c_h_factor, ("$Tper_list",), [opt("site_class", "D", "E")])
    form("design.sd_nzs(1-element array)", design_spectra.sd_nzs, ("$T1", "D", 0.4, 1.0, 1.0))
    form("design.sd_nzs(array)", design_spectra.sd_nzs, ("$Tper", "C", 0.4, 1.0, 1.0))
    form("loader.save_signal", loader.save_signal, ("$tmpfile", "$asig"), cap="save", loader=True)
    form("loader.save_values_and_dt", loader.save_values_and_dt, ("$tmpfile", "$a", "$dt", "lab"), cap="save", loader=True)


_build_forms()
PRIMARY = sorted(k for k, f in FORMS.items() if f.primary)
ROTATING = sorted(k for k, f in FORMS.items() if not f.primary)
ROTATE = 4  # every small-record case runs all primary forms and one in ROTATE of the other forms (rotating with the case's seed)

# forms that raise on the pinned tree for every input, for a reason that is not a C05 matter (the inputs must still be unchanged):
# np.trapz no longer exists in NumPy 2.x; calc_a_rms was removed (always raises); calc_sir unpacks the scalar significant duration
ALWAYS_REJECTED = ("im.calc_acc_rms", "im.calc_a_rms", "im.calc_sir", "im.calc_vsi_temporal", "frequency.calc_fourier_moment",
                   "frequency.get_bandwidth_boore_2003", "design.sd_nzs(array)")  # (sd_nzs compares the whole array with a scalar)
LAST_ERR = [None]


def _expected_reject(name):
    e = LAST_ERR[0]
    if isinstance(e, AttributeError) and "numpy" in str(e):  # a NumPy function that this NumPy version no longer has (np.trapz ...)
        return True
    return name.startswith(ALWAYS_REJECTED)


def _kwargs_of(f, E):
    """Resolve the keyword arguments of a form (the surface 'red' pseudo-option stands for up_red and down_red together: the
    library accepts two scalars or two arrays of one value per travel time)."""
    kw = dict(f.flags.get("fixed") or {})
    kw.update(f.kwargs)
    out = {}
    for k, v in kw.items():
        if k == "red" and f.flags.get("red"):
            if isinstance(v, str) and v == "arrays":
                out["up_red"], out["down_red"] = E["red"], E["red2"]
            else:
                out["up_red"], out["down_red"] = v, v - 0.05
        else:
            out[k] = _resolve(v, E)
    return out


def _scribble(x, skip=()):
    """Overwrite every writeable ndarray inside a result in place (also the values of a returned signal), except the arrays in
    `skip` (those that are views of the caller's own input)."""
    if isinstance(x, np.ndarray):
        if any(x is k for k in skip):
            return
        if x.flags.writeable and x.size and x.dtype.kind in "fiuc":
            try:
                x += 7
            except Exception:  # noqa
                pass
    elif isinstance(x, eqsig.Signal):
        _scribble(x.values, skip)
    elif isinstance(x, (tuple, list)):
        for v in x:
            if isinstance(v, (np.ndarray, eqsig.Signal, tuple, list)):
                _scribble(v, skip)


def _arrays(x, out=None, depth=0):
    """The ndarrays inside a result / an argument (signal -> its values)."""
    out = [] if out is None else out
    if isinstance(x, np.ndarray):
        out.append(x)
    elif isinstance(x, eqsig.Signal):
        if isinstance(x.values, np.ndarray):
            out.append(x.values)
    elif isinstance(x, (tuple, list)) and depth < 3:
        for v in x:
            if isinstance(v, (np.ndarray, eqsig.Signal, tuple, list)):
                _arrays(v, out, depth + 1)
    return out


def _same(x, y):
    if isinstance(x, (tuple, list)) and isinstance(y, (tuple, list)):
        return len(x) == len(y) and all(_same(p, q) for p, q in zip(x, y))
    if isinstance(x, eqsig.Signal) and isinstance(y, eqsig.Signal):
        return type(x) is type(y) and x.dt == y.dt and _same(x.values, y.values)
    if x is None or y is None:
        return x is None and y is None
    try:
        xa, ya = np.asarray(x), np.asarray(y)
        if xa.shape != ya.shape:
            return False
        if xa.dtype.kind in "fc" or ya.dtype.kind in "fc":
            return bool(np.array_equal(xa, ya, equal_nan=True))
        return bool(np.array_equal(xa, ya))
    except Exception:  # noqa
        return x == y


def _check_form(ctx, f, E, how):
    """The purity assertions for one call form.  Returns True when the form was evaluated, False when the library rejected the
    arguments (raised) - then only 'inputs unchanged' is asserted.  The scratch directory of a file-writing form exists only
    for the duration of its two calls and is removed whatever happens (violation, rejection, harness error)."""
    if "$tmpfile" in f.args:
        try:
            E["tmpfile"]
            return _check_form_inner(ctx, f, E, how)
        finally:
            E.cleanup()
    return _check_form_inner(ctx, f, E, how)


def _check_form_inner(ctx, f, E, how):
    name = f.name
    E.new_form(name)
    LAST_ERR[0] = None
    fn = _resolve(f.fn, E)
    args = tuple(_resolve(x, E) for x in f.args)
    kwargs = _kwargs_of(f, E)
    n = E["n"]
    where = "(%s input, n=%d%s%s)" % (how, n, "" if E["m"] is None else ", m=%d" % E["m"], ", warmed signal" if E["warm"] else "")
    allargs = list(args) + list(kwargs.values())
    sigargs = [x for x in allargs if isinstance(x, eqsig.Signal)]
    before = [_snap(x) for x in allargs]
    inputs = [(i, xv) for i, x in enumerate(allargs) for xv in _arrays(x)]
    res = []
    mid = None
    err = None
    for rep in range(2):
        try:
            with warnings.catch_warnings():
                warnings.simplefilter("ignore")
                res.append(fn(*args, **kwargs))
        except MemoryError as e:
            raise core.Inconclusive("out of memory in %s %s: %s" % (name, where, str(e)[:100]))
        except Exception as e:  # noqa
            if rep == 1:
                # the first call returned a value: "returns the same result when called again" - raising is not the same result
                # (unless the function already corrupted its arguments, which is reported as such below)
                after = [_snap(x) for x in allargs]
                if after == before:
                    ctx.fail("%s returned a result and then raised %s: %s when called again with the same arguments %s" % (
                        name, type(e).__name__, str(e)[:100], where))
            err = e  # first call raised: rejected container / argument - not a C05 matter, but the inputs must be unchanged
            LAST_ERR[0] = e
            break
        if rep == 0 and not f.flags.get("loader"):
            # What the statement implies about the result (audit, false-alarm list): "returns the same result when called again" is
            # asserted for the situation every caller is in - the first result belongs to the caller, who may have overwritten it in
            # place (shifted indices, scaled a series) before calling again with the unchanged input.  So every array of the result is
            # scribbled over before the second call (a result that is really a buffer kept by the library / cached on the signal
            # argument then shows as a different second result).  NOT implied: that a result must not be a view of the INPUT (a
            # documented pass-through such as trim_to_length(trim=False, start=False), a slice view, `return values` for a no-op) -
            # overwriting such a result would be the caller editing its own input, so those arrays are left alone and only labelled.
            # A returned *Signal* is different: sentence 1 (signal objects own their data) applies to it - a later in-place correction
            # on the returned object must not reach the caller's array - so its values must not share memory with an argument.
            aliased = []
            for r in _arrays(res[0]):
                for i, xv in inputs:
                    if np.may_share_memory(r, xv) and np.shares_memory(r, xv):
                        aliased.append(r)
                        break
            if aliased:
                ctx.cls("result-aliases-input")
            for r in (res[0] if isinstance(res[0], (tuple, list)) else [res[0]]):
                if isinstance(r, eqsig.Signal):
                    if any(x is r for x in allargs):
                        ctx.fail("%s returned its own argument object instead of a new signal %s" % (name, where))
                    if any(r.values is k for k in aliased):
                        ctx.fail("%s returned a signal whose values share memory with an argument %s" % (name, where))
            pristine = copy.deepcopy(res[0])
            _scribble(res[0], skip=aliased)
            res[0] = pristine
        if rep == 0:
            mid = [_sig_state(x) for x in sigargs]  # whatever the first call cached on its signal arguments
    after = [_snap(x) for x in allargs]
    for i, (p, q) in enumerate(zip(before, after)):
        if isinstance(allargs[i], eqsig.Signal) and p[6] is not None and q[6] is not None:
            # arrays compared = those present before the call (caching a NEW auxiliary attribute on the signal, e.g. asig.swtf, is not
            # a mutation of its data)
            # ... and a cache slot that the call INVALIDATED (its validity flag went off) is no longer part of the object's
            # observable state either: compare the slots that are valid on both sides
            have = set(k for k, _ in p[6]) & set(k for k, _ in q[6])
            p = p[:6] + (tuple(kv for kv in p[6] if kv[0] in have),)
            q = q[:6] + (tuple(kv for kv in q[6] if kv[0] in have),)
        if p != q:
            what = "modified its argument #%d" % i
            if isinstance(allargs[i], eqsig.Signal) and p[:5] == q[:5]:
                what = "modified an array held by its signal argument #%d (%s)" % (i, _diff_keys(p, q))
            ctx.fail("%s %s %s%s" % (name, what, where, "" if err is None else " before raising %s" % type(err).__name__))
    if err is not None:
        return False
    # the arrays a signal argument held after the first call (lazily computed series / spectra) are untouched by the second, identical call
    for x, st0 in zip(sigargs, mid):
        st1 = _sig_state(x)
        have = set(k for k, _ in st0) & set(k for k, _ in st1)
        st0 = tuple(kv for kv in st0 if kv[0] in have)
        st1 = tuple(kv for kv in st1 if kv[0] in have)
        if st1 != st0:
            ctx.fail("%s changed an array held by its signal argument (%s) when called again %s" % (name, _diff_keys(((),) * 6 + (st0,), ((),) * 6 + (st1,)), where))
    if f.flags.get("loader"):
        return True
    if not _same(res[0], res[1]):
        ctx.fail("%s returned a different result when called again %s" % (name, where))
    return True


def _diff_keys(p, q):
    """Names of the signal-held arrays that differ between two signal snapshots."""
    out = []
    for a, b in ((p[5], q[5]), (p[6] or (), q[6] or ())):
        da, db = dict(a), dict(b)
        out += [k for k in sorted(set(da) | set(db)) if da.get(k) != db.get(k)]
    return ", ".join(sorted(set(out))) or "?"


@st.composite
def _pure_cases(draw):
    n = draw(st.integers(24, 200 if core.tier() == "quick" else 300))
    kinds = ["noise", "sines", "quake", "walk", "pulse", "levels", "dyadic", "vals"]
    a = draw(gen.record_specs(min_n=n, max_n=n, small_max=n, kinds=kinds, amp_lo=-2, amp_hi=2, allow_zero_runs=False))
    b = draw(gen.record_specs(min_n=n, max_n=n, small_max=n, kinds=["noise", "sines", "walk"], amp_lo=-2, amp_hi=2, allow_zero_runs=False))
    if draw(st.integers(0, 2)) == 0:
        a = dict(a, zs=True)  # first sample exactly 0, first move downward (see _zero_start_downward)
    return {"a": a, "b": b, "dt": draw(st.sampled_from([0.005, 0.01, 0.02, 0.05])), "seed": draw(st.integers(0, 10 ** 6)),
            "rot": draw(st.sampled_from(list(range(ROTATE))))}


@clause(CLAUSES, "pure-functions", _pure_cases(), quick=14, quick_shards=3, thorough=45,
        rule="each case calls, for each of three container variants (float64 ndarray; int64 or full-range int16 / int32 ndarray; list; in one case of three also a non-contiguous view or a read-only array), on fresh signal objects per form (a third of them warmed), every PRIMARY call form (one per function "
             "with all options at their defaults + one with every option non-default, the object methods taking arrays, the 0-d dt variants, "
             "loader.save) and one in 4 (rotating with the case) of the remaining forms of the cross product of every function's optional "
             "arguments (%d forms in all: sdof, displacements, im, fns.average/generic/frequency/peaks_and_crossings/time_shift/time_step, "
             "stockwell, surface, multiple, design_spectra, constructors with settings arrays), twice, on records of n 24..300; non-trivial = non-constant record" % len(FORMS),
        oracle="snapshot (dtype, shape, bytes; signal: values/dt/npts + settings arrays + - warmed objects - every array it holds) of every argument "
               "before vs after the two calls; arrays a signal argument holds after the first call unchanged by the second; the two results equal "
               "(NaN-aware, exact) although the caller overwrote the first result in place (views of the input excepted) before the second call; "
               "an exception in the second call only is a violation; returned signals are new objects sharing no memory with an argument",
        require={"how=int": 0.15, "how=int16": 0.15, "how=int32": 0.15, "how=list": 0.9, "rot=0": 0.08, "rot=1": 0.08, "rot=2": 0.08, "rot=3": 0.08,
                 "signal=warm": 0.9, "signal=cold": 0.9})
def pure_functions(case, ctx):
    # the integer container alternates between int64 and the narrow dtypes int16 / int32 (full range) with the case's seed
    ints = ("int", "int16", "int32")[int(core.case_hash(case)[:4], 16) % 3]
    hows = ["float", ints, "list"]
    h = int(core.case_hash(case)[4:8], 16)
    if h % 3 == 0:  # one case in three: also the same float64 values in a non-contiguous view / a read-only array
        hows.append(("view", "readonly")[(h // 3) % 2])
    for how in (hows if "how" not in case else [case["how"]]):
        _pure_one(case, ctx, how)


def _pure_one(case, ctx, how):
    af = np.array(gen.build(case["a"]), dtype=float)
    n = len(af)
    ctx.cls("how=" + how, gen.size_class(n), "kind=" + case["a"]["k"], "zero-start-downward" if case["a"].get("zs") else None)
    ctx.nt(bool(np.ptp(af) > 0))
    a = _container(case["a"], how)
    b = _container(case["b"], how)
    if len(b) != n:
        b = [float(v) for v in np.resize(np.asarray(b), n)] if how == "list" else np.resize(b, n)
    E = Env(a, b, case["dt"], case["seed"])
    rot = case.get("rot", case["seed"] % ROTATE)
    ctx.cls("rot=%d" % rot)
    names = PRIMARY + [nm for i, nm in enumerate(ROTATING) if (i + rot) % ROTATE == 0]
    if "forms" in case:  # (replay files / corpus may name the forms)
        names = list(case["forms"])
    rejected = 0
    try:
        for name in names:
            ok = _check_form(ctx, FORMS[name], E, how)
            ctx.cls("signal=warm" if E["warm"] else "signal=cold")
            if not ok and not _expected_reject(name):
                rejected += 1
    finally:
        E.cleanup()
    ctx.notes["rejected"] = rejected
    if len(np.unique(af)) > 4:  # (constant / two-level records are legitimately rejected by many functions)
        # float64: at most the data-dependent rejections of get_zero_and_peak_array_indices; the other containers additionally the
        # functions that need ndarray methods / arithmetic (lists) - a function that starts to raise for EVERY list / integer / view
        # record would silently lose that coverage otherwise
        allow = max(4, 0.06 * len(names)) if how == "float" else max(8, 0.10 * len(names))
        if rejected > allow:
            raise core.HarnessError("%d of %d call forms raised on a %s record (builders out of date?)" % (rejected, len(names), how))


# ---------------------------------------------------------------------------
# mid-range sizes: the same assertions on records of laddered lengths (a function may switch to an in-place or view-returning
# path only for long inputs, or only for many periods / shifts / travel times)

MID_KINDS = ("quake", "sines", "walk")
MID_DTS = (0.005, 0.01, 0.02)


def _mid_record(n, kind, seed):
    """An ordinary record of n samples: noise x envelope (+ floor), a few sines + noise, or a random walk + noise; non-zero mean,
    no all-zero stretch, amplitude of a few units (so that the int64 variant, round(8 a), is not degenerate)."""
    rs = np.random.RandomState(seed % (2 ** 31 - 1))
    t = np.arange(n, dtype=float)
    if kind == "quake":
        x = (t + 1.0) / n
        env = (x ** 2) * np.exp(-6.0 * x)
        a = 3.0 * rs.standard_normal(n) * (0.05 + env / env.max()) + 0.07
    elif kind == "sines":
        a = (2.0 * np.sin(2 * np.pi * 7.3 * t / n + 0.4) + 1.1 * np.sin(2 * np.pi * t / 41.7) + 0.6 * np.sin(2 * np.pi * t / 9.3 + 1.0)
             + 0.05 * rs.standard_normal(n) + 0.11)
    else:
        w = np.cumsum(rs.standard_normal(n))
        a = 3.0 * w / max(1e-9, np.max(np.abs(w))) + 0.2 * rs.standard_normal(n) + 0.05
    if seed % 3 == 0:
        a = _zero_start_downward(a)  # one mid-range record in three starts at exactly 0 and moves downward first
    return a


ALT_HOWS = ("int", "list", "int16", "int32", "readonly", "view")


def _alts(*tag):
    """The non-float64 containers in a hash-chosen order: int64, list, full-range int16 / int32 (gen.narrow_int), a read-only float64
    array, a non-contiguous float64 view."""
    return sorted(ALT_HOWS, key=lambda h: _hh(h, *tag))


def _as_container(a, how):
    if how == "int":
        return np.array(np.round(a * 8), dtype=np.int64)
    if how in gen.NARROW_DTYPES:
        return gen.narrow_int(a, how)[0]
    if how == "list":
        return [float(v) for v in a]
    if how in ("view", "readonly", "negstride"):
        return gen.as_container({"as": how}, np.array(a, dtype=float))
    return np.array(a, dtype=float)


def _mid_case(i, name, n, how, m=None):
    s = gen.run_seed()
    h = _hh(s, "case", name, n, how, m)
    case = {"form": name, "n": int(n), "how": how, "kind": MID_KINDS[h % 3], "dt": MID_DTS[(h // 3) % 3], "seed": int(h % (2 ** 31 - 1))}
    if m is not None:
        case["m"] = int(m)
    return case


def _top(cap, *tag):
    """A length in the top tenth of [.., cap] (placed by hash)."""
    lo = int(0.9 * cap)
    return lo + _hh(*tag) % (cap - lo + 1)


def _mid_plan(f, tier):
    """[(n, how), ...] for one call form.  Quick: every form gets the top tenth of its affordable range as float64 and at least one
    hash-chosen rung below it as int64 / list at every seed (primary forms: two rungs + a mined length).  Thorough: every form, every
    rung, every container."""
    s = gen.run_seed()
    cap = CAPS[f.cap][0 if tier == "quick" else 1]
    lo = LADDER_LO.get(f.cap, 2000)
    top = _top(cap, s, "top", f.name)
    alts = _alts(s, "alt", f.name)
    mined = gen.mined_sizes(lo, cap, 8, "c05:" + f.name)
    if tier != "quick":
        rungs = gen.ladder(lo, int(0.9 * cap), 12, "c05t:" + f.name)
        return [(n, how) for n in sorted(set(rungs + [top] + mined)) for how in ("float", "int", "list", [h for h in alts if h not in ("int", "list")][0])
                if how != "list" or n <= 4 * LIST_MAX]
    rungs = gen.ladder(lo, int(0.9 * cap), 10, "c05:" + f.name)
    half = max(1, len(rungs) // 2)
    lower, upper = rungs[:half], rungs[half:] or rungs
    r_lo = lower[_hh(s, "lo", f.name) % len(lower)]
    r_up = upper[_hh(s, "up", f.name) % len(upper)]
    if f.primary:
        plan = [(top, "float"), (r_up, alts[0]), (r_lo, alts[1])]
        for c in sorted(mined, key=lambda c: _hh(s, "mined", f.name, c))[:1]:
            plan.append((c, "float"))
    else:
        r2 = rungs[_hh(s, "any", f.name) % len(rungs)]
        plan = [(top, "float"), (r2, alts[0])]
    # (python lists longer than LIST_MAX samples are not generated: converting them dominates every call)
    return [(min(n, LIST_MAX) if how == "list" else n, how) for n, how in plan]


LIST_MAX = 60000


def _mid_enum(tier, shard, nshards):
    i = 0
    for name in sorted(FORMS):
        for n, how in _mid_plan(FORMS[name], tier):
            if i % nshards == shard:
                yield _mid_case(i, name, n, how)
            i += 1


def _mid_check(case, ctx):
    f = FORMS[case["form"]]
    n, how = case["n"], case["how"]
    E = Env(lambda: _as_container(_mid_record(n, case["kind"], case["seed"]), how),
            lambda: _as_container(_mid_record(n, MID_KINDS[(MID_KINDS.index(case["kind"]) + 1) % 3], case["seed"] + 1), how),
            case["dt"], case["seed"], m=case.get("m"))
    ctx.cls("how=" + how, "cap=" + f.cap, "n>=%d" % (10 ** int(np.log10(n))), "kind=" + case["kind"])
    if case.get("m"):
        ctx.cls("m>=%d" % (10 ** int(np.log10(case["m"]))))
    try:
        ok = _check_form(ctx, f, E, how)
    finally:
        E.cleanup()
    if not ok:
        ctx.cls("rejected", "rejected:" + ("expected" if _expected_reject(f.name) else how))
    ctx.nt(ok)


core.enum_clause(CLAUSES, "mid-range", _mid_enum, quick_shards=8,
                 rule="every call form of the registry (the whole cross product of every function's optional arguments) on records of laddered "
                      "lengths: the form's affordable range [2 000 (700-1 200 for the quadratic functions), cap] with cap by cost category (CAPS) from "
                      "~2 000 (n x n temporaries) over 6 000 (python loop per sample) to 300 000 samples (vectorised) in the quick tier, 4 000 .. "
                      "1 500 000 in the thorough tier; quick: per form >= 2 lengths at every seed - primary forms (all options default / all "
                      "non-default, object methods, 0-d dt): the top tenth of the range (float64), a rung of the upper half and one of the lower "
                      "half (int64 / list) + a length aimed at an integer literal of the source; the other members of a cross product: the top "
                      "tenth (float64) and one rung (int64 / list); thorough: 12 rungs + top + mined x 3 containers for "
                      "every form; non-trivial = the form was evaluated (not rejected)",
                 oracle="as pure-functions: arguments bit-for-bit unchanged (snapshot dtype, shape, bytes / list deep copy), no result array shares "
                        "memory with an argument, second call (after the caller scribbled over the first result) returns the same result",
                 exhaustive_note="all call forms x planned (length, container) pairs at this seed",
                 min_nontrivial=0.5)(_mid_check)


# -- the count dimension (periods, shifts, travel times, exponents, target frequencies, table rows / query points)

def _count_plan(f, tier):
    s = gen.run_seed()
    quick = tier == "quick"
    if f.count == "loop":   # python loop over the n samples with m-vectors: n stays short
        budget, n_lo, n_hi = (2e5, 120, 1500) if quick else (1.5e6, 200, 6000)
    else:                   # vectorised (m x n) temporaries
        budget, n_lo, n_hi = (8e5, 300, 20000) if quick else (4e6, 300, 100000)
    m_top = _top(5000, s, "mtop", f.name)
    rungs = gen.ladder(40, 4400, 8 if quick else (10 if f.primary else 5), "c05m:" + f.name)
    mined = [c for c in gen.mined_sizes(40, 5000, 6, "c05m:" + f.name)]
    alts = _alts(s, "malt", f.name)

    if not f.primary:
        budget = budget / 2.5

    def n_of(m):
        cap_n = CAPS[f.cap][0 if quick else 1]
        return int(max(n_lo, min(n_hi, cap_n, budget // m)))
    if not quick:
        if f.primary:
            return [(m, n_of(m), how) for m in sorted(set(rungs + [m_top] + mined))
                    for how in ("float", "int", "list", [h for h in alts if h not in ("int", "list")][0])]
        return [(m, n_of(m), how) for m in sorted(set(rungs + [m_top])) for how in ("float", alts[0])]
    r = rungs[_hh(s, "mr", f.name) % len(rungs)]
    if not f.primary:  # (the other members of a cross product: one count each, the top tenth for a hash-chosen third)
        if _hh(s, "mlong", f.name) % 3 == 0:
            return [(m_top, n_of(m_top), "float")]
        return [(r, n_of(r), "float" if _hh(s, "mhow", f.name) % 2 else alts[0])]
    plan = [(m_top, n_of(m_top), "float"), (r, n_of(r), alts[0])]
    if mined:
        c = mined[_hh(s, "mm", f.name) % len(mined)]
        plan.append((c, n_of(c), "float"))
    return plan


def _count_enum(tier, shard, nshards):
    i = 0
    for name in sorted(FORMS):
        if FORMS[name].count is None:
            continue
        for m, n, how in _count_plan(FORMS[name], tier):
            if i % nshards == shard:
                yield _mid_case(i, name, n, how, m=m)
            i += 1


core.enum_clause(CLAUSES, "mid-range-counts", _count_enum, quick_shards=4,
                 rule="every call form with a *count* dimension (periods of the sdof / spectra functions, shifts, travel times + reduction arrays, "
                      "power-law exponents, target frequencies of the smoothing functions, table rows and query points of the interpolation helpers) "
                      "with that count laddered over 40 .. 5 000 (quick: primary forms the top tenth + a rung + a count aimed at an integer literal "
                      "of the source, the other members of a cross product one count each - the top tenth for a hash-chosen third; thorough: "
                      "primary forms 10 rungs + top + mined x 3 containers, the others 5 rungs + top x 2 containers) and the record length chosen "
                      "so that count x length is ~1e5 .. 8e5 (quick) / 6e5 .. 4e6 (thorough); non-trivial = evaluated",
                 oracle="as pure-functions (arguments unchanged, no shared memory, same result when called again)",
                 exhaustive_note="all count-dimension call forms x planned (count, length, container) triples at this seed",
                 min_nontrivial=0.5)(_mid_check)


# -- ownership histories at mid-range lengths

_OWN_SEQS = [
    [["running_average", {"w": 5}], ["caller_write", {"src": "A", "i": 17, "v": 3}], ["reset", {"src": "B"}], ["rra_velocity", {"width": 7}],
     ["caller_write", {"src": "B", "i": 123457, "v": -4}], ["rebase_displacement", {}], ["butter_pass", {"lo": 0.1, "hi": 0.2, "order": 2, "gibbs": None}],
     ["reset", {"src": "A"}], ["remove_poly", {"k": 2}], ["zero_res_velocity", {"tz": None}], ["add_constant", {"c": 0.25}],
     ["caller_write", {"src": "A", "i": 99991, "v": 5}]],
    [["reset", {"src": "B"}], ["add_series", {"seed": 5}], ["caller_write", {"src": "B", "i": 1, "v": 2}], ["reset", {"src": "A"}],
     ["correct_me", {}], ["zero_res_disp_and_velocity", {"tz": [0.1, 0.9]}], ["rra_acc", {"width": 9}], ["remove_average", {"section": 25}],
     ["caller_write", {"src": "A", "i": 77777, "v": -1}], ["zero_res_displacement", {}], ["construct", {"src": "B"}], ["running_average", {"w": 12}],
     ["add_signal", {"seed": 6}], ["caller_write", {"src": "B", "i": 31337, "v": 7}]],
]


def _own_enum(tier, shard, nshards):
    s = gen.run_seed()
    quick = tier == "quick"
    sizes = gen.size_ladder(2000, 300000 if quick else 1500000, 6 if quick else 16, "c05own", mined_limit=2 if quick else 6)
    hows = ["float", "int", "list", "subclass", "arraylike"]
    i = 0
    for n in sizes:
        for k, seq in enumerate(_OWN_SEQS):
            if quick and n != sizes[-1] and _hh(s, "ownseq", n) % 2 != k:
                continue  # (quick: one of the two histories per length, both at the longest)
            for acc in ([True] if quick else [True, False]):
                h = _hh(s, "own", n, k, acc)
                ha = "float" if k == 0 else hows[h % 5]
                hb = hows[(h // 5) % 5] if k == 0 else "float"
                if n > 60000:  # (python lists of > 60 000 floats: the per-step snapshots dominate)
                    ha = "subclass" if ha in ("list", "arraylike") else ha
                    hb = "subclass" if hb in ("list", "arraylike") else hb
                if i % nshards == shard:
                    yield {"init": {"A": {"k": "quake", "n": int(n), "seed": int(h % 10 ** 6), "amp": 0},
                                    "B": {"k": "noise", "n": int(n), "seed": int(h % 10 ** 6) + 1, "amp": 0},
                                    "dt": OWN_DTS[h % len(OWN_DTS)], "acc": acc, "how": {"A": ha, "B": hb}}, "ops": seq}
                i += 1


def _own_check(case, ctx):
    h = Own(case["init"], ctx)
    ctx.cls("n>=%d" % (10 ** int(np.log10(case["init"]["A"]["n"]))))
    for op, args in case["ops"]:
        h.step(op, args)
    h.finish()


core.enum_clause(CLAUSES, "mid-range-ownership", _own_enum, quick_shards=2,
                 rule="the ownership history machine on records of laddered lengths 2 000 .. 300 000 (thorough: 1 500 000) + lengths aimed at "
                      "integer literals of the source: two fixed histories covering every in-place correction, reset_values from the second "
                      "container, caller writes into both containers; containers float64 / int64 / list / ndarray subclass / array-like; "
                      "non-trivial = a mutator applied after a reset_values",
                 oracle="the ownership invariants after every step (caller containers equal their snapshots; a caller write does not change "
                        "Signal.values; values 1-d numeric ndarray with len == npts; time == dt*arange(npts) exactly)",
                 exhaustive_note="sizes x histories at this seed (quick: one of the two histories per length, both at the longest)", min_nontrivial=0.5)(_own_check)
