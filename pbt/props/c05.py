"""C05 - signal objects own their data; analysis functions do not mutate their inputs."""
import copy
import os
import tempfile

import numpy as np
from hypothesis import strategies as st
from hypothesis.stateful import rule, initialize

import eqsig
from eqsig import sdof, im, surface, stockwell, multiple, loader
from eqsig import displacements as disp_mod
from eqsig.fns import average as f_av, generic as f_gen, frequency as f_fr, peaks_and_crossings as f_pk
from eqsig.fns import time_shift as f_ts, time_step as f_tstep

from pbt import core, gen
from pbt.core import clause, machine_clause, history_machine_base
from pbt.props import c04 as c04mod

PROPERTY = "C05"
CLAUSES = []
ASSUMPTIONS = [
    "ownership: caller containers are float64 / int64 ndarrays or lists of floats; in-place corrections (running average, rolling "
    "average, baseline corrections) are only applied while the object's values are floating point (integer data cannot hold them)",
    "mutator arguments as in C04 (valid by construction)",
    "pure functions: every public array-level / signal-level analysis function in eqsig is called with valid arguments built from "
    "generated records (float64, int64 and list variants); a function that rejects a container (raises) is counted as 'rejected' "
    "- not a C05 matter - but its inputs must still be unchanged; results of two successive calls are compared NaN-aware, exactly",
    "caching an auxiliary attribute on a signal argument (get_max_stockwell_freq stores asig.swtf) is not a mutation of its data; "
    "values, dt, npts of signal arguments are compared",
    "transform_w_scipy_fft is called with real input only (it overwrites complex input: outside 'real records')",
]


class RecordArray(np.ndarray):
    """A plain ndarray subclass (stands for np.memmap, masked arrays, astropy/pint quantities ...)."""


class ArrayLike(object):
    """A pandas-like column: not an ndarray, exposes its buffer through __array__ without copying."""

    def __init__(self, a):
        self.a = np.array(a, dtype=float)

    def __array__(self, dtype=None, copy=None):
        # NumPy 2 protocol: copy=True must copy (np.array), copy=None/False may hand out the buffer (np.asarray)
        out = self.a if dtype is None else self.a.astype(dtype, copy=False)
        return out.copy() if copy else out

    def __len__(self):
        return len(self.a)

    def __getitem__(self, i):
        return self.a[i]

    def __setitem__(self, i, v):
        self.a[i] = v


def _container(spec, how):
    a = gen.build(spec)
    if how == "int":
        return np.array(np.round(a * 8), dtype=np.int64)
    if how == "list":
        return [float(v) for v in a]
    if how == "subclass":
        return np.array(a, dtype=float).view(RecordArray)
    if how == "arraylike":
        return ArrayLike(a)
    return np.array(a, dtype=float)


def _snap(x):
    if isinstance(x, ArrayLike):
        return ("arraylike", _snap(x.a))
    if isinstance(x, np.ndarray):
        return ("nd", x.dtype.str, x.shape, x.tobytes())
    if isinstance(x, list):
        return ("list", copy.deepcopy(x), [type(v).__name__ for v in x])
    if isinstance(x, tuple):
        return ("tuple", tuple(_snap(v) for v in x))
    if isinstance(x, eqsig.Signal):
        v = x.values
        return ("sig", type(x).__name__, _snap(v if isinstance(v, np.ndarray) else list(v)), x.dt, x.npts)
    return ("other", repr(x))


# ---------------------------------------------------------------------------
# clause 1: ownership (state machine)

IN_PLACE = {"running_average", "rra_velocity", "rra_acc", "rebase_displacement", "zero_res_velocity", "zero_res_displacement",
            "zero_res_disp_and_velocity", "correct_me", "butter_pass", "remove_poly"}
OWN_MUTS = [m for m in c04mod.MUTATORS if m not in ("set_freqs", "set_frequencies", "set_freq_range", "set_freq_points",
                                                    "set_by_range", "gen_smooth_w_freqs", "set_response_times", "gen_rs_w_times",
                                                    "response_series_w_times", "reset_values")]


class Own(object):
    def __init__(self, init, ctx):
        self.ctx = ctx
        self.dt = init["dt"]
        self.acc = bool(init["acc"])
        self.arr = {k: _container(init[k], init["how"][k]) for k in ("A", "B")}
        self.snap = {k: _snap(v) for k, v in self.arr.items()}
        self.obj = None
        self.after_reset = False
        self.did_inplace_after_reset = False
        self._construct("A")
        ctx.cls("acc" if self.acc else "sig", "A=" + init["how"]["A"], "B=" + init["how"]["B"])

    def _construct(self, src):
        cls = eqsig.AccSignal if self.acc else eqsig.Signal
        self.obj = self.ctx.lib(cls, self.arr[src], self.dt)
        self.after_reset = False

    def _check(self, what):
        ctx = self.ctx
        for k, v in self.arr.items():
            if _snap(v) != self.snap[k]:
                ctx.fail("%s modified the caller's container %s (%s): now %s" % (what, k, type(v).__name__, core._short(v)))
        vals = self.obj.values
        ctx.check(isinstance(vals, np.ndarray), "%s: Signal.values is a %s, not a numeric array" % (what, type(vals).__name__))
        ctx.check(vals.dtype.kind in "fiu", "%s: Signal.values has dtype %s" % (what, vals.dtype))
        ctx.check(vals.ndim == 1 and len(vals) == self.obj.npts, "%s: len(values)=%s but npts=%s" % (what, vals.shape, self.obj.npts))
        t = self.obj.time
        ctx.check(isinstance(t, np.ndarray) and t.shape == (self.obj.npts,) and np.array_equal(t, self.dt * np.arange(self.obj.npts)),
                  "%s: time is not dt*[0..npts-1]" % what)

    def step(self, op, args):
        ctx = self.ctx
        if op == "construct":
            self._construct(args["src"])
            self._check("constructing from %s" % args["src"])
        elif op == "reset":
            self.ctx.lib(self.obj.reset_values, self.arr[args["src"]])
            self.after_reset = True
            ctx.cls("reset=" + type(self.arr[args["src"]]).__name__ + ("/" + str(getattr(self.arr[args["src"]], "dtype", ""))))
            self._check("reset_values(%s)" % args["src"])
        elif op == "caller_write":
            k = args["src"]
            arr = self.arr[k]
            i = args["i"] % len(arr)
            before = _snap(self.obj.values if isinstance(self.obj.values, np.ndarray) else list(self.obj.values))
            if isinstance(arr, np.ndarray) and arr.dtype.kind == "i":
                arr[i] = int(args["v"])
            else:
                arr[i] = float(args["v"])  # (ArrayLike forwards the write to its buffer)
            self.snap[k] = _snap(arr)
            after = _snap(self.obj.values if isinstance(self.obj.values, np.ndarray) else list(self.obj.values))
            ctx.check(before == after, "a caller write into its own container %s changed the signal's values" % k)
            self._check("caller write into %s" % k)
        else:
            if op in c04mod.ACC_ONLY and not self.acc:
                return
            vals = self.obj.values
            isfloat = isinstance(vals, np.ndarray) and vals.dtype.kind == "f"
            if op in IN_PLACE and not isfloat:
                return
            if op == "butter_pass" and self.obj.npts <= 3 * (2 * args.get("order", 4) + 1) + 2:
                return
            if op == "remove_poly" and self.obj.npts < args.get("k", 1) + 4:
                return
            if op in ("zero_res_velocity",) and not np.any(np.asarray(vals, dtype=float)):
                return  # pga == 0: division by zero inside the method, not an ownership matter
            c04mod._apply(ctx, self.obj, op, args)
            ctx.cls("mut=" + op)
            if self.after_reset:
                ctx.nt(True)
            if not np.all(np.isfinite(np.asarray(self.obj.values, dtype=float))):
                self._construct("A")  # the history overflowed the record; start again from A
            self._check(op)

    def finish(self):
        self._check("end of history")


HM = history_machine_base()
_small = gen.record_specs(min_n=40, max_n=120, small_max=60, kinds=["noise", "sines", "walk", "dyadic", "vals"], amp_lo=-2, amp_hi=2,
                          allow_zero_runs=False)
_how = st.sampled_from(["float", "float", "int", "list", "subclass", "arraylike"])


class OwnMachine(HM):
    @initialize(A=_small, B=_small, dt=st.sampled_from([0.005, 0.01, 0.02]), acc=st.booleans(), ha=_how, hb=_how)
    def init(self, A, B, dt, acc, ha, hb):
        self.start({"A": A, "B": B, "dt": dt, "acc": acc, "how": {"A": ha, "B": hb}})

    @rule(src=st.sampled_from(["A", "B"]))
    def construct(self, src):
        self.do("construct", {"src": src})

    @rule(src=st.sampled_from(["A", "B"]))
    def reset(self, src):
        self.do("reset", {"src": src})

    @rule(src=st.sampled_from(["A", "B"]), w=st.integers(2, 9))
    def reset_then_average(self, src, w):
        self.do("reset", {"src": src})
        self.do("running_average", {"w": w})

    @rule(src=st.sampled_from(["A", "B"]), c=st.floats(-3, 3, allow_nan=False))
    def reset_then_add(self, src, c):
        self.do("reset", {"src": src})
        self.do("add_constant", {"c": c})

    @rule(src=st.sampled_from(["A", "B"]), i=st.integers(0, 200), v=st.integers(-50, 50))
    def caller_write(self, src, i, v):
        self.do("caller_write", {"src": src, "i": i, "v": v})

    @rule(w=st.integers(1, 25))
    def running_average(self, w):
        self.do("running_average", {"w": w})

    @rule(width=st.integers(1, 30), mtype=st.sampled_from(["rra_velocity", "rra_acc"]))
    def rolling(self, width, mtype):
        self.do(mtype, {"width": width})

    @rule(which=st.sampled_from(["rebase_displacement", "zero_res_displacement", "correct_me"]))
    def baseline(self, which):
        self.do(which, {})

    @rule(which=st.sampled_from(["zero_res_velocity", "zero_res_disp_and_velocity"]),
          tz=st.one_of(st.none(), st.tuples(st.floats(0.0, 0.6), st.one_of(st.none(), st.floats(0.7, 1.0)))))
    def residual(self, which, tz):
        self.do(which, {"tz": None if tz is None else list(tz)})

    @rule(c=st.floats(-10, 10, allow_nan=False))
    def add_constant(self, c):
        self.do("add_constant", {"c": c})

    @rule(seed=st.integers(0, 10 ** 6), which=st.sampled_from(["add_series", "add_signal"]))
    def add(self, seed, which):
        self.do(which, {"seed": seed})

    @rule(k=st.integers(0, 3))
    def remove_poly(self, k):
        self.do("remove_poly", {"k": k})

    @rule(section=st.one_of(st.just(-1), st.integers(2, 30)))
    def remove_average(self, section):
        self.do("remove_average", {"section": section})

    @rule(lo=gen.log_uniform(0.05, 0.4), order=st.integers(1, 3), gibbs=st.sampled_from([None, "start", "end", "mid"]))
    def butter(self, lo, order, gibbs):
        self.do("butter_pass", {"lo": lo, "hi": min(0.8, lo * 2), "order": order, "gibbs": gibbs})


machine_clause(CLAUSES, "ownership", OwnMachine, Own, quick=250, thorough=400, quick_steps=25, thorough_steps=50,
               rule="Hypothesis rule-based state machine: caller containers A, B (float64 / int64 ndarray or list) with byte snapshots; rules: "
                    "construct Signal/AccSignal from A|B, reset_values(A|B), 15 mutators incl. every in-place correction, 'caller writes into A|B'; "
                    "non-trivial = at least one mutator applied after a reset_values",
               oracle="invariants after every step: caller containers equal their snapshots (dtype, shape, bytes); a caller write does not change "
                      "Signal.values; values is a 1-d numeric ndarray with len == npts; time == dt*arange(npts) exactly",
               min_nontrivial=0.2)


@st.composite
def _cluster_cases(draw):
    n = draw(st.integers(40, 120))
    k = draw(st.integers(2, 4))
    return {"n": n, "k": k, "seed": draw(st.integers(0, 10 ** 6)), "lags": draw(st.lists(st.integers(-6, 6), min_size=k, max_size=k)),
            "master": draw(st.integers(0, k - 1)), "steps": draw(st.integers(7, 12)), "stype": draw(st.sampled_from(["custom", "acc"])),
            "how": draw(st.sampled_from(["ndarray", "lists"]))}


@clause(CLAUSES, "cluster-values", _cluster_cases(), quick=150, thorough=500,
        rule="Cluster of 2-4 lagged copies of a random record (lags -6..6), any master; time_match then same_start; non-trivial = some non-zero lag",
        oracle="invariant: every signal's values stay a 1-d numeric ndarray with len == npts and the caller's 2-d input is unchanged")
def cluster_values(case, ctx):
    rs = np.random.RandomState(case["seed"])
    n, k = case["n"], case["k"]
    base = rs.standard_normal(n + 40)
    rows = [base[20 + lag:20 + lag + n].copy() for lag in case["lags"]]
    vals = np.array(rows) if case["how"] == "ndarray" else [list(map(float, r)) for r in rows]
    snap = _snap(vals) if isinstance(vals, np.ndarray) else copy.deepcopy(vals)
    ctx.nt(any(l != case["lags"][case["master"]] for l in case["lags"]))
    ctx.cls("k=%d" % k, "master=%d" % case["master"], "stype=" + case["stype"])
    cl = ctx.lib(multiple.Cluster, vals, 0.01, master_index=case["master"], stypes=case["stype"])
    ctx.lib(cl.time_match, steps=case["steps"])
    ctx.lib(cl.same_start, start=0, end=0.2)
    for i in range(k):
        s = cl.signal_by_index(i)
        v = s.values
        ctx.check(isinstance(v, np.ndarray) and v.dtype.kind in "fiu" and v.ndim == 1,
                  "after time_match/same_start signal %d has values of type %s" % (i, type(v).__name__))
        ctx.check(len(v) == s.npts == n, "signal %d: len(values)=%d npts=%s expected %d" % (i, len(v), s.npts, n))
    now = _snap(vals) if isinstance(vals, np.ndarray) else vals
    ctx.check(now == snap, "Cluster modified the caller's input values")


# ---------------------------------------------------------------------------
# clause 2: pure functions

_TMP = [None]


def _tmpfile():
    if _TMP[0] is None or not os.path.isdir(_TMP[0]):
        _TMP[0] = tempfile.mkdtemp(prefix="verif_c05_")
    return os.path.join(_TMP[0], "p%d.txt" % os.getpid())


def _registry(E):
    """name -> (function, args, kwargs).  E: environment with containers a, b (drawn dtype), af/bf (float arrays), dt, signals."""
    a, b, dt = E["a"], E["b"], E["dt"]
    T = E["T"]
    asig, bsig, sig = E["asig"], E["bsig"], E["sig"]
    n = len(E["af"])
    fa_f, fa_s = E["fa_freqs"], E["fa_spec"]
    sm_f = E["sm_freqs"]
    tt = E["tt"]
    shifts = E["shifts"]
    R = {
        "sdof.response_series": (sdof.response_series, (a, dt, T, 0.05), {}),
        "sdof.nigam_and_jennings_response": (sdof.nigam_and_jennings_response, (a, dt, T, 0.0), {}),
        "sdof.pseudo_response_spectra": (sdof.pseudo_response_spectra, (a, dt, T, 0.05), {}),
        "sdof.true_response_spectra": (sdof.true_response_spectra, (a, dt, T, 0.05), {}),
        "sdof.calc_resp_uke_spectrum": (sdof.calc_resp_uke_spectrum, (asig,), {"periods": T}),
        "sdof.calc_input_energy_spectrum": (sdof.calc_input_energy_spectrum, (asig,), {"periods": T, "series": True}),
        "disp.calc_velo_and_disp(trap)": (disp_mod.calc_velo_and_disp_from_accel_arr, (a, dt), {"trap": True}),
        "disp.calc_velo_and_disp(rect)": (disp_mod.calc_velo_and_disp_from_accel_arr, (a, dt), {"trap": False}),
        "disp.velocity_and_displacement_from_acceleration": (disp_mod.velocity_and_displacement_from_acceleration, (a, dt), {}),
        "im.calc_sig_dur_vals": (im.calc_sig_dur_vals, (a, dt), {"se": True}),
        "im.calc_significant_duration": (im.calc_significant_duration, (a, dt), {}),
        "im.calc_sig_dur": (im.calc_sig_dur, (asig,), {}),
        "im.calc_sig_dur(cav)": (im.calc_sig_dur, (asig,), {"im": im.calc_cav, "se": True}),
        "im.calc_peak": (im.calc_peak, (a,), {}),
        "im.calc_arias_intensity": (im.calc_arias_intensity, (asig,), {}),
        "im.calc_cav": (im.calc_cav, (asig,), {}),
        "im.calc_cav_dp": (im.calc_cav_dp, (E["asig_long"],), {}),
        "im.calc_isv": (im.calc_isv, (asig,), {}),
        "im.cumulative_response_spectra": (im.cumulative_response_spectra, (asig, "arias_intensity"), {"periods": T}),
        "im.calc_max_velocity_period": (im.calc_max_velocity_period, (asig,), {}),
        "im.max_acceleration_period": (im.max_acceleration_period, (asig,), {}),
        "im.max_fa_period": (im.max_fa_period, (asig,), {}),
        "im.calc_bandwidth_freqs": (im.calc_bandwidth_freqs, (asig,), {}),
        "im.calc_bandwidth_f_min": (im.calc_bandwidth_f_min, (asig,), {}),
        "im.calc_bandwidth_f_max": (im.calc_bandwidth_f_max, (asig,), {}),
        "im.calc_brac_dur": (im.calc_brac_dur, (asig, E["thr"]), {"se": True}),
        "im.calc_bracketed_duration": (im.calc_bracketed_duration, (asig, E["thr"]), {}),
        "im.calc_integral_of_abs_velocity": (im.calc_integral_of_abs_velocity, (asig,), {}),
        "im.calc_cumulative_abs_displacement": (im.calc_cumulative_abs_displacement, (asig,), {}),
        "im.calc_integral_of_abs_acceleration": (im.calc_integral_of_abs_acceleration, (asig,), {}),
        "im.calc_n_cyc_array_w_power_law": (im.calc_n_cyc_array_w_power_law, (a, E["aref"], 0.3), {"cut_off": 0.01}),
        "im.calc_n_cyc_array_w_power_law(array b)": (im.calc_n_cyc_array_w_power_law, (a, E["aref"], E["bexp"]), {}),
        "im.calc_cyc_amp_array_w_power_law": (im.calc_cyc_amp_array_w_power_law, (a, 15, 0.3), {}),
        "im.calc_cyc_amp_array_w_power_law(array b)": (im.calc_cyc_amp_array_w_power_law, (a, 15, E["bexp"]), {}),
        "im.calc_cyc_amp_gm_arrays_w_power_law": (im.calc_cyc_amp_gm_arrays_w_power_law, (a, b, 15, 0.3), {}),
        "im.calc_cyc_amp_combined_arrays_w_power_law": (im.calc_cyc_amp_combined_arrays_w_power_law, (a, b, 15, 0.3), {}),
        "im.calc_unit_kinetic_energy": (im.calc_unit_kinetic_energy, (asig,), {}),
        "im.calc_asi": (im.calc_asi, (asig,), {"periods": T}),
        "im.calc_vsi": (im.calc_vsi, (asig,), {"periods": T}),
        "average.get_section_average": (f_av.get_section_average, (sig,), {"start": 0, "end": (n // 2) * dt}),
        "average.calc_step_fn_vals_error": (f_av.calc_step_fn_vals_error, (a,), {"pow": 1}),
        "average.calc_step_fn_vals_error(pow2,down)": (f_av.calc_step_fn_vals_error, (a,), {"pow": 2, "dir": "down"}),
        "average.calc_step_fn_steps_vals": (f_av.calc_step_fn_steps_vals, (a,), {}),
        "average.calc_roll_av_vals": (f_av.calc_roll_av_vals, (a, 5), {"mode": "centre"}),
        "generic.interp2d": (f_gen.interp2d, (E["xq"], E["xf"], E["ftab"]), {}),
        "generic.interp_left": (f_gen.interp_left, (E["xq_in"], E["xf"], E["ycol"]), {}),
        "generic.remove_poly": (f_gen.remove_poly, (a,), {"poly_fit": 2}),
        "frequency.get_sig_freq_range": (f_fr.get_sig_freq_range, (asig,), {}),
        "frequency.get_sig_array_indexes_range": (f_fr.get_sig_array_indexes_range, (E["smooth"],), {}),
        "frequency.calc_smooth_fa_spectrum": (f_fr.calc_smooth_fa_spectrum, (fa_f, fa_s, sm_f), {"band": 40}),
        "frequency.calc_smooth_fa_spectrum(default freqs)": (f_fr.calc_smooth_fa_spectrum, (fa_f, fa_s), {}),
        "frequency.generate_smooth_fa_spectrum": (f_fr.generate_smooth_fa_spectrum, (sm_f, fa_f, fa_s), {}),
        "frequency.calc_smoothing_matrix_konno_1998": (f_fr.calc_smoothing_matrix_konno_1998, (fa_f, sm_f), {}),
        "frequency.calc_smooth_fa_spectrum_w_custom_matrix": (f_fr.calc_smooth_fa_spectrum_w_custom_matrix, (asig, E["smat"]), {}),
        "frequency.generate_fa_spectrum": (f_fr.generate_fa_spectrum, (sig,), {}),
        "frequency.generate_fa_spectrum(no pad)": (f_fr.generate_fa_spectrum, (sig,), {"n_pad": False}),
        "frequency.calc_fa_spectrum": (f_fr.calc_fa_spectrum, (sig,), {"p2_plus": 1}),
        "frequency.fas2values": (f_fr.fas2values, (fa_s, dt), {}),
        "frequency.fas2signal": (f_fr.fas2signal, (fa_s, dt), {"stype": "acc"}),
        "peaks.get_peak_array_indices": (f_pk.get_peak_array_indices, (a,), {}),
        "peaks.get_peak_array_indices(max)": (f_pk.get_peak_array_indices, (a,), {"ptype": "max"}),
        "peaks.get_peak_array_indices(min)": (f_pk.get_peak_array_indices, (a,), {"ptype": "min"}),
        "peaks.get_peak_indices": (f_pk.get_peak_indices, (asig,), {}),
        "peaks.get_zero_crossings_array_indices": (f_pk.get_zero_crossings_array_indices, (a,), {"keep_adj_zeros": True}),
        "peaks.get_zero_crossings_array_indices(tol)": (f_pk.get_zero_crossings_array_indices, (a,), {"tol": E["thr"]}),
        "peaks.get_zero_crossings_array_indices(one-signed)": (f_pk.get_zero_crossings_array_indices, (E["apos"],), {}),
        "peaks.get_switched_peak_array_indices(one-signed)": (f_pk.get_switched_peak_array_indices, (E["apos"],), {}),
        "peaks.get_zero_crossings_indices": (f_pk.get_zero_crossings_indices, (asig,), {}),
        "peaks.get_zero_and_peak_array_indices": (f_pk.get_zero_and_peak_array_indices, (a,), {}),
        "peaks.get_major_change_indices": (f_pk.get_major_change_indices, (a,), {}),
        "peaks.determine_peaks_only_delta_series": (f_pk.determine_peaks_only_delta_series, (a,), {}),
        "peaks.determine_pseudo_cyclic_peak_only_series": (f_pk.determine_pseudo_cyclic_peak_only_series, (a,), {}),
        "peaks.get_switched_peak_indices": (f_pk.get_switched_peak_indices, (asig,), {}),
        "peaks.get_switched_peak_array_indices": (f_pk.get_switched_peak_array_indices, (a,), {}),
        "peaks.get_switched_peak_array_indices(tol)": (f_pk.get_switched_peak_array_indices, (a,), {"tol": E["thr"]}),
        "peaks.get_n_cyc_array": (f_pk.get_n_cyc_array, (a,), {}),
        "peaks.get_n_cyc_array(switched,peak)": (f_pk.get_n_cyc_array, (a,), {"opt": "switched", "start": "peak"}),
        "peaks.determine_indices_of_peaks_for_cleaned_array": (f_pk.determine_indices_of_peaks_for_cleaned_array, (a,), {}),
        "peaks.clean_out_non_changing": (f_pk.clean_out_non_changing, (a,), {}),
        "peaks.determine_peak_only_delta_series_4_cleaned_data": (f_pk.determine_peak_only_delta_series_4_cleaned_data, (a,), {}),
        "time_shift.put_array_in_2d_array": (f_ts.put_array_in_2d_array, (a, shifts), {"clip": "both"}),
        "time_shift.join_values_w_shifts": (f_ts.join_values_w_shifts, (a, np.abs(shifts)), {"jtype": "sub"}),
        "time_shift.join_sig_w_time_shift": (f_ts.join_sig_w_time_shift, (sig, np.abs(shifts) * dt), {}),
        "time_shift.time_indices": (f_ts.time_indices, (n, dt, 0, (n // 2) * dt, False), {}),
        "time_step.interp_array_to_approx_dt(refine)": (f_tstep.interp_array_to_approx_dt, (a, dt), {"target_dt": dt / 2.5}),
        "time_step.interp_array_to_approx_dt(decimate)": (f_tstep.interp_array_to_approx_dt, (a, dt), {"target_dt": dt * 2.5, "even": False}),
        "time_step.interp_to_approx_dt": (f_tstep.interp_to_approx_dt, (asig,), {"target_dt": dt / 3}),
        "time_step.resample_to_approx_dt": (f_tstep.resample_to_approx_dt, (asig,), {"target_dt": dt / 2}),
        "time_step.time_series_from_motion": (f_tstep.time_series_from_motion, (a, dt), {}),
        "stockwell.transform": (stockwell.transform, (a,), {}),
        "stockwell.transform_w_scipy_fft": (stockwell.transform_w_scipy_fft, (a,), {}),
        "stockwell.itransform": (stockwell.itransform, (E["stock"],), {}),
        "stockwell.get_max_stockwell_freq": (stockwell.get_max_stockwell_freq, (asig,), {}),
        "stockwell.get_max_tifq_vals_freq": (stockwell.get_max_tifq_vals_freq, (E["stock"], dt), {}),
        "surface.calc_surface_energy": (surface.calc_surface_energy, (asig, tt), {"nodal": True}),
        "surface.calc_surface_energy(reductions,trim,start)": (surface.calc_surface_energy, (asig, tt), {
            "nodal": False, "up_red": E["red"], "down_red": E["red"], "stt": float(np.max(tt)), "trim": True, "start": True}),
        "surface.calc_cum_abs_surface_energy": (surface.calc_cum_abs_surface_energy, (asig, tt), {}),
        "surface.get_time_shift_motions": (surface.get_time_shift_motions, (asig, tt), {"stt": dt, "start": True}),
        "multiple.combine_at_angle": (multiple.combine_at_angle, (asig, bsig, 33.0), {}),
        "multiple.compute_rotated(pga)": (multiple.compute_rotated, (asig, bsig), {"parameter": "pga", "points": 5}),
        "multiple.compute_rotated(arias)": (multiple.compute_rotated, (asig, bsig), {"parameter": "arias_intensity", "points": 4, "angle_off_ns": 20.0}),
        "multiple.compute_rotated(func)": (multiple.compute_rotated, (asig, bsig), {"func": im.calc_cav, "points": 3}),
        "time_step.interp_to_approx_dt(same dt)": (f_tstep.interp_to_approx_dt, (asig,), {"target_dt": dt, "even": False}),
        "time_step.interp_to_approx_dt(same dt, even)": (f_tstep.interp_to_approx_dt, (E["asig_even"],), {"target_dt": dt}),
        "time_step.resample_to_approx_dt(same dt)": (f_tstep.resample_to_approx_dt, (E["asig_even"],), {"target_dt": dt}),
        "time_step.interp_array_to_approx_dt(same dt)": (f_tstep.interp_array_to_approx_dt, (a, dt), {"target_dt": dt, "even": False}),
        # object methods that take caller arrays (settings): the arrays must come back unchanged
        "AccSignal.generate_response_spectrum(periods)": (lambda arr: _on_fresh(E, lambda o: (o.generate_response_spectrum(response_times=arr), np.array(o.s_a))[1]), (E["T_desc"],), {}),
        "AccSignal.gen_response_spectrum(periods, ratio)": (lambda arr: _on_fresh(E, lambda o: (o.gen_response_spectrum(response_times=arr, min_dt_ratio=2), np.array(o.s_d))[1]), (E["T_mixed"],), {}),
        "AccSignal.response_series(periods)": (lambda arr: _on_fresh(E, lambda o: o.response_series(response_times=arr, xi=0.02)), (E["T_desc"],), {}),
        "AccSignal.response_times=": (lambda arr: _on_fresh(E, lambda o: (setattr(o, "response_times", arr), np.array(o.s_a))[1]), (E["T_mixed"],), {}),
        "Signal.smooth_fa_freqs=": (lambda arr: _on_fresh(E, lambda o: (setattr(o, "smooth_fa_freqs", arr), np.array(o.smooth_fa_spectrum))[1]), (E["F_desc"],), {}),
        "Signal.gen_smooth_fa_spectrum(freqs)": (lambda arr: _on_fresh(E, lambda o: (o.gen_smooth_fa_spectrum(smooth_fa_freqs=arr), np.array(o.smooth_fa_spectrum))[1]), (E["F_desc"],), {}),
        "Signal.butter_pass(ndarray cut-offs)": (lambda arr: _on_fresh(E, lambda o: (o.butter_pass(arr, filter_order=2), np.array(o.values))[1]), (E["cut"],), {}),
        "Signal.add_series": (lambda arr: _on_fresh(E, lambda o: (o.add_series(arr), np.array(o.values))[1]), (E["af"],), {}),
        "Signal.add_signal": (lambda other: _on_fresh(E, lambda o: (o.add_signal(other), np.array(o.values))[1]), (bsig,), {}),
        "Signal.reset_values": (lambda arr: _on_fresh(E, lambda o: (o.reset_values(arr), np.array(o.values))[1]), (E["af"],), {}),
        # the time step as a 0-d ndarray (what np.load / np.loadtxt return for a stored scalar): it is an argument like any other
        "time_step.interp_array_to_approx_dt(0-d dt)": (f_tstep.interp_array_to_approx_dt, (a, E["dt0"]), {"target_dt": dt / 2.5}),
        "time_step.interp_array_to_approx_dt(0-d dt, decimate)": (f_tstep.interp_array_to_approx_dt, (a, E["dt0"]), {"target_dt": dt * 2.5, "even": False}),
        "disp.calc_velo_and_disp(0-d dt)": (disp_mod.calc_velo_and_disp_from_accel_arr, (a, E["dt0"]), {}),
        "sdof.response_series(0-d dt)": (sdof.response_series, (a, E["dt0"], T, 0.05), {}),
        "sdof.pseudo_response_spectra(0-d dt)": (sdof.pseudo_response_spectra, (E["af"], E["dt0"], T, 0.05), {}),
        "AccSignal(0-d dt).s_a": (lambda d0: (lambda o: (np.array(o.s_a), np.array(o.time), o.pgv, float(o.dt)))(
            eqsig.AccSignal(np.array(E["af"]), d0, response_times=np.array([3 * dt, 9 * dt, 30 * dt]))), (E["dt0"],), {}),
        "interp_to_approx_dt(AccSignal with 0-d dt)": (lambda d0: (lambda o: (f_tstep.interp_to_approx_dt(o, target_dt=dt / 3), float(o.dt)))(
            eqsig.AccSignal(np.array(E["af"]), d0)), (E["dt0"],), {}),
        "loader.save_signal": (loader.save_signal, (_tmpfile(), asig), {}),
        "loader.save_values_and_dt": (loader.save_values_and_dt, (_tmpfile(), a, dt, "lab"), {}),
    }
    return R


def _scribble(x):
    """Overwrite every writeable ndarray inside a result in place."""
    if isinstance(x, np.ndarray):
        if x.flags.writeable and x.size and x.dtype.kind in "fiuc":
            try:
                x += 7
            except Exception:  # noqa
                pass
    elif isinstance(x, (tuple, list)):
        for v in x:
            _scribble(v)


def _on_fresh(E, f):
    """Run a method of a freshly constructed AccSignal (so that calling twice is repeatable and the object itself is not an argument)."""
    return f(E["fresh_asig"]())


def _same(x, y):
    if isinstance(x, (tuple, list)) and isinstance(y, (tuple, list)):
        return len(x) == len(y) and all(_same(p, q) for p, q in zip(x, y))
    if isinstance(x, eqsig.Signal) and isinstance(y, eqsig.Signal):
        return type(x) is type(y) and x.dt == y.dt and _same(x.values, y.values)
    if x is None or y is None:
        return x is None and y is None
    try:
        xa, ya = np.asarray(x), np.asarray(y)
        if xa.shape != ya.shape:
            return False
        if xa.dtype.kind in "fc" or ya.dtype.kind in "fc":
            return bool(np.array_equal(xa, ya, equal_nan=True))
        return bool(np.array_equal(xa, ya))
    except Exception:  # noqa
        return x == y


@st.composite
def _pure_cases(draw):
    n = draw(st.integers(24, 200 if core.tier() == "quick" else 300))
    kinds = ["noise", "sines", "quake", "walk", "pulse", "levels", "dyadic", "vals"]
    a = draw(gen.record_specs(min_n=n, max_n=n, small_max=n, kinds=kinds, amp_lo=-2, amp_hi=2, allow_zero_runs=False))
    b = draw(gen.record_specs(min_n=n, max_n=n, small_max=n, kinds=["noise", "sines", "walk"], amp_lo=-2, amp_hi=2, allow_zero_runs=False))
    return {"a": a, "b": b, "dt": draw(st.sampled_from([0.005, 0.01, 0.02, 0.05])), "seed": draw(st.integers(0, 10 ** 6))}


@clause(CLAUSES, "pure-functions", _pure_cases(), quick=40, thorough=100,
        rule="each case calls, for each of the three container variants, EVERY registry entry (100 call forms covering sdof, displacements, im, fns.average/generic/frequency/"
             "peaks_and_crossings/time_shift/time_step, stockwell, surface, multiple, loader.save) twice on records of n 24..300 given as "
             "float64 / int64 ndarray or list; non-trivial = non-constant record",
        oracle="snapshot (dtype, shape, bytes; signal values/dt/npts) of every argument before vs after each call; the two results equal (NaN-aware, exact) "
               "although the caller overwrote the first result in place before the second call; returned signals are new objects sharing no memory with arguments",
        require={"how=int": 0.9, "how=list": 0.9})
def pure_functions(case, ctx):
    for how in (["float", "int", "list"] if "how" not in case else [case["how"]]):
        _pure_one(case, ctx, how)


def _pure_one(case, ctx, how):
    af = np.array(gen.build(case["a"]), dtype=float)
    bf = np.array(gen.build(case["b"]), dtype=float)
    if len(bf) != len(af):
        bf = np.resize(bf, len(af))
    dt = case["dt"]
    n = len(af)
    rs = np.random.RandomState(case["seed"])
    ctx.cls("how=" + how, gen.size_class(n), "kind=" + case["a"]["k"])
    ctx.nt(bool(np.ptp(af) > 0))
    a = _container(case["a"], how)
    b = _container(case["b"], how)
    if len(b) != n:
        b = list(np.resize(np.asarray(b), n)) if how == "list" else np.resize(b, n)
    af = np.array(a, dtype=float)
    asig = eqsig.AccSignal(np.array(a, dtype=float), dt)
    bsig = eqsig.AccSignal(np.array(b, dtype=float), dt)
    sig = eqsig.Signal(np.array(a, dtype=float), dt)
    nlong = max(n, int(2.2 / dt) + 2)
    asig_long = eqsig.AccSignal(np.resize(af, nlong) * 1.0, dt)
    fa_spec, fa_freqs = f_fr.calc_fa_spectrum(sig)
    sm_freqs = np.logspace(-0.5, 1.2, 12)
    E = {"a": a, "b": b, "af": af, "dt": dt, "T": np.array([0.0, 3 * dt, 12 * dt, 40 * dt]), "asig": asig, "bsig": bsig, "sig": sig,
         "asig_long": asig_long, "fa_freqs": fa_freqs, "fa_spec": fa_spec, "sm_freqs": sm_freqs,
         "smooth": np.array(asig.smooth_fa_spectrum), "smat": f_fr.calc_smoothing_matrix_konno_1998(asig.fa_freqs, sm_freqs),
         "tt": np.array([0.0, 1.5 * dt, 4 * dt]), "red": np.array([1.0, 0.9, 0.8]), "shifts": np.array([-2, 0, 3]),
         "thr": float(0.3 * np.max(np.abs(af))) if np.any(af) else 0.1, "aref": float(0.65 * max(np.max(np.abs(af)), 1e-9)),
         "bexp": np.array([0.2, 0.34, 0.5]), "xf": np.arange(6, dtype=float), "ftab": rs.standard_normal((6, 3)),
         "xq": np.array([-0.5, 0.0, 1.25, 4.0, 5.5]), "xq_in": np.array([0.0, 1.25, 4.0, 5.0]), "ycol": rs.standard_normal(6),
         "stock": stockwell.transform(af),
         "asig_even": eqsig.AccSignal(np.array(af[:2 * (n // 2)]), dt), "apos": np.abs(af) + 1.0, "dt0": np.array(dt),
         "fresh_asig": (lambda: eqsig.AccSignal(np.array(af), dt)),
         "T_desc": np.array([40 * dt, 12 * dt, 3 * dt]), "T_mixed": np.array([12 * dt, 40 * dt, 3 * dt, 25 * dt]),
         "F_desc": np.array([20.0, 5.0, 1.0, 0.3]), "cut": np.array([0.05 / dt * 0.2, 0.05 / dt * 2.0])}
    reg = _registry(E)
    env_snap = {k: _snap(v) for k, v in E.items() if isinstance(v, (np.ndarray, list, eqsig.Signal))}
    rejected = 0
    for name in sorted(reg):
        fn, args, kwargs = reg[name]
        before = [_snap(x) for x in args] + [_snap(v) for v in kwargs.values()]
        res = []
        err = None
        for rep in range(2):
            try:
                res.append(fn(*args, **kwargs))
            except Exception as e:  # noqa  (rejected container / argument: not a C05 matter)
                err = e
                break
            if rep == 0 and not name.startswith("loader."):
                # the first answer belongs to the caller: keep a pristine copy for the comparison and scribble over the
                # original (as a caller shifting indices or scaling a series in place would) before calling again
                pristine = copy.deepcopy(res[0]) if not isinstance(res[0], eqsig.Signal) else res[0]
                _scribble(res[0])
                res[0] = pristine
        after = [_snap(x) for x in args] + [_snap(v) for v in kwargs.values()]
        for i, (p, q) in enumerate(zip(before, after)):
            if p != q:
                ctx.fail("%s modified its argument #%d (%s input, n=%d)%s" % (
                    name, i, how, n, "" if err is None else " before raising %s" % type(err).__name__))
        if err is not None:
            rejected += 1
            continue
        if name.startswith("loader."):
            continue
        # a returned signal owns its data: it is not one of the arguments and shares no memory with them
        for r in (res[0] if isinstance(res[0], (tuple, list)) else [res[0]]):
            if isinstance(r, eqsig.Signal):
                for x in list(args) + list(kwargs.values()):
                    if x is r:
                        ctx.fail("%s returned its own argument object instead of a new signal (%s input, n=%d)" % (name, how, n))
                    xv = x.values if isinstance(x, eqsig.Signal) else x
                    if isinstance(xv, np.ndarray) and isinstance(r.values, np.ndarray) and np.shares_memory(xv, r.values):
                        ctx.fail("%s returned a signal whose values share memory with an argument (%s input, n=%d)" % (name, how, n))
        if not _same(res[0], res[1]):
            ctx.fail("%s returned a different result when called again (%s input, n=%d)" % (name, how, n))
    for k, v in E.items():
        if k in env_snap and _snap(v) != env_snap[k]:
            ctx.fail("some analysis function modified the shared input %r" % k)
    ctx.notes["rejected"] = rejected
    if how == "float" and len(np.unique(af)) > 4:  # (constant / two-level records are legitimately rejected by many functions)
        if rejected > 4:
            raise core.HarnessError("%d registry entries raised on a float64 record (builders out of date?)" % rejected)
    try:
        os.remove(_tmpfile())
    except OSError:
        pass
