"""C20 - interpolation, rolling average, step-fit and NZS 1170.5 design-spectrum helpers match their definitions."""
import contextlib
import io
import math

import numpy as np
from hypothesis import strategies as st

import eqsig
from eqsig import design_spectra as ds

from pbt import gen
from pbt.core import clause, enum_clause, HarnessError

PROPERTY = "C20"
CLAUSES = []
ASSUMPTIONS = [
    "interp2d: x, xf, f are ndarrays (the function indexes them; the repo's tests pass ndarrays), f is 2-D (len(xf), m), "
    "1 <= len(xf) <= 12, nodes strictly increasing with spacing >= 1e-6*span and >= 1e-5 absolute (the code clips "
    "denominators at 1e-10: node sets spaced closer than that are outside the explored domain), |nodes| <= 3e6, |f| <= 1e3",
    "interp2d tolerance: 1e-12*(|f_lo|+|f_hi|) of the bracketing rows, also on nodes and outside (an implementation need not "
    "be bit-exact there)",
    "interp_left: nodes non-decreasing; for repeated nodes the value at any of the equal greatest nodes is accepted; at "
    "least one query; queries are python/NumPy scalars, lists or ndarrays",
    "rolling average: for even window sizes 'centred' is ambiguous; either of the two placements (floor(steps/2) samples "
    "before, or floor(steps/2) after) is accepted provided the same one is used for every sample; steps is an int in 1..len; "
    "bound eps*sum|extended series| + 4*eps*max|v| (cumulative-sum differencing: the two prefix sums share all rounding "
    "errors but the last `steps`, each <= eps/2*|prefix|); 2 ulp of the result when all window sums are exact (dyadic / "
    "integer data: only the division rounds)",
    "step-fit: 1 <= n <= 150 (the code builds n x n triangles), scale = n*max|v|^p, tolerance 1e-10*scale "
    "(rigorous bound of the zero-padded formulation ~ c*eps*n*scale with n <= 150)",
    "step-fit `dir`: the docstring does not say whether the split sample belongs to the compared means, so an entry must be "
    "penalised (10*max error) only when every reading (pre with/without the split sample vs post with/without it) agrees the "
    "step goes the unwanted way, must be left alone when every reading says it goes the wanted way, and may be either "
    "otherwise (incl. the last, no-step entry); means closer than 1e-9*max|v| are ambiguous",
    "calc_step_fn_steps_vals: 1 <= ind <= n-2 (both sides non-empty); with ind=None only when every index whose reference "
    "error is within tolerance of the minimum lies in 1..n-2 (otherwise a side is empty and the statement says nothing)",
    "nzs1170: T in {0} U [1e-9, 1e4] python floats / float ndarrays / lists, Z, N, R in [0.01, 10], g = 9.81 as in the module; "
    "the identity S_d = C_h*T^2*Z*N*R is asserted to 1e-12 relative for every T, exactly on the tabulated boundaries too (the "
    "statement quantifies over all T >= 0, so both functions must put a boundary on the same side)",
    "nzs1170 continuity scan: |dlnC_h/dlnT| <= 2 on every tabulated segment (steepest is the constant-displacement branch "
    "~T^-2), so neighbouring grid points a factor (1+h), h <= 2e-4, apart differ by at most 2h + the table-precision jump "
    "(largest tabulated 0.4 %) < 1 %",
    "t_eff: 0 <= d; exactly d == d_c is ambiguous (d_c is recomputed with a different operation order), so rejection is "
    "tested at d_c*(1+1e-9) and acceptance at d <= d_c*(1-1e-9)",
]
EPS = np.finfo(float).eps
LD = np.longdouble
KF_INT = "C20-KF1"   # integer input: result allocated with the input's integer dtype (truncation)


# ---------------------------------------------------------------------------
# small helpers


def _quiet(fn):
    """The design-spectrum module prints before raising; keep the runner's stdout clean."""
    def inner(*a, **k):
        with contextlib.redirect_stdout(io.StringIO()):
            return fn(*a, **k)
    inner.__name__ = getattr(fn, "__name__", "fn")
    return inner


@st.composite
def _nodes(draw, min_n=1, max_n=12, allow_dup=False):
    style = draw(st.sampled_from(["int", "dyadic", "float", "float", "tight"]))
    n = draw(st.one_of(st.integers(min_n, max_n), st.integers(max(min_n, 3), max_n)))
    if style in ("int", "dyadic"):
        return {"style": style, "start": draw(st.integers(-50, 50)),
                "gaps": draw(st.lists(st.integers(0, 3) if allow_dup else st.integers(1, 8), min_size=n - 1, max_size=n - 1)),
                "j": 0 if style == "int" else draw(st.integers(1, 6))}
    # the unit is drawn by decade first (every decade 1e-3 .. 1e3 equally often): node spacings from 2e-5 to 1e5
    dec = draw(st.sampled_from([-3, -2, -1, 0, 1, 2]))
    tight = style == "tight"   # closely spaced nodes: every spacing between 2e-5 and 1e-3
    return {"style": "float", "x0": draw(st.floats(-1e3, 1e3, allow_nan=False)),
            "unit": 1e-3 if tight else 10.0 ** dec * draw(st.floats(1.0, 10.0, allow_nan=False)),
            "gaps": draw(st.lists(gen.log_uniform(2e-2, 1.0 if tight else 1e2), min_size=n - 1, max_size=n - 1))}


def _build_nodes(spec):
    if spec["style"] in ("int", "dyadic"):
        ints = np.concatenate([[spec["start"]], spec["start"] + np.cumsum(np.array(spec["gaps"], dtype=np.int64))]).astype(np.int64)
        if spec["style"] == "int":
            return ints
        return ints.astype(float) * 2.0 ** (-spec["j"])
    g = np.concatenate([[0.0], np.cumsum(np.array(spec["gaps"], dtype=float))])
    return spec["unit"] * (spec["x0"] + g)


def _queries(min_size=1, max_size=8, kinds=("node", "frac", "mid", "left", "right")):
    q = st.tuples(st.sampled_from(kinds), st.integers(0, 11),
                  st.one_of(st.floats(0.0, 1.0, exclude_min=True, exclude_max=True, allow_nan=False),
                            gen.log_uniform(1e-6, 10.0))).map(list)
    return st.lists(q, min_size=min_size, max_size=max_size)


def _build_queries(qs, xf):
    n = len(xf)
    span = float(xf[-1] - xf[0])
    unit = span if span > 0 else 1.0
    out = []
    for kind, i, t in qs:
        if kind == "node" or (n == 1 and kind in ("frac", "mid")):
            out.append(float(xf[i % n]))
        elif kind == "frac":
            j = i % (n - 1)
            tt = t if t < 1 else 1.0 / (1.0 + t)
            out.append(float(xf[j]) + tt * (float(xf[j + 1]) - float(xf[j])))
        elif kind == "mid":
            j = i % (n - 1)
            out.append(0.5 * (float(xf[j]) + float(xf[j + 1])))
        elif kind == "left":
            out.append(float(xf[0]) - t * unit)
        elif kind == "right":
            out.append(float(xf[-1]) + t * unit)
        else:
            raise ValueError(kind)
    return np.array(out, dtype=float)


def _query_classes(x, xf):
    labs = set()
    for q in x:
        if q < xf[0]:
            labs.add("left-out")
        elif q > xf[-1]:
            labs.add("right-out")
        elif np.any(xf == q):
            labs.add("on-node")
        else:
            labs.add("inside")
    return labs


# ---------------------------------------------------------------------------
# 1. interp2d


def _ref_interp2d(x, xf, f):
    """Column-wise linear interpolation with end clamping, as loops, in long double.  Returns (values, |f_lo|+|f_hi|)."""
    nx, m = len(x), f.shape[1]
    out = np.zeros((nx, m), dtype=LD)
    mag = np.zeros((nx, m))
    n = len(xf)
    for q in range(nx):
        xq = x[q]
        if xq <= xf[0]:
            j0 = j1 = 0
        elif xq >= xf[n - 1]:
            j0 = j1 = n - 1
        else:
            j0 = 0
            for k in range(n):
                if xf[k] <= xq:
                    j0 = k
            j1 = j0 + 1
        for c in range(m):
            lo, hi = LD(f[j0, c]), LD(f[j1, c])
            if j0 == j1:
                out[q, c] = lo
            else:
                w = (LD(xq) - LD(xf[j0])) / (LD(xf[j1]) - LD(xf[j0]))
                out[q, c] = lo + w * (hi - lo)
            mag[q, c] = abs(float(lo)) + abs(float(hi))
    return out, mag


def _validate_interp_reference():
    """Oracle guard: the loop reference must agree with numpy.interp on a fixed table."""
    xf = np.array([-1.0, 0.0, 0.5, 2.0, 7.0])
    f = np.array([[0.0, 3.0], [1.0, -1.0], [4.0, 2.0], [4.0, 8.0], [-2.0, 0.5]])
    x = np.array([-3.0, -1.0, -0.25, 0.0, 0.3, 1.99, 2.0, 6.0, 7.0, 9.0])
    ref, _ = _ref_interp2d(x, xf, f)
    for c in range(2):
        if not np.max(np.abs(np.asarray(ref[:, c], dtype=float) - np.interp(x, xf, f[:, c]))) < 1e-14:
            raise HarnessError("C20 interp2d reference disagrees with numpy.interp")


_validate_interp_reference()


@st.composite
def _interp2d_cases(draw):
    nodes = draw(_nodes(1, 12))
    n = len(nodes["gaps"]) + 1
    m = draw(st.integers(1, 4))
    fint = draw(st.sampled_from([False, False, False, True]))
    el = st.integers(-20, 20) if fint else st.one_of(st.floats(-1e3, 1e3, allow_nan=False, allow_subnormal=False),
                                                     st.integers(-8, 8).map(float))
    f = draw(st.lists(st.lists(el, min_size=m, max_size=m), min_size=n, max_size=n))
    return {"nodes": nodes, "f": f, "fint": fint, "q": draw(_queries(1, 8, ("frac", "node", "frac", "mid", "left", "right"))), "xint": draw(st.booleans())}


@clause(CLAUSES, "interp2d", _interp2d_cases(), quick=800, thorough=5000,
        rule="1-12 strictly increasing nodes (integer / dyadic / float with gaps over 4 decades, unit 1e-3..1e3), 1-4 columns "
             "(float or integer table), 1-8 queries drawn as on-node / fractional / exact midpoint / left outside / right outside; "
             "non-trivial = some query strictly between two nodes whose rows differ",
        oracle="reference model: loop over queries and columns, bracket by linear scan, long-double linear interpolation with end "
               "clamping (validated against numpy.interp at import); tolerance 1e-12*(|f_lo|+|f_hi|); inputs not mutated",
        require={"inside": 0.3, "on-node": 0.3, "left-out": 0.12, "right-out": 0.12, "f-int": 0.08, "x-int": 0.02,
                 "query-in-gap<1e-3": 0.02})
def interp2d(case, ctx):
    xf = _build_nodes(case["nodes"])
    n = len(xf)
    if n > 1:
        gaps = np.diff(xf.astype(float))
        if not (np.all(gaps > 0) and gaps.min() >= 1e-6 * float(xf[-1] - xf[0]) and gaps.min() >= 1e-5):
            raise HarnessError("interp2d generator left its stated domain: %r" % (xf,))
    x = _build_queries(case["q"], xf)
    if case.get("xint") and xf.dtype.kind == "i":
        x = np.round(x).astype(np.int64)  # integer queries against integer nodes (gaps up to 8: interior integers exist)
        ctx.cls("x-int")
    f = np.array(case["f"], dtype=np.int64 if case["fint"] else float)
    m = f.shape[1]
    labs = _query_classes(x, xf)
    ctx.cls(*sorted(labs))
    ctx.cls("nodes=" + case["nodes"]["style"], "f-int" if case["fint"] else "f-float", "n=1" if n == 1 else None)
    if n > 1 and any(xf[j] < q < xf[j + 1] and xf[j + 1] - xf[j] < 1e-3 for q in x for j in range(n - 1)):
        ctx.cls("query-in-gap<1e-3")
    if any(k == "mid" for k, _, _ in case["q"]) and n > 1:
        ctx.cls("midpoint")
    x_b, xf_b, f_b = x.copy(), xf.copy(), f.copy()
    out = ctx.lib(eqsig.fns.interp2d, x, xf, f)
    out = np.asarray(out)
    ctx.shape(out, (len(x), m), "interp2d result")
    ref, mag = _ref_interp2d(x, xf, f)
    nt = False
    for q in range(len(x)):
        if xf[0] < x[q] < xf[-1] and not np.any(xf == x[q]):
            j = int(np.max(np.nonzero(xf <= x[q])[0]))
            if np.any(f[j] != f[j + 1]):
                nt = True
    ctx.nt(nt)
    ctx.close(out, ref, 1e-12 * mag, "interp2d vs column-wise linear interpolation with end clamping (x=%r, xf=%r)" % (
        x.tolist(), xf.tolist()))
    ctx.equal(x, x_b, "query array mutated")
    ctx.equal(xf, xf_b, "node array mutated")
    ctx.equal(f, f_b, "table mutated")


# ---------------------------------------------------------------------------
# 2. interp_left


@st.composite
def _interp_left_cases(draw):
    nodes = draw(_nodes(1, 12, allow_dup=draw(st.booleans())))
    n = len(nodes["gaps"]) + 1
    ykind = draw(st.sampled_from(["none", "float", "int"]))
    y = None
    if ykind == "float":
        y = draw(st.lists(st.floats(-1e3, 1e3, allow_nan=False), min_size=n, max_size=n))
    elif ykind == "int":
        y = draw(st.lists(st.integers(-100, 100), min_size=n, max_size=n))
    below = draw(st.sampled_from([False, True, False]))
    kinds = ("node", "frac", "mid", "right", "left") if below else ("node", "node", "frac", "mid", "right")
    return {"nodes": nodes, "y": y, "q": draw(_queries(1, 8, kinds)), "scalar": draw(st.booleans()),
            "xc": draw(st.sampled_from(["list", "array"])), "qc": draw(st.sampled_from(["list", "array", "np", "py"])),
            "yc": draw(st.sampled_from(["list", "array"]))}


@clause(CLAUSES, "interp-left", _interp_left_cases(), quick=800, thorough=5000,
        rule="1-12 non-decreasing nodes (half of the integer/dyadic node sets may repeat nodes), y in {None, floats, ints}, 1-8 queries on "
             "nodes / between / beyond the last node / (1/3 of cases, one kind in five) below the first node; scalar (python or NumPy) and list/ndarray "
             "queries, list/ndarray nodes; non-trivial = >= 2 nodes and a query at or above the second node, or a rejection",
        oracle="reference model: linear scan for the greatest node <= query, value equality (exact); any query below x[0] -> "
               "AssertionError",
        require={"on-node": 0.3, "inside": 0.15, "right-out": 0.08, "rejects": 0.04, "scalar": 0.12, "y-none": 0.15, "dup-nodes": 0.02})
def interp_left(case, ctx):
    xf = _build_nodes(case["nodes"])
    n = len(xf)
    x0 = _build_queries(case["q"], xf)
    scalar = bool(case["scalar"])
    if scalar:
        x0 = x0[:1]
    if xf.dtype.kind == "i" and np.all(x0 == np.round(x0)) and case["qc"] in ("list", "py"):
        x0 = x0.astype(np.int64)
    labs = _query_classes(x0, xf)
    ctx.cls(*sorted(labs))
    ctx.cls("scalar" if scalar else "array", "y-none" if case["y"] is None else "y-given",
            "dup-nodes" if n > 1 and np.any(np.diff(xf) == 0) else None, "nodes=" + case["nodes"]["style"])
    x_arg = xf.tolist() if case["xc"] == "list" else xf.copy()
    if scalar:
        q_arg = x0[0].item() if case["qc"] in ("list", "py") else x0[0]
    else:
        q_arg = x0.tolist() if case["qc"] in ("list", "py") else x0.copy()
    y = case["y"]
    y_arg = None if y is None else (list(y) if case["yc"] == "list" else np.array(y))
    yv = list(range(n)) if y is None else list(y)
    if "left-out" in labs:
        ctx.cls("rejects")
        ctx.nt(True)
        ctx.raises(AssertionError, eqsig.fns.interp_left, q_arg, x_arg, y_arg)
        return
    out = ctx.lib(eqsig.fns.interp_left, q_arg, x_arg, y_arg)
    if scalar:
        ctx.check(np.ndim(out) == 0, "scalar query returned a non-scalar %r" % (out,))
        got = [out]
    else:
        out = np.asarray(out)
        ctx.shape(out, (len(x0),), "interp_left result")
        got = list(out)
    for k, q in enumerate(x0):
        j = -1
        for i in range(n):
            if xf[i] <= q:
                j = i
        if j < 0:
            raise HarnessError("interp-left oracle: query below first node not classified")
        allowed = [i for i in range(n) if xf[i] == xf[j]]
        if j >= 1:
            ctx.nt(True)
        ctx.check(any(got[k] == yv[i] for i in allowed),
                  "interp_left(%r) over nodes %r: got %r, value at the greatest node <= query is %r (index %d)" % (
                      q, xf.tolist(), got[k], yv[j], j))
    if not isinstance(x_arg, list):
        ctx.equal(x_arg, xf, "node array mutated")


# ---------------------------------------------------------------------------
# 3. rolling average


_MODES = ["forward", "backward", "centre", "center"]


@st.composite
def _roll_cases(draw):
    min_n = draw(st.sampled_from([1, 2, 4, 4, 8, 8, 16]))
    spec = draw(gen.record_specs(min_n=min_n, max_n=1500, small_max=max(24, min_n), allow_int=True))
    n = len(gen.build(spec))
    which = draw(st.sampled_from(["one", "len", "small", "any", "any", "any", "any", "any"]))
    if which == "one":
        steps = 1
    elif which == "len":
        steps = n
    elif which == "small":
        steps = draw(st.integers(1, min(n, 6)))
    else:
        steps = draw(st.integers(1, n).map(lambda k, n=n: n + 1 - k))  # shrinks towards len, not towards 1
    return {"rec": spec, "steps": steps, "mode": draw(st.sampled_from(_MODES)), "defaults": draw(st.booleans())}


def _window_offsets(mode, steps):
    """Candidate (first, last) offsets of the window relative to the current sample."""
    if mode == "forward":
        return [(0, steps - 1)]
    if mode == "backward":
        return [(-(steps - 1), 0)]
    s = steps // 2
    cands = [(-s, steps - s - 1)]
    if steps % 2 == 0:
        cands.append((-(steps - s - 1), s))
    return cands


@clause(CLAUSES, "rolling-average", _roll_cases(), quick=800, thorough=5000,
        rule="records of all kinds (n 1..1500, float / int / list), steps in {1, len, 1..6, U(1..len)}, the four mode strings; "
             "non-trivial = steps >= 2 and the record is not constant",
        oracle="reference model: loop over samples, long-double mean over the window with indices clamped to the ends "
               "(edge replication); bound eps*sum|extended series| + 4 eps max|v|, 2 ulp on dyadic / integer data; length kept",
        require={"mode=forward": 0.08, "mode=backward": 0.08, "mode=centre": 0.08, "mode=center": 0.08,
                 "steps=len": 0.1, "steps=1": 0.1, "even-steps": 0.15, "exact-dyadic": 0.1})
def rolling_average(case, ctx):
    spec = case["rec"]
    arg = gen.as_container(spec, gen.build(spec))
    v = np.array(arg, dtype=float)  # what the library sees
    n = len(v)
    steps = int(case["steps"])
    mode = case["mode"]
    if not 1 <= steps <= n:
        raise HarnessError("rolling-average generator: steps %d outside 1..%d" % (steps, n))
    vmax = float(np.max(np.abs(v)))
    # exact: every partial sum is a small integer multiple of a power of two
    exact = bool(spec["k"] == "dyadic" or spec.get("as") == "int")
    ctx.cls("kind=" + spec["k"], gen.size_class(n), "mode=" + mode, "steps=1" if steps == 1 else None,
            "steps=len" if steps == n else None, "even-steps" if steps % 2 == 0 else "odd-steps",
            "exact-dyadic" if exact else None, ("as=" + spec["as"]) if spec.get("as") else None)
    ctx.nt(steps >= 2 and bool(np.any(v != v[0])))
    before = v.copy() if isinstance(arg, np.ndarray) else None
    if mode == "forward" and case.get("defaults"):
        out = ctx.lib(eqsig.fns.calc_roll_av_vals, arg, steps)  # mode defaults to forward
    else:
        out = ctx.lib(eqsig.fns.calc_roll_av_vals, arg, steps, mode=mode)
    out = np.asarray(out)
    ctx.shape(out, (n,), "rolling average (length kept)")
    vl = v.astype(LD)
    tol_abs = EPS * (float(np.sum(np.abs(v))) + (steps - 1) * vmax) + 4 * EPS * vmax
    msgs = []
    for a, b in _window_offsets(mode, steps):
        # direct windowed sums (not the library's cumulative-sum differencing): indices clamped = edge values replicated
        offs = np.arange(a, b + 1)
        wsum = np.zeros(n, dtype=LD)
        for i in range(n):
            wsum[i] = np.sum(vl[np.clip(i + offs, 0, n - 1)])
        if exact:
            # window sums are exact in double; the only rounding is the division (or a multiplication by 1/steps)
            expect = np.asarray(wsum, dtype=float) / float(steps)
            tol = 2 * EPS * np.abs(expect)
        else:
            expect = wsum / LD(steps)
            tol = np.full(n, tol_abs)
        d = np.abs(out.astype(LD) - expect)
        bad = ~(d <= tol)
        if not np.any(bad):
            break
        i = int(np.argmax(bad))
        msgs.append("window [i%+d, i%+d]: sample %d got %r expected %r (tol %.3g)" % (a, b, i, out[i], float(expect[i]), tol[i]))
    else:
        ctx.fail("calc_roll_av_vals(n=%d, steps=%d, mode=%r) is not the edge-replicated window mean: %s" % (
            n, steps, mode, "; ".join(msgs)))
    if before is not None:
        ctx.equal(arg, before, "input mutated")


# ---------------------------------------------------------------------------
# 4. step-fit


@st.composite
def _step_cases(draw):
    src = draw(st.sampled_from(["ints", "ints", "rec", "rec", "rec"]))
    if src == "ints":
        lo, hi = draw(st.sampled_from([(0, 9), (1, 5), (-9, 0), (-9, 9), (-40, 40)]))
        vals = {"src": "ints", "v": draw(st.lists(st.integers(lo, hi), min_size=draw(st.sampled_from([1, 2, 3, 3, 5, 8, 12])), max_size=40)),
                "as": draw(st.sampled_from(["list", "intarray", "floatarray", "floatlist"]))}
    else:
        min_n = draw(st.sampled_from([1, 2, 3, 3, 5, 8, 12]))
        if draw(st.integers(0, 19)) == 7:
            # longer series (the library's work grows with n^2)
            spec = draw(gen.record_specs(min_n=151, max_n=1400, small_max=151, amp_lo=-3, amp_hi=3,
                                         kinds=["noise", "step", "walk", "levels", "pulse"]))
        else:
            spec = draw(gen.record_specs(min_n=min_n, max_n=150, small_max=30, amp_lo=-3, amp_hi=3,
                                         kinds=["vals", "dyadic", "noise", "step", "walk", "levels", "pulse", "const"]))
        vals = {"src": "rec", "rec": spec, "flip": draw(st.booleans()),
                "shift": draw(st.sampled_from([0.0, 0.0, 0.5, -0.5, 2.0, -2.0, 100.0, -100.0])),
                "as": draw(st.sampled_from(["floatarray", "floatlist"]))}
    return {"vals": vals, "pow": draw(st.sampled_from([1, 2])), "dir": draw(st.sampled_from([None, None, "up", "down"])),
            "ind": draw(st.integers(0, 10 ** 6)), "argmin": draw(st.sampled_from([False, False, True])), "defaults": draw(st.booleans())}


def _step_values(vals):
    """-> (argument handed to the library, float64 view of it)"""
    if vals["src"] == "ints":
        ints = [int(i) for i in vals["v"]]
        how = vals["as"]
        if how == "list":
            arg = list(ints)
        elif how == "intarray":
            arg = np.array(ints, dtype=np.int64)
        elif how == "floatlist":
            arg = [float(i) for i in ints]
        else:
            arg = np.array(ints, dtype=float)
    else:
        a = gen.build(vals["rec"])
        sc = float(np.max(np.abs(a))) or 1.0
        a = (-a if vals["flip"] else a) + vals["shift"] * sc
        arg = [float(x) for x in a] if vals["as"] == "floatlist" else np.array(a, dtype=float)
    return arg, np.array(arg, dtype=float)


def _ref_step_error(v, p):
    """err[i] = sum|pre-mean(pre)|^p + sum|post-mean(post)|^p, pre = v[:i+1], post = v[i+1:]; last = single mean."""
    n = len(v)
    vl = v.astype(LD)
    err = np.zeros(n, dtype=LD)
    for i in range(n):
        tot = LD(0)
        for side in (vl[:i + 1], vl[i + 1:]):
            if len(side):
                mean = np.sum(side) / LD(len(side))
                tot = tot + np.sum(np.abs(side - mean) ** p)
        err[i] = tot
    return err


def _side_means(v):
    """Means of v[:i], v[:i+1], v[i:], v[i+1:] for every i (nan for empty sides)."""
    n = len(v)
    vl = v.astype(LD)
    out = np.full((4, n), np.nan)
    for i in range(n):
        for r, side in enumerate((vl[:i], vl[:i + 1], vl[i:], vl[i + 1:])):
            if len(side):
                out[r, i] = float(np.sum(side) / LD(len(side)))
    return out


def _check_step_error(ctx, got, ref, tol, int_input, what):
    got = np.asarray(got)
    ctx.shape(got, (len(ref),), what)
    d = np.abs(got.astype(LD) - ref)
    bad = ~(d <= tol)
    if not np.any(bad):
        return
    i = int(np.argmax(bad))
    msg = "%s: entry %d is %r, definition gives %r (tol %.3g; %d of %d entries out)" % (
        what, i, got[i], float(ref[i]), tol, int(np.sum(bad)), len(ref))
    if int_input and ctx.kf(KF_INT):
        # known finding: integer input -> result array has the integer dtype, every entry truncated toward zero
        lo = np.trunc(np.asarray(ref - tol, dtype=float))
        hi = np.trunc(np.asarray(ref + tol, dtype=float))
        ok = (got >= lo) & (got <= hi) & (got == np.trunc(got))
        ctx.check(bool(np.all(ok)), msg + " [not explained by integer truncation either]")
        return
    ctx.fail(msg)


@clause(CLAUSES, "step-fit", _step_cases(), quick=800, thorough=5000,
        rule="integer data in [0,9] / [1,5] / [-9,0] / [-9,9] / [-40,40] (n 1..40) as int list (as the repo's tests), int64 array, "
             "float list, float array; records of 8 kinds (n 1..150) optionally negated and shifted by {0, +-0.5, +-2, +-100} peak "
             "values; pow in {1,2}; dir in {None, up, down}; ind in 1..n-2 or None; non-trivial = n >= 3 and not constant",
        oracle="reference model: double loop in long double over splits and sides (tolerance 1e-10*n*max|v|^p); dir: entries "
               "are the plain error or 10*max, penalised where every reading of the step direction agrees; levels = loop means "
               "(tolerance (n+4) eps max|v|), argmin taken from the reference error",
        require={"p1-neg-mean": 0.1, "neg-side-mean": 0.25, "all-pos-means": 0.15, "int-input": 0.08, "float-input": 0.4,
                 "dir=up": 0.06, "dir=down": 0.06, "dir-decided": 0.15, "levels-ind": 0.25, "levels-argmin": 0.06})
def step_fit(case, ctx):
    arg, v = _step_values(case["vals"])
    n = len(v)
    p = int(case["pow"])
    direction = case["dir"]
    int_input = np.array(arg).dtype.kind in "iu"
    vmax = float(np.max(np.abs(v)))
    means = _side_means(v)
    side = np.concatenate([means[1, :n - 1], means[3, :n - 1]]) if n > 1 else np.array([means[1, 0]])
    neg = bool(np.any(side < 0))
    pos = bool(np.any(side > 0))
    ctx.cls("p=%d" % p, "dir=%s" % direction, "int-input" if int_input else "float-input",
            "list" if isinstance(arg, list) else "ndarray", gen.size_class(n),
            "neg-side-mean" if neg else None, "all-pos-means" if (pos and not neg) else None,
            "mixed-side-means" if (pos and neg) else None, "p1-neg-mean" if (neg and p == 1) else None,
            "src=" + case["vals"]["src"])
    ctx.nt(n >= 3 and bool(np.any(v != v[0])))
    before = arg.copy() if isinstance(arg, np.ndarray) else list(arg)

    fn = eqsig.fns.calc_step_fn_vals_error
    ref = _ref_step_error(v, p)
    tol = 1e-10 * n * vmax ** p
    if p == 1 and case.get("defaults"):
        plain = ctx.lib(fn, arg)  # pow defaults to 1
    else:
        plain = ctx.lib(fn, arg, pow=p)
    _check_step_error(ctx, plain, ref, tol, int_input, "calc_step_fn_vals_error(pow=%d)" % p)
    plain = np.asarray(plain, dtype=float)

    if direction is not None and n >= 1:
        got = np.asarray(ctx.lib(fn, arg, pow=p, dir=direction), dtype=float)
        ctx.shape(got, (n,), "calc_step_fn_vals_error(dir=%r)" % direction)
        pen = 10.0 * float(np.max(plain))
        tol_d = 10 * tol + 8 * EPS * abs(pen)
        is_plain = np.abs(got - plain) <= tol
        is_pen = np.abs(got - pen) <= tol_d
        for i in range(n):
            ctx.check(bool(is_plain[i] or is_pen[i]),
                      "dir=%r: entry %d is %r, neither the plain error %r nor 10*max error %r" % (
                          direction, i, got[i], plain[i], pen))
        gap = 1e-9 * vmax
        for i in range(n - 1):
            if abs(pen - plain[i]) <= tol + tol_d:
                continue  # penalty indistinguishable from the plain error
            pres = [means[1, i]] + ([means[0, i]] if i >= 1 else [])
            posts = [means[3, i], means[2, i]]
            pairs = [(a, b) for a in pres for b in posts]
            if any(abs(a - b) <= gap for a, b in pairs):
                ctx.amb()
                continue
            up = all(a < b for a, b in pairs)
            down = all(a > b for a, b in pairs)
            if not (up or down):
                continue
            ctx.cls("dir-decided")
            unwanted = up if direction == "down" else down
            if unwanted:
                ctx.check(bool(is_pen[i]), "dir=%r: split %d steps from %r to %r (the unwanted way) but is not penalised: %r" % (
                    direction, i, means[1, i], means[3, i], got[i]))
            else:
                ctx.check(bool(is_plain[i]), "dir=%r: split %d steps from %r to %r (the wanted way) but is penalised: %r vs %r" % (
                    direction, i, means[1, i], means[3, i], got[i], plain[i]))

    # reported step levels
    lev = eqsig.fns.calc_step_fn_steps_vals
    tol_m = (n + 4) * EPS * vmax
    if n >= 3 and not case["argmin"]:
        ind = 1 + case["ind"] % (n - 2)
        ctx.cls("levels-ind")
        pre, post = ctx.lib(lev, arg, ind)
        ctx.close(np.array([pre, post], dtype=float), np.array([means[0, ind], means[3, ind]]), tol_m,
                  "calc_step_fn_steps_vals(ind=%d) vs (mean(values[:ind]), mean(values[ind+1:]))" % ind)
    elif n >= 3:
        ref1 = ref if p == 1 else _ref_step_error(v, 1)
        tol1 = 1e-10 * n * vmax
        lo1 = np.asarray(ref1 - tol1, dtype=float)
        hi1 = np.asarray(ref1 + tol1, dtype=float)
        idx = [int(i) for i in np.nonzero(lo1 <= np.min(hi1))[0]]   # splits whose error is minimal within tolerance
        if any(i < 1 or i > n - 2 for i in idx):
            ctx.cls("levels-argmin-at-end")
        else:
            ctx.cls("levels-argmin")
            if len(idx) > 1:
                ctx.amb()
            pre, post = ctx.lib(lev, arg)

            def matches(ids):
                return any(abs(pre - means[0, i]) <= tol_m and abs(post - means[3, i]) <= tol_m for i in ids)
            ok = matches(idx)
            if not ok and int_input and ctx.kf(KF_INT):
                # known finding: the argmin is taken over the truncated error
                idx_kf = [int(i) for i in np.nonzero(np.trunc(lo1) <= np.min(np.trunc(hi1)))[0]]
                ok = any(i < 1 or i > n - 2 for i in idx_kf) or matches(idx_kf)
            ctx.check(ok, "calc_step_fn_steps_vals(values) = %r, but the error is minimal at split(s) %r with levels %r" % (
                (pre, post), idx, [(means[0, i], means[3, i]) for i in idx]))
    if isinstance(arg, np.ndarray):
        ctx.equal(arg, before, "input mutated")
    else:
        ctx.check(arg == before, "input list mutated")


# long series: the library builds n x n work arrays, so lengths of several thousand samples are a different regime


def _ref_step_error_blocked(v, p, rows=128):
    """Same definition as _ref_step_error, evaluated in long double in blocks of `rows` splits (vectorised over samples)."""
    n = len(v)
    vl = v.astype(LD)
    csum = np.cumsum(vl)
    tot = csum[-1]
    j = np.arange(n)
    err = np.zeros(n, dtype=LD)
    for i0 in range(0, n, rows):
        i = np.arange(i0, min(n, i0 + rows))
        m_pre = csum[i] / (i + 1).astype(LD)
        n_post = (n - 1 - i)
        m_post = np.where(n_post > 0, (tot - csum[i]) / np.maximum(n_post, 1).astype(LD), LD(0))
        pre = j[None, :] <= i[:, None]
        dev = np.abs(vl[None, :] - np.where(pre, m_pre[:, None], m_post[:, None]))
        err[i] = np.sum(dev if p == 1 else dev * dev, axis=1)
    return err


def _validate_blocked_reference():
    v = np.sin(np.arange(41.0) * 1.3) + np.where(np.arange(41) > 17, 2.0, -1.0)
    for p in (1, 2):
        a, b = _ref_step_error(v, p), _ref_step_error_blocked(v, p, rows=7)
        if not np.all(np.abs(a - b) <= 1e-15 * np.max(np.abs(a))):
            raise HarnessError("C20: blocked step-error reference disagrees with the loop reference")


_validate_blocked_reference()


def _long_step_cases(tier, shard, nshards):
    items = [(2 ** 13 + 2, 1, 3000)]
    if tier != "quick":
        items += [(2 ** 13 + 2, 2, 5000), (2 ** 13 - 1, 1, 100), (9001, 1, 8500), (10007, 2, 4000), (2 ** 12 + 1, 1, 4000)]
    for k, (n, p, at) in enumerate(items):
        if k % nshards == shard:
            yield {"n": n, "pow": p, "at": at, "seed": 5 + k}


@enum_clause(CLAUSES, "step-fit-long", _long_step_cases,
             rule="fixed long series (4097..10007 samples: a level change of 3.5 at a chosen sample + noise 0.3), pow 1 and 2",
             oracle="reference model: the definition evaluated in long double in blocks of splits (validated at import against the loop "
                    "reference), tolerance 1e-10*n*max|v|^p; levels = means before / after the split of minimal pow-1 error",
             exhaustive_note="the listed (length, power, step position) triples", quick_shards=1)
def step_fit_long(case, ctx):
    n, p, at = int(case["n"]), int(case["pow"]), int(case["at"])
    v = np.where(np.arange(n) <= at, 2.0, -1.5) + 0.3 * np.random.RandomState(case["seed"]).standard_normal(n)
    ctx.nt(True)
    ctx.cls("p=%d" % p)
    vmax = float(np.max(np.abs(v)))
    before = v.copy()
    got = ctx.lib(eqsig.fns.calc_step_fn_vals_error, v, pow=p)
    ref = _ref_step_error_blocked(v, p)
    _check_step_error(ctx, got, ref, 1e-10 * n * vmax ** p, False, "calc_step_fn_vals_error(pow=%d, n=%d)" % (p, n))
    ref1 = ref if p == 1 else _ref_step_error_blocked(v, 1)
    tol1 = 1e-10 * n * vmax
    idx = [int(i) for i in np.nonzero(np.asarray(ref1 - tol1, dtype=float) <= float(np.min(ref1) + tol1))[0]]
    if all(1 <= i <= n - 2 for i in idx):
        pre, post = ctx.lib(eqsig.fns.calc_step_fn_steps_vals, v)
        tol_m = (n + 4) * EPS * vmax
        vl = v.astype(LD)
        ctx.check(any(abs(pre - float(np.mean(vl[:i]))) <= tol_m and abs(post - float(np.mean(vl[i + 1:]))) <= tol_m for i in idx),
                  "calc_step_fn_steps_vals(values) = %r, but the error is minimal at split(s) %r (n=%d)" % ((pre, post), idx, n))
    ctx.equal(v, before, "input mutated")


# ---------------------------------------------------------------------------
# 5. NZS 1170.5 helpers

G = 9.81
BOUNDS = {"C": [0.1, 0.3, 1.5, 3.0], "D": [0.1, 0.56, 1.5, 3.0], "E": [0.1, 1.0, 1.5, 3.0]}  # NZS 1170.5 table 3.1 segments
PLATEAU_END = {"C": 0.3, "D": 0.56, "E": 1.0}
TABLE_PRECISION = 0.01
BAD_CLASSES = ["A", "B", "F", "c", "d", "", "CD", "Class C"]
_ALL_B = sorted(set(b for bs in BOUNDS.values() for b in bs))


def _periods():
    near = st.tuples(st.sampled_from(_ALL_B), st.sampled_from([1 - 1e-9, 1 - 2.0 ** -52, 1.0, 1 + 2.0 ** -52, 1 + 1e-9])).map(
        lambda t: t[0] * t[1])
    return st.one_of(gen.log_uniform(0.02, 6.0), gen.log_uniform(0.02, 6.0), gen.log_uniform(1e-9, 1e4), near,
                     st.floats(0.0, 4.0, allow_nan=False), st.floats(0.0, 4.0, allow_nan=False).map(lambda t: 4.0 - t),
                     st.just(0.0))


@st.composite
def _nzs_cases(draw):
    kind = draw(st.sampled_from(["identity", "boundary", "monotone", "teff", "reject", "array", "identity", "boundary", "monotone"]))
    case = {"kind": kind, "cls": draw(st.sampled_from(["C", "D", "E"])),
            "Z": draw(gen.log_uniform(0.01, 10.0)), "N": draw(gen.log_uniform(0.01, 10.0)),
            "R": draw(gen.log_uniform(0.01, 10.0))}
    if draw(st.sampled_from([False, False, False, True])):
        case["Z"], case["N"], case["R"] = draw(st.sampled_from([(0.13, 1.0, 1.0), (0.4, 1.0, 1.3), (0.3, 1.2, 0.25), (1.0, 1.0, 1.0)]))
    if kind == "identity":
        case["T"] = draw(_periods())
    elif kind == "boundary":
        case["delta"] = draw(st.sampled_from([1e-9, 1e-9, 1e-10, 1e-12]))  # relative offset of the one-sided evaluations
    elif kind == "monotone":
        case["T"] = draw(st.one_of(_periods(), gen.log_uniform(0.25, 8.0)))
        case["T2"] = draw(st.one_of(_periods(), gen.log_uniform(1e-15, 10.0).map(lambda d, t=case["T"]: t * (1.0 + d))))
    elif kind == "teff":
        case["frac"] = draw(st.one_of(st.just(0.0), st.floats(0.0, 1.0, allow_nan=False), st.just(1 - 1e-9), gen.log_uniform(1e-9, 1.0)))
        case["alpha"] = draw(st.floats(0.0, 1.0, allow_nan=False))
        case["over"] = draw(st.one_of(st.just(1 + 1e-9), gen.log_uniform(1.0 + 1e-9, 1e3)))
    elif kind == "reject":
        case["T"] = draw(gen.log_uniform(1e-9, 1e3))
        case["bad"] = draw(st.sampled_from(BAD_CLASSES))
    else:
        case["Ts"] = draw(st.lists(_periods(), min_size=1, max_size=12))
        case["c"] = draw(st.sampled_from(["array", "list"]))
    return case


def _on_boundary(T, cls):
    return any(T == b for b in BOUNDS[cls])


def _crosses(T1, T2, cls):
    """A tabulated boundary lies in the closed interval [T1, T2]."""
    return any(T1 <= b <= T2 for b in BOUNDS[cls])


c_h = _quiet(ds.c_h_factor)
sd_nzs = _quiet(ds.sd_nzs)
t_eff = _quiet(ds.t_eff)


@clause(CLAUSES, "nzs1170", _nzs_cases(), quick=800, thorough=5000,
        rule="site classes C, D, E; Z, N, R log-uniform [0.01,10] or code-typical triples; T from {0, log-uniform [1e-9,1e4], "
             "U[0,4], tabulated boundaries x {1-1e-9, 1-ulp, 1, 1+ulp, 1+1e-9}}; sub-checks identity / boundary limits / "
             "monotonicity / t_eff / rejection / array form; non-trivial = every case (each evaluates the tables)",
        oracle="metamorphic: sd_nzs == c_h_factor*T^2*Z*N*R (1e-12; 1 % exactly on a boundary); one-sided limits at T_b(1+-1e-9) "
               "within 1 %; C_h non-increasing beyond the plateau and S_d non-decreasing (exact within a segment, 1 % across); "
               "t_eff(d) = 3 d / (sd_nzs(3)*g/(2 pi)^2), linear, ValueError above d_c, for T<0 and unknown classes; array == scalars",
        require={"kind=identity": 0.1, "kind=boundary": 0.05, "kind=monotone": 0.05, "kind=teff": 0.03, "kind=reject": 0.03,
                 "kind=array": 0.03, "T=0": 0.02, "T>=3": 0.04, "near-boundary": 0.03, "beyond-plateau": 0.02})
def nzs1170(case, ctx):
    cls, Z, N, R = case["cls"], case["Z"], case["N"], case["R"]
    kind = case["kind"]
    ctx.cls("kind=" + kind, "class=" + cls)
    ctx.nt(True)
    zrn = (Z, R, N)  # sd_nzs / t_eff argument order: z_factor, r_factor, n_factor

    def tcls(T):
        ctx.cls("T=0" if T == 0 else None, "T>=3" if T >= 3 else None, "T<0.1" if 0 < T < 0.1 else None,
                "near-boundary" if any(abs(T - b) <= 2e-9 * b for b in BOUNDS[cls]) else None)

    if kind == "identity":
        T = case["T"]
        tcls(T)
        sd = ctx.lib(sd_nzs, T, cls, *zrn)
        ch = ctx.lib(c_h, T, cls)
        ctx.check(np.ndim(ch) == 0, "c_h_factor(float) returned a non-scalar: %r" % (ch,))
        expect = LD(ch) * LD(T) * LD(T) * LD(Z) * LD(N) * LD(R)
        # the statement's identity S_d = C_h(T)*T^2*Z*N*R is universally quantified over T >= 0: it is asserted exactly at the
        # tabulated boundaries as well (both functions must put a boundary on the same side)
        rel = 1e-12
        if _on_boundary(T, cls):
            ctx.cls("identity-on-boundary")
        ctx.close(sd, expect, rel * abs(float(expect)), "sd_nzs(T=%r, %s) vs c_h_factor*T^2*Z*N*R" % (T, cls))
        ctx.check(ch > 0 and np.isfinite(ch), "c_h_factor(%r, %s) = %r is not a positive finite number" % (T, cls, ch))
        # np.float64 scalar is a float too
        ch2 = ctx.lib(c_h, np.float64(T), cls)
        ctx.check(ch2 == ch, "c_h_factor(np.float64(T)) %r != c_h_factor(float T) %r" % (ch2, ch))
    elif kind == "boundary":
        delta = case.get("delta", 1e-9)
        for b in [0.0] + BOUNDS[cls]:   # 0 = limit T -> 0+, then the tabulated segment boundaries of the class
            if b == 0.0:
                lo_T, hi_T = 0.0, delta
            else:
                lo_T, hi_T = b * (1 - delta), b * (1 + delta)
            fns_ = [("c_h_factor", lambda T: ctx.lib(c_h, T, cls))]
            if b > 0:
                fns_.append(("sd_nzs", lambda T: ctx.lib(sd_nzs, T, cls, *zrn)))
            else:
                # S_d -> 0 like T^2: a relative comparison is meaningless there; S_d(0) is exactly 0
                ctx.check(ctx.lib(sd_nzs, 0.0, cls, *zrn) == 0, "sd_nzs(0) is not 0")
            if b > 0:
                # the identity also holds exactly ON the boundary (both functions put it on the same side)
                exp_b = LD(ctx.lib(c_h, b, cls)) * LD(b) * LD(b) * LD(Z) * LD(N) * LD(R)
                ctx.close(ctx.lib(sd_nzs, b, cls, *zrn), exp_b, 1e-12 * abs(float(exp_b)),
                          "sd_nzs(T=%r, %s) vs c_h_factor*T^2*Z*N*R exactly on a tabulated boundary" % (b, cls))
            for name, f in fns_:
                lo, at, hi = f(lo_T), f(b), f(hi_T)
                big = max(abs(lo), abs(hi))
                ctx.check(abs(hi - lo) <= TABLE_PRECISION * big,
                          "%s (%s) jumps across T=%g: %r below, %r above (> 1 %%)" % (name, cls, b, lo, hi))
                ctx.check(min(lo, hi) - TABLE_PRECISION * big <= at <= max(lo, hi) + TABLE_PRECISION * big,
                          "%s (%s) at T=%g is %r, outside its one-sided limits %r, %r" % (name, cls, b, at, lo, hi))
    elif kind == "monotone":
        T1, T2 = sorted([case["T"], case["T2"]])
        tcls(T1)
        tcls(T2)
        if T1 == T2:
            ctx.cls("T1=T2")
            return
        slack = TABLE_PRECISION if _crosses(T1, T2, cls) else 16 * EPS
        ctx.cls("crosses-boundary" if _crosses(T1, T2, cls) else "same-segment")
        s1 = ctx.lib(sd_nzs, T1, cls, *zrn)
        s2 = ctx.lib(sd_nzs, T2, cls, *zrn)
        ctx.check(s2 >= s1 * (1 - slack), "sd_nzs (%s) decreases from T=%r (%r) to T=%r (%r)" % (cls, T1, s1, T2, s2))
        if T1 >= PLATEAU_END[cls]:
            ctx.cls("beyond-plateau")
            c1 = ctx.lib(c_h, T1, cls)
            c2 = ctx.lib(c_h, T2, cls)
            ctx.check(c2 <= c1 * (1 + slack), "c_h_factor (%s) increases beyond the plateau: T=%r -> %r, T=%r -> %r" % (
                cls, T1, c1, T2, c2))
    elif kind == "teff":
        d_c = float(ctx.lib(sd_nzs, 3.0, cls, *zrn)) * G / (2 * math.pi) ** 2
        frac = min(case["frac"], 1 - 1e-9)
        d = frac * d_c
        t = ctx.lib(t_eff, d, cls, *zrn)
        ctx.close(t, 3.0 * LD(d) / LD(d_c), 3e-12, "t_eff(%r) vs 3*d/d_c, d_c=%r (%s)" % (d, d_c, cls))
        al = case["alpha"]
        t2 = ctx.lib(t_eff, al * d, cls, *zrn)
        ctx.close(t2, LD(al * d) / LD(d) * LD(t) if d > 0 else 0.0, 3e-12, "t_eff linearity: t_eff(alpha*d) vs alpha*t_eff(d)")
        ctx.raises(ValueError, t_eff, d_c * case["over"], cls, *zrn)
        ctx.cls("frac=0" if frac == 0 else None)
        # corner: the largest admissible displacement maps to (just under) the corner period 3 s
        t3 = ctx.lib(t_eff, d_c * (1 - 1e-9), cls, *zrn)
        ctx.check(abs(t3 - 3.0) <= 1e-8, "t_eff just below the corner displacement is %r, expected 3 s" % (t3,))
    elif kind == "reject":
        T = case["T"]
        ctx.raises(ValueError, c_h, -T, cls)
        ctx.raises(ValueError, sd_nzs, -T, cls, *zrn)
        ctx.raises(ValueError, c_h, np.array([T, -T, 1.0]), cls)
        ctx.raises(ValueError, c_h, [T, 1.0, -T], cls)
        ctx.raises(ValueError, c_h, T, case["bad"])
        ctx.raises(ValueError, c_h, np.array([T, 2 * T]), case["bad"])
        ctx.raises(ValueError, sd_nzs, T, case["bad"], *zrn)
        ctx.raises(ValueError, t_eff, 0.0, case["bad"], *zrn)
        d_c = float(ctx.lib(sd_nzs, 3.0, cls, *zrn)) * G / (2 * math.pi) ** 2
        ctx.raises(ValueError, t_eff, d_c * (1 + T), cls, *zrn)
    else:
        Ts = [float(t) for t in case["Ts"]]
        for t in Ts:
            tcls(t)
        arg = np.array(Ts) if case["c"] == "array" else list(Ts)
        out = np.asarray(ctx.lib(c_h, arg, cls))
        ctx.shape(out, (len(Ts),), "c_h_factor(array)")
        one = np.array([ctx.lib(c_h, t, cls) for t in Ts])
        ctx.equal(out, one, "c_h_factor(array) vs element-wise scalar calls")
        if case["c"] == "array":
            ctx.equal(arg, np.array(Ts), "period array mutated")


# -- exhaustive continuity scan over a geometric period grid -----------------


def _scan_cases(tier, shard, nshards):
    h = 2e-4 if tier == "quick" else 5e-5
    chunks = 24
    lo, hi = math.log(1e-4), math.log(1e2)
    k = 0
    for cls in ("C", "D", "E"):
        for c in range(chunks):
            if k % nshards == shard:
                yield {"cls": cls, "lo": math.exp(lo + (hi - lo) * c / chunks), "hi": math.exp(lo + (hi - lo) * (c + 1) / chunks),
                       "h": h}
            k += 1


@enum_clause(CLAUSES, "nzs1170-scan", _scan_cases,
             rule="for each site class the period range [1e-4, 1e2] s in 24 chunks of a geometric grid with ratio 1+h "
                  "(h=2e-4 quick, 5e-5 thorough), chunks overlap by one point",
             oracle="continuity to table precision everywhere (not only at the tabulated boundaries): neighbouring grid values "
                    "of c_h_factor and sd_nzs differ by < 1 % (2h slope allowance + largest tabulated jump 0.4 %); identity "
                    "sd_nzs == c_h_factor*T^2 at every grid point; array form == scalar form",
             exhaustive_note="every point of the geometric grid 1e-4..1e2 s (ratio 1+h) for classes C, D, E",
             quick_shards=4)
def nzs1170_scan(case, ctx):
    cls = case["cls"]
    h = case["h"]
    npts = int(math.ceil(math.log(case["hi"] / case["lo"]) / math.log1p(h))) + 2
    T = case["lo"] * (1.0 + h) ** np.arange(npts)
    ctx.cls("class=" + cls)
    ctx.nt(True)
    ch = np.asarray(ctx.lib(c_h, T, cls), dtype=float)
    ctx.shape(ch, (npts,), "c_h_factor(grid)")
    ctx.check(bool(np.all(np.isfinite(ch)) and np.all(ch > 0)), "c_h_factor not positive finite on the grid")
    rel = np.abs(np.diff(ch)) / np.maximum(ch[1:], ch[:-1])
    i = int(np.argmax(rel))
    ctx.check(rel[i] < TABLE_PRECISION, "c_h_factor (%s) jumps by %.3g %% between T=%r and T=%r: %r -> %r" % (
        cls, 100 * rel[i], T[i], T[i + 1], ch[i], ch[i + 1]))
    sd = np.array([ctx.lib(sd_nzs, float(t), cls, 1.0, 1.0, 1.0) for t in T], dtype=float)
    rel = np.abs(np.diff(sd)) / np.maximum(sd[1:], sd[:-1])
    i = int(np.argmax(rel))
    ctx.check(rel[i] < TABLE_PRECISION, "sd_nzs (%s) jumps by %.3g %% between T=%r and T=%r: %r -> %r" % (
        cls, 100 * rel[i], T[i], T[i + 1], sd[i], sd[i + 1]))
    onb = np.array([_on_boundary(float(t), cls) for t in T])
    expect = ch * T * T
    ctx.close(sd, expect, 1e-12 * np.abs(expect), "sd_nzs vs c_h_factor*T^2 on the grid (%s)" % cls)
    step = max(1, npts // 40)
    one = np.array([ctx.lib(c_h, float(t), cls) for t in T[::step]])
    ctx.equal(ch[::step], one, "c_h_factor(array) vs scalar calls on the grid")
