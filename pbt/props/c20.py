"""C20 - interpolation, rolling average, step-fit and NZS 1170.5 design-spectrum helpers match their definitions."""
import contextlib
import hashlib
import io
import math
import os

import numpy as np
from hypothesis import strategies as st

import eqsig
from eqsig import design_spectra as ds

from pbt import gen
from pbt.core import clause, enum_clause, HarnessError

PROPERTY = "C20"
CLAUSES = []
ASSUMPTIONS = [
    "interp2d: x, xf, f are ndarrays (the function indexes them; the repo's tests pass ndarrays), f is 2-D (len(xf), m); "
    "'monotone node sets' is read as strictly increasing (np.interp's convention; the pinned code brackets wrongly on decreasing "
    "nodes - reported, not checked); 1 <= len(xf) <= 12 in the random clause, 13 .. 5000 nodes x 9 .. 3e5 queries x 1 .. 40 columns "
    "in the mid-range enumeration; node spacing >= 1e-9 absolute and >= 1e-6*span (the code clips denominators at 1e-10: node "
    "sets spaced closer than that are outside the explored domain), |nodes| <= 3e6, |f| <= 1e3",
    "interp2d tolerance: 1e-12*(|f_lo|+|f_hi|) of the bracketing rows, also on nodes and outside (an implementation need not "
    "be bit-exact there)",
    "interp_left: nodes non-decreasing; for repeated nodes the value at any of the equal greatest nodes is accepted; at "
    "least one query; queries are python/NumPy scalars, lists or ndarrays; a query below the first node has no 'greatest node "
    "not exceeding the query': the call must raise (any exception class) rather than return a value",
    "rolling average: for even window sizes 'centred' is ambiguous; either of the two placements (floor(steps/2) samples "
    "before, or floor(steps/2) after) is accepted provided the same one is used for every sample; steps is an int (python or "
    "NumPy) in 1..len; bound eps*sum|extended series| + 4*eps*max|v| (cumulative-sum differencing: the two prefix sums share "
    "all rounding errors but the last `steps`, each <= eps/2*|prefix|); on dyadic / integer data (every partial sum exact in any "
    "order) the bound of a direct or convolution-type evaluation, (steps+4)*eps*sum|window|/steps per sample",
    "step-fit: 1 <= n <= 1400 in the random clause, 151 .. 8200 (thorough 10500) in the mid-range enumeration (the code builds "
    "n x n triangles), scale = n*max|v|^p, tolerance 1e-10*scale (rigorous bound of the zero-padded formulation ~ c*eps*n*scale)",
    "step-fit `dir` is a documented option (docstring: 'down' -> all upward steps are set to 10x the maximum error, 'up' -> all "
    "downward steps), so the documented domain of the statement includes it; the docstring does not say whether the split sample "
    "belongs to the compared means, so an entry must be penalised (10*max error) only when every reading (pre with/without the "
    "split sample vs post with/without it) agrees the step goes the unwanted way, must be left alone when every reading says it "
    "goes the wanted way, and may be either otherwise (incl. the last, no-step entry); means closer than 1e-9*max|v| are ambiguous",
    "calc_step_fn_steps_vals: 1 <= ind <= n-2 (both sides non-empty); with ind=None the split of minimal error for pow=1 OR "
    "pow=2 is accepted (the statement does not say which power selects the split); when a minimiser lies at an end (a side is "
    "empty) the call may raise or return nan for that side",
    "nzs1170: T in {0} U [1e-9, 1e4] python floats / float ndarrays / lists, Z, N, R in [0.01, 10], g = 9.81 as in the module; "
    "the identity S_d = C_h*T^2*Z*N*R is asserted to 1e-12 relative for every T, exactly on the tabulated boundaries too (the "
    "statement quantifies over all T >= 0, so both functions must put a boundary on the same side); python-int / NumPy-int / "
    "NumPy-float32 periods for c_h_factor and array / list periods for sd_nzs (they raised before the repairs 74419a1 / 3a847d0) "
    "are fixed findings C20-F2 / C20-F3 and are checked: a np.float32 period means its exact double value)",
    "nzs1170 'table precision' = the three significant figures of the tabulated coefficients: a relative jump of at most 0.5 % "
    "(largest tabulated jump 0.40 %, class D at 0.56 s); continuity scan: |dlnC_h/dlnT| <= 2 and |dlnS_d/dlnT| <= 3 on every "
    "segment, so neighbouring grid points a factor (1+h) apart differ by at most 0.5 % + 2.05h (3.05h)",
    "nzs1170: rejection (T < 0, unknown class, d > d_c) is asserted as 'raises some exception'; array results agree with the "
    "scalar calls to 4 eps (a vectorised implementation may round differently); the container of a scalar result is free",
    "t_eff: 0 <= d; exactly d == d_c is ambiguous (d_c is recomputed with a different operation order), so rejection is "
    "tested at d_c*(1+1e-9) and acceptance at d <= d_c*(1-1e-9)",
    "purity of the arguments is property C05's claim and is not asserted here",
]
EPS = np.finfo(float).eps
LD = np.longdouble
KF_INT = "C20-KF1"   # integer input: result allocated with the input's integer dtype (truncation)


# ---------------------------------------------------------------------------
# small helpers


def _quiet(fn):
    """The design-spectrum module prints before raising; keep the runner's stdout clean."""
    def inner(*a, **k):
        with contextlib.redirect_stdout(io.StringIO()):
            return fn(*a, **k)
    inner.__name__ = getattr(fn, "__name__", "fn")
    return inner


@st.composite
def _nodes(draw, min_n=1, max_n=12, allow_dup=False):
    style = draw(st.sampled_from(["int", "dyadic", "float", "float", "tight", "close"]))
    n = draw(st.one_of(st.integers(min_n, max_n), st.integers(max(min_n, 3), max_n)))
    if style == "close":
        # node spacing 1e-9 .. 1e-5 (the statement says ALL monotone node sets; the pinned code's weight guard sits at 1e-10)
        return {"style": "float", "x0": draw(st.floats(-1e3, 1e3, allow_nan=False)),
                "unit": 10.0 ** draw(st.integers(-9, -6)) * draw(st.floats(1.0, 10.0, allow_nan=False)),
                "gaps": draw(st.lists(gen.log_uniform(1.0, 30.0), min_size=n - 1, max_size=n - 1))}
    if style in ("int", "dyadic"):
        return {"style": style, "start": draw(st.integers(-50, 50)),
                "gaps": draw(st.lists(st.integers(0, 3) if allow_dup else st.integers(1, 8), min_size=n - 1, max_size=n - 1)),
                "j": 0 if style == "int" else draw(st.integers(1, 6))}
    # the unit is drawn by decade first (every decade 1e-3 .. 1e3 equally often): node spacings from 2e-5 to 1e5
    dec = draw(st.sampled_from([-3, -2, -1, 0, 1, 2]))
    tight = style == "tight"   # closely spaced nodes: every spacing between 2e-5 and 1e-3
    return {"style": "float", "x0": draw(st.floats(-1e3, 1e3, allow_nan=False)),
            "unit": 1e-3 if tight else 10.0 ** dec * draw(st.floats(1.0, 10.0, allow_nan=False)),
            "gaps": draw(st.lists(gen.log_uniform(2e-2, 1.0 if tight else 1e2), min_size=n - 1, max_size=n - 1))}


def _build_nodes(spec):
    if spec["style"] in ("int", "dyadic"):
        ints = np.concatenate([[spec["start"]], spec["start"] + np.cumsum(np.array(spec["gaps"], dtype=np.int64))]).astype(np.int64)
        if spec["style"] == "int":
            return ints
        return ints.astype(float) * 2.0 ** (-spec["j"])
    g = np.concatenate([[0.0], np.cumsum(np.array(spec["gaps"], dtype=float))])
    return spec["unit"] * (spec["x0"] + g)


def _queries(min_size=1, max_size=8, kinds=("node", "frac", "mid", "left", "right")):
    q = st.tuples(st.sampled_from(kinds), st.integers(0, 11),
                  st.one_of(st.floats(0.0, 1.0, exclude_min=True, exclude_max=True, allow_nan=False),
                            gen.log_uniform(1e-6, 10.0))).map(list)
    return st.lists(q, min_size=min_size, max_size=max_size)


def _build_queries(qs, xf):
    n = len(xf)
    span = float(xf[-1] - xf[0])
    unit = span if span > 0 else 1.0
    out = []
    for kind, i, t in qs:
        if kind == "node" or (n == 1 and kind in ("frac", "mid")):
            out.append(float(xf[i % n]))
        elif kind == "frac":
            j = i % (n - 1)
            tt = t if t < 1 else 1.0 / (1.0 + t)
            out.append(float(xf[j]) + tt * (float(xf[j + 1]) - float(xf[j])))
        elif kind == "mid":
            j = i % (n - 1)
            out.append(0.5 * (float(xf[j]) + float(xf[j + 1])))
        elif kind == "left":
            out.append(float(xf[0]) - t * unit)
        elif kind == "right":
            out.append(float(xf[-1]) + t * unit)
        else:
            raise ValueError(kind)
    return np.array(out, dtype=float)


def _query_classes(x, xf):
    labs = set()
    for q in x:
        if q < xf[0]:
            labs.add("left-out")
        elif q > xf[-1]:
            labs.add("right-out")
        elif np.any(xf == q):
            labs.add("on-node")
        else:
            labs.add("inside")
    return labs


# ---------------------------------------------------------------------------
# 1. interp2d


def _ref_interp2d(x, xf, f):
    """Column-wise linear interpolation with end clamping, as loops, in long double.  Returns (values, |f_lo|+|f_hi|)."""
    nx, m = len(x), f.shape[1]
    out = np.zeros((nx, m), dtype=LD)
    mag = np.zeros((nx, m))
    n = len(xf)
    for q in range(nx):
        xq = x[q]
        if xq <= xf[0]:
            j0 = j1 = 0
        elif xq >= xf[n - 1]:
            j0 = j1 = n - 1
        else:
            j0 = 0
            for k in range(n):
                if xf[k] <= xq:
                    j0 = k
            j1 = j0 + 1
        for c in range(m):
            lo, hi = LD(f[j0, c]), LD(f[j1, c])
            if j0 == j1:
                out[q, c] = lo
            else:
                w = (LD(xq) - LD(xf[j0])) / (LD(xf[j1]) - LD(xf[j0]))
                out[q, c] = lo + w * (hi - lo)
            mag[q, c] = abs(float(lo)) + abs(float(hi))
    return out, mag


def _validate_interp_reference():
    """Oracle guard: the loop reference must agree with numpy.interp on a fixed table."""
    xf = np.array([-1.0, 0.0, 0.5, 2.0, 7.0])
    f = np.array([[0.0, 3.0], [1.0, -1.0], [4.0, 2.0], [4.0, 8.0], [-2.0, 0.5]])
    x = np.array([-3.0, -1.0, -0.25, 0.0, 0.3, 1.99, 2.0, 6.0, 7.0, 9.0])
    ref, _ = _ref_interp2d(x, xf, f)
    for c in range(2):
        if not np.max(np.abs(np.asarray(ref[:, c], dtype=float) - np.interp(x, xf, f[:, c]))) < 1e-14:
            raise HarnessError("C20 interp2d reference disagrees with numpy.interp")


_validate_interp_reference()


@st.composite
def _interp2d_cases(draw):
    nodes = draw(_nodes(1, 12))
    n = len(nodes["gaps"]) + 1
    m = draw(st.integers(1, 4))
    fint = draw(st.sampled_from([False, False, False, True]))
    el = st.integers(-20, 20) if fint else st.one_of(st.floats(-1e3, 1e3, allow_nan=False, allow_subnormal=False),
                                                     st.integers(-8, 8).map(float))
    f = draw(st.lists(st.lists(el, min_size=m, max_size=m), min_size=n, max_size=n))
    return {"nodes": nodes, "f": f, "fint": fint, "q": draw(_queries(1, 8, ("frac", "node", "frac", "mid", "left", "right"))), "xint": draw(st.booleans()),
            "args_as": draw(st.sampled_from(["array", "array", "list", "tuple", "mixed"])),
            "fdtype": draw(st.sampled_from(["int64", "int64", "int16", "int8", "int32"]))}


@clause(CLAUSES, "interp2d", _interp2d_cases(), quick=800, thorough=5000,
        rule="1-12 strictly increasing nodes (integer / dyadic / float with gaps over 4 decades, unit 1e-3..1e3), 1-4 columns "
             "(float or integer table; spacing 1e-9 .. 1e5), 1-8 queries drawn as on-node / fractional / exact midpoint / left outside / right outside; "
             "non-trivial = some query strictly between two nodes whose rows differ",
        oracle="reference model: loop over queries and columns, bracket by linear scan, long-double linear interpolation with end "
               "clamping (validated against numpy.interp at import); tolerance 1e-12*(|f_lo|+|f_hi|)",
        require={"inside": 0.3, "on-node": 0.3, "left-out": 0.12, "right-out": 0.12, "f-int": 0.08, "x-int": 0.02,
                 "query-in-gap<1e-3": 0.02, "query-in-gap<1e-5": 0.03, "args=list": 0.08, "args=tuple": 0.08, "f-narrow-int": 0.04})
def interp2d(case, ctx):
    xf = _build_nodes(case["nodes"])
    n = len(xf)
    if n > 1:
        gaps = np.diff(xf.astype(float))
        if not (np.all(gaps > 0) and gaps.min() >= 1e-6 * float(xf[-1] - xf[0]) and gaps.min() >= 0.9e-9):
            raise HarnessError("interp2d generator left its stated domain: %r" % (xf,))
    x = _build_queries(case["q"], xf)
    if case.get("xint") and xf.dtype.kind == "i":
        x = np.round(x).astype(np.int64)  # integer queries against integer nodes (gaps up to 8: interior integers exist)
        ctx.cls("x-int")
    f = np.array(case["f"], dtype=np.int64 if case["fint"] else float)
    m = f.shape[1]
    labs = _query_classes(x, xf)
    ctx.cls(*sorted(labs))
    ctx.cls("nodes=" + case["nodes"]["style"], "f-int" if case["fint"] else "f-float", "n=1" if n == 1 else None)
    if n > 1 and any(xf[j] < q < xf[j + 1] and xf[j + 1] - xf[j] < 1e-3 for q in x for j in range(n - 1)):
        ctx.cls("query-in-gap<1e-3")
    if n > 1 and any(xf[j] < q < xf[j + 1] and xf[j + 1] - xf[j] < 1e-5 for q in x for j in range(n - 1)):
        ctx.cls("query-in-gap<1e-5")
    if any(k == "mid" for k, _, _ in case["q"]) and n > 1:
        ctx.cls("midpoint")
    if case["fint"] and case.get("fdtype", "int64") != "int64":
        f = f.astype(case["fdtype"])   # |f| <= 20: narrow integer tables hold the same values
        ctx.cls("f-narrow-int")
    how = case.get("args_as", "array")
    ctx.cls("args=" + how)
    if how == "list":      # array_like arguments (fixed finding C20-F4)
        out = ctx.lib(eqsig.fns.interp2d, x.tolist(), xf.tolist(), f.tolist())
    elif how == "tuple":
        out = ctx.lib(eqsig.fns.interp2d, tuple(x.tolist()), tuple(xf.tolist()), tuple(tuple(r) for r in f.tolist()))
    elif how == "mixed":
        out = ctx.lib(eqsig.fns.interp2d, x.tolist(), xf, f.tolist())
    else:
        out = ctx.lib(eqsig.fns.interp2d, x, xf, f)
    out = np.asarray(out)
    ctx.shape(out, (len(x), m), "interp2d result")
    ref, mag = _ref_interp2d(x, xf, f)
    nt = False
    for q in range(len(x)):
        if xf[0] < x[q] < xf[-1] and not np.any(xf == x[q]):
            j = int(np.max(np.nonzero(xf <= x[q])[0]))
            if np.any(f[j] != f[j + 1]):
                nt = True
    ctx.nt(nt)
    ctx.close(out, ref, 1e-12 * mag, "interp2d vs column-wise linear interpolation with end clamping (x=%r, xf=%r)" % (
        x.tolist(), xf.tolist()))


# ---------------------------------------------------------------------------
# 2. interp_left


@st.composite
def _interp_left_cases(draw):
    nodes = draw(_nodes(1, 12, allow_dup=draw(st.booleans())))
    n = len(nodes["gaps"]) + 1
    ykind = draw(st.sampled_from(["none", "float", "int"]))
    y = None
    if ykind == "float":
        y = draw(st.lists(st.floats(-1e3, 1e3, allow_nan=False), min_size=n, max_size=n))
    elif ykind == "int":
        y = draw(st.lists(st.integers(-100, 100), min_size=n, max_size=n))
    below = draw(st.sampled_from([False, True, False]))
    kinds = ("node", "frac", "mid", "right", "left") if below else ("node", "node", "frac", "mid", "right")
    return {"nodes": nodes, "y": y, "q": draw(_queries(1, 8, kinds)), "scalar": draw(st.booleans()),
            "xc": draw(st.sampled_from(["list", "array"])), "qc": draw(st.sampled_from(["list", "array", "np", "py", "tuple"])),
            "yc": draw(st.sampled_from(["list", "array"]))}


@clause(CLAUSES, "interp-left", _interp_left_cases(), quick=800, thorough=5000,
        rule="1-12 non-decreasing nodes (half of the integer/dyadic node sets may repeat nodes), y in {None, floats, ints}, 1-8 queries on "
             "nodes / between / beyond the last node / (1/3 of cases, one kind in five) below the first node; scalar (python or NumPy) and list/ndarray "
             "queries, list/ndarray nodes; non-trivial = >= 2 nodes and a query at or above the second node, or a rejection",
        oracle="reference model: linear scan for the greatest node <= query, value equality (exact); any query below x[0] -> "
               "some exception, the remaining queries are then checked on their own",
        require={"on-node": 0.3, "inside": 0.15, "right-out": 0.08, "rejects": 0.04, "scalar": 0.12, "y-none": 0.15, "dup-nodes": 0.02})
def interp_left(case, ctx):
    xf = _build_nodes(case["nodes"])
    n = len(xf)
    x0 = _build_queries(case["q"], xf)
    scalar = bool(case["scalar"])
    if scalar:
        x0 = x0[:1]
    if xf.dtype.kind == "i" and np.all(x0 == np.round(x0)) and case["qc"] in ("list", "py"):
        x0 = x0.astype(np.int64)
    labs = _query_classes(x0, xf)
    ctx.cls(*sorted(labs))
    ctx.cls("scalar" if scalar else "array", "y-none" if case["y"] is None else "y-given",
            "dup-nodes" if n > 1 and np.any(np.diff(xf) == 0) else None, "nodes=" + case["nodes"]["style"])
    x_arg = xf.tolist() if case["xc"] == "list" else xf.copy()
    if scalar:
        q_arg = x0[0].item() if case["qc"] in ("list", "py") else x0[0]
    else:
        q_arg = x0.tolist() if case["qc"] in ("list", "py") else (tuple(x0.tolist()) if case["qc"] == "tuple" else x0.copy())
    y = case["y"]
    y_arg = None if y is None else (list(y) if case["yc"] == "list" else np.array(y))
    if y is not None and isinstance(y_arg, np.ndarray) and y_arg.dtype.kind == "i" and n % 2 == 0:
        y_arg = y_arg.astype(["int8", "int16", "int32"][n // 2 % 3])   # |y| <= 100: same values in a narrow integer dtype
        ctx.cls("y-narrow-int")
    yv = list(range(n)) if y is None else list(y)
    if "left-out" in labs:
        # no node <= query exists: the call must not return a value (any exception class); the other queries are then
        # evaluated on their own
        ctx.cls("rejects")
        ctx.nt(True)
        ctx.raises(Exception, eqsig.fns.interp_left, q_arg, x_arg, y_arg)
        x0 = x0[x0 >= xf[0]]
        if scalar or len(x0) == 0:
            return
        ctx.cls("rejects-then-rest")
        q_arg = x0.tolist() if case["qc"] in ("list", "py") else (tuple(x0.tolist()) if case["qc"] == "tuple" else x0.copy())
    out = ctx.lib(eqsig.fns.interp_left, q_arg, x_arg, y_arg)
    if scalar:
        ctx.check(np.ndim(out) == 0, "scalar query returned a non-scalar %r" % (out,))
        got = [out]
    else:
        out = np.asarray(out)
        ctx.shape(out, (len(x0),), "interp_left result")
        got = list(out)
    for k, q in enumerate(x0):
        j = -1
        for i in range(n):
            if xf[i] <= q:
                j = i
        if j < 0:
            raise HarnessError("interp-left oracle: query below first node not classified")
        allowed = [i for i in range(n) if xf[i] == xf[j]]
        if j >= 1:
            ctx.nt(True)
        ctx.check(any(got[k] == yv[i] for i in allowed),
                  "interp_left(%r) over nodes %r: got %r, value at the greatest node <= query is %r (index %d)" % (
                      q, xf.tolist(), got[k], yv[j], j))


# ---------------------------------------------------------------------------
# 3. rolling average


_MODES = ["forward", "backward", "centre", "center"]


@st.composite
def _roll_cases(draw):
    min_n = draw(st.sampled_from([1, 2, 4, 4, 8, 8, 16]))
    spec = draw(gen.record_specs(min_n=min_n, max_n=1500, small_max=max(24, min_n), allow_int=True))
    n = len(gen.build(spec))
    which = draw(st.sampled_from(["one", "len", "small", "any", "any", "any", "any", "any"]))
    if which == "one":
        steps = 1
    elif which == "len":
        steps = n
    elif which == "small":
        steps = draw(st.integers(1, min(n, 6)))
    else:
        steps = draw(st.integers(1, n).map(lambda k, n=n: n + 1 - k))  # shrinks towards len, not towards 1
    return {"rec": spec, "steps": steps, "mode": draw(st.sampled_from(_MODES)), "defaults": draw(st.booleans()),
            "narrow": draw(st.sampled_from([None, None, None, None, None, "int16", "int32", "int8"]))}


def _window_offsets(mode, steps):
    """Candidate (first, last) offsets of the window relative to the current sample."""
    if mode == "forward":
        return [(0, steps - 1)]
    if mode == "backward":
        return [(-(steps - 1), 0)]
    s = steps // 2
    cands = [(-s, steps - s - 1)]
    if steps % 2 == 0:
        cands.append((-(steps - s - 1), s))
    return cands


@clause(CLAUSES, "rolling-average", _roll_cases(), quick=800, thorough=5000,
        rule="records of all kinds (n 1..1500, float / int / list), steps in {1, len, 1..6, U(1..len)}, the four mode strings; "
             "non-trivial = steps >= 2 and the record is not constant",
        oracle="reference model: loop over samples, long-double mean over the window with indices clamped to the ends "
               "(edge replication); bound eps*sum|extended series| + 4 eps max|v|, (steps+4) eps sum|window|/steps on dyadic / integer data; "
               "length kept",
        require={"mode=forward": 0.08, "mode=backward": 0.08, "mode=centre": 0.08, "mode=center": 0.08,
                 "steps=len": 0.1, "steps=1": 0.1, "even-steps": 0.15, "exact-dyadic": 0.1, "narrow=int16": 0.03})
def rolling_average(case, ctx):
    spec = case["rec"]
    arg = gen.as_container(spec, gen.build(spec))
    v = np.array(arg, dtype=float)  # what the library sees
    if case.get("narrow"):
        # raw counts in a narrow integer dtype using its full range (gen.narrow_int): the mean is over the exact values
        arg, v = gen.narrow_int(gen.build(spec), case["narrow"])
        ctx.cls("narrow=" + case["narrow"])
    n = len(v)
    steps = int(case["steps"])
    mode = case["mode"]
    if not 1 <= steps <= n:
        raise HarnessError("rolling-average generator: steps %d outside 1..%d" % (steps, n))
    vmax = float(np.max(np.abs(v)))
    # exact: every partial sum is a small integer multiple of a power of two
    exact = bool(spec["k"] == "dyadic" or spec.get("as") == "int" or case.get("narrow"))
    ctx.cls("kind=" + spec["k"], gen.size_class(n), "mode=" + mode, "steps=1" if steps == 1 else None,
            "steps=len" if steps == n else None, "even-steps" if steps % 2 == 0 else "odd-steps",
            "exact-dyadic" if exact else None, ("as=" + spec["as"]) if spec.get("as") else None)
    ctx.nt(steps >= 2 and bool(np.any(v != v[0])))
    steps_arg = np.int64(steps) if (n + steps) % 4 == 0 else steps   # a NumPy integer is an int too
    if mode == "forward" and case.get("defaults"):
        out = ctx.lib(eqsig.fns.calc_roll_av_vals, arg, steps_arg)  # mode defaults to forward
    else:
        out = ctx.lib(eqsig.fns.calc_roll_av_vals, arg, steps_arg, mode=mode)
    out = np.asarray(out)
    ctx.shape(out, (n,), "rolling average (length kept)")
    vl = v.astype(LD)
    tol_abs = EPS * (float(np.sum(np.abs(v))) + (steps - 1) * vmax) + 4 * EPS * vmax
    msgs = []
    for a, b in _window_offsets(mode, steps):
        # direct windowed sums (not the library's cumulative-sum differencing): indices clamped = edge values replicated
        offs = np.arange(a, b + 1)
        wsum = np.zeros(n, dtype=LD)
        wabs = np.zeros(n)
        for i in range(n):
            win = vl[np.clip(i + offs, 0, n - 1)]
            wsum[i] = np.sum(win)
            wabs[i] = float(np.sum(np.abs(win)))
        if exact:
            # every partial sum of the data is exact in double whatever the order, so a cumulative-sum differencing commits
            # only the division; an implementation that multiplies by 1/steps before adding (np.convolve, a uniform filter)
            # commits up to (steps+1)/2 roundings of eps*|x_j|/steps each: bound (steps+4)*eps*sum|window|/steps
            expect = wsum / LD(steps)
            tol = (steps + 4) * EPS * wabs / steps
        else:
            expect = wsum / LD(steps)
            tol = np.full(n, tol_abs)
        d = np.abs(out.astype(LD) - expect)
        bad = ~(d <= tol)
        if not np.any(bad):
            break
        i = int(np.argmax(bad))
        msgs.append("window [i%+d, i%+d]: sample %d got %r expected %r (tol %.3g)" % (a, b, i, out[i], float(expect[i]), tol[i]))
    else:
        ctx.fail("calc_roll_av_vals(n=%d, steps=%d, mode=%r) is not the edge-replicated window mean: %s" % (
            n, steps, mode, "; ".join(msgs)))


# ---------------------------------------------------------------------------
# 4. step-fit


@st.composite
def _step_cases(draw):
    src = draw(st.sampled_from(["ints", "ints", "rec", "rec", "rec"]))
    if src == "ints":
        lo, hi = draw(st.sampled_from([(0, 9), (1, 5), (-9, 0), (-9, 9), (-40, 40)]))
        vals = {"src": "ints", "v": draw(st.lists(st.integers(lo, hi), min_size=draw(st.sampled_from([1, 2, 3, 3, 5, 8, 12])), max_size=40)),
                "as": draw(st.sampled_from(["list", "intarray", "floatarray", "floatlist", "int8", "int16", "int32"]))}
    else:
        min_n = draw(st.sampled_from([1, 2, 3, 3, 5, 8, 12]))
        if draw(st.integers(0, 19)) == 7:
            # longer series (the library's work grows with n^2)
            spec = draw(gen.record_specs(min_n=151, max_n=1400, small_max=151, amp_lo=-3, amp_hi=3,
                                         kinds=["noise", "step", "walk", "levels", "pulse"]))
        else:
            spec = draw(gen.record_specs(min_n=min_n, max_n=150, small_max=30, amp_lo=-3, amp_hi=3,
                                         kinds=["vals", "dyadic", "noise", "step", "walk", "levels", "pulse", "const"]))
        vals = {"src": "rec", "rec": spec, "flip": draw(st.booleans()),
                "shift": draw(st.sampled_from([0.0, 0.0, 0.5, -0.5, 2.0, -2.0, 100.0, -100.0])),
                "as": draw(st.sampled_from(["floatarray", "floatlist"]))}
    return {"vals": vals, "pow": draw(st.sampled_from([1, 2])), "dir": draw(st.sampled_from([None, None, "up", "down"])),
            "ind": draw(st.integers(0, 10 ** 6)), "argmin": draw(st.sampled_from([False, False, True])), "defaults": draw(st.booleans())}


def _step_values(vals):
    """-> (argument handed to the library, float64 view of it)"""
    if vals["src"] == "ints":
        ints = [int(i) for i in vals["v"]]
        how = vals["as"]
        if how == "list":
            arg = list(ints)
        elif how == "intarray":
            arg = np.array(ints, dtype=np.int64)
        elif how in ("int8", "int16", "int32"):
            arg = np.array(ints, dtype=how)   # |values| <= 40: the same data in a narrow integer dtype
        elif how == "floatlist":
            arg = [float(i) for i in ints]
        else:
            arg = np.array(ints, dtype=float)
    else:
        a = gen.build(vals["rec"])
        sc = float(np.max(np.abs(a))) or 1.0
        a = (-a if vals["flip"] else a) + vals["shift"] * sc
        arg = [float(x) for x in a] if vals["as"] == "floatlist" else np.array(a, dtype=float)
    return arg, np.array(arg, dtype=float)


def _ref_step_error(v, p):
    """err[i] = sum|pre-mean(pre)|^p + sum|post-mean(post)|^p, pre = v[:i+1], post = v[i+1:]; last = single mean."""
    n = len(v)
    vl = v.astype(LD)
    err = np.zeros(n, dtype=LD)
    for i in range(n):
        tot = LD(0)
        for side in (vl[:i + 1], vl[i + 1:]):
            if len(side):
                mean = np.sum(side) / LD(len(side))
                tot = tot + np.sum(np.abs(side - mean) ** p)
        err[i] = tot
    return err


def _side_means(v):
    """Means of v[:i], v[:i+1], v[i:], v[i+1:] for every i (nan for empty sides)."""
    n = len(v)
    vl = v.astype(LD)
    out = np.full((4, n), np.nan)
    for i in range(n):
        for r, side in enumerate((vl[:i], vl[:i + 1], vl[i:], vl[i + 1:])):
            if len(side):
                out[r, i] = float(np.sum(side) / LD(len(side)))
    return out


def _check_step_error(ctx, got, ref, tol, int_input, what, imax=None):
    got = np.asarray(got)
    ctx.shape(got, (len(ref),), what)
    d = np.abs(got.astype(LD) - ref)
    bad = ~(d <= tol)
    if not np.any(bad):
        return
    i = int(np.argmax(bad))
    msg = "%s: entry %d is %r, definition gives %r (tol %.3g; %d of %d entries out)" % (
        what, i, got[i], float(ref[i]), tol, int(np.sum(bad)), len(ref))
    if int_input and ctx.kf(KF_INT):
        # known finding: integer input -> result array has the integer dtype, every entry truncated toward zero
        lo = np.trunc(np.asarray(ref - tol, dtype=float))
        hi = np.trunc(np.asarray(ref + tol, dtype=float))
        ok = (got >= lo) & (got <= hi) & (got == np.trunc(got))
        if imax is not None:
            # the same finding with a NARROW integer input: the truncated error does not even fit the input's dtype
            ok = ok | (hi > imax)
        ctx.check(bool(np.all(ok)), msg + " [not explained by integer truncation either]")
        return
    ctx.fail(msg)


@clause(CLAUSES, "step-fit", _step_cases(), quick=800, thorough=5000,
        rule="integer data in [0,9] / [1,5] / [-9,0] / [-9,9] / [-40,40] (n 1..40) as int list (as the repo's tests), int64 array, "
             "float list, float array; records of 8 kinds (n 1..150) optionally negated and shifted by {0, +-0.5, +-2, +-100} peak "
             "values; pow in {1,2}; dir in {None, up, down}; ind in 1..n-2 or None; non-trivial = n >= 3 and not constant",
        oracle="reference model: double loop in long double over splits and sides (tolerance 1e-10*n*max|v|^p); dir: entries "
               "are the plain error or 10*max, penalised where every reading of the step direction agrees; levels = loop means "
               "(tolerance (n+4) eps max|v|), argmin taken from the reference error",
        require={"p1-neg-mean": 0.1, "neg-side-mean": 0.25, "all-pos-means": 0.15, "int-input": 0.08, "float-input": 0.4,
                 "dir=up": 0.06, "dir=down": 0.06, "dir-decided": 0.15, "levels-ind": 0.25, "levels-argmin": 0.06})
def step_fit(case, ctx):
    arg, v = _step_values(case["vals"])
    n = len(v)
    p = int(case["pow"])
    direction = case["dir"]
    int_input = np.array(arg).dtype.kind in "iu"
    vmax = float(np.max(np.abs(v)))
    means = _side_means(v)
    side = np.concatenate([means[1, :n - 1], means[3, :n - 1]]) if n > 1 else np.array([means[1, 0]])
    neg = bool(np.any(side < 0))
    pos = bool(np.any(side > 0))
    ctx.cls("p=%d" % p, "dir=%s" % direction, "int-input" if int_input else "float-input",
            "list" if isinstance(arg, list) else "ndarray", gen.size_class(n),
            "neg-side-mean" if neg else None, "all-pos-means" if (pos and not neg) else None,
            "mixed-side-means" if (pos and neg) else None, "p1-neg-mean" if (neg and p == 1) else None,
            "src=" + case["vals"]["src"])
    ctx.nt(n >= 3 and bool(np.any(v != v[0])))

    fn = eqsig.fns.calc_step_fn_vals_error
    ref = _ref_step_error(v, p)
    tol = 1e-10 * n * vmax ** p
    imax = float(np.iinfo(np.array(arg).dtype).max) if int_input and np.array(arg).dtype.itemsize < 8 else None
    if imax is not None:
        ctx.cls("narrow-int-input")
        if float(np.max(np.asarray(ref, dtype=float))) + tol + 1 > imax and ctx.kf(KF_INT):
            # known finding C20-KF1 with a NARROW integer input: the result array has the input's dtype, so an error above the
            # dtype's maximum wraps around or raises OverflowError (NumPy 2) - nothing can be asserted on this case
            ctx.cls("narrow-int-error-overflow")
            return
    if p == 1 and case.get("defaults"):
        plain = ctx.lib(fn, arg)  # pow defaults to 1
    else:
        plain = ctx.lib(fn, arg, pow=p)
    _check_step_error(ctx, plain, ref, tol, int_input, "calc_step_fn_vals_error(pow=%d)" % p, imax)
    plain = np.asarray(plain, dtype=float)

    pen_overflows = imax is not None and 10.0 * float(np.max(np.asarray(ref, dtype=float))) + 1 > imax
    if direction is not None and n >= 1 and pen_overflows and ctx.kf(KF_INT):
        # known finding C20-KF1 with a narrow integer input: the penalty 10*max error does not fit the input's dtype either
        ctx.cls("narrow-int-penalty-overflow")   # wraps around or raises OverflowError (NumPy 2): nothing to assert
    elif direction is not None and n >= 1:
        got = np.asarray(ctx.lib(fn, arg, pow=p, dir=direction), dtype=float)
        ctx.shape(got, (n,), "calc_step_fn_vals_error(dir=%r)" % direction)
        pen = 10.0 * float(np.max(plain))
        tol_d = 10 * tol + 8 * EPS * abs(pen)
        is_plain = np.abs(got - plain) <= tol
        is_pen = np.abs(got - pen) <= tol_d
        for i in range(n):
            ctx.check(bool(is_plain[i] or is_pen[i]),
                      "dir=%r: entry %d is %r, neither the plain error %r nor 10*max error %r" % (
                          direction, i, got[i], plain[i], pen))
        gap = 1e-9 * vmax
        for i in range(n - 1):
            if abs(pen - plain[i]) <= tol + tol_d:
                continue  # penalty indistinguishable from the plain error
            pres = [means[1, i]] + ([means[0, i]] if i >= 1 else [])
            posts = [means[3, i], means[2, i]]
            pairs = [(a, b) for a in pres for b in posts]
            if any(abs(a - b) <= gap for a, b in pairs):
                ctx.amb()
                continue
            up = all(a < b for a, b in pairs)
            down = all(a > b for a, b in pairs)
            if not (up or down):
                continue
            ctx.cls("dir-decided")
            unwanted = up if direction == "down" else down
            if unwanted:
                ctx.check(bool(is_pen[i]), "dir=%r: split %d steps from %r to %r (the unwanted way) but is not penalised: %r" % (
                    direction, i, means[1, i], means[3, i], got[i]))
            else:
                ctx.check(bool(is_plain[i]), "dir=%r: split %d steps from %r to %r (the wanted way) but is penalised: %r vs %r" % (
                    direction, i, means[1, i], means[3, i], got[i], plain[i]))

    # reported step levels
    lev = eqsig.fns.calc_step_fn_steps_vals
    tol_m = (n + 4) * EPS * vmax
    if n >= 3 and not case["argmin"]:
        ind = 1 + case["ind"] % (n - 2)
        ctx.cls("levels-ind")
        pre, post = ctx.lib(lev, arg, ind)
        ctx.close(np.array([pre, post], dtype=float), np.array([means[0, ind], means[3, ind]]), tol_m,
                  "calc_step_fn_steps_vals(ind=%d) vs (mean(values[:ind]), mean(values[ind+1:]))" % ind)
    elif n >= 3:
        _check_argmin_levels(ctx, arg, v, means, int_input, {p: ref}, _ref_step_error, tol_m, imax)


def _check_argmin_levels(ctx, arg, v, means, int_input, refs, ref_fn, tol_m, imax=None):
    """calc_step_fn_steps_vals(values) with ind=None: the levels of a split of minimal error.  The statement does not say which
    power selects the split: the minimisers (within tolerance) of the pow=1 and of the pow=2 reference error are all accepted."""
    n = len(v)
    vmax = float(np.max(np.abs(v)))
    lev = eqsig.fns.calc_step_fn_steps_vals
    idx, lohi = [], {}
    for q in (1, 2):
        r = refs[q] if q in refs else ref_fn(v, q)
        tq = 1e-10 * n * vmax ** q
        lo, hi = np.asarray(r - tq, dtype=float), np.asarray(r + tq, dtype=float)
        lohi[q] = (lo, hi)
        idx += [int(i) for i in np.nonzero(lo <= np.min(hi))[0]]   # splits whose error is minimal within tolerance
    idx = sorted(set(idx))

    def same(a, b):
        return (math.isnan(a) and math.isnan(b)) or abs(a - b) <= tol_m

    def matches(ids, pre, post):
        # means[0, 0] and means[3, n-1] are nan (empty side)
        return any(same(pre, means[0, i]) and same(post, means[3, i]) for i in ids)

    at_end = any(i < 1 or i > n - 2 for i in idx)
    ctx.cls("levels-argmin-at-end" if at_end else "levels-argmin")
    if len(idx) > 1:
        ctx.amb()
    if at_end:
        # a side of a minimal split is empty: the statement says nothing about that side - an exception is acceptable
        try:
            with np.errstate(all="ignore"):
                import warnings
                with warnings.catch_warnings():
                    warnings.simplefilter("ignore")
                    pre, post = lev(arg)
        except Exception:  # noqa
            return
    else:
        pre, post = ctx.lib(lev, arg)
    pre, post = float(pre), float(post)
    ok = matches(idx, pre, post)
    if not ok and int_input and ctx.kf(KF_INT):
        # known finding C20-KF1 (recorded bound): with integer input the split is a minimiser of the TRUNCATED pow=1 error;
        # exactly the levels of such a split are accepted (nan for an empty side), nothing else
        lo1, hi1 = lohi[1]
        idx_kf = [int(i) for i in np.nonzero(np.trunc(lo1) <= np.min(np.trunc(hi1)))[0]]
        ok = matches(idx_kf, pre, post) or (imax is not None and float(np.max(hi1)) > imax)   # overflowed entries: unpredictable
    ctx.check(ok, "calc_step_fn_steps_vals(values) = %r, but the error is minimal at split(s) %r with levels %r" % (
        (pre, post), idx[:6], [(means[0, i], means[3, i]) for i in idx[:6]]))


# long series: the library builds n x n work arrays, so lengths of several thousand samples are a different regime


def _hu(*parts):
    """Uniform number in [0, 1): hash of (VERIF_SEED, parts)."""
    t = ":".join(str(x) for x in (gen.run_seed(), "c20") + parts)
    return (int(hashlib.blake2b(t.encode(), digest_size=8).hexdigest(), 16) % 10 ** 9) / 1e9


def _hpick(seq, *parts):
    return seq[min(len(seq) - 1, int(_hu(*parts) * len(seq)))]


def _hint(lo, hi, *parts):
    """Log-uniform integer in [lo, hi]."""
    return int(min(hi, max(lo, math.exp(math.log(lo) + (math.log(hi + 1) - math.log(lo)) * _hu(*parts)))))


def _sd(*parts):
    return int(_hu("seed", *parts) * (2 ** 31 - 1))


def _deal(cases, shard, nshards):
    """Deal the cases to the shards by cost (largest first, always to the least loaded shard): deterministic."""
    order = sorted(range(len(cases)), key=lambda i: (-cases[i].get("cost", 1.0), i))
    load = [0.0] * nshards
    mine = []
    for i in order:
        k = min(range(nshards), key=lambda j: (load[j], j))
        load[k] += cases[i].get("cost", 1.0)
        if k == shard:
            mine.append(i)
    return [cases[i] for i in sorted(mine)]


def _seam_indices(n, count, *tag):
    """Indices of a long output for expensive per-entry checks: first, last, -1 | 0 | +1 modulo 2^k (k = 5..12: the first member
    and a hash-chosen member of every such class) and hash-chosen others, about `count` in all."""
    idx = {0, 1, n // 2, n - 2, n - 1}
    for k in range(5, 13):
        b = 2 ** k
        for r in (b - 1, b, b + 1):
            members = list(range(r, n, b))
            if members:
                idx.add(members[0])
                idx.add(_hpick(members, "seam", k, r, n, *tag))
    j = 0
    while len(idx) < min(n, count):
        idx.add(int(_hu("idx", j, n, *tag) * n))
        j += 1
    return np.array(sorted(i for i in idx if 0 <= i < n), dtype=np.int64)


def _ref_step_error_fast(v, p):
    """The definition of the step error for long series.  pow=2: sum (x-mean)^2 = sum x^2 - (sum x)^2/k from long-double prefix
    sums (cancellation costs ~1e-19*n*max|v|^2, nine orders below the tolerance).  pow=1: the deviations from the long-double side
    means, summed in double precision in blocks of splits (error <= n*eps*max|v| per entry)."""
    n = len(v)
    vl = v.astype(LD)
    c1 = np.cumsum(vl)
    t1 = c1[-1]
    k_pre = np.arange(1, n + 1).astype(LD)
    k_post = np.arange(n - 1, -1, -1).astype(LD)
    m_pre = c1 / k_pre
    m_post = np.where(k_post > 0, (t1 - c1) / np.maximum(k_post, 1), LD(0))
    if p == 2:
        c2 = np.cumsum(vl * vl)
        t2 = c2[-1]
        pre = c2 - c1 * c1 / k_pre
        post = np.where(k_post > 0, (t2 - c2) - (t1 - c1) * (t1 - c1) / np.maximum(k_post, 1), LD(0))
        return np.maximum(pre, 0) + np.maximum(post, 0)
    mp = np.asarray(m_pre, dtype=float)
    mq = np.asarray(m_post, dtype=float)
    err = np.zeros(n)
    j = np.arange(n)
    rows = max(1, int(4e6 // n))
    for i0 in range(0, n, rows):
        i = np.arange(i0, min(n, i0 + rows))
        is_pre = j[None, :] <= i[:, None]
        err[i] = np.sum(np.abs(v[None, :] - np.where(is_pre, mp[i][:, None], mq[i][:, None])), axis=1)
    return err.astype(LD)


def _validate_fast_reference():
    v = np.sin(np.arange(41.0) * 1.3) + np.where(np.arange(41) > 17, 2.0, -1.0)
    for p in (1, 2):
        a, b = _ref_step_error(v, p), _ref_step_error_fast(v, p)
        if not np.all(np.abs(a - b) <= 1e-13 * np.max(np.abs(a))):
            raise HarnessError("C20: fast step-error reference disagrees with the loop reference (pow=%d)" % p)


_validate_fast_reference()


def _step_series(c):
    """Series of a long step-fit case: one or two level changes + noise (+ optional offset, sign flip); distinct values everywhere."""
    n = int(c["n"])
    rs = np.random.RandomState(int(c["seed"]))
    t = np.arange(n)
    v = np.where(t <= int(c["at"]), 2.0, -1.5) + 0.3 * rs.standard_normal(n)
    if c.get("at2") is not None:
        v = v + np.where(t > int(c["at2"]), 0.9, 0.0)
    v = v + float(c.get("shift", 0.0))
    if c.get("flip"):
        v = -v
    return v


def _long_step_cases(tier, shard, nshards):
    quick = tier == "quick"
    sizes = sorted(set(gen.size_ladder(151, 6500 if quick else 10500, 9 if quick else 22, "c20:step")) | {2 ** 13 + 2})
    cases = []
    for i, n in enumerate(sizes):
        # both powers on the cheap lengths, one (hash-chosen) above 3000 samples; `dir` on about half of the cases
        pows = [1, 2] if n <= 3000 or not quick else [_hpick([1, 2], "step", "p", i)]
        for p in pows:
            cases.append({"n": int(n), "pow": p, "at": _hint(max(2, n // 50), n - 3, "step", "at", i, p),
                          "at2": _hint(2, n - 3, "step", "at2", i, p) if _hu("step", "two", i, p) < 0.4 else None,
                          "seed": _sd("step", i, p), "shift": _hpick([0.0, 0.0, 5.0, -5.0, 40.0], "step", "sh", i, p),
                          "flip": _hu("step", "flip", i, p) < 0.5,
                          "dir": _hpick([None, "up", "down"], "step", "dir", i, p) if n <= 5000 else None,
                          "as": _hpick(["array", "array", "list"], "step", "as", i, p) if n <= 3000 else "array",
                          "levels": n <= 5000 or not quick, "cost": float(n) ** 2.3})
    return _deal(cases, shard, nshards)


@enum_clause(CLAUSES, "step-fit-long", _long_step_cases,
             rule="mid-range lengths 151 .. 6500 (thorough 10500; gen.size_ladder: one per logarithmic bin placed by a hash of VERIF_SEED "
                  "+ lengths around the integer literals of the source under test) and 2^13+2: one or two level changes at hash-chosen "
                  "samples + noise 0.3, offsets {0, +-5, 40}, sign flips; pow 1 and 2; dir in {None, up, down}; ndarray / list",
             oracle="reference model over ALL entries: pow=2 from long-double prefix sums, pow=1 deviations from long-double side means "
                    "summed per split (both validated at import against the loop reference), tolerance 1e-10*n*max|v|^p; dir entries "
                    "= plain error or 10*max, decided where every reading of the step direction agrees; levels = means before / after "
                    "a split of minimal error",
             exhaustive_note="the laddered lengths x powers", quick_shards=4)
def step_fit_long(case, ctx):
    n, p = int(case["n"]), int(case["pow"])
    v = _step_series(case)
    arg = [float(x) for x in v] if case.get("as") == "list" else v.copy()
    ctx.nt(True)
    ctx.cls("p=%d" % p, "dir=%s" % case.get("dir"), "n>4096" if n > 4096 else ("n>1400" if n > 1400 else "n<=1400"))
    vmax = float(np.max(np.abs(v)))
    tol = 1e-10 * n * vmax ** p
    got = ctx.lib(eqsig.fns.calc_step_fn_vals_error, arg, pow=p)
    ref = _ref_step_error_fast(v, p)
    _check_step_error(ctx, got, ref, tol, False, "calc_step_fn_vals_error(pow=%d, n=%d)" % (p, n))
    plain = np.asarray(got, dtype=float)
    direction = case.get("dir")
    if direction is not None:
        gd = np.asarray(ctx.lib(eqsig.fns.calc_step_fn_vals_error, arg, pow=p, dir=direction), dtype=float)
        ctx.shape(gd, (n,), "calc_step_fn_vals_error(dir=%r)" % direction)
        _check_dir(ctx, gd, plain, v, direction, tol, vmax)
    if case.get("levels"):
        c1 = np.cumsum(v.astype(LD))
        means = np.full((4, n), np.nan)
        kk = np.arange(n)
        means[0, 1:] = np.asarray(c1[:-1] / kk[1:].astype(LD), dtype=float)                      # mean(v[:i])
        means[3, :-1] = np.asarray((c1[-1] - c1[:-1]) / (n - 1 - kk[:-1]).astype(LD), dtype=float)  # mean(v[i+1:])
        _check_argmin_levels(ctx, arg, v, means, False, {p: ref}, _ref_step_error_fast, (n + 4) * EPS * vmax)


def _check_dir(ctx, got, plain, v, direction, tol, vmax):
    """Vectorised form of the `dir` check of step-fit for long series (same rule, see ASSUMPTIONS)."""
    n = len(v)
    pen = 10.0 * float(np.max(plain))
    tol_d = 10 * tol + 8 * EPS * abs(pen)
    is_plain = np.abs(got - plain) <= tol
    is_pen = np.abs(got - pen) <= tol_d
    bad = ~(is_plain | is_pen)
    if np.any(bad):
        i = int(np.argmax(bad))
        ctx.fail("dir=%r (n=%d): entry %d is %r, neither the plain error %r nor 10*max error %r" % (direction, n, i, got[i], plain[i], pen))
    c1 = np.cumsum(v.astype(LD))
    kk = np.arange(n)
    m_incl = np.asarray(c1 / (kk + 1).astype(LD), dtype=float)                                   # mean(v[:i+1])
    m_excl = np.full(n, np.nan)
    m_excl[1:] = m_incl[:-1]                                                                      # mean(v[:i])
    p_excl = np.full(n, np.nan)
    p_excl[:-1] = np.asarray((c1[-1] - c1[:-1]) / (n - 1 - kk[:-1]).astype(LD), dtype=float)      # mean(v[i+1:])
    p_incl = np.asarray((c1[-1] - np.concatenate([[LD(0)], c1[:-1]])) / (n - kk).astype(LD), dtype=float)  # mean(v[i:])
    gap = 1e-9 * vmax
    i = np.arange(n - 1)
    pres = [m_incl[i], np.where(i >= 1, m_excl[i], m_incl[i])]
    posts = [p_excl[i], p_incl[i]]
    up = np.ones(n - 1, dtype=bool)
    down = np.ones(n - 1, dtype=bool)
    close = np.zeros(n - 1, dtype=bool)
    for a in pres:
        for b in posts:
            up &= a < b
            down &= a > b
            close |= np.abs(a - b) <= gap
    decided = (up | down) & ~close & ~(np.abs(pen - plain[:-1]) <= tol + tol_d)
    unwanted = up if direction == "down" else down
    wrong = decided & np.where(unwanted, ~is_pen[:-1], ~is_plain[:-1])
    if np.any(decided):
        ctx.cls("dir-decided")
    if np.any(wrong):
        j = int(np.argmax(wrong))
        ctx.fail("dir=%r (n=%d): split %d steps from %r to %r (the %s way) but is %s: %r (plain %r)" % (
            direction, n, j, m_incl[j], p_excl[j], "unwanted" if unwanted[j] else "wanted",
            "not penalised" if unwanted[j] else "penalised", got[j], plain[j]))


# ---------------------------------------------------------------------------
# 5. NZS 1170.5 helpers

G = 9.81
BOUNDS = {"C": [0.1, 0.3, 1.5, 3.0], "D": [0.1, 0.56, 1.5, 3.0], "E": [0.1, 1.0, 1.5, 3.0]}  # NZS 1170.5 table 3.1 segments
PLATEAU_END = {"C": 0.3, "D": 0.56, "E": 1.0}
TABLE_PRECISION = 0.005   # three significant figures of the tabulated coefficients (largest tabulated jump: 0.40 %)
BAD_CLASSES = ["A", "B", "F", "c", "d", "", "CD", "Class C"]
_ALL_B = sorted(set(b for bs in BOUNDS.values() for b in bs))


def _periods():
    near = st.tuples(st.sampled_from(_ALL_B), st.sampled_from([1 - 1e-9, 1 - 2.0 ** -52, 1.0, 1 + 2.0 ** -52, 1 + 1e-9])).map(
        lambda t: t[0] * t[1])
    return st.one_of(gen.log_uniform(0.02, 6.0), gen.log_uniform(0.02, 6.0), gen.log_uniform(1e-9, 1e4), near,
                     st.integers(0, 12).map(float),
                     st.floats(0.0, 4.0, allow_nan=False), st.floats(0.0, 4.0, allow_nan=False).map(lambda t: 4.0 - t),
                     st.just(0.0))


@st.composite
def _nzs_cases(draw):
    kind = draw(st.sampled_from(["identity", "boundary", "pair", "teff", "reject", "array", "identity", "boundary", "pair"]))
    case = {"kind": kind, "cls": draw(st.sampled_from(["C", "D", "E"])),
            "Z": draw(gen.log_uniform(0.01, 10.0)), "N": draw(gen.log_uniform(0.01, 10.0)),
            "R": draw(gen.log_uniform(0.01, 10.0))}
    if draw(st.sampled_from([False, False, False, True])):
        case["Z"], case["N"], case["R"] = draw(st.sampled_from([(0.13, 1.0, 1.0), (0.4, 1.0, 1.3), (0.3, 1.2, 0.25), (1.0, 1.0, 1.0)]))
    if kind == "identity":
        case["T"] = draw(_periods())
    elif kind == "boundary":
        case["delta"] = draw(st.sampled_from([1e-9, 1e-9, 1e-10, 1e-12]))  # relative offset of the one-sided evaluations
    elif kind == "pair":
        case["T"] = draw(st.one_of(_periods(), gen.log_uniform(0.25, 8.0)).filter(lambda t: t > 0))
        case["d"] = draw(gen.log_uniform(1e-15, 1e-3))
    elif kind == "teff":
        case["frac"] = draw(st.one_of(st.just(0.0), st.floats(0.0, 1.0, allow_nan=False), st.just(1 - 1e-9), gen.log_uniform(1e-9, 1.0)))
        case["alpha"] = draw(st.floats(0.0, 1.0, allow_nan=False))
        case["over"] = draw(st.one_of(st.just(1 + 1e-9), gen.log_uniform(1.0 + 1e-9, 1e3)))
    elif kind == "reject":
        case["T"] = draw(gen.log_uniform(1e-9, 1e3))
        case["bad"] = draw(st.sampled_from(BAD_CLASSES))
    else:
        case["Ts"] = draw(st.lists(_periods(), min_size=1, max_size=12))
        case["c"] = draw(st.sampled_from(["array", "list"]))
    return case


def _on_boundary(T, cls):
    return any(T == b for b in BOUNDS[cls])


def _crosses(T1, T2, cls):
    """A tabulated boundary lies in the closed interval [T1, T2]."""
    return any(T1 <= b <= T2 for b in BOUNDS[cls])


c_h = _quiet(ds.c_h_factor)
sd_nzs = _quiet(ds.sd_nzs)
t_eff = _quiet(ds.t_eff)


def _raises_any(ctx, fn, *args):
    """The statement promises no value here; which exception class is raised is an implementation detail."""
    ctx.raises(Exception, fn, *args)


@clause(CLAUSES, "nzs1170", _nzs_cases(), quick=800, thorough=5000,
        rule="site classes C, D, E; Z, N, R log-uniform [0.01,10] or code-typical triples; T from {0, log-uniform [1e-9,1e4], "
             "U[0,4], tabulated boundaries x {1-1e-9, 1-ulp, 1, 1+ulp, 1+1e-9}}; sub-checks identity / boundary limits / "
             "close pairs / t_eff / rejection / array form; non-trivial = every case (each evaluates the tables)",
        oracle="metamorphic: sd_nzs == c_h_factor*T^2*Z*N*R (1e-12, also exactly on a boundary); one-sided limits at T_b(1+-1e-9) "
               "within table precision 0.5 %; periods a factor 1+d apart (d <= 1e-3) differ by <= 2.05d (3.05d for S_d) + 0.5 % if "
               "a tabulated boundary lies between; t_eff(d) = 3 d / (sd_nzs(3)*g/(2 pi)^2), linear, some exception above d_c, for "
               "T<0 and unknown classes; array == scalars (4 eps)",
        require={"kind=identity": 0.1, "kind=boundary": 0.05, "kind=pair": 0.05, "kind=teff": 0.03, "kind=reject": 0.03,
                 "kind=array": 0.03, "T=0": 0.02, "T>=3": 0.04, "near-boundary": 0.03})
def nzs1170(case, ctx):
    cls, Z, N, R = case["cls"], case["Z"], case["N"], case["R"]
    kind = case["kind"]
    ctx.cls("kind=" + kind, "class=" + cls)
    ctx.nt(True)
    zrn = (Z, R, N)  # sd_nzs / t_eff argument order: z_factor, r_factor, n_factor

    def tcls(T):
        ctx.cls("T=0" if T == 0 else None, "T>=3" if T >= 3 else None, "T<0.1" if 0 < T < 0.1 else None,
                "near-boundary" if any(abs(T - b) <= 2e-9 * b for b in BOUNDS[cls]) else None)

    def scalar(x, what):
        ctx.check(np.size(x) == 1, "%s is not a single value: %r" % (what, x))
        return float(np.asarray(x).reshape(-1)[0])

    if kind == "identity":
        T = case["T"]
        tcls(T)
        sd = scalar(ctx.lib(sd_nzs, T, cls, *zrn), "sd_nzs(float)")
        ch = scalar(ctx.lib(c_h, T, cls), "c_h_factor(float)")
        expect = LD(ch) * LD(T) * LD(T) * LD(Z) * LD(N) * LD(R)
        # the statement's identity S_d = C_h(T)*T^2*Z*N*R is universally quantified over T >= 0: it is asserted exactly at the
        # tabulated boundaries as well (both functions must put a boundary on the same side)
        rel = 1e-12
        if _on_boundary(T, cls):
            ctx.cls("identity-on-boundary")
        ctx.close(sd, expect, rel * abs(float(expect)), "sd_nzs(T=%r, %s) vs c_h_factor*T^2*Z*N*R" % (T, cls))
        ctx.check(ch > 0 and np.isfinite(ch), "c_h_factor(%r, %s) = %r is not a positive finite number" % (T, cls, ch))
        # np.float64 scalar is a float too
        ch2 = scalar(ctx.lib(c_h, np.float64(T), cls), "c_h_factor(np.float64)")
        ctx.check(abs(ch2 - ch) <= 4 * EPS * abs(ch), "c_h_factor(np.float64(T)) %r != c_h_factor(float T) %r" % (ch2, ch))
        if cls == "C" and int(1e6 * Z) % 2 == 0:
            # documented default of c_h_factor: site_class="C"
            ctx.cls("default-class")
            ch3 = scalar(ctx.lib(c_h, T), "c_h_factor(T) with the default class")
            ctx.check(abs(ch3 - ch) <= 4 * EPS * abs(ch), "c_h_factor(T) with the default site class %r != c_h_factor(T, 'C') %r" % (ch3, ch))
        # every scalar type is a period (fixed findings C20-F2): python int, numpy integers, and np.float32 - a float32
        # PARAMETER means its exact double value
        if T == int(T) and T < 1e6:
            ctx.cls("T=whole")
            for Ti in (int(T), np.int64(int(T)), np.int16(int(T)) if T < 3e4 else int(T)):
                chi = scalar(ctx.lib(c_h, Ti, cls), "c_h_factor(%s)" % type(Ti).__name__)
                ctx.check(abs(chi - ch) <= 4 * EPS * abs(ch), "c_h_factor(%s %r) %r != c_h_factor(float) %r" % (type(Ti).__name__, Ti, chi, ch))
                sdi = scalar(ctx.lib(sd_nzs, Ti, cls, *zrn), "sd_nzs(%s)" % type(Ti).__name__)
                ctx.check(abs(sdi - sd) <= 4 * EPS * abs(sd), "sd_nzs(%s %r) %r != sd_nzs(float) %r" % (type(Ti).__name__, Ti, sdi, sd))
        T32 = np.float32(T)
        if np.isfinite(T32):
            want32 = scalar(ctx.lib(c_h, float(T32), cls), "c_h_factor(float)")
            got32 = scalar(ctx.lib(c_h, T32, cls), "c_h_factor(np.float32)")
            ctx.check(abs(got32 - want32) <= 4 * EPS * abs(want32),
                      "c_h_factor(np.float32(%r)) = %r, but at its exact double value %r the factor is %r" % (T, got32, float(T32), want32))
    elif kind == "boundary":
        delta = case.get("delta", 1e-9)
        for b in [0.0] + BOUNDS[cls]:   # 0 = limit T -> 0+, then the tabulated segment boundaries of the class
            if b == 0.0:
                lo_T, hi_T = 0.0, delta
            else:
                lo_T, hi_T = b * (1 - delta), b * (1 + delta)
            fns_ = [("c_h_factor", lambda T: scalar(ctx.lib(c_h, T, cls), "c_h_factor"))]
            if b > 0:
                fns_.append(("sd_nzs", lambda T: scalar(ctx.lib(sd_nzs, T, cls, *zrn), "sd_nzs")))
            else:
                # S_d -> 0 like T^2: a relative comparison is meaningless there; S_d(0) is exactly 0
                ctx.check(ctx.lib(sd_nzs, 0.0, cls, *zrn) == 0, "sd_nzs(0) is not 0")
            if b > 0:
                # the identity also holds exactly ON the boundary (both functions put it on the same side)
                exp_b = LD(scalar(ctx.lib(c_h, b, cls), "c_h_factor")) * LD(b) * LD(b) * LD(Z) * LD(N) * LD(R)
                ctx.close(scalar(ctx.lib(sd_nzs, b, cls, *zrn), "sd_nzs"), exp_b, 1e-12 * abs(float(exp_b)),
                          "sd_nzs(T=%r, %s) vs c_h_factor*T^2*Z*N*R exactly on a tabulated boundary" % (b, cls))
            for name, f in fns_:
                lo, at, hi = f(lo_T), f(b), f(hi_T)
                big = max(abs(lo), abs(hi))
                ctx.check(abs(hi - lo) <= TABLE_PRECISION * big,
                          "%s (%s) jumps across T=%g: %r below, %r above (> 0.5 %%: more than table precision)" % (name, cls, b, lo, hi))
                ctx.check(min(lo, hi) - TABLE_PRECISION * big <= at <= max(lo, hi) + TABLE_PRECISION * big,
                          "%s (%s) at T=%g is %r, outside its one-sided limits %r, %r" % (name, cls, b, at, lo, hi))
    elif kind == "pair":
        # continuity (nothing about monotonicity is claimed): two periods a factor 1+d apart.  On a tabulated segment
        # |dlnC_h/dlnT| <= 2 and |dlnS_d/dlnT| <= 3; across a tabulated boundary the table-precision jump is added
        T1 = case["T"]
        d = case["d"]
        T2 = T1 * (1.0 + d)
        tcls(T1)
        tcls(T2)
        if T1 == T2:
            ctx.cls("T1=T2")
            return
        jump = TABLE_PRECISION if _crosses(T1, T2, cls) else 0.0
        ctx.cls("crosses-boundary" if jump else "same-segment")
        for name, f, slope in (("c_h_factor", lambda T: scalar(ctx.lib(c_h, T, cls), "c_h_factor"), 2.05),
                               ("sd_nzs", lambda T: scalar(ctx.lib(sd_nzs, T, cls, *zrn), "sd_nzs"), 3.05)):
            y1, y2 = f(T1), f(T2)
            big = max(abs(y1), abs(y2))
            if big == 0:
                continue   # S_d of a period whose square underflows: nothing to compare
            ctx.check(abs(y2 - y1) <= (slope * d + jump + 16 * EPS) * big + 1e-300,
                      "%s (%s) changes by %.3g %% between T=%r and T=%r (a factor 1+%.3g apart): %r -> %r" % (
                          name, cls, 100 * abs(y2 - y1) / big, T1, T2, d, y1, y2))
    elif kind == "teff":
        d_c = scalar(ctx.lib(sd_nzs, 3.0, cls, *zrn), "sd_nzs") * G / (2 * math.pi) ** 2
        frac = min(case["frac"], 1 - 1e-9)
        d = frac * d_c
        t = scalar(ctx.lib(t_eff, d, cls, *zrn), "t_eff")
        ctx.close(t, 3.0 * LD(d) / LD(d_c), 3e-12, "t_eff(%r) vs 3*d/d_c, d_c=%r (%s)" % (d, d_c, cls))
        al = case["alpha"]
        t2 = scalar(ctx.lib(t_eff, al * d, cls, *zrn), "t_eff")
        ctx.close(t2, LD(al * d) / LD(d) * LD(t) if d > 0 else 0.0, 3e-12, "t_eff linearity: t_eff(alpha*d) vs alpha*t_eff(d)")
        _raises_any(ctx, t_eff, d_c * case["over"], cls, *zrn)
        ctx.cls("frac=0" if frac == 0 else None)
        # corner: the largest admissible displacement maps to (just under) the corner period 3 s
        t3 = scalar(ctx.lib(t_eff, d_c * (1 - 1e-9), cls, *zrn), "t_eff")
        ctx.check(abs(t3 - 3.0) <= 1e-8, "t_eff just below the corner displacement is %r, expected 3 s" % (t3,))
    elif kind == "reject":
        T = case["T"]
        _raises_any(ctx, c_h, -T, cls)
        _raises_any(ctx, sd_nzs, -T, cls, *zrn)
        _raises_any(ctx, c_h, np.array([T, -T, 1.0]), cls)
        _raises_any(ctx, c_h, [T, 1.0, -T], cls)
        _raises_any(ctx, c_h, T, case["bad"])
        _raises_any(ctx, c_h, np.array([T, 2 * T]), case["bad"])
        _raises_any(ctx, sd_nzs, T, case["bad"], *zrn)
        _raises_any(ctx, t_eff, 0.0, case["bad"], *zrn)
        d_c = scalar(ctx.lib(sd_nzs, 3.0, cls, *zrn), "sd_nzs") * G / (2 * math.pi) ** 2
        _raises_any(ctx, t_eff, d_c * (1 + T), cls, *zrn)
    else:
        Ts = [float(t) for t in case["Ts"]]
        for t in Ts:
            tcls(t)
        arg = np.array(Ts) if case["c"] == "array" else list(Ts)
        out = np.asarray(ctx.lib(c_h, arg, cls), dtype=float)
        ctx.shape(out, (len(Ts),), "c_h_factor(array)")
        one = np.array([scalar(ctx.lib(c_h, t, cls), "c_h_factor") for t in Ts])
        ctx.close(out, one, 4 * EPS * np.abs(one), "c_h_factor(array) vs element-wise scalar calls")
        # sd_nzs: "period: float or array" (fixed finding C20-F3)
        sda = np.asarray(ctx.lib(sd_nzs, np.array(Ts) if case["c"] == "array" else list(Ts), cls, *zrn), dtype=float)
        ctx.shape(sda, (len(Ts),), "sd_nzs(array)")
        sd1 = np.array([scalar(ctx.lib(sd_nzs, t, cls, *zrn), "sd_nzs") for t in Ts])
        ctx.close(sda, sd1, 4 * EPS * np.abs(sd1), "sd_nzs(array) vs element-wise scalar calls")


# -- exhaustive continuity scan over a geometric period grid -----------------


def _scan_cases(tier, shard, nshards):
    h = 2e-4 if tier == "quick" else 5e-5
    chunks = 24
    lo, hi = math.log(1e-4), math.log(1e2)
    k = 0
    for cls in ("C", "D", "E"):
        for c in range(chunks):
            if k % nshards == shard:
                yield {"cls": cls, "lo": math.exp(lo + (hi - lo) * c / chunks), "hi": math.exp(lo + (hi - lo) * (c + 1) / chunks),
                       "h": h}
            k += 1


@enum_clause(CLAUSES, "nzs1170-scan", _scan_cases,
             rule="for each site class the period range [1e-4, 1e2] s in 24 chunks of a geometric grid with ratio 1+h "
                  "(h=2e-4 quick, 5e-5 thorough), chunks overlap by one point",
             oracle="continuity to table precision everywhere (any discontinuity is a segment boundary, tabulated or not): neighbouring "
                    "grid values of c_h_factor / sd_nzs differ by < 0.5 % + 2.05h / 3.05h (slope allowance; largest tabulated jump "
                    "0.40 %); identity sd_nzs == c_h_factor*T^2 at every grid point; array form == scalar form (4 eps)",
             exhaustive_note="every point of the geometric grid 1e-4..1e2 s (ratio 1+h) for classes C, D, E",
             quick_shards=4)
def nzs1170_scan(case, ctx):
    cls = case["cls"]
    h = case["h"]
    npts = int(math.ceil(math.log(case["hi"] / case["lo"]) / math.log1p(h))) + 2
    T = case["lo"] * (1.0 + h) ** np.arange(npts)
    ctx.cls("class=" + cls)
    ctx.nt(True)
    ch = np.asarray(ctx.lib(c_h, T, cls), dtype=float)
    ctx.shape(ch, (npts,), "c_h_factor(grid)")
    ctx.check(bool(np.all(np.isfinite(ch)) and np.all(ch > 0)), "c_h_factor not positive finite on the grid")
    rel = np.abs(np.diff(ch)) / np.maximum(ch[1:], ch[:-1])
    i = int(np.argmax(rel))
    ctx.check(rel[i] < TABLE_PRECISION + 2.05 * h, "c_h_factor (%s) jumps by %.3g %% between T=%r and T=%r: %r -> %r" % (
        cls, 100 * rel[i], T[i], T[i + 1], ch[i], ch[i + 1]))
    sd = np.array([float(np.asarray(ctx.lib(sd_nzs, float(t), cls, 1.0, 1.0, 1.0)).reshape(-1)[0]) for t in T], dtype=float)
    rel = np.abs(np.diff(sd)) / np.maximum(sd[1:], sd[:-1])
    i = int(np.argmax(rel))
    ctx.check(rel[i] < TABLE_PRECISION + 3.05 * h, "sd_nzs (%s) jumps by %.3g %% between T=%r and T=%r: %r -> %r" % (
        cls, 100 * rel[i], T[i], T[i + 1], sd[i], sd[i + 1]))
    expect = ch * T * T
    ctx.close(sd, expect, 1e-12 * np.abs(expect), "sd_nzs vs c_h_factor*T^2 on the grid (%s)" % cls)
    step = max(1, npts // 40)
    one = np.array([float(np.asarray(ctx.lib(c_h, float(t), cls)).reshape(-1)[0]) for t in T[::step]])
    ctx.close(ch[::step], one, 4 * EPS * np.abs(one), "c_h_factor(array) vs scalar calls on the grid")


# ---------------------------------------------------------------------------
# 6. mid-range sizes of the interpolation / averaging helpers and of the array form of c_h_factor (DESIGN 8.5)
#
# Deterministic enumerations: sizes from gen.size_ladder / gen.product_pairs (one per logarithmic bin placed by a hash of
# VERIF_SEED, plus the integer literals mined from the source under test); every other parameter is a hash of (VERIF_SEED, tag, i).
# The WHOLE output is compared with a vectorised reference that is validated against the loop reference of the random clause at
# import.


def _ref_interp2d_fast(x, xf, f):
    """Column-wise linear interpolation with end clamping: bracket = number of nodes <= query found by a merge of the sorted
    queries with the nodes (stable sort of the concatenation, running count) - not np.searchsorted, not a nearest-node search;
    weights and blend in long double.  Returns (values, |f_lo|+|f_hi|)."""
    n = len(xf)
    cnt = _count_le(xf, x)                      # number of nodes <= x
    j0 = np.clip(cnt - 1, 0, n - 1)
    j1 = np.clip(cnt, 0, n - 1)
    j1 = np.where(cnt == 0, 0, j1)              # left of the table: clamp to the first row
    same = (j0 == j1) | (x <= xf[0]) | (x >= xf[-1])
    j1 = np.where(same, j0, j1)
    if n > 0:
        j0 = np.where(x >= xf[-1], n - 1, j0)
        j1 = np.where(x >= xf[-1], n - 1, j1)
    a0, a1 = xf[j0].astype(LD), xf[j1].astype(LD)
    den = np.where(j0 == j1, LD(1), a1 - a0)
    w = np.where(j0 == j1, LD(0), (x.astype(LD) - a0) / den)
    lo, hi = f[j0].astype(LD), f[j1].astype(LD)
    return lo + w[:, None] * (hi - lo), np.abs(f[j0].astype(float)) + np.abs(f[j1].astype(float))


def _count_le(nodes, q):
    """For every query the number of nodes <= query, by merging (nodes non-decreasing; queries in any order)."""
    nodes = np.asarray(nodes)
    q = np.asarray(q)
    both = np.concatenate([nodes.astype(float), q.astype(float)])
    is_node = np.concatenate([np.ones(len(nodes), dtype=np.int64), np.zeros(len(q), dtype=np.int64)])
    order = np.argsort(both, kind="stable")     # ties: nodes come first (they are first in the concatenation)
    run = np.cumsum(is_node[order])
    cnt = np.empty(len(both), dtype=np.int64)
    cnt[order] = run
    return cnt[len(nodes):]


def _validate_fast_interp():
    rs = np.random.RandomState(7)
    xf = np.array([-1.0, 0.0, 0.5, 2.0, 7.0])
    f = rs.standard_normal((5, 3))
    x = np.array([-3.0, -1.0, -0.25, 0.0, 0.3, 1.99, 2.0, 6.0, 7.0, 9.0, 0.5, -1.0])
    a, ma = _ref_interp2d(x, xf, f)
    b, mb = _ref_interp2d_fast(x, xf, f)
    if not (np.all(np.abs(a - b) <= 1e-17) and np.array_equal(ma, mb)):
        raise HarnessError("C20: vectorised interp2d reference disagrees with the loop reference")
    xd = np.array([0.0, 1.0, 1.0, 1.0, 2.5, 4.0])
    qs = np.array([0.0, 0.5, 1.0, 2.4, 2.5, 9.0, -1.0])
    if list(_count_le(xd, qs)) != [1, 1, 4, 4, 5, 6, 0]:
        raise HarnessError("C20: merge count of nodes <= query is wrong")


_validate_fast_interp()


def _mr_nodes(rs, n, style):
    if style == "int":
        return np.cumsum(rs.randint(1, 9, n)).astype(np.int64) - int(rs.randint(0, 50))
    if style == "dyadic":
        return (np.cumsum(rs.randint(1, 9, n)).astype(float) - float(rs.randint(0, 50))) / 64.0
    if style == "close":   # spacing 1e-9 .. 3e-8
        return 1e-9 * (np.cumsum(rs.uniform(1.0, 30.0, n)) + rs.uniform(-1e3, 1e3))
    unit = 10.0 ** rs.uniform(-3, 3)
    return unit * (np.cumsum(10.0 ** rs.uniform(-1.7, 1.0, n)) + rs.uniform(-1e3, 1e3))


def _mr_queries(rs, xf, nq):
    """Queries: inside (uniform over the span), exactly on nodes, exact midpoints, left and right outside - in random order."""
    n = len(xf)
    xff = xf.astype(float)
    span = float(xff[-1] - xff[0]) or 1.0
    kind = rs.randint(0, 10, nq)
    j = rs.randint(0, max(1, n - 1), nq)
    j2 = np.minimum(j + 1, n - 1)
    t = rs.rand(nq)
    x = np.where(kind <= 3, xff[j] + t * (xff[j2] - xff[j]),
                 np.where(kind <= 5, xff[rs.randint(0, n, nq)],
                          np.where(kind == 6, 0.5 * (xff[j] + xff[j2]),
                                   np.where(kind == 7, xff[0] - t * span, np.where(kind == 8, xff[-1] + t * span,
                                                                                   xff[0] + t * span)))))
    return x


def _interp_enum(tier, shard, nshards):
    quick = tier == "quick"
    # the library forms a queries x nodes matrix: the product is the work
    pairs = list(gen.product_pairs(1e5, 1.5e7 if quick else 4e7, 12 if quick else 26, (13, 5000), (9, 300000 if quick else 2000000), "c20:i2d"))
    for j, nn in enumerate(gen.size_ladder(13, 5000, 12 if quick else 26, "c20:i2d:n")):
        pairs.append((int(nn), _hint(9, 300, "i2d", "q", j)))
    for j, nq in enumerate(gen.size_ladder(9, 300000 if quick else 2000000, 10 if quick else 24, "c20:i2d:q")):
        pairs.append((_hint(2, 12, "i2d", "n", j), int(nq)))
    cases = []
    for i, (nn, nq) in enumerate(pairs):
        cases.append({"fn": "interp2d", "nn": int(nn), "nq": int(nq), "m": _hpick([1, 1, 2, 3, 7, 40], "i2d", "m", i),
                      "style": _hpick(["float", "float", "int", "dyadic", "close"], "i2d", "st", i),
                      "fint": _hu("i2d", "fi", i) < 0.2, "seed": _sd("i2d", i), "cost": float(nn) * nq})
    # interp_left: nodes x queries (a search, not a product)
    sizes = gen.size_ladder(13, 300000 if quick else 2000000, 12 if quick else 26, "c20:il")
    for i, nn in enumerate(sizes):
        cases.append({"fn": "interp_left", "nn": int(nn), "nq": _hint(1, 300000 if quick else 1000000, "il", "q", i),
                      "style": _hpick(["float", "int", "dyadic", "dup", "dup"], "il", "st", i),
                      "y": _hpick(["none", "float", "int", "2d"], "il", "y", i), "xc": _hpick(["array", "array", "list"], "il", "xc", i),
                      "qc": _hpick(["array", "array", "list", "scalar"], "il", "qc", i), "below": _hu("il", "below", i) < 0.15,
                      "seed": _sd("il", i), "cost": 3e3 * (nn + 1e3)})
    return _deal(cases, shard, nshards)


@enum_clause(CLAUSES, "mid-range-interp", _interp_enum,
             rule="interp2d: 13 .. 5000 nodes x 9 .. 3e5 queries (thorough 2e6) with the product nodes x queries laddered over 1e5 .. 1.5e7 "
                  "(thorough 4e7) and each dimension laddered on its own, 1 .. 40 columns, float / integer / dyadic / closely spaced "
                  "(1e-9) nodes, queries inside / on nodes / midpoints / outside in random order; interp_left: 13 .. 3e5 nodes (float / "
                  "int / dyadic / with repeated nodes), 1 .. 3e5 queries, y None / float / int / 2-D, lists and arrays, scalar query",
             oracle="reference model over the WHOLE output: bracket by a merge count of nodes <= query (validated against the linear scan "
                    "at import), long-double blend, 1e-12*(|f_lo|+|f_hi|); interp_left: value at the greatest node <= query (exact; any "
                    "equal node for repeated nodes); a query below the first node -> some exception",
             exhaustive_note="the laddered (nodes, queries) pairs", quick_shards=4)
def mid_range_interp(c, ctx):
    rs = np.random.RandomState(int(c["seed"]))
    nn, nq = int(c["nn"]), int(c["nq"])
    ctx.nt(True)
    ctx.cls("fn=" + c["fn"], "nodes=" + c["style"], "nodes>700" if nn > 700 else ("nodes>64" if nn > 64 else "nodes<=64"),
            "queries>20000" if nq > 20000 else ("queries>700" if nq > 700 else "queries<=700"),
            "product>4e6" if c["fn"] == "interp2d" and nn * nq > 4e6 else None)
    if c["fn"] == "interp2d":
        xf = _mr_nodes(rs, nn, c["style"])
        x = _mr_queries(rs, xf, nq)
        if xf.dtype.kind == "i" and rs.rand() < 0.5:
            x = np.round(x).astype(np.int64)
        m = int(c["m"])
        f = rs.randint(-20, 21, (nn, m)).astype(np.int64) if c["fint"] else rs.standard_normal((nn, m)) * 10.0 ** rs.uniform(-2, 3)
        out = np.asarray(ctx.lib(eqsig.fns.interp2d, x, xf, f))
        ctx.shape(out, (nq, m), "interp2d result")
        ref, mag = _ref_interp2d_fast(np.asarray(x), xf, f)
        ctx.close(out, ref, 1e-12 * mag, "interp2d (%d nodes, %d queries, %d columns, %s nodes) vs column-wise linear interpolation "
                  "with end clamping" % (nn, nq, m, c["style"]))
        return
    # interp_left
    style = c["style"]
    if style == "dup":
        xf = np.cumsum(rs.randint(0, 3, nn)).astype(np.int64)
    else:
        xf = _mr_nodes(rs, nn, style)
    x = _mr_queries(rs, xf, nq)
    x = np.where(x < xf[0], float(xf[0]), x)       # inside the domain: at or above the first node
    if xf.dtype.kind == "i" and c["qc"] == "list":
        x = np.round(x).astype(np.int64)
    ykind = c["y"]
    if ykind == "none":
        y_arg, yv = None, np.arange(nn)
    elif ykind == "float":
        yv = rs.standard_normal(nn)
        y_arg = yv.copy()
    elif ykind == "int":
        yv = rs.randint(-100, 101, nn)
        y_arg = [int(v) for v in yv]
    else:
        yv = rs.standard_normal((nn, 2))
        y_arg = yv.copy()
    x_arg = xf.tolist() if c["xc"] == "list" else xf.copy()
    ctx.cls("y=" + ykind, "q=" + c["qc"])
    if c["below"]:
        ctx.cls("rejects")
        xb = np.array(x, dtype=float)
        xb[int(rs.randint(0, len(xb)))] = float(xf[0]) - (abs(float(xf[0])) * 1e-9 + 1e-9 if style != "int" and style != "dup" else 1.0)
        ctx.raises(Exception, eqsig.fns.interp_left, xb.tolist() if c["qc"] == "list" else xb, x_arg, y_arg)
    if c["qc"] == "scalar":
        q = x[0].item()
        out = ctx.lib(eqsig.fns.interp_left, q, x_arg, y_arg)
        got = np.asarray(out)[None] if ykind != "2d" else np.asarray(out)[None, :]
        x = x[:1]
    else:
        q_arg = x.tolist() if c["qc"] == "list" else x.copy()
        got = np.asarray(ctx.lib(eqsig.fns.interp_left, q_arg, x_arg, y_arg))
    ctx.shape(got, (len(x),) + tuple(yv.shape[1:]), "interp_left result")
    cnt = _count_le(xf, x)
    if np.any(cnt < 1):
        raise HarnessError("mid-range interp_left: query below the first node was generated")
    j = cnt - 1                                     # greatest node <= query (the last of equal nodes)
    want = yv[j]
    okm = got == want
    if style == "dup" and not np.all(okm):
        # repeated nodes: the value at ANY of the equal greatest nodes is accepted
        first = _count_le(xf, xf[j] - 0.5)          # integer nodes: number of nodes < xf[j] = index of the first equal node
        bad = np.nonzero(~(okm if okm.ndim == 1 else np.all(okm, axis=1)))[0]
        for b in bad[:2000]:
            allowed = yv[first[b]:j[b] + 1]
            if not np.any(np.all(np.atleast_2d(allowed == got[b]).reshape(len(allowed), -1), axis=1)):
                ctx.fail("interp_left (%d nodes with repeats, %d queries): query %r -> %r, values at the greatest node(s) <= query: %r" % (
                    nn, len(x), x[b], got[b], allowed[:4]))
        if len(bad) > 2000:
            raise HarnessError("mid-range interp_left: too many repeated-node alternatives to examine")
        return
    if not np.all(okm):
        b = int(np.argwhere(~okm)[0][0])
        ctx.fail("interp_left (%d %s nodes, %d queries, y=%s): query %r -> %r, value at the greatest node <= query (index %d) is %r" % (
            nn, style, len(x), ykind, x[b], got[b], j[b], want[b]))


def _roll_enum(tier, shard, nshards):
    quick = tier == "quick"
    sizes = sorted(set(gen.size_ladder(1513, 300000 if quick else 2000000, 14 if quick else 30, "c20:roll")) |
                   {int((300000 if quick else 2000000) * (1 + 0.1 * _hu("rolltop")))})
    cases = []
    for i, n in enumerate(sizes):
        for k, sk in enumerate(_hpick([("small", "frac"), ("mid", "len"), ("frac", "one"), ("mid", "frac")], "roll", "sk", i)):
            steps = {"one": 1, "len": int(n), "small": _hint(2, 64, "roll", "s", i, k), "mid": _hint(65, max(66, n // 3), "roll", "s", i, k),
                     "frac": max(1, int(n * (0.34 + 0.66 * _hu("roll", "s", i, k))))}[sk]
            cases.append({"n": int(n), "steps": int(steps), "mode": _hpick(_MODES, "roll", "m", i, k), "seed": _sd("roll", i, k),
                          "kind": _hpick(["noise", "noise", "walk", "grid", "int"], "roll", "kind", i, k),
                          "as": _hpick(["array", "array", "list"], "roll", "as", i, k), "npint": _hu("roll", "np", i, k) < 0.3,
                          "cost": float(n)})
    return _deal(cases, shard, nshards)


@enum_clause(CLAUSES, "mid-range-rolling", _roll_enum,
             rule="series of 1513 .. 3e5 samples (thorough 2e6): noise x envelope + offset, random walk, dyadic-grid and integer data; "
                  "window sizes 1, 2..64, 65..n/3, n/3..n, n; the four mode strings; ndarray / list; python and NumPy integer steps",
             oracle="reference model over the WHOLE output: window sums from long-double prefix sums of the edge-replicated series "
                    "(error 1e-19*sum|v|), cross-checked at import against direct windowed sums; same bounds as rolling-average; length kept",
             exhaustive_note="the laddered lengths x two window sizes", quick_shards=4)
def mid_range_rolling(c, ctx):
    n, steps, mode = int(c["n"]), int(c["steps"]), c["mode"]
    rs = np.random.RandomState(int(c["seed"]))
    t = np.arange(n) / float(n)
    if c["kind"] == "walk":
        v = np.cumsum(rs.standard_normal(n)) / math.sqrt(n) + 0.3
    else:
        v = rs.standard_normal(n) * (0.6 + 0.8 * t) + 0.11
    exact = c["kind"] in ("grid", "int")
    if c["kind"] == "grid":
        v = np.round(v * 1024.0) / 1024.0
    if c["kind"] == "int":
        v = np.round(v * 100.0)
        arg = v.astype(np.int64)
    else:
        arg = [float(x) for x in v] if c["as"] == "list" else v.copy()
    ctx.nt(True)
    ctx.cls("mode=" + mode, "kind=" + c["kind"], "steps=1" if steps == 1 else ("steps=len" if steps == n else (
        "steps<=64" if steps <= 64 else "steps>64")), "n>20000" if n > 20000 else "n<=20000", "exact-dyadic" if exact else None)
    out = np.asarray(ctx.lib(eqsig.fns.calc_roll_av_vals, arg, np.int64(steps) if c["npint"] else steps, mode=mode))
    ctx.shape(out, (n,), "rolling average (length kept)")
    vmax = float(np.max(np.abs(v)))
    tol_abs = EPS * (float(np.sum(np.abs(v))) + (steps - 1) * vmax) + 4 * EPS * vmax
    msgs = []
    for a, b in _window_offsets(mode, steps):
        wsum, wabs = _window_sums(v, a, b)
        expect = wsum / LD(steps)
        tol = (steps + 4) * EPS * wabs / steps if exact else np.full(n, tol_abs)
        d = np.abs(out.astype(LD) - expect)
        bad = ~(d <= tol)
        if not np.any(bad):
            return
        i = int(np.argmax(bad))
        msgs.append("window [i%+d, i%+d]: sample %d got %r expected %r (tol %.3g; %d of %d samples out)" % (
            a, b, i, out[i], float(expect[i]), tol[i], int(np.sum(bad)), n))
    ctx.fail("calc_roll_av_vals(n=%d, steps=%d, mode=%r) is not the edge-replicated window mean: %s" % (n, steps, mode, "; ".join(msgs)))


def _window_sums(v, a, b):
    """Sums of v and |v| over the window [i+a, i+b] with indices clamped to the ends (edge replication), for every i, from
    long-double prefix sums of the extended series."""
    n = len(v)
    ext = np.concatenate([np.full(max(0, -a), v[0]), v, np.full(max(0, b), v[-1])]).astype(LD)
    off = max(0, -a)                             # ext[off + i] = v[i]
    c = np.concatenate([[LD(0)], np.cumsum(ext)])
    ca = np.concatenate([[0.0], np.cumsum(np.abs(np.asarray(ext, dtype=float)))])
    i = np.arange(n)
    lo, hi = off + i + a, off + i + b + 1
    return c[hi] - c[lo], ca[hi] - ca[lo]


def _validate_window_sums():
    v = np.sin(np.arange(23.0) * 0.9) + 0.2
    for a, b in ((0, 4), (-4, 0), (-2, 2), (-3, 2), (0, 22), (-22, 0), (0, 0)):
        ws, wa = _window_sums(v, a, b)
        for i in range(len(v)):
            win = v[np.clip(np.arange(i + a, i + b + 1), 0, len(v) - 1)]
            if abs(float(ws[i]) - float(np.sum(win))) > 1e-13 or abs(wa[i] - float(np.sum(np.abs(win)))) > 1e-13:
                raise HarnessError("C20: prefix-sum window reference disagrees with direct windowed sums")


_validate_window_sums()


def _nzs_array_enum(tier, shard, nshards):
    quick = tier == "quick"
    sizes = gen.size_ladder(13, 100000 if quick else 1000000, 10 if quick else 22, "c20:nzs")
    cases = [{"n": int(n), "cls": _hpick(["C", "D", "E"], "nzs", "cls", i), "seed": _sd("nzs", i), "c": _hpick(["array", "array", "list"], "nzs", "c", i),
              "cost": float(n)} for i, n in enumerate(sizes)]
    return _deal(cases, shard, nshards)


@enum_clause(CLAUSES, "mid-range-nzs-array", _nzs_array_enum,
             rule="c_h_factor on period arrays / lists of 13 .. 1e5 entries (thorough 1e6): log-uniform 1e-4..1e2 s, exact zeros, tabulated "
                  "boundaries and their neighbours, in random order",
             oracle="metamorphic over the WHOLE output: an element-wise function commutes with reversal and with cutting the array into "
                    "hash-chosen pieces (4 eps); differential: scalar calls of c_h_factor and sd_nzs/T^2 at the entries {first, last, "
                    "-1|0|+1 mod 2^k, hash-chosen}; neighbouring sorted periods obey the continuity bound",
             exhaustive_note="the laddered array lengths", quick_shards=4)
def mid_range_nzs_array(c, ctx):
    n, cls = int(c["n"]), c["cls"]
    rs = np.random.RandomState(int(c["seed"]))
    T = 10.0 ** rs.uniform(-4, 2, n)
    special = rs.rand(n)
    bnd = np.array(BOUNDS[cls])[rs.randint(0, 4, n)]
    T = np.where(special < 0.03, 0.0, np.where(special < 0.10, bnd * rs.choice([1 - 1e-9, 1.0, 1 + 1e-9], n), T))
    arg = T.copy() if c["c"] == "array" else [float(t) for t in T]
    ctx.nt(True)
    ctx.cls("class=" + cls, "c=" + c["c"], "n>5000" if n > 5000 else "n<=5000")
    out = np.asarray(ctx.lib(c_h, arg, cls), dtype=float)
    ctx.shape(out, (n,), "c_h_factor(array of %d)" % n)
    ctx.check(bool(np.all(np.isfinite(out)) and np.all(out > 0)), "c_h_factor(array of %d) not positive finite" % n)
    rev = np.asarray(ctx.lib(c_h, T[::-1].copy(), cls), dtype=float)[::-1]
    ctx.close(out, rev, 4 * EPS * np.abs(rev), "c_h_factor(array of %d) vs the reversed array evaluated and reversed back" % n)
    cuts = sorted(set([0, n] + [int(_hu("cut", j, n, c["seed"]) * n) for j in range(3)]))
    pieces = [np.atleast_1d(np.asarray(ctx.lib(c_h, T[a:b].copy(), cls), dtype=float)) for a, b in zip(cuts[:-1], cuts[1:]) if b > a]
    cat = np.concatenate(pieces)
    ctx.close(out, cat, 4 * EPS * np.abs(cat), "c_h_factor(array of %d) vs the array evaluated in pieces cut at %r" % (n, cuts))
    idx = _seam_indices(n, 60, "nzs")
    one = np.array([float(np.asarray(ctx.lib(c_h, float(T[i]), cls)).reshape(-1)[0]) for i in idx])
    ctx.close(out[idx], one, 4 * EPS * np.abs(one), "c_h_factor(array of %d) vs scalar calls at entries %r..." % (n, idx[:6].tolist()))
    sd = np.array([float(np.asarray(ctx.lib(sd_nzs, float(T[i]), cls, 1.0, 1.0, 1.0)).reshape(-1)[0]) for i in idx])
    ctx.close(sd, out[idx] * T[idx] ** 2, 1e-12 * np.abs(sd) + 1e-300, "sd_nzs vs c_h_factor(array)*T^2 at the sampled entries")
    # the array form of sd_nzs over the WHOLE array: identity with c_h_factor(array) and agreement with the scalar calls
    sda = np.asarray(ctx.lib(sd_nzs, arg, cls, 1.0, 1.0, 1.0), dtype=float)
    ctx.shape(sda, (n,), "sd_nzs(array of %d)" % n)
    ctx.close(sda, out * T * T, 1e-12 * np.abs(out * T * T) + 1e-300, "sd_nzs(array of %d) vs c_h_factor(array)*T^2" % n)
    ctx.close(sda[idx], sd, 4 * EPS * np.abs(sd) + 1e-300, "sd_nzs(array of %d) vs scalar calls at the sampled entries" % n)
    # continuity over the sorted periods: neighbours a factor (1+d) apart differ by <= 2.05 d + table precision
    order = np.argsort(T, kind="stable")
    Ts, cs = T[order], out[order]
    pos = Ts[:-1] > 0
    d = np.where(pos, Ts[1:] / np.where(pos, Ts[:-1], 1.0) - 1.0, np.inf)
    rel = np.abs(np.diff(cs)) / np.maximum(cs[1:], cs[:-1])
    bad = rel > 2.05 * d + TABLE_PRECISION + 16 * EPS
    if np.any(bad):
        i = int(np.argmax(bad))
        ctx.fail("c_h_factor(array of %d, %s): periods %r and %r get %r and %r (%.3g %% apart)" % (n, cls, Ts[i], Ts[i + 1], cs[i], cs[i + 1], 100 * rel[i]))
