"""C14 - resampling keeps the record: bounded step, retained samples, band-limited signals reproduced exactly."""
import math
from fractions import Fraction

import numpy as np
from hypothesis import assume
from hypothesis import strategies as st

import eqsig
from eqsig.fns import time_step as ts

from pbt import gen
from pbt.core import clause, enum_clause, HarnessError, tier

PROPERTY = "C14"
CLAUSES = []
ASSUMPTIONS = [
    "records: finite float64 (array level also int64 and list / view / read-only variants; narrow integer and single-precision records "
    "are handled centrally, not here), |a| <= 1e9; dt, target in about [4e-8, 2.5e4] with max(dt/target, target/dt) <= 2500 (ordinary "
    "families <= 80 interpolation / 30 Fourier, 'wide' family beyond), refined output <= 130 000 (60 000 Fourier) samples in the random clauses",
    "duration precondition of the quantifier, constructed in exact rational arithmetic: (npts-1)*dt >= 2*max(dt, target)",
    "all step / ratio / length comparisons are evaluated in exact rational arithmetic on the doubles that were passed and "
    "returned (fractions.Fraction), so the only tolerances are the stated ones: 'does not exceed the target' allows 4 eps "
    "relative (the quotient dt/target, its reciprocal and the division dt/factor each round once: 2 eps suffices); "
    "'integer ratio' = within 16 eps (relative) of an integer: the returned double is fl(dt/k), fl(dt*k) or fl(dt/fl(1/k)), at most 1.5 eps "
    "off; which of refinement / decimation / no change applies, and the integer k, are read from the RETURNED step, not recomputed "
    "from the target: the statement does not say that the returned step is the largest admissible one (a smaller step, or not "
    "decimating at all, satisfies every sentence), so the reference factor (ceil / reciprocal floor of the exact quotient) is NOT "
    "asserted; the request is recorded (req=refine / req=decimate / req=same) and health floors on 'req=...,k==ref' declare a run "
    "unhealthy (exit 2, not a violation) when the library stops following the request, because the generator's constructions "
    "(lengths k*q, band limits, k strata) would then no longer produce what they were built to produce",
    "'covered duration' counted with the integer ratio k of the statement (the returned double is that ratio rounded), in integer "
    "arithmetic: refinement / unchanged step |len(out) - k*npts| < 2k, decimation |len(out)*k - npts| < 2k; nothing is ambiguous; a loss "
    "of exactly two steps is a violation (k = 49, npts = 392, even=True: 6 instead of 8 samples, the defect repaired by ea0e54c)",
    "the evenness and duration clauses are read as applying to BOTH resamplers: the quantifier says 'even in {True, False}, array-level "
    "and object-level variants' for the whole property and resample_to_approx_dt documents `even` as forcing an even number of samples "
    "(coordinator's decision).  The narrower reading - the Fourier sentence promises only 'the same step rule' and exact reproduction, so a "
    "Fourier resampler that ignores `even` to keep the new grid commensurate (one of the recorded repairs of C14-KF1) would satisfy the "
    "statement - is noted and NOT adopted; under it `even=True but N samples returned` on resample_to_approx_dt would be a false alarm",
    "output dtype: any real numeric kind (f / i / u); array-level and object-level interpolation are each judged by the oracle on "
    "their own output, their bitwise agreement is only recorded (class obj==array)",
    "refinement by k >= 2: ALL original samples reappear: len(out) >= (npts-1)*k+1 and out[j*k] == record[j] bitwise for every j < npts "
    "(np.interp returns the node value at a node; an even length requested for an odd k*npts costs one sample AFTER the last "
    "original); unchanged step: out == record[:len(out)]; the samples BETWEEN two originals are only held to the input's global range: "
    "the statement is silent on how they are filled (zero-order hold instead of linear interpolation satisfies every sentence)",
    "decimation by k: out[i] equals record[i*k] to 4*eps*(npts*range + max|a|): the library's grid i/fl(1/k) can miss the integer "
    "i*k by 2 ulp, which moves the interpolated value by |slope|*i*k*2.3e-16 (DESIGN: 'to 1e-9*range'; this bound is tighter); "
    "an output sample whose instant i*k*dt lies beyond the last input sample must equal (==) an input sample later than the "
    "previous retained one, so that the output is still a subsequence of the input",
    "'values never leave the input's range' allows 4*eps*max|a| for the rounding of a + slope*(x - x0)",
    "Fourier clause: the test signal is sum_j c_j cos(2 pi m_j t/(npts*dt) + phi_j) sampled at t = i*dt (long double, rounded to "
    "double); 'band-limited below the new Nyquist frequency' is constructed from the statement's own step rule in rational "
    "arithmetic (new step dt/ceil(dt/target) resp. dt*floor(target/dt*(1+1e-9))) and additionally m_j < npts/2: a component at or "
    "above the OLD Nyquist index is aliased in the input itself and cannot be reproduced by any resampler; 1 to 3 components, "
    "|c| in [1e-3, 1e3]; 'exactly' = 1e-9*sum|c| at the instants i*new_dt of the returned signal (FFT rounding is ~1e-15*sum|c|)",
    "known finding C14-KF1 (matcher: incommensurate - len(out)*k != npts for decimation by k, len(out) != k*npts for refinement by "
    "k - AND forced by the statement's own rules: k does not divide npts, or an even length was requested for an odd product; an "
    "avoidable incommensurate length stays a violation): SciPy spaces the samples at npts*dt/len(out), not at the reported step; there the "
    "reproduction is asserted on the instants i*npts*dt/len(out) (when every m_j < len(out)/2) and step / ratio / length / "
    "evenness rules stay enforced; every commensurate case is asserted strictly",
    "mid-range enumerations (mid-range-interp / -fourier / -history): record lengths 2 000..300 000 (quick) / ..2 000 000 (thorough), "
    "refinement by k <= 10 (refined output <= 3e6 / 1.2e7 samples for interpolation, 1.2e6 / 6e6 for Fourier resampling: one case per "
    "length takes the largest k under the cap), decimation by k <= 50, dt in [1e-3, 0.2] (x k for the float-product family), records "
    "ordinary (noise x envelope / walk / sines + noise / ramp + noise, offset up to 50 standard deviations, |a| <= 6e4); Fourier test "
    "record: 3-4 cosines on exact bins, |c| in [0.05, 20] (+ the old Nyquist bin for some refinements of even lengths)",
    "mid-range Fourier oracle: the closed form is evaluated with the phase m*i*new_dt/(npts*dt) mod 1 accumulated in 64-bit fixed point from "
    "the exact rational of the returned doubles (error < n*2^-65 + 2^-53 cycles) and the cosine in double precision; it is compared "
    "with the long-double closed form on ~2000 instants of every case (harness error above 1e-11*sum|c|).  Tolerance re-derived for the "
    "size: 'at the instants i*new_dt' takes the RETURNED double step, which is off the ideal dt/k or dt*k by up to eps (relative), i.e. the "
    "phase of component m at the last instant by 2 pi m eps; tolerance (1e-9 + 8 eps max m)*sum|c| (2.7e-10 extra at npts = 300 000, "
    "1.8e-9 at 2 000 000); on the known-finding route (instants i*npts*dt/len(out), integer phase arithmetic) it stays 1e-9*sum|c|",
    "mid-range-history: values are replaced through reset_values() with a record of the SAME length; the object is read through "
    "fa_spectrum and velocity between calls; every answer is judged by the absolute oracle for the values held at that moment",
]
EPS = np.finfo(float).eps
LD = np.longdouble
TWO_PI = 2 * np.arccos(LD(-1))
KMAX_INTERP = 80      # ordinary (dt, target) families of interp-rule
KMAX_FOURIER = 30     # ... of fourier-rule
KMAX_WIDE = 2500      # the 'wide' family goes on from there: a 3-sample record refined x2000 costs 6000 samples
OUT_CAP = 130000
NINE = Fraction(1, 10 ** 9)
STEP_SLACK = 1 + Fraction(4 * EPS)
# 'ratio is an integer': the returned step is a double, fl(dt/k), fl(dt*k) or fl(dt/fl(1/k)) (one to three roundings, <= 1.5 eps relative);
# 16 eps leaves room for any other reasonable way of forming it (duration / count, k * dt ...)
RATIO_TOL = Fraction(16 * EPS)
# integer factors whose reciprocal is not exact in double precision in the sense that fl(1/k)*k != 1 (49, 98, 103, 107, 161 ...): a
# new length formed as fl(1/k)*npts lands just below the whole number npts/k (property of the doubles, not of the library)
INEXACT_RECIP = [k for k in range(2, KMAX_WIDE + 1) if (1.0 / k) * k != 1.0]


# ---------------------------------------------------------------------------
# the statement's step rule in exact rational arithmetic (generator side / band limit; the oracle reads k from the returned step)


def _ref_factor(dt, target):
    """('refine', ceil(dt/target)) | ('decimate', floor(target/dt)) | ('same', 1) for the exact ratio of the two doubles."""
    fd, ft = Fraction(dt), Fraction(target)
    if fd > ft:
        return "refine", int(math.ceil(fd / ft))
    if ft > fd:
        k = int(math.floor(ft / fd))
        return ("decimate", k) if k > 1 else ("same", 1)
    return "same", 1


def _min_npts(dt, target):
    """Smallest npts with (npts-1)*dt >= 2*max(dt, target)."""
    fd, ft = Fraction(dt), Fraction(target)
    return int(math.ceil(2 * max(fd, ft) / fd)) + 1


def _quotient_class(dt, target):
    fd, ft = Fraction(dt), Fraction(target)
    q = fd / ft if fd >= ft else ft / fd
    k = round(q)
    if q == k:
        return ["near-int", "q-int-exact"]
    if abs(q - k) <= q * Fraction(1, 10 ** 12):
        return ["near-int", "q-near-int-below" if q < k else "q-near-int-above"]
    return []


def _nudge(x, n):
    for _ in range(abs(n)):
        x = float(np.nextafter(x, math.inf if n > 0 else 0.0))
    return x


# strategies are built once (building / validating them inside a composite costs more than the check itself)
_FAM = st.sampled_from(["indep"] * 3 + ["ratio"] * 3 + ["comm"] * 3 + ["dec3"] * 2 + ["t01", "ulp", "equal"] +
                       ["wide"] * 2 + ["nudge"] * 3 + ["inexact"])
_DTS = gen.dts(1e-3, 1.0)
_BASE = gen.dts(1e-3, 0.5)
_BOOL = st.booleans()
_HOW = st.sampled_from(["dt/k", "t*k", "dt*k", "t/k"])
_ULPS = st.sampled_from([-2, -1, 1, 2])
_LO100 = st.integers(1, 100)
_LO999 = st.one_of(st.integers(1, 60), st.integers(1, 999))
_DT01 = st.one_of(st.sampled_from([d for d in gen.REPO_DTS if d <= 0.2]), gen.log_uniform(1e-3, 0.3))
_PER_KMAX = {}
_WIDE_BASE = gen.log_uniform(1e-4, 10.0)
_NUDGE_EXP = st.floats(-15.0, -4.0, allow_nan=False)
_SIGN = st.sampled_from([-1.0, 1.0])
_INEXACT_K = st.one_of(st.sampled_from([49, 98, 103, 107]), st.sampled_from(INEXACT_RECIP))
_DYADIC_BASE = st.integers(3, 9).map(lambda j: 2.0 ** -j)
_FRAC = st.floats(0.02, 0.98, allow_nan=False)


def _kmax_strategies(kmax):
    if kmax not in _PER_KMAX:
        _PER_KMAX[kmax] = (gen.log_uniform(1e-3, kmax - 1.0), gen.log_uniform(1e-3, kmax - 2.0), st.integers(2, kmax),
                           gen.log_uniform(kmax + 1, KMAX_WIDE).map(lambda v: int(v)))
    return _PER_KMAX[kmax]


def _comm_pair(base, k, how):
    if how == "dt/k":
        return base, base / k
    if how == "t*k":
        return base * k, base
    if how == "dt*k":
        return base, base * k
    return base / k, base


@st.composite
def _pairs(draw, kmax):
    """(dt, target) pairs: independent, generic ratio, commensurate (float product / quotient), thousandths, default target,
    neighbours of an integer quotient, equal."""
    r_refine, r_decim, k_int, k_wide = _kmax_strategies(kmax)
    fam = draw(_FAM)
    limit = kmax
    if fam == "indep":
        dt = draw(_DTS)
        target = draw(_DTS)
    elif fam == "ratio":
        dt = draw(_DTS)
        if draw(_BOOL):
            target = dt / (1.0 + draw(r_refine))   # refinement, dt/target in (1, kmax]
        else:
            target = dt * (2.0 + draw(r_decim))    # decimation, target/dt in (2, kmax]
    elif fam in ("comm", "ulp"):
        k = draw(k_int)
        dt, target = _comm_pair(draw(_BASE), k, draw(_HOW))
        if fam == "ulp":
            target = _nudge(target, draw(_ULPS))
    elif fam == "dec3":
        if draw(_BOOL):
            lo = draw(_LO100)
            hi = lo * draw(st.integers(2, max(2, min(kmax, 1000 // lo))))
        else:
            lo = draw(_LO999)
            hi = draw(st.integers(lo, min(999, lo * kmax)))
        dt, target = (hi / 1000.0, lo / 1000.0) if draw(_BOOL) else (lo / 1000.0, hi / 1000.0)
    elif fam == "t01":
        target = 0.01
        dt = draw(_DT01)
    elif fam == "wide":
        # ratios beyond the ordinary families (x81 / x31 .. x2500), commensurate or generic, steps from 4e-8 to 2.5e4
        limit = KMAX_WIDE + 1
        k = draw(k_wide)
        base = draw(_WIDE_BASE)
        if draw(_BOOL):
            dt, target = _comm_pair(base, k, draw(_HOW))
        elif draw(_BOOL):
            dt, target = base, base / (k - 1 + draw(_FRAC))
        else:
            dt, target = base, base * (k + draw(_FRAC))
    elif fam == "nudge":
        # a commensurate target moved by a relative amount 1e-15 .. 1e-4 to either side: the quotient is NOT an integer, by a
        # margin that a tolerance-style rounding of the factor (ceil(q - 1e-9), floor(q + 1e-9), round(q, 6)) would swallow
        wide = draw(st.integers(0, 4)) == 0
        limit = KMAX_WIDE + 1 if wide else kmax + 1
        k = draw(k_wide) if wide else draw(k_int)
        dt, target = _comm_pair(draw(_WIDE_BASE if wide else _BASE), k, draw(_HOW))
        target = target * (1.0 + draw(_SIGN) * 10.0 ** draw(_NUDGE_EXP))
    elif fam == "inexact":
        # decimation by a factor whose reciprocal is inexact in double precision (see INEXACT_RECIP)
        limit = KMAX_WIDE + 1
        k = draw(_INEXACT_K)
        base = draw(_DYADIC_BASE) if draw(_BOOL) else draw(_BASE)
        dt, target = base, base * k
    else:
        dt = draw(_DTS)
        target = dt
    assume(Fraction(dt) <= limit * Fraction(target) and Fraction(target) <= limit * Fraction(dt))
    return {"dt": float(dt), "target": float(target), "fam": fam}


FORMS = ["pos", "kw", "defaults", "mixed"]
_FORM = st.sampled_from(FORMS)
_DTAS = st.sampled_from(["float", "float", "float", "np", "int"])
_OBJVAR = st.sampled_from([None, None, "label", "smooth", "rt"])


def _dt_arg(ctx, dt, how):
    """The same step as a python float, a numpy scalar or (when it is a whole number) a python int."""
    if how == "np":
        ctx.cls("dt=np.float64")
        return np.float64(dt)
    if how == "int" and float(dt) == int(dt):
        ctx.cls("dt=int")
        return int(dt)
    return dt


def _make_asig(ctx, values, dt, var):
    """An AccSignal holding the record, optionally carrying non-default settings that resampling has no business with."""
    if var == "label":
        ctx.cls("obj=labelled")
        return ctx.lib(eqsig.AccSignal, values, dt, label="rec-7")
    if var == "smooth":
        ctx.cls("obj=smooth-range")
        return ctx.lib(eqsig.AccSignal, values, dt, smooth_freq_range=(0.5, 10.0))
    if var == "rt":
        ctx.cls("obj=response-times")
        return ctx.lib(eqsig.AccSignal, values, dt, response_times=[0.2, 1.0])
    return ctx.lib(eqsig.AccSignal, values, dt)
_PAIRS_INTERP = _pairs(KMAX_INTERP)
_PAIRS_FOURIER = _pairs(KMAX_FOURIER)


def _call(ctx, fn, lead, target, even, form):
    """Positional / keyword / defaults-omitted / mixed (target positional, even by keyword: the spelling of the consumer
    AccSignal.gen_response_spectrum) call of fn(*lead, target_dt=0.01, even=True)."""
    if form == "mixed":
        return ctx.lib(fn, *(tuple(lead) + (target,)), even=even)
    if form == "pos":
        return ctx.lib(fn, *(tuple(lead) + (target, even)))
    if form == "kw":
        return ctx.lib(fn, *lead, target_dt=target, even=even)
    kw = {}
    if target != 0.01:
        kw["target_dt"] = target
    else:
        ctx.cls("default-target")
    if not even:
        kw["even"] = False
    else:
        ctx.cls("default-even")
    return ctx.lib(fn, *lead, **kw)


# ---------------------------------------------------------------------------
# shared oracle: step, ratio, evenness and length rules


def _step_rules(ctx, dt, target, new_dt, npts, n_out, even, what, lengths=True):
    """Returns (mode, k) read from the returned step: mode in {'refine', 'decimate', 'same'}.

    Step rule (both sentences of the statement): step <= target, ratio to dt an integer or the reciprocal of one.
    lengths=True (every clause of this module): 'the length is even when requested' and 'the covered duration changes by less than
    two steps', for the interpolation functions and for the Fourier resampler alike (reading of the quantifier, see ASSUMPTIONS).
    lengths=False records the two as class labels only (not used; kept for the narrower reading of the Fourier sentence)."""
    ctx.check(np.ndim(new_dt) == 0 and isinstance(new_dt, (float, int, np.floating, np.integer)),
              "%s: returned step is not a real scalar: %r" % (what, new_dt))
    new_dt = float(new_dt)
    ctx.check(math.isfinite(new_dt) and new_dt > 0, "%s: returned step %r is not a positive finite number" % (what, new_dt))
    ctx.check(n_out >= 1, "%s: empty output" % what)
    fd, ft, fn = Fraction(dt), Fraction(target), Fraction(new_dt)
    ctx.check(fn <= ft * STEP_SLACK, "%s: returned step %r exceeds the target %r (dt=%r)" % (what, new_dt, target, dt))
    if fn <= fd:
        r = fd / fn
        mode = "refine"
    else:
        r = fn / fd
        mode = "decimate"
    k = int(round(r))
    ctx.check(k >= 1 and abs(r - k) <= RATIO_TOL * k,
              "%s: returned step %r is neither dt/k nor dt*k for an integer k (dt=%r, ratio %.17g)" % (what, new_dt, dt, float(r)))
    if k == 1:
        mode = "same"
    # evenness and duration.  The duration is counted with the integer ratio the statement speaks of (the returned double is that
    # ratio rounded): in units of the finer of the two steps the record covers k*npts (refinement) or npts (decimation), the output
    # n_out resp. n_out*k, and two of the coarser steps are 2k.  Pure integer arithmetic: nothing is ambiguous, and a loss of EXACTLY
    # two steps (npts = 392, k = 49: 6 samples instead of 8) is a violation of 'less than two steps'.
    odd_when_even = bool(even) and n_out % 2 == 1
    diff = abs(n_out - k * npts) if mode != "decimate" else abs(n_out * k - npts)
    if lengths:
        ctx.check(not odd_when_even, "%s: even=True but %d samples returned (npts=%d, dt=%r, target=%r)" % (what, n_out, npts, dt, target))
        if diff >= 2 * k:
            ctx.fail("%s: covered duration changes by %s steps (>= 2): %d samples at %r -> %d samples at %r" % (
                what, Fraction(diff, k), npts, dt, n_out, new_dt))
    else:
        ctx.cls("odd-length-when-even-requested" if odd_when_even else None, "duration-off-by>=2-steps" if diff >= 2 * k else None)
    if diff * 2 >= 3 * k:
        ctx.cls("duration-off-by>=1.5-steps")
    return mode, k


def _classify_pair(ctx, case, mode, k, npts, n_out):
    dt, target = case["dt"], case["target"]
    ctx.cls(mode, "fam=" + case.get("fam", "?"), "even" if case["even"] else "not-even", "form=" + case.get("form", "kw"))
    qcls = _quotient_class(dt, target)
    ctx.cls(*qcls)
    # what was ASKED for (the statement's reading of the pair in exact arithmetic: ceil / reciprocal floor) next to what came back.
    # The statement does not say that the returned step is the LARGEST admissible one, so a different factor is not a violation;
    # the health floors on 'req=...,k==ref' make a run in which the library no longer follows the request unhealthy (exit 2)
    # instead of silently passing: the generator's constructions (lengths k*q, band limits, k strata) are built on the reference k
    ref_mode, ref_k = _ref_factor(dt, target)
    ctx.cls("req=" + ref_mode)
    if (ref_mode, ref_k) != (mode, k):
        ctx.cls("k-differs-from-exact")  # allowed: quotient next to an integer
    else:
        ctx.cls("k==ref", "req=%s,k==ref" % ref_mode)
    if k > KMAX_INTERP:
        ctx.cls("k>80")
    if k > KMAX_FOURIER:
        ctx.cls("k>30")
    if dt == target:
        ctx.cls("dt==target")
    if mode == "refine":
        ctx.cls("k<=4" if k <= 4 else "k>4")
        if n_out != k * npts:
            ctx.cls("even-truncated")
    elif mode == "decimate":
        ctx.cls("k<=4" if k <= 4 else "k>4")
        ctx.cls("k|npts" if npts % k == 0 else "k-not|npts")
    elif n_out != npts:
        ctx.cls("even-truncated")


# ---------------------------------------------------------------------------
# clause 1: interpolation

LONG_KINDS = ["noise", "sines", "pulse", "step", "walk", "const", "quake"]


@st.composite
def _interp_cases(draw):
    p = draw(_PAIRS_INTERP)
    dt, target = p["dt"], p["target"]
    mode, k = _ref_factor(dt, target)
    nmin = _min_npts(dt, target)
    cap = 3000
    # refinement: output <= OUT_CAP samples; decimation by a wide factor needs 2k+1 samples for the duration precondition
    max_n = max(nmin, min(cap, OUT_CAP // (k + 1))) if mode == "refine" else max(nmin + 64, cap)
    even = draw(_BOOL)
    if p["fam"] == "inexact" and mode == "decimate":
        # length k * (even quotient): fl(1/k)*npts lies just below the even whole number npts/k, an even truncation of THAT product
        # loses two samples = two new steps
        n = k * 2 * draw(st.integers(2, 6))
        even = draw(st.integers(0, 3)) != 0
        spec = draw(gen.record_specs(min_n=n, max_n=n, small_max=n, kinds=LONG_KINDS, allow_int=True, allow_zero_runs=False))
    elif mode == "decimate" and draw(st.integers(0, 2)) == 0:
        # record length a multiple of the decimation factor (the new grid ends exactly one new step before npts*dt)
        q_min = max(2, -(-nmin // k))
        n = k * draw(st.one_of(st.integers(q_min, q_min + 9), st.integers(q_min, max(q_min, cap // k))))
        spec = draw(gen.record_specs(min_n=n, max_n=n, small_max=n, kinds=None if n <= 40 else LONG_KINDS, allow_int=True,
                                     allow_zero_runs=False))
    else:
        spec = draw(gen.record_specs(min_n=nmin, max_n=max_n, kinds=None if nmin <= 40 else LONG_KINDS, allow_int=True))
    return {"rec": spec, "dt": dt, "target": target, "even": even, "form": draw(_FORM), "fam": p["fam"], "dtas": draw(_DTAS),
            "objvar": draw(_OBJVAR)}


@clause(CLAUSES, "interp-rule", _interp_cases(), quick=2000, thorough=10000,
        rule="(dt, target) pairs: independent log-uniform / repo rates, log-uniform ratio in (1, 80], commensurate (target = dt*k, dt/k, dt = target*k, target/k as "
             "float products, k <= 80), thousandths (multiples and free), default target 0.01, 1-2 ulp neighbours of a commensurate "
             "target, targets moved off a commensurate value by a relative 1e-15..1e-4 to either side, wide ratios (k = 81..2500, "
             "commensurate and generic, steps 4e-8..2.5e4), decimation by factors with an inexact reciprocal (49, 98, 103, 107 ... ; length "
             "k * even, even=True in 3 of 4), dt == target; records of all kinds (float / int / list / views) with npts from the "
             "duration precondition up to 3000 (2k+65 for wide decimations); even in {T, F}; positional / keyword / defaults-omitted / "
             "mixed calls; dt as float / numpy scalar / int; object with default or non-default settings; non-trivial = returned step != dt and record not constant",
        oracle="reference model, array level and object level each on its own output: step <= target*(1+4eps) (exact rationals), ratio "
               "within 16 eps of an integer, even length, duration in integer arithmetic |n_out - k*npts| < 2k resp. |n_out*k - npts| < 2k (no "
               "ambiguity band); refinement: n_out >= (npts-1)k+1 and out[::k][:npts] == record bitwise (ALL originals); decimation "
               "out[i] == record[i*k] to 4 eps (npts*range + max|a|); range +- 4 eps max|a|; inputs unchanged",
        require={"refine": 0.25, "decimate": 0.25, "req=refine": 0.25, "req=decimate": 0.25, "req=refine,k==ref": 0.2,
                 "req=decimate,k==ref": 0.2, "near-int": 0.10, "dt==target": 0.03, "even-truncated": 0.04, "k>4": 0.15,
                 "q-near-int-below": 0.01, "q-near-int-above": 0.01, "fam=wide": 0.04, "fam=nudge": 0.06, "fam=inexact": 0.015,
                 "k>80": 0.04, "form=mixed": 0.1},
        min_nontrivial=0.4)
def interp_rule(case, ctx):
    spec = case["rec"]
    a0 = gen.build(spec)
    arg = gen.as_container(spec, a0)
    _interp_check(ctx, case, arg, spec["k"], spec.get("as"))


def _interp_oracle(ctx, a, dt, target, even, res_values, new_dt, what):
    """The interpolation sentence of the statement on one result: step / ratio / length / evenness rules, retained samples
    (every one of them), range.  a = the record as float64; returns (mode, k, out)."""
    npts = len(a)
    out = np.asarray(res_values)
    # any real numeric dtype: a decimator that slices an integer record returns integers, a true subsequence
    ctx.check(out.ndim == 1 and out.dtype.kind in "fiu", "%s: interpolated values: ndim=%d dtype=%s" % (what, out.ndim, out.dtype))
    out = out.astype(float) if out.dtype.kind != "f" else out
    n_out = len(out)
    mode, k = _step_rules(ctx, dt, target, new_dt, npts, n_out, even, what)
    lo, hi = float(a.min()), float(a.max())
    rng = hi - lo
    amax = max(abs(lo), abs(hi))
    ctx.finite(out, "%s: interpolated values" % what)
    # retained samples
    if mode == "refine":
        # 'original samples reappear unchanged at their instants when refining': ALL of them, the last one at output index (npts-1)*k.
        # (An even length requested for an odd k*npts costs one of the k-1 samples after the last original, never an original.)
        ctx.check(n_out >= (npts - 1) * k + 1,
                  "%s: refinement by %d of %d samples returned %d samples: the original sample(s) from index %d on do not reappear "
                  "(the last one belongs at output index %d)" % (what, k, npts, n_out, (n_out - 1) // k + 1, (npts - 1) * k))
        ctx.equal(out[::k][:npts], a, "%s: refinement by %d (dt=%r -> %r): original samples at out[::%d]" % (what, k, dt, float(new_dt), k))
    elif mode == "same":
        # unchanged step: neither refinement nor decimation; the output instants are the input instants, so whatever is returned must
        # be the record (an even length requested for an odd record drops its last sample; the duration rule bounds the loss)
        m = min(n_out, npts)
        ctx.equal(out[:m], a[:m], "%s: unchanged step %r: output vs record" % (what, dt))
    else:
        # 'the output is a subsequence of the input when decimating' + the returned step: output sample i stands at the instant
        # i*new_dt = i*k*dt of a record that starts at t = 0, where the input has record[i*k]
        idx = np.arange(n_out, dtype=np.int64) * k
        inside = idx <= npts - 1
        tol = 4 * EPS * (npts * rng + amax)
        ctx.close(out[inside], a[idx[inside]], tol,
                  "%s: decimation by %d (dt=%r -> %r): out[i] vs record[i*%d]" % (what, k, dt, float(new_dt), k))
        for i in np.flatnonzero(~inside):
            ctx.cls("decimate-past-end")
            later = a[(int(i) - 1) * k + 1:]
            ctx.check(bool(np.any(later == out[i])),
                      "%s: decimation by %d: out[%d]=%r (instant beyond the record) is not an input sample after index %d" % (
                          what, k, i, out[i], (int(i) - 1) * k))
    # range (global, as the statement says; it is silent on HOW the samples between two originals are filled)
    tol_r = 4 * EPS * amax
    ctx.check(bool(np.all(out >= lo - tol_r) and np.all(out <= hi + tol_r)),
              "%s: values leave the input's range [%r, %r]: min %r max %r" % (what, lo, hi, float(out.min()), float(out.max())))
    return mode, k, out


def _interp_check(ctx, case, arg, kind, container=None, asig=None):
    """Array level and object level, each held against the oracle on its whole output (the quantifier covers both variants; the
    statement does not say that the two agree bit for bit, so their agreement is only recorded as a class).  asig: an existing
    signal object holding the record (history variant) instead of a fresh one."""
    a = np.array(arg, dtype=float)  # what the library sees (the int variant rounds)
    dt, target, even = case["dt"], case["target"], bool(case["even"])
    form = case.get("form", "kw")
    npts = len(a)
    if Fraction(npts - 1) * Fraction(dt) < 2 * max(Fraction(dt), Fraction(target)):
        raise HarnessError("case outside the quantifier: duration < 2*max(dt, target)")
    before = np.array(arg).copy()
    dt_arg = _dt_arg(ctx, dt, case.get("dtas"))
    res = _call(ctx, ts.interp_array_to_approx_dt, (arg, dt_arg), target, even, form)
    ctx.check(isinstance(res, tuple) and len(res) == 2, "interp_array_to_approx_dt did not return (values, dt): %r" % (type(res),))
    ctx.equal(np.array(arg), before, "input record after the call")
    mode, k, out = _interp_oracle(ctx, a, dt, target, even, res[0], res[1], "interp_array_to_approx_dt")
    new_dt = res[1]
    n_out = len(out)
    _classify_pair(ctx, case, mode, k, npts, n_out)
    ctx.cls("kind=" + kind, gen.size_class(npts), "npts-odd" if npts % 2 else "npts-even")
    if container:
        ctx.cls("as=" + container)
    ctx.nt(mode != "same" and float(a.max()) > float(a.min()))
    # object level: the same sentence, judged on its own output
    if asig is None:
        asig = _make_asig(ctx, a, dt_arg, case.get("objvar"))
    o = _call(ctx, ts.interp_to_approx_dt, (asig,), target, even, form)
    ctx.check(isinstance(o, eqsig.AccSignal), "interp_to_approx_dt returned %r, not an AccSignal" % (type(o),))
    omode, ok, oout = _interp_oracle(ctx, a, dt, target, even, o.values, o.dt, "interp_to_approx_dt")
    ctx.check(o.npts == len(oout), "interp_to_approx_dt(...).npts=%r but %d values" % (o.npts, len(oout)))
    same = oout.shape == out.shape and bool(np.array_equal(oout, out)) and float(o.dt) == float(new_dt)
    ctx.cls("obj==array" if same else "obj!=array")
    ctx.check(asig.dt == dt, "interp_to_approx_dt changed the dt of its argument: %r" % (asig.dt,))
    ctx.equal(np.asarray(asig.values), a, "values of the signal passed to interp_to_approx_dt")
    return mode, k, n_out


# ---------------------------------------------------------------------------
# clause 2: periodic (Fourier) resampling

_unit = st.one_of(st.floats(0.0, 1.0, allow_nan=False), st.just(1.0), st.just(0.0))
_COMP = st.tuples(_unit, gen.scalars(1e-3, 1e3), st.floats(0.0, 6.2831, allow_nan=False)).map(list)
_COMPS = st.lists(_COMP, min_size=1, max_size=3)
_FLAVOUR = st.sampled_from(["mult", "mult", "free"])


@st.composite
def _fourier_cases(draw):
    p = draw(_PAIRS_FOURIER)
    dt, target = p["dt"], p["target"]
    mode, k = _ref_factor(dt, target)
    nmin = max(3, _min_npts(dt, target))
    cap = 1500 if tier() == "quick" else 2500
    cap = max(nmin, min(cap, 60000 // k)) if mode == "refine" else max(nmin + 64, cap)
    flavour = draw(_FLAVOUR) if mode == "decimate" else "free"
    if p["fam"] == "inexact":
        flavour = "mult"   # fl(1/k)*npts just below the whole number npts/k
    if flavour == "mult":
        q_min = max(3, -(-nmin // k))
        q = draw(st.one_of(st.integers(q_min, q_min + 9), st.integers(q_min, max(q_min, cap // k))))
        if draw(_BOOL):
            q += q % 2
        npts = k * q
    else:
        npts = draw(st.one_of(st.integers(nmin, min(cap, nmin + 12)), st.integers(nmin, cap)))
    case = {"npts": npts, "dt": dt, "target": target, "even": draw(_BOOL), "comps": draw(_COMPS), "form": draw(_FORM),
            "fam": p["fam"], "dtas": draw(_DTAS), "objvar": draw(_OBJVAR)}
    if mode == "refine" and draw(st.integers(0, 3)) == 0:
        # a component exactly at the OLD Nyquist harmonic npts/2 (even npts), in cosine phase: x_i = c*(-1)^i.  It is periodic over
        # the record and below the new Nyquist frequency (the step is refined), so the statement covers it
        case["npts"] = npts + npts % 2
        case["nyq"] = [draw(gen.scalars(1e-3, 1e3)), draw(st.sampled_from([0.0, 3.141592653589793]))]
    return case


def _band_limit(npts, dt, target):
    """Largest integer M with M < npts/2 and M/(npts*dt) < 1/(2*new_dt) for every step the statement's rule admits."""
    mode, k = _ref_factor(dt, target)
    if Fraction(target) > Fraction(dt):
        k = max(1, int(math.floor(Fraction(target) / Fraction(dt) * (1 + NINE))))  # conservative next to an integer
        lim = Fraction(npts, 2 * k)
    else:
        lim = Fraction(npts, 2)
    return int(math.ceil(lim)) - 1


def _tones(comps, m_list, n, cycles_per_sample):
    """sum_j c_j cos(2 pi m_j * (i * cycles_per_sample) + phi_j), i = 0..n-1, in long double.  cycles_per_sample is the
    long-double fraction of the record period covered by one sample; integer phases are reduced exactly first."""
    i = np.arange(n, dtype=LD)
    x = np.zeros(n, dtype=LD)
    for (mu, c, phi), m in zip(comps, m_list):
        s = i * cycles_per_sample * LD(m)
        s = s - np.floor(s)
        x = x + LD(c) * np.cos(TWO_PI * s + LD(phi))
    return x


def _tones_exact_grid(comps, m_list, n):
    """The same signal on the grid of n equally spaced instants over one record period (phase m*i/n reduced in integers)."""
    i = np.arange(n, dtype=np.int64)
    x = np.zeros(n, dtype=LD)
    for (mu, c, phi), m in zip(comps, m_list):
        s = ((i * int(m)) % n).astype(LD) / LD(n)
        x = x + LD(c) * np.cos(TWO_PI * s + LD(phi))
    return x


_TWO_PI_F = 2.0 * math.pi
_TWO64 = 1 << 64


def _tones_fx(comps, m_list, n, cps):
    """The same closed form, sum_j c_j cos(2 pi m_j i cps + phi_j), i = 0..n-1, for mid-range sizes.  cps (cycles of the record
    period per sample) is an exact Fraction; the phase m*cps*i mod 1 is accumulated in 64-bit fixed point (R = round(frac(m*cps)*2^64),
    i*R wraps modulo 2^64 in uint64 arithmetic), so its error is below n*2^-65 + 2^-53 cycles (4e-12 rad at n = 2.4e7); cosine and
    sum in double precision (error a few eps * sum|c|)."""
    i = np.arange(n, dtype=np.uint64)
    x = np.zeros(n)
    for (mu, c, phi), m in zip(comps, m_list):
        r = (Fraction(int(m)) * cps) % 1
        big_r = int(round(r * _TWO64)) % _TWO64
        u = i * np.uint64(big_r)
        s = (u >> np.uint64(11)).astype(np.float64) * 2.0 ** -53
        x += float(c) * np.cos(_TWO_PI_F * s + float(phi))
    return x


def _cross_check_fx(expect, comps, m_list, n, cycles_per_sample, csum):
    """Harness self-check: the fixed-point reference agrees with the long-double closed form (_tones) on ~2000 instants spread over
    the output (first and last included).  A disagreement is a bug in the oracle, never a violation."""
    if n <= 2048:
        idx = np.arange(n)
    else:
        idx = np.unique(np.concatenate([[0, 1, n - 2, n - 1], (np.arange(2000) * (n / 2000.0) + 0.37 * (n / 2000.0)).astype(np.int64)]))
    i = idx.astype(LD)
    x = np.zeros(len(idx), dtype=LD)
    for (mu, c, phi), m in zip(comps, m_list):
        s = i * cycles_per_sample * LD(m)
        s = s - np.floor(s)
        x = x + LD(c) * np.cos(TWO_PI * s + LD(phi))
    d = float(np.max(np.abs(x - expect[idx].astype(LD))))
    if not d <= 1e-11 * csum:
        raise HarnessError("fixed-point reference differs from the long-double closed form by %.3e (sum|c| = %.3e)" % (d, csum))


@clause(CLAUSES, "fourier-rule", _fourier_cases(), quick=2000, thorough=10000,
        rule="(dt, target) pairs as in interp-rule (ordinary families k <= 30; nudged, wide k = 31..2500 and inexact-reciprocal families "
             "as there); npts from the duration precondition up to 1500 (2500 thorough; 2k+65 for wide decimations; refined output <= "
             "60 000), for decimation two thirds of the cases npts = k*q (half of them q even) so that the new grid is commensurate; 1-3 cosine "
             "components, the first with index m = min(M, 1+floor(mu*M)), the others m = min(M, floor(mu*(M+1))) (mu in [0,1], both "
             "ends drawn), M = largest index below the old and the new Nyquist index, amplitude +-[1e-3,1e3], phase [0,2pi); even in {T,F}; four call forms; non-trivial = returned "
             "step != dt and some component with m >= 1",
        oracle="reference model: step <= target, integer ratio, even length and duration rule as in interp-rule; output[i] == x(i*new_dt) from the closed form in long double (fixed point above 20 000 samples), "
               "tolerance 1e-9*sum|c|; forced incommensurate cases (known finding C14-KF1): output[i] == x(i*npts*dt/len(output)), "
               "with a second call on components clipped below len(output)/2 where the first cannot be judged",
        require={"refine": 0.2, "decimate": 0.2, "req=refine": 0.2, "req=decimate": 0.2, "req=refine,k==ref": 0.15,
                 "req=decimate,k==ref": 0.15, "commensurate": 0.4, "decimate-commensurate": 0.08, "refine-commensurate": 0.1,
                 "incommensurate": 0.1, "m-top": 0.1, "not-even": 0.3, "fam=wide": 0.04, "fam=nudge": 0.06, "fam=inexact": 0.015,
                 "k>30": 0.1},
        min_nontrivial=0.4)
def fourier_rule(case, ctx):
    _fourier_check(ctx, case)


def _m_list(comps, big_m):
    """first component: m in 1..M (a genuine oscillation); further components: m in 0..M (0 = constant offset)"""
    return [min(big_m, (1 + int(mu * big_m)) if j == 0 else int(mu * (big_m + 1))) for j, (mu, c, phi) in enumerate(comps)]


def _fourier_signal(case, ctx=None, fast=False):
    """(x, comps, m_list, big_m) of a Fourier case: the band-limited periodic test record, double precision."""
    npts, dt, target = int(case["npts"]), case["dt"], case["target"]
    comps = case["comps"]
    if Fraction(npts - 1) * Fraction(dt) < 2 * max(Fraction(dt), Fraction(target)):
        raise HarnessError("case outside the quantifier: duration < 2*max(dt, target)")
    big_m = _band_limit(npts, dt, target)
    if big_m < 1:
        raise HarnessError("no admissible oscillating component (cannot happen under the duration precondition)")
    m_list = _m_list(comps, big_m)
    if case.get("nyq") and npts % 2 == 0 and Fraction(target) < Fraction(dt):
        comps = list(comps) + [[1.0, case["nyq"][0], case["nyq"][1]]]
        m_list = m_list + [npts // 2]
        if ctx is not None:
            ctx.cls("old-nyquist-component")
    if fast:
        x = _tones_fx(comps, m_list, npts, Fraction(1, npts))
    else:
        x = np.asarray(_tones_exact_grid(comps, m_list, npts), dtype=float)
    return x, comps, m_list, big_m


FAST_ABOVE = 20000   # outputs longer than this use the fixed-point reference (a few thousand samples: long double)


def _fourier_check(ctx, case, fast=False, asig=None, signal=None, second=False):
    """The Fourier sentence of the statement on one call.  fast=False: long-double closed form, tolerance 1e-9*sum|c| (records of a
    few thousand samples); fast=True (mid-range sizes, and any output longer than FAST_ABOVE): the same closed form with the phase
    accumulated in 64-bit fixed point from the exact rational cycles-per-sample, cross-checked against the long-double form on a
    sample of instants, and the tolerance re-derived for the size (see ASSUMPTIONS).  asig: an existing signal object holding the test
    record (history variant).  second: this is the second call of a known-finding case (components clipped below len(out)/2)."""
    npts, dt, target, even = int(case["npts"]), case["dt"], case["target"], bool(case["even"])
    form = case.get("form", "kw")
    x, comps, m_list, big_m = signal if signal is not None else _fourier_signal(case, ctx, fast)
    csum = float(sum(abs(c) for mu, c, phi in comps))
    if asig is None:
        asig = _make_asig(ctx, x, _dt_arg(ctx, dt, case.get("dtas")), case.get("objvar"))
    o = _call(ctx, ts.resample_to_approx_dt, (asig,), target, even, form)
    ctx.check(isinstance(o, eqsig.AccSignal), "resample_to_approx_dt returned %r, not an AccSignal" % (type(o),))
    y = np.asarray(o.values)
    ctx.check(y.ndim == 1 and y.dtype.kind in "fiu", "resampled values: ndim=%d dtype=%s" % (y.ndim, y.dtype))
    y = y.astype(float) if y.dtype.kind != "f" else y
    n_out = len(y)
    new_dt = o.dt
    # step rule + evenness + duration: the quantifier ('even in {True, False}, array-level and object-level variants') is read as
    # covering both resamplers, and resample_to_approx_dt documents `even` as forcing an even number of samples (see ASSUMPTIONS
    # for the narrower reading of the Fourier sentence)
    mode, k = _step_rules(ctx, dt, target, new_dt, npts, n_out, even, "resample_to_approx_dt")
    if not second:
        _classify_pair(ctx, case, mode, k, npts, n_out)
        ctx.cls(gen.size_class(npts), "ncomp=%d" % len(comps))
        if big_m >= 1 and max(m_list) == big_m:
            ctx.cls("m-top")
        ctx.nt(mode != "same" and any(m >= 1 for m in m_list))
    ctx.check(o.npts == n_out, "returned signal: npts=%r but %d values" % (o.npts, n_out))
    ctx.finite(y, "resampled values")
    ctx.equal(np.asarray(asig.values), x, "values of the signal passed to resample_to_approx_dt")
    ctx.check(asig.dt == dt, "resample_to_approx_dt changed the dt of its argument: %r" % (asig.dt,))
    # matcher of C14-KF1: is the reported step the spacing of n_out samples over the record period npts*dt ?
    if mode == "decimate":
        commensurate = n_out * k == npts
    else:
        commensurate = n_out == k * npts
    if not second:
        ctx.cls("commensurate" if commensurate else "incommensurate", mode + ("-commensurate" if commensurate else "-incommensurate"))
    fast = fast or n_out > FAST_ABOVE
    tol = 1e-9 * csum
    # the statement: output[i] = x(i * new_dt)
    if fast:
        # the returned step is a double: fl(dt/k) resp. fl(dt/fl(1/k)) is off dt/k resp. dt*k by up to eps (relative, two
        # roundings), which moves the last instant by eps*duration and the phase of component m there by 2 pi m eps < 8 m eps
        tol = (1e-9 + 8 * EPS * max(m_list)) * csum
        cps = Fraction(float(new_dt)) / (npts * Fraction(dt))
        expect = _tones_fx(comps, m_list, n_out, cps)
        _cross_check_fx(expect, comps, m_list, n_out, LD(float(new_dt)) / (LD(npts) * LD(dt)), csum)
        err = float(np.max(np.abs(y - expect)))
    else:
        per_sample = LD(float(new_dt)) / (LD(npts) * LD(dt))
        expect = _tones(comps, m_list, n_out, per_sample)
        err = float(np.max(np.abs(y.astype(LD) - expect)))
    ctx.notes["err/tol"] = err / tol
    if not second:
        # how close the error of the reproduction comes to the tolerance (record for the evidence)
        ctx.cls("err/tol<1e-3" if err < 1e-3 * tol else "err/tol<0.1" if err < 0.1 * tol else "err/tol<1" if err <= tol else "err/tol>1")
    if err <= tol:
        return mode, k, n_out
    # the known finding covers incommensurability that the statement's own rules FORCE: a decimation factor that does not
    # divide the record length, or an even length requested for an odd product k*npts.  Where a commensurate length exists
    # and is allowed (integer refinement / unchanged step with even=False, or an even product; decimation with k | npts and
    # npts/k even or even=False) an incommensurate answer is a different defect and stays a violation.
    if mode == "decimate":
        forced = npts % k != 0 or (even and (npts // k) % 2 == 1)
    else:
        forced = even and (k * npts) % 2 == 1
    ctx.cls("kf-forced" if (forced and not commensurate) else None)
    if not commensurate and forced and ctx.kf("C14-KF1"):
        if all(2 * m < n_out for m in m_list):
            ctx.cls("kf-regrid-checked")
            regrid = _tones_fx(comps, m_list, n_out, Fraction(1, n_out)) if fast else _tones_exact_grid(comps, m_list, n_out)
            ctx.close(y, regrid, 1e-9 * csum,
                      "incommensurate resampling (%d -> %d samples): output vs signal at the instants i*npts*dt/len(output)" % (
                          npts, n_out))
        elif not second:
            # some component lies at or above len(out)/2: on the grid of len(out) instants per record period that SciPy uses it is
            # not representable, the bound of the known finding says nothing about this output.  What CAN be asserted: the same call
            # on the same record length with every component moved below len(out)/2 (still periodic over the record and band-limited
            # below the new Nyquist frequency, so inside the statement) must be reproduced on that grid.
            top = (n_out - 1) // 2   # 0 for an output of one or two samples: only a constant is representable there
            m2 = [min(int(m), top) for m in m_list]
            x2 = _tones_fx(comps, m2, npts, Fraction(1, npts)) if fast else np.asarray(_tones_exact_grid(comps, m2, npts), dtype=float)
            ctx.cls("kf-second-call")
            _fourier_check(ctx, case, fast=fast, signal=(x2, comps, m2, big_m), second=True)
        else:
            ctx.cls("kf-second-call-unchecked")
        return mode, k, n_out
    j = int(np.argmax(np.abs(y.astype(LD) - expect)))
    ctx.fail("band-limited periodic signal (m=%s of npts=%d, dt=%r) not reproduced at i*new_dt (new_dt=%r, %d samples, %s): "
             "output[%d]=%r, signal %r, max error %.3e > %.3e" % (
                 m_list, npts, dt, float(new_dt), n_out, "commensurate" if commensurate else "len*new_dt != npts*dt",
                 j, float(y[j]), float(expect[j]), err, tol))


# ---------------------------------------------------------------------------
# clause 3: the anchored consumer - AccSignal.gen_response_spectrum refines the record through interp_array_to_approx_dt(values, dt,
# target_dt, even=False) (target positional, even by keyword) whenever min(period)/20 or dt/min_dt_ratio is below dt.  The values it
# gets back are not observable from outside, so the call is observed at the module attribute eqsig.single.interp_array_to_approx_dt
# (wrapped for the duration of the call; the oracle looks only at the arguments and the result of the call).

import eqsig.single as _single

_RATIOS = st.lists(gen.log_uniform(0.6, 60.0), min_size=1, max_size=3)
_MDR = st.sampled_from([None, None, 2, 3, 8, 10, 25])


@st.composite
def _consumer_cases(draw):
    spec = draw(gen.record_specs(min_n=4, max_n=300, kinds=LONG_KINDS, allow_zero_runs=False))
    return {"rec": spec, "dt": draw(_DTS), "ratios": draw(_RATIOS), "mdr": draw(_MDR)}


@clause(CLAUSES, "consumer-call", _consumer_cases(), quick=150, thorough=400,
        rule="records of 4..300 samples, dt log-uniform / repo rates, 1-3 response periods T = r*dt with r log-uniform in [0.6, 60] (refinement "
             "is requested when min r < 20), min_dt_ratio default / 2 / 3 / 8 / 10 / 25; non-trivial = the consumer called the interpolation",
        oracle="every call of interp_array_to_approx_dt made by gen_response_spectrum is held against the interpolation oracle of "
               "interp-rule (arguments bound by the pinned signature); an exception of the consumer itself is not a C14 matter (label)",
        require={"consumer-call-observed": 0.3}, min_nontrivial=0.3)
def consumer_call(case, ctx):
    a = gen.build(case["rec"])
    dt = case["dt"]
    periods = [r * dt for r in case["ratios"]]
    if not hasattr(_single, "interp_array_to_approx_dt"):
        ctx.cls("no-observation-point")
        return
    asig = eqsig.AccSignal(a, dt)
    calls = []
    orig = _single.interp_array_to_approx_dt

    def spy(*args, **kwargs):
        res = orig(*args, **kwargs)
        calls.append((args, kwargs, res))
        return res

    _single.interp_array_to_approx_dt = spy
    try:
        try:
            if case["mdr"] is None:
                asig.gen_response_spectrum(response_times=periods)
            else:
                asig.gen_response_spectrum(response_times=periods, min_dt_ratio=case["mdr"])
        except MemoryError:
            raise
        except Exception:  # noqa  (the response spectrum is the business of C02..C05)
            ctx.cls("consumer-raised")
    finally:
        _single.interp_array_to_approx_dt = orig
    for args, kwargs, res in calls:
        names = ["values", "dt", "target_dt", "even"]
        bound = {"target_dt": 0.01, "even": True}
        bound.update(dict(zip(names, args)))
        bound.update(kwargs)
        ctx.cls("consumer-call-observed", "consumer-even=%r" % (bool(bound["even"]),))
        vals = np.array(bound["values"], dtype=float)
        d, t = float(bound["dt"]), float(bound["target_dt"])
        if Fraction(len(vals) - 1) * Fraction(d) < 2 * max(Fraction(d), Fraction(t)):
            ctx.cls("consumer-call-outside-quantifier")
            continue
        ctx.check(isinstance(res, tuple) and len(res) == 2, "interp_array_to_approx_dt did not return (values, dt): %r" % (type(res),))
        mode, k, out = _interp_oracle(ctx, vals, d, t, bool(bound["even"]), res[0], res[1],
                                      "interp_array_to_approx_dt (called by gen_response_spectrum)")
        ctx.cls("consumer-" + mode)
        ctx.nt(True)


# ---------------------------------------------------------------------------
# mid-range sizes (2 000 .. 300 000 samples quick, .. 2 000 000 thorough) x refinement / decimation ratios x even x arbitrary /
# prime / power-of-two / smooth lengths: a code path that exists only inside a window of record lengths (blocked interpolation,
# padding to a fast FFT length, a reduced-precision or streamed variant for long records) is invisible to the random clauses
# above, whose records stop at 3000 / 2500 samples.  Same oracles, whole output checked.

import hashlib as _hashlib

MID_HI = {"quick": 300000, "thorough": 2000000}
MID_COUNT = {"quick": 20, "thorough": 48}
MID_NEIGHBOURS = {"quick": 5, "thorough": 14}
MID_OUT_CAP = {("interp", "quick"): 3000000, ("interp", "thorough"): 12000000,
               ("fourier", "quick"): 1200000, ("fourier", "thorough"): 6000000}
K_REFINE = (2, 10)
K_DECIMATE = (2, 50)


def _hh(*parts):
    s = ":".join(str(p) for p in parts)
    return int(_hashlib.blake2b(s.encode(), digest_size=8).hexdigest(), 16)


def _unit_hash(*parts):
    return (_hh(*parts) % 10 ** 9) / 1e9


def _is_prime(n):
    if n < 2:
        return False
    if n % 2 == 0:
        return n == 2
    f = 3
    while f * f <= n:
        if n % f == 0:
            return False
        f += 2
    return True


def _next_prime(n):
    while not _is_prime(n):
        n += 1
    return n


def _next_pow2(n):
    return 1 << int(n - 1).bit_length()


def _next_smooth(n):
    """Smallest 2^a 3^b 5^c 7^d >= n (a highly composite length)."""
    best = _next_pow2(n)
    p7 = 1
    while p7 < best:
        p5 = p7
        while p5 < best:
            p3 = p5
            while p3 < best:
                v = p3
                while v < n:
                    v *= 2
                best = min(best, v)
                p3 *= 3
            p5 *= 5
        p7 *= 7
    return best


def _mid_sizes(tier, which):
    """Record lengths of a mid-range enumeration: the seed-placed ladder (one length per logarithmic bin, arbitrary parity and
    factorisation), lengths aimed at integer literals of the source under test, and for a few hash-chosen ladder lengths their
    next prime, next power of two (previous one when the next leaves the range) and next 7-smooth neighbours."""
    hi = MID_HI[tier]
    tag = "c14-%s-%s" % (which, tier)
    lad = gen.ladder(2000, hi, MID_COUNT[tier], tag)
    sizes = set(gen.size_ladder(2000, hi, MID_COUNT[tier], tag))
    sizes.update(gen.ladder(int(0.9 * hi), hi, 2, tag + "-top")[-1:])   # the last tenth of the range is always visited
    nb = MID_NEIGHBOURS[tier]   # one hash-chosen ladder length from each of nb consecutive stretches of the ladder: small and large ones
    picks = [lad[(j * len(lad)) // nb + _hh(gen.run_seed(), tag, "nb", j) % max(1, len(lad) // nb)] for j in range(nb)]
    for s in picks:
        p2 = _next_pow2(s)
        sizes.update([_next_prime(s), p2 if p2 <= hi else p2 // 2, min(hi, _next_smooth(s + 1))])
    return sorted(sizes)


_MID_DTS = [d for d in gen.REPO_DTS if d <= 0.2]
# (slot, even): every length meets refinement, decimation (record length a multiple of the factor / arbitrary) and an unchanged
# step, each with both values of `even`
K_REFINE_WIDE = (11, KMAX_WIDE)     # while the refined output stays under the cap (3e6 samples: x1500 at 2000, x11 at 270 000)
K_DECIMATE_WIDE = (51, KMAX_WIDE)   # while the duration precondition holds (2k+1 samples: x999 at 2000)
MID_MINED_OUT = {("interp", "quick"): 8000000, ("interp", "thorough"): 24000000,
                 ("fourier", "quick"): 4000000, ("fourier", "thorough"): 12000000}
_MID_SLOTS = [("refine", True), ("refine", False), ("decimate-mult", True), ("decimate-mult", False), ("decimate-free", None),
              ("refine-wide", None), ("decimate-wide", None),
              ("same", True), ("same", False)]


def _mid_pair(slot, k, key):
    """(dt, target, fam) for a refinement / decimation by k or an unchanged step: commensurate as a float product or quotient, or
    a generic (non-commensurate) quotient with the same integer factor."""
    u = _unit_hash(key, "dt")
    dt = _MID_DTS[_hh(key, "dtpick") % len(_MID_DTS)] if u < 0.5 else float(10.0 ** (-3 + 2.3 * _unit_hash(key, "dtlog")))
    fam = ["comm-quot", "comm-prod", "generic"][_hh(key, "fam") % 3]
    frac = 0.05 + 0.9 * _unit_hash(key, "frac")
    if slot.startswith("refine"):
        if fam == "comm-quot":
            target = dt / k
        elif fam == "comm-prod":
            dt, target = dt * k, dt
        else:
            target = dt / (k - 1 + frac)
    elif slot.startswith("decimate"):
        if fam == "comm-prod":
            target = dt * k
        elif fam == "comm-quot":
            dt, target = dt / k, dt
        else:
            target = dt * (k + frac)
    else:
        if fam == "generic":
            target = dt * (1.0 + frac)   # below two steps: the step cannot be doubled, it stays
        else:
            target = dt
            fam = "equal"
    return float(dt), float(target), fam


def _pick_k(slot, npts, cap, key, top=False):
    if slot == "refine":
        hi = max(K_REFINE[0], min(K_REFINE[1], cap // npts))
        if top:
            return hi
        return K_REFINE[0] + _hh(key, "k") % (hi - K_REFINE[0] + 1)
    if slot in ("refine-wide", "decimate-wide"):
        lo, hi = K_REFINE_WIDE if slot == "refine-wide" else K_DECIMATE_WIDE
        hi = min(hi, cap // npts if slot == "refine-wide" else (npts - 3) // 2)
        if hi < lo:
            return None   # no wide factor fits this length
        return int(min(hi, math.exp(math.log(lo) + (math.log(hi + 1) - math.log(lo)) * _unit_hash(key, "k"))))
    if slot.startswith("decimate"):
        # log-uniform over 2..50: small factors are as frequent as large ones
        lo, hi = K_DECIMATE
        return int(min(hi, math.exp(math.log(lo) + (math.log(hi + 1) - math.log(lo)) * _unit_hash(key, "k"))))
    return 1


def _mid_cases(tier, which):
    """Plain-JSON cases of the mid-range enumerations (deterministic in VERIF_SEED)."""
    seed = gen.run_seed()
    cap = MID_OUT_CAP[(which, tier)]
    cases = []
    for s in _mid_sizes(tier, which):
        for slot, even in _MID_SLOTS:
            key = "%d:%s:%s:%d:%s:%s" % (seed, which, tier, s, slot, even)
            # of the two refining cases of a length one (hash-chosen) takes the largest admissible factor: the longest outputs
            top = slot == "refine" and bool(even) == bool(_hh(seed, which, tier, s, "topslot") % 2)
            k = _pick_k(slot, s, cap, key, top)
            if k is None:
                continue
            dt, target, fam = _mid_pair(slot, k, key)
            mode, kk = _ref_factor(dt, target)   # the statement's rule on the doubles (a float product can land next to k)
            npts = s
            if slot == "decimate-mult" and mode == "decimate":
                q = max(3, int(round(s / float(kk))))
                if even:
                    q += q % 2   # even quotient: the requested even length is commensurate
                npts = kk * q
            if even is None:
                even = bool(_hh(key, "even") % 2)
            case = {"npts": int(npts), "dt": dt, "target": target, "even": bool(even), "fam": fam, "slot": slot,
                    "form": FORMS[_hh(key, "form") % len(FORMS)], "seed": int(_hh(key, "seed") % (2 ** 31 - 1))}
            cases.append(case)
    # OUTPUT lengths aimed at integer literals of the source beyond the ladder (a path switched on by `new_npts > 4_000_000`): a
    # refinement whose output is just above the literal (at most 4 literals, hash-chosen)
    mined = gen.mined_ints(MID_HI[tier] + 1, MID_MINED_OUT[(which, tier)])
    for c in sorted(mined, key=lambda v: _hh(seed, which, tier, "minedout", v))[:4]:
        key = "%d:%s:%s:minedout:%d" % (seed, which, tier, c)
        k = 4 + _hh(key, "k") % 7
        npts = c // k + 1 + _hh(key, "n") % 40
        dt, target, fam = _mid_pair("refine", k, key)
        cases.append({"npts": int(npts), "dt": dt, "target": target, "even": bool(_hh(key, "even") % 2), "fam": fam,
                      "slot": "refine-mined-output", "form": FORMS[_hh(key, "form") % len(FORMS)],
                      "seed": int(_hh(key, "seed") % (2 ** 31 - 1))})
    return cases


def _length_class(n):
    if n & (n - 1) == 0:
        return "len=power-of-two"
    if _is_prime(n):
        return "len=prime"
    m = n
    for p in (2, 3, 5, 7):
        while m % p == 0:
            m //= p
    return "len=7-smooth" if m == 1 else ("len=odd" if n % 2 else "len=even")


def _octave(n):
    return "npts~2^%d" % int(math.floor(math.log2(n)))


# ---- interpolation

MID_KINDS = ["noise-env", "walk", "sines-noise", "ramp-noise"]
_MID_OFFSETS = [0.0, 0.0, 3.0, -3.0, 50.0, -50.0]


def _mid_record(n, seed):
    """An ordinary record of n samples, content right up to the end (no quiet tail), distinct values throughout, often a non-zero
    mean (a block filled with 0 or dropped then leaves the range / breaks the retained samples).  Returns (values, kind, spec)."""
    rs = np.random.RandomState(seed)
    kind = MID_KINDS[rs.randint(len(MID_KINDS))]
    amp = 10.0 ** rs.randint(-3, 4)
    off = _MID_OFFSETS[rs.randint(len(_MID_OFFSETS))]
    t = np.arange(n) / float(n)
    if kind == "noise-env":
        a = rs.standard_normal(n) * (0.4 + 0.6 * np.sin(math.pi * (1.5 + 3 * rs.rand()) * t) ** 2)
    elif kind == "walk":
        a = np.cumsum(rs.standard_normal(n)) / math.sqrt(n)
    elif kind == "sines-noise":
        a = 0.1 * rs.standard_normal(n)
        for _ in range(3):
            a += rs.uniform(0.2, 1.0) * np.sin(2 * math.pi * rs.uniform(0.3, n / 8.0) * t + rs.uniform(0, 6.28))
    else:
        a = rs.uniform(-4, 4) * t + 0.2 * rs.standard_normal(n)
    a = (a + off) * amp
    how = [None, None, None, None, "view", "negstride", "readonly", "int"][rs.randint(8)]
    if how == "int" and amp < 100:
        how = None
    return np.ascontiguousarray(a, dtype=float), kind, how


def _mid_interp_enum(tier, shard, nshards):
    for i, case in enumerate(_mid_cases(tier, "interp")):
        if i % nshards == shard:
            yield case


@enum_clause(CLAUSES, "mid-range-interp", _mid_interp_enum,
             rule="record lengths: ladder of 20 (quick, 2 000..300 000) / 48 (thorough, ..2 000 000) seed-placed sizes + one in the last "
                  "tenth of the range, sizes aimed at integer literals of the source, next-prime / power-of-two / 7-smooth neighbours of "
                  "5 / 14 of them; every length x {refine k in 2..10 (one of the two cases: the largest k with output <= 3e6 / 1.2e7), decimate k in 2..50 with npts a multiple of k, decimate with the arbitrary length, refine by a wide factor 11..2500 while the "
                  "output stays under the cap, decimate by a wide factor 51..2500 while 2k+1 <= npts, unchanged step "
                  "(target == dt or dt < target < 2 dt)} x even in {T, F}; (dt, target) commensurate as float product / quotient or "
                  "generic; records noise x envelope / walk / sines + noise / ramp + noise with offsets 0, +-3, +-50 and container "
                  "variants; four call forms; non-trivial = step changed",
             oracle="the oracle of interp-rule on the WHOLE output (every retained sample bitwise / to 4 eps (npts*range + max|a|), range, "
                    "step / ratio / length / evenness rules), array level and object level each on its own output; + a refinement whose OUTPUT "
                    "length lies just above an integer literal of the source beyond the ladder (<= 8e6 / 2.4e7 samples)",
             exhaustive_note="all listed (length, ratio, even) combinations", quick_shards=4,
             require={"refine": 0.2, "decimate": 0.3, "same": 0.12, "even": 0.35, "not-even": 0.35, "len=prime": 0.03,
                      "len=power-of-two": 0.03, "req=refine,k==ref": 0.15, "req=decimate,k==ref": 0.2, "k>80": 0.04},
             min_nontrivial=0.5)
def mid_range_interp(case, ctx):
    n = int(case["npts"])
    a0, kind, how = _mid_record(n, case["seed"])
    arg = gen.as_container({"as": how}, a0)
    ctx.cls(_length_class(n), _octave(n), "slot=" + case["slot"])
    mode, k, n_out = _interp_check(ctx, case, arg, kind, how)
    ctx.cls("%s-%s" % (mode, "even" if case["even"] else "not-even"))


# ---- Fourier resampling


def _mid_comps(case):
    """3-4 components (mu, c, phi): one anywhere in the band, one at (or just below) the top of the band, one slow, and in half
    of the cases a constant offset; amplitudes 0.05..20 with either sign.  The signal is periodic over the record, so it is as
    loud in the last samples as anywhere else."""
    rs = np.random.RandomState(case["seed"])
    top = 1.0 if rs.randint(3) else 0.9
    if case["slot"] in ("decimate-free", "decimate-wide"):
        top = 0.9    # the known-finding route can only be checked below the (truncated) new Nyquist index
    mus = [rs.uniform(0.02, min(top, 0.98)), top, rs.uniform(0.0, 0.02)]
    comps = [[float(mu), float(rs.choice([-1.0, 1.0]) * 10.0 ** rs.uniform(-1.3, 1.3)), float(rs.uniform(0, 6.2831))] for mu in mus]
    if rs.randint(2):
        comps.append([0.0, float(rs.choice([-1.0, 1.0]) * 10.0 ** rs.uniform(-1.3, 1.3)), 0.0])
    nyq = None
    if rs.randint(3) == 0:
        nyq = [float(rs.choice([-1.0, 1.0]) * 10.0 ** rs.uniform(-1.3, 1.3)), float(rs.choice([0.0, 3.141592653589793]))]
    return comps, nyq


def _mid_fourier_case(case):
    comps, nyq = _mid_comps(case)
    full = dict(case, comps=comps)
    if nyq is not None and case["slot"].startswith("refine") and case["npts"] % 2 == 0:
        full["nyq"] = nyq
    return full


def _mid_fourier_enum(tier, shard, nshards):
    for i, case in enumerate(_mid_cases(tier, "fourier")):
        if i % nshards == shard:
            yield _mid_fourier_case(case)


@enum_clause(CLAUSES, "mid-range-fourier", _mid_fourier_enum,
             rule="lengths, ratios, even and (dt, target) families as in mid-range-interp (own ladder; refined output capped at 1.2e6 quick "
                  "/ 6e6 thorough samples); test record = 3-4 cosines on exact bins of the record (one anywhere in the band, one at the "
                  "top index M or 0.9 M, one slow, optionally a constant, for refinement of an even length sometimes the old Nyquist "
                  "bin), loud up to the last sample; non-trivial = step changed",
             oracle="the oracle of fourier-rule on the WHOLE output: closed form at i*new_dt, phase in 64-bit fixed point from the exact "
                    "rational step (cross-checked against long double on 2000 instants), tolerance (1e-9 + 8 eps max m)*sum|c|; forced "
                    "incommensurate lengths (C14-KF1, unchanged matcher): closed form at i*npts*dt/len(output), 1e-9*sum|c|",
             exhaustive_note="all listed (length, ratio, even) combinations", quick_shards=4,
             require={"refine": 0.2, "decimate": 0.3, "same": 0.12, "commensurate": 0.4, "refine-commensurate": 0.12,
                      "decimate-commensurate": 0.15, "len=prime": 0.03, "len=power-of-two": 0.03, "not-even": 0.35, "even": 0.35,
                      "req=refine,k==ref": 0.15, "req=decimate,k==ref": 0.2, "k>80": 0.04},
             min_nontrivial=0.5)
def mid_range_fourier(case, ctx):
    n = int(case["npts"])
    ctx.cls(_length_class(n), _octave(n), "slot=" + case["slot"])
    mode, k, n_out = _fourier_check(ctx, case, fast=True)
    ctx.cls("%s-%s" % (mode, "even" if case["even"] else "not-even"))


# ---- histories at mid-range size: the same signal object / the same record length asked again with other options and other values


def _mid_history_enum(tier, shard, nshards):
    seed = gen.run_seed()
    hi = 250000 if tier == "quick" else 1500000
    sizes = gen.ladder(3000, hi, 6 if tier == "quick" else 20, "c14-history-%s" % tier)
    i = 0
    for s in sizes:
        for which in ("interp", "fourier"):
            key = "%d:hist:%s:%s:%d" % (seed, which, tier, s)
            cap = MID_OUT_CAP[(which, tier)]
            kd = _pick_k("decimate", s, cap, key + ":d")
            dt, t_dec, _ = _mid_pair("decimate", kd, key + ":d")
            kd = _ref_factor(dt, t_dec)[1]
            q = max(4, int(round(s / float(kd))))
            if which == "interp" or _hh(key, "qpar") % 3 == 0:
                q += 1 - q % 2   # odd quotient: the requested evenness changes the length (Fourier: forced incommensurate, C14-KF1)
            else:
                q += q % 2       # even quotient: decimation by kd is commensurate for both values of `even`
            npts = kd * q
            kr = _pick_k("refine", npts, cap, key + ":r")
            if which == "interp" and kr % 2 == 0:
                kr += 1 if kr < K_REFINE[1] else -1   # odd factor: with an odd length the evenness matters for refinement too
            fam = _hh(key, "rfam") % 2
            t_ref = dt / kr if fam else dt / (kr - 1 + 0.05 + 0.9 * _unit_hash(key, "rfrac"))
            e = bool(_hh(key, "even") % 2)
            first, second = (t_dec, t_ref) if _hh(key, "order") % 2 else (t_ref, t_dec)
            steps = [{"target": first, "even": e, "pre": "read"},
                     {"target": first, "even": not e, "pre": None},
                     {"target": second, "even": e, "pre": None},
                     {"target": first, "even": e, "pre": "reset"},
                     {"target": second, "even": not e, "pre": "read"},
                     {"target": second, "even": e, "pre": None}]
            if i % nshards == shard:
                yield {"which": which, "npts": int(npts), "dt": float(dt), "steps": steps, "seed": int(_hh(key, "seed") % (2 ** 31 - 1)),
                       "form": FORMS[_hh(key, "form") % len(FORMS)]}
            i += 1


@enum_clause(CLAUSES, "mid-range-history", _mid_history_enum,
             rule="6 (quick, 3 000..250 000) / 20 (thorough, ..1 500 000) seed-placed lengths (a multiple of the decimation factor; odd "
                  "quotient and odd refinement factor for interpolation so that `even` changes the length, even quotient in 2 of 3 "
                  "Fourier histories) x {interpolation, Fourier}: ONE signal object is read (spectrum, velocity), resampled with (target A, "
                  "even e), (A, not e), (target B, e), then its values are replaced (reset_values, same length) and it is resampled with "
                  "(A, e), after another read (B, not e), and (B, e); A / B = a decimating and a refining target in hash-chosen order: "
                  "both targets see `even` switched on and off on unchanged lengths",
             oracle="every answer of the history is held against the full oracle of mid-range-interp / mid-range-fourier for the values "
                    "the object holds at that moment (absolute reference, independent of the history) and, for interpolation, against a "
                    "fresh array-level call (bitwise)",
             exhaustive_note="all listed histories", quick_shards=4, min_nontrivial=0.9)
def mid_range_history(case, ctx):
    npts, dt = int(case["npts"]), case["dt"]
    which = case["which"]
    ctx.cls("which=" + which, _octave(npts))
    ctx.nt(True)
    rs = np.random.RandomState(case["seed"])
    seeds = [int(rs.randint(2 ** 31 - 1)) for _ in range(2)]
    if which == "interp":
        recs = [_mid_record(npts, sd) for sd in seeds]
    else:
        # band limit common to every target of the history
        big_m = min(_band_limit(npts, dt, st_["target"]) for st_ in case["steps"])
        recs = []
        for sd in seeds:
            comps, _nyq = _mid_comps({"seed": sd, "slot": "history"})
            m_list = _m_list(comps, big_m)
            recs.append((_tones_fx(comps, m_list, npts, Fraction(1, npts)), comps, m_list, big_m))
    cur = 0
    asig = ctx.lib(eqsig.AccSignal, recs[0][0], dt)
    for j, step in enumerate(case["steps"]):
        if step["pre"] == "read":
            # plain reads: what they return (or raise) is the business of other properties; here they only put the object into the
            # state 'spectrum and motion series cached'
            try:
                asig.fa_spectrum, asig.velocity  # noqa
            except Exception:  # noqa
                ctx.cls("read-raised")
        elif step["pre"] == "reset":
            cur = 1
            ctx.lib(asig.reset_values, recs[1][0])
        sub = {"npts": npts, "dt": dt, "target": step["target"], "even": step["even"], "form": case["form"], "fam": "history"}
        ctx.cls("step%d" % j)
        if which == "interp":
            _interp_check(ctx, sub, recs[cur][0], recs[cur][1], None, asig=asig)
        else:
            _fourier_check(ctx, sub, fast=True, asig=asig, signal=recs[cur])
