"""C14 - resampling keeps the record: bounded step, retained samples, band-limited signals reproduced exactly."""
import math
from fractions import Fraction

import numpy as np
from hypothesis import assume
from hypothesis import strategies as st

import eqsig
from eqsig.fns import time_step as ts

from pbt import gen
from pbt.core import clause, HarnessError, tier

PROPERTY = "C14"
CLAUSES = []
ASSUMPTIONS = [
    "records: finite float64 (array level also integer-dtype and list variants), |a| <= 1e9; dt, target in about [1e-5, 30] with "
    "max(dt/target, target/dt) <= 80 (interpolation) / 30 (Fourier), output length <= 130 000 samples",
    "duration precondition of the quantifier, constructed in exact rational arithmetic: (npts-1)*dt >= 2*max(dt, target)",
    "all step / ratio / length comparisons are evaluated in exact rational arithmetic on the doubles that were passed and "
    "returned (fractions.Fraction), so the only tolerances are the stated ones: 'does not exceed the target' allows 4 eps "
    "relative (the quotient dt/target, its reciprocal and the division dt/factor each round once: 2 eps suffices); "
    "'integer ratio' = within 1e-9 of an integer; which of refinement / decimation / no change applies, and the integer k, are "
    "read from the RETURNED step, not recomputed from the target (the statement does not require the largest admissible step)",
    "'covered duration' = number of samples * step; 'changes by less than two steps' is |len(out)*new_dt - npts*dt| < "
    "2*max(dt, new_dt); a difference within 1e-9 (relative) of the limit is ambiguous (margin filter) and accepted - it occurs "
    "when fl(1/k)*npts lands just below an even integer, e.g. k=49, npts=392, even=True gives 6 instead of 8 samples",
    "refinement by k: out[j*k] == record[j] bitwise for every j with j*k < len(out) (np.interp returns the node value at a node)",
    "decimation by k: out[i] equals record[i*k] to 4*eps*(npts*range + max|a|): the library's grid i/fl(1/k) can miss the integer "
    "i*k by 2 ulp, which moves the interpolated value by |slope|*i*k*2.3e-16 (DESIGN: 'to 1e-9*range'; this bound is tighter); "
    "an output sample whose instant i*k*dt lies beyond the last input sample must equal (==) an input sample later than the "
    "previous retained one, so that the output is still a subsequence of the input",
    "'values never leave the input's range' allows 4*eps*max|a| for the rounding of a + slope*(x - x0)",
    "Fourier clause: the test signal is sum_j c_j cos(2 pi m_j t/(npts*dt) + phi_j) sampled at t = i*dt (long double, rounded to "
    "double); 'band-limited below the new Nyquist frequency' is constructed from the statement's own step rule in rational "
    "arithmetic (new step dt/ceil(dt/target) resp. dt*floor(target/dt*(1+1e-9))) and additionally m_j < npts/2: a component at or "
    "above the OLD Nyquist index is aliased in the input itself and cannot be reproduced by any resampler; 1 to 3 components, "
    "|c| in [1e-3, 1e3]; 'exactly' = 1e-9*sum|c| at the instants i*new_dt of the returned signal (FFT rounding is ~1e-15*sum|c|)",
    "known finding C14-KF1 (matcher: incommensurate - len(out)*k != npts for decimation by k, len(out) != k*npts for refinement by "
    "k - AND forced by the statement's own rules: k does not divide npts, or an even length was requested for an odd product; an "
    "avoidable incommensurate length stays a violation): SciPy spaces the samples at npts*dt/len(out), not at the reported step; there the "
    "reproduction is asserted on the instants i*npts*dt/len(out) (when every m_j < len(out)/2) and step / ratio / length / "
    "evenness rules stay enforced; every commensurate case is asserted strictly",
]
EPS = np.finfo(float).eps
LD = np.longdouble
TWO_PI = 2 * np.arccos(LD(-1))
KMAX_INTERP = 80
KMAX_FOURIER = 30
OUT_CAP = 130000
NINE = Fraction(1, 10 ** 9)
STEP_SLACK = 1 + Fraction(4 * EPS)


# ---------------------------------------------------------------------------
# the statement's step rule in exact rational arithmetic (generator side / band limit; the oracle reads k from the returned step)


def _ref_factor(dt, target):
    """('refine', ceil(dt/target)) | ('decimate', floor(target/dt)) | ('same', 1) for the exact ratio of the two doubles."""
    fd, ft = Fraction(dt), Fraction(target)
    if fd > ft:
        return "refine", int(math.ceil(fd / ft))
    if ft > fd:
        k = int(math.floor(ft / fd))
        return ("decimate", k) if k > 1 else ("same", 1)
    return "same", 1


def _min_npts(dt, target):
    """Smallest npts with (npts-1)*dt >= 2*max(dt, target)."""
    fd, ft = Fraction(dt), Fraction(target)
    return int(math.ceil(2 * max(fd, ft) / fd)) + 1


def _quotient_class(dt, target):
    fd, ft = Fraction(dt), Fraction(target)
    q = fd / ft if fd >= ft else ft / fd
    k = round(q)
    if q == k:
        return ["near-int", "q-int-exact"]
    if abs(q - k) <= q * Fraction(1, 10 ** 12):
        return ["near-int", "q-near-int-below" if q < k else "q-near-int-above"]
    return []


def _nudge(x, n):
    for _ in range(abs(n)):
        x = float(np.nextafter(x, math.inf if n > 0 else 0.0))
    return x


# strategies are built once (building / validating them inside a composite costs more than the check itself)
_FAM = st.sampled_from(["indep"] * 3 + ["ratio"] * 3 + ["comm"] * 3 + ["dec3"] * 2 + ["t01", "ulp", "equal"])
_DTS = gen.dts(1e-3, 1.0)
_BASE = gen.dts(1e-3, 0.5)
_BOOL = st.booleans()
_HOW = st.sampled_from(["dt/k", "t*k", "dt*k", "t/k"])
_ULPS = st.sampled_from([-2, -1, 1, 2])
_LO100 = st.integers(1, 100)
_LO999 = st.one_of(st.integers(1, 60), st.integers(1, 999))
_DT01 = st.one_of(st.sampled_from([d for d in gen.REPO_DTS if d <= 0.2]), gen.log_uniform(1e-3, 0.3))
_PER_KMAX = {}


def _kmax_strategies(kmax):
    if kmax not in _PER_KMAX:
        _PER_KMAX[kmax] = (gen.log_uniform(1e-3, kmax - 1.0), gen.log_uniform(1e-3, kmax - 2.0), st.integers(2, kmax))
    return _PER_KMAX[kmax]


@st.composite
def _pairs(draw, kmax):
    """(dt, target) pairs: independent, generic ratio, commensurate (float product / quotient), thousandths, default target,
    neighbours of an integer quotient, equal."""
    r_refine, r_decim, k_int = _kmax_strategies(kmax)
    fam = draw(_FAM)
    if fam == "indep":
        dt = draw(_DTS)
        target = draw(_DTS)
    elif fam == "ratio":
        dt = draw(_DTS)
        if draw(_BOOL):
            target = dt / (1.0 + draw(r_refine))   # refinement, dt/target in (1, kmax]
        else:
            target = dt * (2.0 + draw(r_decim))    # decimation, target/dt in (2, kmax]
    elif fam in ("comm", "ulp"):
        k = draw(k_int)
        base = draw(_BASE)
        how = draw(_HOW)
        if how == "dt/k":
            dt, target = base, base / k
        elif how == "t*k":
            dt, target = base * k, base
        elif how == "dt*k":
            dt, target = base, base * k
        else:
            dt, target = base / k, base
        if fam == "ulp":
            target = _nudge(target, draw(_ULPS))
    elif fam == "dec3":
        if draw(_BOOL):
            lo = draw(_LO100)
            hi = lo * draw(st.integers(2, max(2, min(kmax, 1000 // lo))))
        else:
            lo = draw(_LO999)
            hi = draw(st.integers(lo, min(999, lo * kmax)))
        dt, target = (hi / 1000.0, lo / 1000.0) if draw(_BOOL) else (lo / 1000.0, hi / 1000.0)
    elif fam == "t01":
        target = 0.01
        dt = draw(_DT01)
    else:
        dt = draw(_DTS)
        target = dt
    assume(Fraction(dt) <= kmax * Fraction(target) and Fraction(target) <= kmax * Fraction(dt))
    return {"dt": float(dt), "target": float(target), "fam": fam}


FORMS = ["pos", "kw", "defaults"]
_FORM = st.sampled_from(FORMS)
_PAIRS_INTERP = _pairs(KMAX_INTERP)
_PAIRS_FOURIER = _pairs(KMAX_FOURIER)


def _call(ctx, fn, lead, target, even, form):
    """Positional / keyword / defaults-omitted call of fn(*lead, target_dt=0.01, even=True)."""
    if form == "pos":
        return ctx.lib(fn, *(tuple(lead) + (target, even)))
    if form == "kw":
        return ctx.lib(fn, *lead, target_dt=target, even=even)
    kw = {}
    if target != 0.01:
        kw["target_dt"] = target
    else:
        ctx.cls("default-target")
    if not even:
        kw["even"] = False
    else:
        ctx.cls("default-even")
    return ctx.lib(fn, *lead, **kw)


# ---------------------------------------------------------------------------
# shared oracle: step, ratio, evenness and length rules


def _step_rules(ctx, dt, target, new_dt, npts, n_out, even, what):
    """Returns (mode, k) read from the returned step: mode in {'refine', 'decimate', 'same'}."""
    ctx.check(np.ndim(new_dt) == 0 and isinstance(new_dt, (float, int, np.floating, np.integer)),
              "%s: returned step is not a real scalar: %r" % (what, new_dt))
    new_dt = float(new_dt)
    ctx.check(math.isfinite(new_dt) and new_dt > 0, "%s: returned step %r is not a positive finite number" % (what, new_dt))
    ctx.check(n_out >= 1, "%s: empty output" % what)
    fd, ft, fn = Fraction(dt), Fraction(target), Fraction(new_dt)
    ctx.check(fn <= ft * STEP_SLACK, "%s: returned step %r exceeds the target %r (dt=%r)" % (what, new_dt, target, dt))
    if fn <= fd:
        r = fd / fn
        mode = "refine"
    else:
        r = fn / fd
        mode = "decimate"
    k = int(round(r))
    ctx.check(k >= 1 and abs(r - k) <= NINE,
              "%s: returned step %r is neither dt/k nor dt*k for an integer k (dt=%r, ratio %.12g)" % (what, new_dt, dt, float(r)))
    if k == 1:
        mode = "same"
    if even:
        ctx.check(n_out % 2 == 0, "%s: even=True but %d samples returned (npts=%d, dt=%r, target=%r)" % (what, n_out, npts, dt, target))
    diff = abs(n_out * fn - npts * fd)
    lim = 2 * max(fd, fn)
    if diff >= lim * (1 + NINE):
        ctx.fail("%s: covered duration changes by %.12g steps (>= 2): %d samples at %r -> %d samples at %r" % (
            what, float(diff / max(fd, fn)), npts, dt, n_out, new_dt))
    if diff > lim * (1 - NINE):
        ctx.amb()
        ctx.cls("length-amb")
    return mode, k


def _classify_pair(ctx, case, mode, k, npts, n_out):
    dt, target = case["dt"], case["target"]
    ctx.cls(mode, "fam=" + case.get("fam", "?"), "even" if case["even"] else "not-even", "form=" + case.get("form", "kw"))
    ctx.cls(*_quotient_class(dt, target))
    ref_mode, ref_k = _ref_factor(dt, target)
    if (ref_mode, ref_k) != (mode, k):
        ctx.cls("k-differs-from-exact")  # allowed: quotient next to an integer
    if dt == target:
        ctx.cls("dt==target")
    if mode == "refine":
        ctx.cls("k<=4" if k <= 4 else "k>4")
        if n_out != k * npts:
            ctx.cls("even-truncated")
    elif mode == "decimate":
        ctx.cls("k<=4" if k <= 4 else "k>4")
        ctx.cls("k|npts" if npts % k == 0 else "k-not|npts")
    elif n_out != npts:
        ctx.cls("even-truncated")


# ---------------------------------------------------------------------------
# clause 1: interpolation

LONG_KINDS = ["noise", "sines", "pulse", "step", "walk", "const", "quake"]


@st.composite
def _interp_cases(draw):
    p = draw(_PAIRS_INTERP)
    dt, target = p["dt"], p["target"]
    mode, k = _ref_factor(dt, target)
    nmin = _min_npts(dt, target)
    cap = 3000
    max_n = max(nmin, min(cap, OUT_CAP // (k + 1))) if mode == "refine" else max(nmin, cap)
    if mode == "decimate" and draw(st.integers(0, 2)) == 0:
        # record length a multiple of the decimation factor (the new grid ends exactly one new step before npts*dt)
        q_min = max(2, -(-nmin // k))
        n = k * draw(st.one_of(st.integers(q_min, q_min + 9), st.integers(q_min, max(q_min, cap // k))))
        spec = draw(gen.record_specs(min_n=n, max_n=n, small_max=n, kinds=None if n <= 40 else LONG_KINDS, allow_int=True,
                                     allow_zero_runs=False))
    else:
        spec = draw(gen.record_specs(min_n=nmin, max_n=max_n, kinds=None if nmin <= 40 else LONG_KINDS, allow_int=True))
    return {"rec": spec, "dt": dt, "target": target, "even": draw(_BOOL), "form": draw(_FORM), "fam": p["fam"]}


@clause(CLAUSES, "interp-rule", _interp_cases(), quick=2000, thorough=10000,
        rule="(dt, target) pairs: independent log-uniform / repo rates, log-uniform ratio in (1, 80], commensurate (target = dt*k, dt/k, dt = target*k, target/k as "
             "float products, k <= 80), thousandths (multiples and free), default target 0.01, 1-2 ulp neighbours of a commensurate "
             "target, dt == target; records of all kinds (float / int / list) with npts from the duration precondition up to 3000; "
             "even in {T, F}; positional / keyword / defaults-omitted calls; non-trivial = returned step != dt and record not constant",
        oracle="reference model in exact rational arithmetic on the returned step (step <= target*(1+4eps), ratio within 1e-9 of an "
               "integer, even length, |len*new_dt - npts*dt| < 2 max(dt,new_dt)); refinement out[::k] == record bitwise; decimation "
               "out[i] == record[i*k] to 4 eps (npts*range + max|a|); range +- 4 eps max|a|; differential: interp_to_approx_dt "
               "(AccSignal) == array level, bitwise; inputs unchanged",
        require={"refine": 0.25, "decimate": 0.25, "near-int": 0.10, "dt==target": 0.03, "even-truncated": 0.04, "k>4": 0.15,
                 "q-near-int-below": 0.01, "q-near-int-above": 0.01},
        min_nontrivial=0.4)
def interp_rule(case, ctx):
    spec = case["rec"]
    a0 = gen.build(spec)
    arg = gen.as_container(spec, a0)
    a = np.array(arg, dtype=float)  # what the library sees (the int variant rounds)
    dt, target, even = case["dt"], case["target"], bool(case["even"])
    form = case.get("form", "kw")
    npts = len(a)
    if Fraction(npts - 1) * Fraction(dt) < 2 * max(Fraction(dt), Fraction(target)):
        raise HarnessError("case outside the quantifier: duration < 2*max(dt, target)")
    before = np.array(arg).copy()
    res = _call(ctx, ts.interp_array_to_approx_dt, (arg, dt), target, even, form)
    ctx.check(isinstance(res, tuple) and len(res) == 2, "interp_array_to_approx_dt did not return (values, dt): %r" % (type(res),))
    out, new_dt = res
    out = np.asarray(out)
    ctx.check(out.ndim == 1 and out.dtype.kind == "f", "interpolated values: ndim=%d dtype=%s" % (out.ndim, out.dtype))
    ctx.equal(np.array(arg), before, "input record after the call")
    n_out = len(out)
    mode, k = _step_rules(ctx, dt, target, new_dt, npts, n_out, even, "interp_array_to_approx_dt")
    _classify_pair(ctx, case, mode, k, npts, n_out)
    ctx.cls("kind=" + spec["k"], gen.size_class(npts), "npts-odd" if npts % 2 else "npts-even")
    if spec.get("as"):
        ctx.cls("as=" + spec["as"])
    lo, hi = float(a.min()), float(a.max())
    rng = hi - lo
    amax = max(abs(lo), abs(hi))
    ctx.nt(mode != "same" and rng > 0)
    ctx.finite(out, "interpolated values")
    # retained samples
    if mode in ("refine", "same"):
        sub = out[::k]
        m = min(len(sub), npts)
        ctx.equal(sub[:m], a[:m], "refinement by %d (dt=%r -> %r): original samples at out[::%d]" % (k, dt, float(new_dt), k))
    else:
        idx = np.arange(n_out, dtype=np.int64) * k
        inside = idx <= npts - 1
        tol = 4 * EPS * (npts * rng + amax)
        ctx.close(out[inside], a[idx[inside]], tol,
                  "decimation by %d (dt=%r -> %r): out[i] vs record[i*%d]" % (k, dt, float(new_dt), k))
        for i in np.flatnonzero(~inside):
            ctx.cls("decimate-past-end")
            later = a[(int(i) - 1) * k + 1:]
            ctx.check(bool(np.any(later == out[i])),
                      "decimation by %d: out[%d]=%r (instant beyond the record) is not an input sample after index %d" % (
                          k, i, out[i], (int(i) - 1) * k))
    # range
    tol_r = 4 * EPS * amax
    ctx.check(bool(np.all(out >= lo - tol_r) and np.all(out <= hi + tol_r)),
              "values leave the input's range [%r, %r]: min %r max %r" % (lo, hi, float(out.min()), float(out.max())))
    # object level
    asig = ctx.lib(eqsig.AccSignal, a, dt)
    o = _call(ctx, ts.interp_to_approx_dt, (asig,), target, even, form)
    ctx.check(isinstance(o, eqsig.AccSignal), "interp_to_approx_dt returned %r, not an AccSignal" % (type(o),))
    ctx.equal(np.asarray(o.values), out, "interp_to_approx_dt(...).values vs interp_array_to_approx_dt")
    ctx.check(float(o.dt) == float(new_dt), "interp_to_approx_dt(...).dt=%r vs array level %r" % (o.dt, new_dt))
    ctx.check(o.npts == n_out, "interp_to_approx_dt(...).npts=%r vs %d values" % (o.npts, n_out))
    ctx.check(asig.dt == dt, "interp_to_approx_dt changed the dt of its argument: %r" % (asig.dt,))
    ctx.equal(np.asarray(asig.values), a, "values of the signal passed to interp_to_approx_dt")


# ---------------------------------------------------------------------------
# clause 2: periodic (Fourier) resampling

_unit = st.one_of(st.floats(0.0, 1.0, allow_nan=False), st.just(1.0), st.just(0.0))
_COMP = st.tuples(_unit, gen.scalars(1e-3, 1e3), st.floats(0.0, 6.2831, allow_nan=False)).map(list)
_COMPS = st.lists(_COMP, min_size=1, max_size=3)
_FLAVOUR = st.sampled_from(["mult", "mult", "free"])


@st.composite
def _fourier_cases(draw):
    p = draw(_PAIRS_FOURIER)
    if draw(st.integers(0, 19)) == 11:
        # decimation factors whose reciprocal is not exact in double precision (k*fl(1/k) != 1: 49, 98, 103, 107): the library
        # forms the new length as fl(1/k)*npts, which lands just below the integer npts/k
        k = draw(st.sampled_from([49, 98, 103, 107]))
        base = 2.0 ** -draw(st.integers(3, 9))
        p = {"dt": base, "target": base * k, "fam": "inexact-reciprocal"}
    dt, target = p["dt"], p["target"]
    mode, k = _ref_factor(dt, target)
    nmin = max(3, _min_npts(dt, target))
    cap = 1500 if tier() == "quick" else 2500
    cap = max(nmin, min(cap, 60000 // k)) if mode == "refine" else max(nmin, cap)
    flavour = draw(_FLAVOUR) if mode == "decimate" else "free"
    if flavour == "mult":
        q_min = max(3, -(-nmin // k))
        q = draw(st.one_of(st.integers(q_min, q_min + 9), st.integers(q_min, max(q_min, cap // k))))
        if draw(_BOOL):
            q += q % 2
        npts = k * q
    else:
        npts = draw(st.one_of(st.integers(nmin, min(cap, nmin + 12)), st.integers(nmin, cap)))
    case = {"npts": npts, "dt": dt, "target": target, "even": draw(_BOOL), "comps": draw(_COMPS), "form": draw(_FORM),
            "fam": p["fam"]}
    if mode == "refine" and draw(st.integers(0, 3)) == 0:
        # a component exactly at the OLD Nyquist harmonic npts/2 (even npts), in cosine phase: x_i = c*(-1)^i.  It is periodic over
        # the record and below the new Nyquist frequency (the step is refined), so the statement covers it
        case["npts"] = npts + npts % 2
        case["nyq"] = [draw(gen.scalars(1e-3, 1e3)), draw(st.sampled_from([0.0, 3.141592653589793]))]
    return case


def _band_limit(npts, dt, target):
    """Largest integer M with M < npts/2 and M/(npts*dt) < 1/(2*new_dt) for every step the statement's rule admits."""
    mode, k = _ref_factor(dt, target)
    if Fraction(target) > Fraction(dt):
        k = max(1, int(math.floor(Fraction(target) / Fraction(dt) * (1 + NINE))))  # conservative next to an integer
        lim = Fraction(npts, 2 * k)
    else:
        lim = Fraction(npts, 2)
    return int(math.ceil(lim)) - 1


def _tones(comps, m_list, n, cycles_per_sample):
    """sum_j c_j cos(2 pi m_j * (i * cycles_per_sample) + phi_j), i = 0..n-1, in long double.  cycles_per_sample is the
    long-double fraction of the record period covered by one sample; integer phases are reduced exactly first."""
    i = np.arange(n, dtype=LD)
    x = np.zeros(n, dtype=LD)
    for (mu, c, phi), m in zip(comps, m_list):
        s = i * cycles_per_sample * LD(m)
        s = s - np.floor(s)
        x = x + LD(c) * np.cos(TWO_PI * s + LD(phi))
    return x


def _tones_exact_grid(comps, m_list, n):
    """The same signal on the grid of n equally spaced instants over one record period (phase m*i/n reduced in integers)."""
    i = np.arange(n, dtype=np.int64)
    x = np.zeros(n, dtype=LD)
    for (mu, c, phi), m in zip(comps, m_list):
        s = ((i * int(m)) % n).astype(LD) / LD(n)
        x = x + LD(c) * np.cos(TWO_PI * s + LD(phi))
    return x


@clause(CLAUSES, "fourier-rule", _fourier_cases(), quick=2000, thorough=10000,
        rule="(dt, target) pairs as in interp-rule (k <= 30, plus 1 case in 20 decimating by 49 / 98 / 103 / 107, whose reciprocals are "
             "inexact in double precision); npts from the duration precondition up to 1500 (2500 thorough), for "
             "decimation two thirds of the cases npts = k*q (half of them q even) so that the new grid is commensurate; 1-3 cosine "
             "components, the first with index m = min(M, 1+floor(mu*M)), the others m = min(M, floor(mu*(M+1))) (mu in [0,1], both "
             "ends drawn), M = largest index below the old and the new Nyquist index, amplitude +-[1e-3,1e3], phase [0,2pi); even in {T,F}; three call forms; non-trivial = returned "
             "step != dt and some component with m >= 1",
        oracle="reference model: same rational step / ratio / evenness / length rules as interp-rule; output[i] == x(i*new_dt) "
               "evaluated from the closed form in long double, tolerance 1e-9*sum|c|; incommensurate cases (known finding C14-KF1): "
               "output[i] == x(i*npts*dt/len(output))",
        require={"refine": 0.2, "decimate": 0.2, "commensurate": 0.4, "decimate-commensurate": 0.08, "refine-commensurate": 0.1,
                 "incommensurate": 0.1, "m-top": 0.1, "not-even": 0.3},
        min_nontrivial=0.4)
def fourier_rule(case, ctx):
    npts, dt, target, even = int(case["npts"]), case["dt"], case["target"], bool(case["even"])
    comps = case["comps"]
    form = case.get("form", "kw")
    if Fraction(npts - 1) * Fraction(dt) < 2 * max(Fraction(dt), Fraction(target)):
        raise HarnessError("case outside the quantifier: duration < 2*max(dt, target)")
    big_m = _band_limit(npts, dt, target)
    if big_m < 1:
        raise HarnessError("no admissible oscillating component (cannot happen under the duration precondition)")
    # first component: m in 1..M (a genuine oscillation); further components: m in 0..M (0 = constant offset)
    m_list = [min(big_m, (1 + int(mu * big_m)) if j == 0 else int(mu * (big_m + 1))) for j, (mu, c, phi) in enumerate(comps)]
    if case.get("nyq") and npts % 2 == 0 and Fraction(target) < Fraction(dt):
        comps = list(comps) + [[1.0, case["nyq"][0], case["nyq"][1]]]
        m_list = m_list + [npts // 2]
        ctx.cls("old-nyquist-component")
    x = np.asarray(_tones_exact_grid(comps, m_list, npts), dtype=float)
    csum = float(sum(abs(c) for mu, c, phi in comps))
    asig = ctx.lib(eqsig.AccSignal, x, dt)
    o = _call(ctx, ts.resample_to_approx_dt, (asig,), target, even, form)
    ctx.check(isinstance(o, eqsig.AccSignal), "resample_to_approx_dt returned %r, not an AccSignal" % (type(o),))
    y = np.asarray(o.values)
    ctx.check(y.ndim == 1 and y.dtype.kind == "f", "resampled values: ndim=%d dtype=%s" % (y.ndim, y.dtype))
    n_out = len(y)
    new_dt = o.dt
    mode, k = _step_rules(ctx, dt, target, new_dt, npts, n_out, even, "resample_to_approx_dt")
    _classify_pair(ctx, case, mode, k, npts, n_out)
    ctx.cls(gen.size_class(npts), "ncomp=%d" % len(comps))
    if big_m >= 1 and max(m_list) == big_m:
        ctx.cls("m-top")
    ctx.nt(mode != "same" and any(m >= 1 for m in m_list))
    ctx.check(o.npts == n_out, "returned signal: npts=%r but %d values" % (o.npts, n_out))
    ctx.finite(y, "resampled values")
    ctx.equal(np.asarray(asig.values), x, "values of the signal passed to resample_to_approx_dt")
    ctx.check(asig.dt == dt, "resample_to_approx_dt changed the dt of its argument: %r" % (asig.dt,))
    # matcher of C14-KF1: is the reported step the spacing of n_out samples over the record period npts*dt ?
    if mode == "decimate":
        commensurate = n_out * k == npts
    else:
        commensurate = n_out == k * npts
    ctx.cls("commensurate" if commensurate else "incommensurate", mode + ("-commensurate" if commensurate else "-incommensurate"))
    tol = 1e-9 * csum
    # the statement: output[i] = x(i * new_dt)
    per_sample = LD(float(new_dt)) / (LD(npts) * LD(dt))
    expect = _tones(comps, m_list, n_out, per_sample)
    err = float(np.max(np.abs(y.astype(LD) - expect)))
    ctx.notes["err/tol"] = err / tol
    if err <= tol:
        return
    # the known finding covers incommensurability that the statement's own rules FORCE: a decimation factor that does not
    # divide the record length, or an even length requested for an odd product k*npts.  Where a commensurate length exists
    # and is allowed (integer refinement / unchanged step with even=False, or an even product; decimation with k | npts and
    # npts/k even or even=False) an incommensurate answer is a different defect and stays a violation.
    if mode == "decimate":
        forced = npts % k != 0 or (even and (npts // k) % 2 == 1)
    else:
        forced = even and (k * npts) % 2 == 1
    ctx.cls("kf-forced" if (forced and not commensurate) else None)
    if not commensurate and forced and ctx.kf("C14-KF1"):
        if all(2 * m < n_out for m in m_list):
            ctx.cls("kf-regrid-checked")
            ctx.close(y, _tones_exact_grid(comps, m_list, n_out), tol,
                      "incommensurate resampling (%d -> %d samples): output vs signal at the instants i*npts*dt/len(output)" % (
                          npts, n_out))
        return
    j = int(np.argmax(np.abs(y.astype(LD) - expect)))
    ctx.fail("band-limited periodic signal (m=%s of npts=%d, dt=%r) not reproduced at i*new_dt (new_dt=%r, %d samples, %s): "
             "output[%d]=%r, signal %r, max error %.3e > %.3e" % (
                 m_list, npts, dt, float(new_dt), n_out, "commensurate" if commensurate else "len*new_dt != npts*dt",
                 j, float(y[j]), float(expect[j]), err, tol))
