"""C01 - SDOF response series is the exact solution of the oscillator equation."""
import numpy as np
from hypothesis import strategies as st

import eqsig
from eqsig import sdof

from pbt import gen
from pbt.core import clause, HarnessError
from pbt.ref import sdof as ref

PROPERTY = "C01"
CLAUSES = []
ASSUMPTIONS = [
    "numpy.longdouble has a 64-bit mantissa (checked at start; otherwise the check is inconclusive, exit 2)",
    "reference = long-double matrix exponential of the augmented system (independent of the Nigam-Jennings closed forms); "
    "validated at import against the closed-form step response",
    "'relative to the series peak' is read with a floor: peak of the exact series, but not less than the response to one "
    "step of the largest sample, max|a|*min(dt^2/2, 1/w^2) (displacement) and max|a|*min(dt, 1/w) (velocity); without "
    "the floor the bound is unattainable by any floating-point code when the true series cancels to ~0",
    "domain: n 2..3000, dt in [1e-4, 3], 0.2 <= T/dt <= 2e4, optional single leading T=0, 0 <= xi < 1, |a| <= 1e9",
]
EPS = np.finfo(float).eps
LD = np.longdouble

if not ref.longdouble_ok():
    raise HarnessError("numpy.longdouble is not extended precision on this platform: C01 reference unavailable")


def _validate_reference():
    """Oracle guard: the reference must reproduce the closed-form response to a constant unit acceleration."""
    for xi in (0.0, 0.05, 0.7):
        for r in (0.2, 3.0, 50.0, 5000.0):
            dt = 0.01
            T = r * dt
            n = 40
            u, v = ref.response(np.ones(n), dt, [T], xi)
            w = ref.TWO_PI / LD(T)
            wd = w * np.sqrt(LD(1) - LD(xi) ** 2)
            t = np.arange(n, dtype=LD) * LD(dt)
            ex = (1 - np.exp(-LD(xi) * w * t) * (np.cos(wd * t) + LD(xi) * w / wd * np.sin(wd * t))) / (w * w)
            err = float(np.max(np.abs(u[0] - ex)) * (w * w))  # relative to the static displacement 1/w^2
            if not err < 1e-13:
                raise HarnessError("SDOF reference fails its closed-form validation: xi=%r r=%r err=%r" % (xi, r, err))


_validate_reference()


@st.composite
def _cases(draw, max_n=3000, max_p=6, lead0=None):
    spec = draw(gen.record_specs(min_n=2, max_n=max_n, allow_int=["view", "negstride", "readonly"]))
    dt = draw(gen.dts(1e-4, 3.0))
    ratios = draw(gen.period_ratios(0.2, 2e4, 1, max_p))
    case = {"rec": spec, "dt": dt, "ratios": ratios, "xi": draw(gen.xis())}
    if lead0 is None:
        case["lead0"] = draw(st.integers(0, 3)) == 0
    else:
        case["lead0"] = lead0
    case["container"] = draw(st.sampled_from(["ndarray", "list", "tuple", "ndarray", "list", "tuple", "float32"]))
    if draw(st.integers(0, 5)) == 0:
        # integer-typed periods (python ints / integer ndarray), as the repo's own test passes
        case["dt"] = draw(st.sampled_from([1.0, 0.5, 0.25, 0.1]))
        case["int_periods"] = draw(st.lists(st.integers(1, 40), min_size=1, max_size=max_p))
        case["ratios"] = [t / case["dt"] for t in case["int_periods"]]
    return case


def _periods(case, with_zero=None):
    lead = case["lead0"] if with_zero is None else with_zero
    if case.get("int_periods"):
        T = ([0] if lead else []) + [int(t) for t in case["int_periods"]]
    else:
        T = [float(r) * case["dt"] for r in case["ratios"]]
        if lead:
            T = [0.0] + T
    c = case.get("container", "ndarray")
    if c == "list":
        return list(T)
    if c == "tuple":
        return tuple(T)
    if c == "float32" and not case.get("int_periods"):
        return np.array(T, dtype=np.float32)  # e.g. periods read from a single-precision file
    return np.array(T)


def _T64(case):
    """The non-zero periods as float64 numbers, exactly as a correct implementation sees them (a float32 container
    holds the single-precision roundings)."""
    T = np.array([float(r) * case["dt"] for r in case["ratios"]])
    if case.get("container") == "float32" and not case.get("int_periods"):
        T = T.astype(np.float32).astype(float)
    return T


def _classify(ctx, case, a):
    ctx.cls("kind=" + case["rec"]["k"], gen.size_class(len(a)))
    r = np.array(case["ratios"])
    if np.any(r < 6):
        ctx.cls("T<6dt")
    if np.any(r < 1):
        ctx.cls("T<dt")
    if np.any(r > 100):
        ctx.cls("T>100dt")
    if np.any(r >= 1000):
        ctx.cls("T>=1000dt")
    xi = case["xi"]
    ctx.cls("xi=0" if xi == 0 else ("xi>0.99" if xi > 0.99 else "xi-mid"))
    if case["lead0"]:
        ctx.cls("lead0")
    if case.get("int_periods"):
        ctx.cls("int-periods")
    if case.get("container") == "float32":
        ctx.cls("float32-periods")


@clause(CLAUSES, "exact", _cases(), quick=350, thorough=2200,
        rule="records of all kinds (n 2..3000), dt log-uniform [1e-4,3] + repo rates, 1-6 periods with T/dt log-uniform on "
             "[0.2,2e4] + boundary family {0.2,1,5.999,6,6.001,20,2e4}, optional leading 0, xi in {0,0.05,U(0,.99),1-10^-k}; "
             "non-trivial = record not identically zero and, for some period, the exact peak exceeds the one-step floor",
        oracle="reference model: long-double expm of the augmented ODE system, bound = statement tolerance on the robust scale",
        require={"T<6dt": 0.1, "T>100dt": 0.1})
def exact(case, ctx):
    a = gen.build(case["rec"])
    dt = case["dt"]
    xi = case["xi"]
    _classify(ctx, case, a)
    periods = _periods(case)
    ru, rv, ra = ctx.lib(sdof.response_series, gen.as_container(case["rec"], a), dt, periods, xi)
    if case["rec"].get("as"):
        ctx.cls("as=" + case["rec"]["as"])
    T = _T64(case)
    s = 1 if case["lead0"] else 0
    n = len(a)
    ctx.shape(ru, (len(T) + s, n), "response displacement")
    ctx.shape(rv, (len(T) + s, n), "response velocity")
    ctx.shape(ra, (len(T) + s, n), "response acceleration")
    ctx.finite(ru, "response displacement")
    ctx.finite(rv, "response velocity")
    u, v = ref.response(a, dt, T, xi)
    su, sv, big_u, big_v = ref.robust_scales(a, dt, T, u, v)
    ctx.nt(bool(np.any(a != 0) and np.any(big_u)))
    if not np.all(big_u):
        ctx.cls("floor-binds")
    dur = (n - 1) * dt
    tol = ref.tol_c01(dur, T, dt)
    tol_rel = ref.tol_c01(dur, T, dt, relaxed=True)
    eu = np.max(np.abs(np.asarray(ru[s:]).astype(LD) - u), axis=1).astype(float)
    ev = np.max(np.abs(np.asarray(rv[s:]).astype(LD) - v), axis=1).astype(float)
    ratios = np.array(case["ratios"], dtype=float)
    for j in range(len(T)):
        for name, e, sc in (("displacement", eu[j], su[j]), ("velocity", ev[j], sv[j])):
            if sc == 0:
                ctx.check(e == 0, "%s response to a zero record is not zero" % name)
                continue
            rel = e / sc
            if rel <= tol[j]:
                continue
            if ratios[j] >= 1000 and ctx.kf("C01-KF1") and rel <= tol_rel[j]:
                continue
            if ratios[j] < 1000 and ctx.kf("C01-KF2"):
                # known finding: the whole excess is explained by the truncated constant 6.2831853 -- the library series
                # meets the same bound against the exact solution for w = 6.2831853/T
                u2, v2 = ref.response(a, dt, ref.library_periods(T[j:j + 1]), xi)
                lib = np.asarray(ru[s + j] if name == "displacement" else rv[s + j]).astype(LD)
                e2 = float(np.max(np.abs(lib - (u2[0] if name == "displacement" else v2[0]))))
                if e2 / sc <= tol[j]:
                    continue
            ctx.fail("%s series, T/dt=%.6g xi=%r dt=%r n=%d: max error %.3e relative to scale %.3e = %.3e > tol %.3e" % (
                name, ratios[j], xi, dt, n, e, sc, rel, tol[j]))
    ctx.notes["worst"] = float(max(np.max(eu / np.where(su > 0, su, 1) / tol), np.max(ev / np.where(sv > 0, sv, 1) / tol)))


@clause(CLAUSES, "acc-identity", _cases(max_n=1500), quick=300, thorough=1500,
        rule="same generator (n <= 1500); non-trivial = non-zero record",
        oracle="reference model: third series == -(2 xi w v + w^2 u) recomputed from the returned u, v with w=2pi/T, "
               "tolerance 1e-8*max(|2 xi w v|+|w^2 u|)")
def acc_identity(case, ctx):
    a = gen.build(case["rec"])
    dt = case["dt"]
    xi = case["xi"]
    _classify(ctx, case, a)
    ctx.nt(bool(np.any(a != 0)))
    periods = _periods(case)
    ru, rv, ra = ctx.lib(sdof.response_series, a, dt, periods, xi)
    s = 1 if case["lead0"] else 0
    T = _T64(case)
    w = (2 * np.pi / T)[:, None]
    ru, rv, ra = np.asarray(ru), np.asarray(rv), np.asarray(ra)
    t1 = 2 * xi * w * rv[s:]
    t2 = w ** 2 * ru[s:]
    expect = -(t1 + t2)
    scale = np.max(np.abs(t1) + np.abs(t2), axis=1)[:, None]
    ctx.close(ra[s:], expect, 1e-8 * scale + 0 * expect, "third series vs -(2 xi w v + w^2 u)")


@clause(CLAUSES, "t0-row", _cases(max_n=1500, lead0=True), quick=300, thorough=1500,
        rule="same generator with a leading period of exactly 0; non-trivial = non-zero record",
        oracle="reference model (zeros / negated record, bit-for-bit) + differential against the call without the leading 0 (exact)")
def t0_row(case, ctx):
    a = gen.build(case["rec"])
    dt = case["dt"]
    xi = case["xi"]
    _classify(ctx, case, a)
    ctx.nt(bool(np.any(a != 0)))
    with0 = _periods(case, True)
    without = _periods(case, False)
    ru, rv, ra = ctx.lib(sdof.response_series, a, dt, with0, xi)
    ru, rv, ra = np.asarray(ru), np.asarray(rv), np.asarray(ra)
    n = len(a)
    ctx.shape(ru, (len(without) + 1, n), "displacement with leading T=0")
    ctx.check(not np.any(ru[0]) and not np.any(rv[0]), "T=0 row of displacement/velocity is not identically zero")
    ctx.equal(ra[0], -a, "T=0 row of the acceleration series vs sign-flipped record")
    qu, qv, qa = ctx.lib(sdof.response_series, a, dt, without, xi)
    ctx.equal(ru[1:], qu, "displacement rows with vs without leading 0")
    ctx.equal(rv[1:], qv, "velocity rows with vs without leading 0")
    ctx.equal(ra[1:], qa, "acceleration rows with vs without leading 0")


@clause(CLAUSES, "entry-points", _cases(max_n=800), quick=300, thorough=1500,
        rule="same generator (n <= 800), records passed as ndarray and list; non-trivial = non-zero record",
        oracle="differential: response_series == nigam_and_jennings_response == AccSignal.response_series (array_equal)")
def entry_points(case, ctx):
    a = gen.build(case["rec"])
    dt = case["dt"]
    xi = case["xi"]
    _classify(ctx, case, a)
    ctx.nt(bool(np.any(a != 0)))
    periods = _periods(case)
    r1 = ctx.lib(sdof.response_series, a, dt, periods, xi)
    r2 = ctx.lib(sdof.nigam_and_jennings_response, gen.as_container(case["rec"], a), dt, periods, xi)
    r3 = ctx.lib(sdof.response_series, [float(x) for x in a], dt, periods, xi)
    asig = ctx.lib(eqsig.AccSignal, a, dt)
    r4 = ctx.lib(asig.response_series, response_times=periods, xi=xi)
    a_before = a.copy()
    for k, name in enumerate(("displacement", "velocity", "acceleration")):
        ctx.shape(r1[k], (len(periods), len(a)), name)
        ctx.equal(r2[k], r1[k], "nigam_and_jennings_response vs response_series (%s)" % name)
        ctx.equal(r3[k], r1[k], "list record vs ndarray record (%s)" % name)
        ctx.equal(r4[k], r1[k], "AccSignal.response_series vs response_series (%s)" % name)
    ctx.equal(a, a_before, "record mutated")
    if xi == 0.05:
        r5 = ctx.lib(asig.response_series, response_times=periods)
        ctx.equal(r5[0], r1[0], "AccSignal.response_series default xi")
