"""C01 - SDOF response series is the exact solution of the oscillator equation."""
import numpy as np
from hypothesis import strategies as st

import eqsig
from eqsig import sdof

from pbt import gen
from pbt.core import clause, HarnessError
from pbt.ref import sdof as ref
from pbt.ref import sdof_mid as mid

PROPERTY = "C01"
CLAUSES = []
ASSUMPTIONS = [
    "numpy.longdouble has a 64-bit mantissa (checked at start; otherwise the check is inconclusive, exit 2)",
    "reference = long-double matrix exponential of the augmented system (independent of the Nigam-Jennings closed forms); "
    "validated at import against the closed-form step response",
    "'relative to the series peak' is read with a floor: peak of the exact series, but not less than the response to one "
    "step of the largest sample, max|a|*min(dt^2/2, 1/w^2) (displacement) and max|a|*min(dt, 1/w) (velocity); without "
    "the floor the bound is unattainable by any floating-point code when the true series cancels to ~0",
    "domain: n 2..3000, dt in [1e-7, 3] (one case in five below 1e-4), 0.2 <= T/dt <= 2e4, optional single leading T=0 (also the list "
    "[0] alone), 0 <= xi < 1, |a| <= 2.2e9; records as float64 ndarray / strided / read-only views, python lists, tuples, int64, "
    "full-range int8 / int16 / int32 (most negative value included), uint8 / uint16 and python-int lists - the oracle is evaluated at "
    "the exact values held by the container; float32 records are not generated (handled centrally); dt as python float, "
    "np.float64, np.float32 or a 0-d array (the oracle uses the exact value of the argument)",
    "what the velocity bound claims for T < dt: the one-step floor max|a|*min(dt, 1/w) can exceed the true velocity peak by up to "
    "w*dt/2 (16 at T = 0.2 dt) on smooth or alternating records, so for such rows the clause proves the velocity to tol of the "
    "floor, not to tol of the (smaller) true peak; no tighter claim is made because no floating-point code can meet one there",
    "purity of the arguments is not claimed by C01 (C05 does) and is not asserted",
    "rows of the positive periods with vs without the leading 0 are compared to (1e-10 + 16 eps n) of the energy-consistent robust "
    "scale, not bit for bit (the statement does not promise identical bits; vectorised exp / sin / cos may differ in the last bit "
    "between array lengths)",
]
EPS = np.finfo(float).eps
LD = np.longdouble

if not ref.longdouble_ok():
    raise HarnessError("numpy.longdouble is not extended precision on this platform: C01 reference unavailable")


def _validate_reference():
    """Oracle guard: the reference must reproduce the closed-form response to a constant unit acceleration."""
    for xi in (0.0, 0.05, 0.7):
        for r in (0.2, 3.0, 50.0, 5000.0):
            dt = 0.01
            T = r * dt
            n = 40
            u, v = ref.response(np.ones(n), dt, [T], xi)
            w = ref.TWO_PI / LD(T)
            wd = w * np.sqrt(LD(1) - LD(xi) ** 2)
            t = np.arange(n, dtype=LD) * LD(dt)
            ex = (1 - np.exp(-LD(xi) * w * t) * (np.cos(wd * t) + LD(xi) * w / wd * np.sin(wd * t))) / (w * w)
            err = float(np.max(np.abs(u[0] - ex)) * (w * w))  # relative to the static displacement 1/w^2
            if not err < 1e-13:
                raise HarnessError("SDOF reference fails its closed-form validation: xi=%r r=%r err=%r" % (xi, r, err))


_validate_reference()


@st.composite
def _cases(draw, max_n=3000, max_p=6, lead0=None):
    spec = draw(gen.record_specs(min_n=2, max_n=max_n, allow_int=["view", "negstride", "readonly"]))
    dt = draw(gen.dts(1e-4, 3.0))
    if draw(st.integers(0, 4)) == 0:
        dt = draw(gen.log_uniform(1e-7, 1e-4))   # "all dt > 0": high-rate records (T down to 2e-8 s)
    ratios = draw(gen.period_ratios(0.2, 2e4, 1, max_p))
    case = {"rec": spec, "dt": dt, "ratios": ratios, "xi": draw(gen.xis())}
    if lead0 is None:
        case["lead0"] = draw(st.integers(0, 3)) == 0
    else:
        case["lead0"] = lead0
    case["container"] = draw(st.sampled_from(["ndarray", "list", "tuple", "ndarray", "list", "tuple", "float32"]))
    if draw(st.integers(0, 5)) == 0:
        # integer-typed periods (python ints / integer ndarray), as the repo's own test passes
        case["dt"] = draw(st.sampled_from([1.0, 0.5, 0.25, 0.1]))
        case["int_periods"] = draw(st.lists(st.integers(1, 40), min_size=1, max_size=max_p))
        case["ratios"] = [t / case["dt"] for t in case["int_periods"]]
    # "every record": integer-typed (int64, full-range int8/16/32, uint8/16), python-int list and tuple containers
    case["rec_int"] = draw(st.sampled_from(mid.INT_KINDS)) if draw(st.integers(0, 3)) == 0 else None
    # dt as python float | np.float64 | np.float32 | 0-d array
    case["dt_as"] = draw(st.sampled_from(mid.DT_KINDS))
    if case.get("int_periods") and case["dt_as"] in ("f32", "0d32"):
        case["dt_as"] = "f64"
    if lead0:
        case["only0"] = draw(st.integers(0, 5)) == 0    # the period list [0] alone
    return case


def _inputs(case):
    """(exact float64 values of the record, record argument, dt value, dt argument, case with that dt)."""
    a = gen.build(case["rec"])
    dt_arg, dt = mid.dt_argument(case["dt"], case.get("dt_as"))
    c2 = case if dt == case["dt"] else dict(case, dt=dt)
    if case.get("rec_int"):
        arg, a = mid.int_record(a, case["rec_int"])
    else:
        arg = gen.as_container(case["rec"], a)
    return a, arg, dt, dt_arg, c2


def _periods(case, with_zero=None):
    lead = case["lead0"] if with_zero is None else with_zero
    if case.get("int_periods"):
        T = ([0] if lead else []) + [int(t) for t in case["int_periods"]]
    else:
        T = [float(r) * case["dt"] for r in case["ratios"]]
        if lead:
            T = [0.0] + T
    c = case.get("container", "ndarray")
    if c == "list":
        return list(T)
    if c == "tuple":
        return tuple(T)
    if c == "float32" and not case.get("int_periods"):
        return np.array(T, dtype=np.float32)  # e.g. periods read from a single-precision file
    return np.array(T)


def _T64(case):
    """The non-zero periods as float64 numbers, exactly as a correct implementation sees them (a float32 container
    holds the single-precision roundings)."""
    T = np.array([float(r) * case["dt"] for r in case["ratios"]])
    if case.get("container") == "float32" and not case.get("int_periods"):
        T = T.astype(np.float32).astype(float)
    return T


def _classify(ctx, case, a):
    ctx.cls("kind=" + case["rec"]["k"], gen.size_class(len(a)))
    r = np.array(case["ratios"])
    if np.any(r < 6):
        ctx.cls("T<6dt")
    if np.any(r < 1):
        ctx.cls("T<dt")
    if np.any(r > 100):
        ctx.cls("T>100dt")
    if np.any(r >= 1000):
        ctx.cls("T>=1000dt")
    xi = case["xi"]
    ctx.cls("xi=0" if xi == 0 else ("xi>0.99" if xi > 0.99 else "xi-mid"))
    if case["lead0"]:
        ctx.cls("lead0")
    if case.get("int_periods"):
        ctx.cls("int-periods")
    if case.get("container") == "float32":
        ctx.cls("float32-periods")
    if case.get("rec_int"):
        ctx.cls("rec=" + case["rec_int"], "rec-integer" if case["rec_int"] != "tuple" else None)
    if case.get("dt_as"):
        ctx.cls("dt-as=" + case["dt_as"])
    if case["dt"] < 1e-4:
        ctx.cls("dt<1e-4")


def _exact_rows(ctx, a, dt, T, xi, ru, rv, ratios):
    """The statement's bound for the rows ru / rv (library series for the non-zero periods T, ratios = T/dt) against the
    long-double reference, with the routing of the two open known findings.  Returns (su, sv, big_u, eu, ev, tol)."""
    n = len(a)
    u, v = ref.response(a, dt, T, xi)
    su, sv, big_u, big_v = ref.robust_scales(a, dt, T, u, v)
    dur = (n - 1) * dt
    tol = ref.tol_c01(dur, T, dt)
    tol_rel = ref.tol_c01(dur, T, dt, relaxed=True)
    eu = np.max(np.abs(np.asarray(ru).astype(LD) - u), axis=1).astype(float)
    ev = np.max(np.abs(np.asarray(rv).astype(LD) - v), axis=1).astype(float)
    for j in range(len(T)):
        for name, e, sc in (("displacement", eu[j], su[j]), ("velocity", ev[j], sv[j])):
            if sc == 0:
                ctx.check(e == 0, "%s response to a zero record is not zero" % name)
                continue
            rel = e / sc
            if rel <= tol[j]:
                continue
            if ratios[j] >= 1000 and ctx.kf("C01-KF1") and rel <= tol_rel[j]:
                continue
            if ratios[j] < 1000 and ctx.kf("C01-KF2"):
                # known finding: the whole excess is explained by the truncated constant 6.2831853 -- the library series
                # meets the same bound against the exact solution for w = 6.2831853/T
                u2, v2 = ref.response(a, dt, ref.library_periods(T[j:j + 1]), xi)
                lib = np.asarray(ru[j] if name == "displacement" else rv[j]).astype(LD)
                e2 = float(np.max(np.abs(lib - (u2[0] if name == "displacement" else v2[0]))))
                if e2 / sc <= tol[j]:
                    continue
            ctx.fail("%s series, T/dt=%.6g xi=%r dt=%r n=%d: max error %.3e relative to scale %.3e = %.3e > tol %.3e" % (
                name, ratios[j], xi, dt, n, e, sc, rel, tol[j]))
    return su, sv, big_u, eu, ev, tol


@clause(CLAUSES, "exact", _cases(), quick=350, thorough=2200,
        rule="records of all kinds (n 2..3000), dt log-uniform [1e-4,3] + repo rates, 1-6 periods with T/dt log-uniform on "
             "[0.2,2e4] + boundary family {0.2,1,5.999,6,6.001,20,2e4}, optional leading 0, xi in {0,0.05,U(0,.99),1-10^-k}; "
             "non-trivial = record not identically zero and, for some period, the exact peak exceeds the one-step floor",
        oracle="reference model: long-double expm of the augmented ODE system, bound = statement tolerance on the robust scale",
        require={"T<6dt": 0.1, "T>100dt": 0.1})
def exact(case, ctx):
    a, arg, dt, dt_arg, case = _inputs(case)
    xi = case["xi"]
    _classify(ctx, case, a)
    periods = _periods(case)
    ru, rv, ra = ctx.lib(sdof.response_series, arg, dt_arg, periods, xi)
    if case["rec"].get("as") and not case.get("rec_int"):
        ctx.cls("as=" + case["rec"]["as"])
    T = _T64(case)
    s = 1 if case["lead0"] else 0
    n = len(a)
    ctx.shape(ru, (len(T) + s, n), "response displacement")
    ctx.shape(rv, (len(T) + s, n), "response velocity")
    ctx.shape(ra, (len(T) + s, n), "response acceleration")
    ctx.finite(ru, "response displacement")
    ctx.finite(rv, "response velocity")
    if s:   # the T=0 row belongs to every call with a leading 0 (also for integer-typed records: the sign flip is in floating point)
        ctx.check(not np.any(np.asarray(ru)[0]) and not np.any(np.asarray(rv)[0]), "T=0 row of displacement/velocity is not identically zero")
        ctx.equal(np.asarray(ra)[0], -a, "T=0 row of the acceleration series vs sign-flipped record")
    ratios = np.array(case["ratios"], dtype=float)
    su, sv, big_u, eu, ev, tol = _exact_rows(ctx, a, dt, T, xi, np.asarray(ru)[s:], np.asarray(rv)[s:], ratios)
    ctx.nt(bool(np.any(a != 0) and np.any(big_u)))
    if not np.all(big_u):
        ctx.cls("floor-binds")
    ctx.notes["worst"] = float(max(np.max(eu / np.where(su > 0, su, 1) / tol), np.max(ev / np.where(sv > 0, sv, 1) / tol)))


@clause(CLAUSES, "acc-identity", _cases(max_n=1500), quick=300, thorough=1500,
        rule="same generator (n <= 1500); non-trivial = non-zero record",
        oracle="reference model: third series == -(2 xi w v + w^2 u) recomputed from the returned u, v with w=2pi/T, "
               "tolerance 1e-8*max(|2 xi w v|+|w^2 u|)")
def acc_identity(case, ctx):
    a, arg, dt, dt_arg, case = _inputs(case)
    xi = case["xi"]
    _classify(ctx, case, a)
    ctx.nt(bool(np.any(a != 0)))
    periods = _periods(case)
    ru, rv, ra = ctx.lib(sdof.response_series, arg, dt_arg, periods, xi)
    s = 1 if case["lead0"] else 0
    T = _T64(case)
    w = (2 * np.pi / T)[:, None]
    ru, rv, ra = np.asarray(ru), np.asarray(rv), np.asarray(ra)
    t1 = 2 * xi * w * rv[s:]
    t2 = w ** 2 * ru[s:]
    expect = -(t1 + t2)
    scale = np.max(np.abs(t1) + np.abs(t2), axis=1)[:, None]
    ctx.close(ra[s:], expect, 1e-8 * scale + 0 * expect, "third series vs -(2 xi w v + w^2 u)")


@clause(CLAUSES, "t0-row", _cases(max_n=1500, lead0=True), quick=300, thorough=1500,
        rule="same generator with a leading period of exactly 0 (one case in six: the list [0] alone); non-trivial = non-zero record",
        oracle="reference model (zeros / negated record, bit-for-bit; also for the list [0] alone) + differential against the call "
               "without the leading 0 ((1e-10 + 16 eps n) of the energy-consistent robust scale)")
def t0_row(case, ctx):
    a, arg, dt, dt_arg, case = _inputs(case)
    xi = case["xi"]
    _classify(ctx, case, a)
    ctx.nt(bool(np.any(a != 0)))
    n = len(a)
    if case.get("only0"):
        # the list [0] alone: one row, zero displacement / velocity, sign-flipped record
        ctx.cls("only-zero-period")
        zero = 0 if case.get("int_periods") else 0.0
        P0 = {"list": [zero], "tuple": (zero,)}.get(case.get("container"), np.array([zero]))
        res = ctx.lib(sdof.response_series, arg, dt_arg, P0, xi)
        ctx.check(isinstance(res, (tuple, list)) and len(res) == 3, "result for the period list [0] is not a triple")
        ru, rv, ra = (np.asarray(x) for x in res)
        for x, name in ((ru, "displacement"), (rv, "velocity"), (ra, "acceleration")):
            ctx.shape(x, (1, n), "%s for the period list [0]" % name)
        ctx.check(not np.any(ru) and not np.any(rv), "period list [0]: displacement/velocity not identically zero")
        ctx.equal(ra[0], -a, "period list [0]: acceleration series vs sign-flipped record")
        return
    with0 = _periods(case, True)
    without = _periods(case, False)
    ru, rv, ra = ctx.lib(sdof.response_series, arg, dt_arg, with0, xi)
    ru, rv, ra = np.asarray(ru), np.asarray(rv), np.asarray(ra)
    ctx.shape(ru, (len(without) + 1, n), "displacement with leading T=0")
    ctx.check(not np.any(ru[0]) and not np.any(rv[0]), "T=0 row of displacement/velocity is not identically zero")
    ctx.equal(ra[0], -a, "T=0 row of the acceleration series vs sign-flipped record")
    qu, qv, qa = ctx.lib(sdof.response_series, arg, dt_arg, without, xi)
    # The rows of the positive periods do not depend on the leading 0.  The statement does not make this bit-for-bit (an
    # implementation may evaluate its closed forms over arrays of different length in the two calls, and vectorised
    # exp / sin / cos may differ in the last bit between array lengths): rounding model of two equal runs, pbt/ref/sdof_mid.tol_n.
    T = _T64(case)
    tol = mid.tol_n(n)
    for got, want, S, name in zip((ru[1:], rv[1:], ra[1:]), (qu, qv, qa), mid.escales(a, dt, T, xi, np.asarray(qu), np.asarray(qv)),
                                  ("displacement", "velocity", "acceleration")):
        ctx.close(got, np.asarray(want), tol * S[:, None] + 0 * got, "%s rows with vs without leading 0" % name)


@clause(CLAUSES, "entry-points", _cases(max_n=800), quick=300, thorough=1500,
        rule="same generator (n <= 800), records passed as ndarray, list, integer-typed arrays and tuples; non-trivial = non-zero record",
        oracle="differential: response_series == nigam_and_jennings_response == AccSignal.response_series (array_equal)")
def entry_points(case, ctx):
    a, arg, dt, dt_arg, case = _inputs(case)
    xi = case["xi"]
    _classify(ctx, case, a)
    ctx.nt(bool(np.any(a != 0)))
    periods = _periods(case)
    r1 = ctx.lib(sdof.response_series, a, dt, periods, xi)
    r2 = ctx.lib(sdof.nigam_and_jennings_response, arg, dt_arg, periods, xi)
    r3 = ctx.lib(sdof.response_series, [float(x) for x in a], dt, periods, xi)
    asig = ctx.lib(eqsig.AccSignal, arg, dt_arg)
    r4 = ctx.lib(asig.response_series, response_times=periods, xi=xi)
    # (C01 does not claim that the arguments are left untouched - C05 does; nothing about the caller's arrays is asserted here)
    for k, name in enumerate(("displacement", "velocity", "acceleration")):
        ctx.shape(r1[k], (len(periods), len(a)), name)
        ctx.equal(r2[k], r1[k], "nigam_and_jennings_response vs response_series (%s)" % name)
        ctx.equal(r3[k], r1[k], "list record vs ndarray record (%s)" % name)
        ctx.equal(r4[k], r1[k], "AccSignal.response_series vs response_series (%s)" % name)
    if xi == 0.05:
        r5 = ctx.lib(asig.response_series, response_times=periods)
        for k, name in enumerate(("displacement", "velocity", "acceleration")):
            ctx.equal(r5[k], r1[k], "AccSignal.response_series default xi (%s)" % name)


# ---------------------------------------------------------------------------
# mid-range sizes: long records, many periods, large (periods x samples) products
#
# A code path that exists only inside a window of sizes (a loop blocked over the periods or over the samples, a
# streamed / cached variant above some length or product) is not reached by the generators above (n <= 3000, <= 6
# periods).  The enumerations below put one size into every octave of every size dimension of the response functions
# (record length, number of periods, their product) and check the WHOLE output: the one-step residual bound of
# pbt/ref/sdof_mid.py proves every sample of every row correct (or hands the row to the exact long-double loop), the
# third-series identity and the T=0 row are checked on every element.

from pbt import core  # noqa: E402
from pbt.core import enum_clause, TINY  # noqa: E402
from pbt.ref import sdof_mid as mid  # noqa: E402

ASSUMPTIONS.extend([
    "mid-range enumerations: same domain as above with n up to 3e5 (quick) / 1.2e6 (thorough), 1..3000 (6000) periods and "
    "periods x samples up to 3e7 (6e7); records are noise x envelope, noise + mean, sines + noise and (n <= 30 000) smoothed "
    "walks, all with a non-zero mean and no silent stretch; period lists of more than 6 entries are distinct, unsorted and "
    "log-spread over a hash-chosen sub-range of [0.2, 2e4] dt",
    "mid-range oracle: a row is accepted when the sound energy-norm bound on its error (sum of the one-step residuals "
    "against the long-double propagators, pbt/ref/sdof_mid.py) is within the statement tolerance of the robust scale "
    "(peak of the library row minus the bound, floored as above); every other row is compared sample by sample with "
    "the long-double reference exactly as in the clause 'exact' - a violation is only ever reported by that comparison",
    "AccSignal.response_series: response_times=None means the periods stored on the object (constructor, property or "
    "previous call), xi=-1 means 0.05 (the documented default), as the pinned signature and docstring say",
])


def _oct(prefix, v):
    return "%s~2^%d" % (prefix, int(np.floor(np.log2(max(1, v)))))


def _acc_identity_all(ctx, T, xi, ru, rv, ra, what):
    """third series == -(2 xi w v + w^2 u) on every element (rows of the non-zero periods), chunked over rows."""
    p, n = ru.shape
    w = 2 * np.pi / T
    rows = max(1, (1 << 21) // max(1, n))
    for j0 in range(0, p, rows):
        j1 = min(p, j0 + rows)
        t1 = 2 * xi * w[j0:j1, None] * rv[j0:j1]
        t2 = (w[j0:j1] ** 2)[:, None] * ru[j0:j1]
        scale = np.max(np.abs(t1) + np.abs(t2), axis=1)
        d = np.abs(ra[j0:j1] + (t1 + t2))
        bad = ~(d <= 1e-8 * scale[:, None] + TINY)
        if np.any(bad):
            r, c = np.argwhere(bad)[0]
            ctx.fail("%s: third series vs -(2 xi w v + w^2 u): |diff|=%.3e > %.3e at row %d (of %d) sample %d (of %d), %d elements out" % (
                what, d[r, c], 1e-8 * scale[r], j0 + r, p, c, n, int(np.sum(bad))))


def _exact_all(ctx, a, dt, T, xi, ru, rv, what):
    """Displacement and velocity rows of all non-zero periods, every sample.  Returns True when some row's peak exceeds
    the one-step floor (the non-trivial rule)."""
    n = len(a)
    ratios = T / dt
    amax = float(np.max(np.abs(a)))
    if amax == 0:
        ctx.check(not np.any(ru) and not np.any(rv), "%s: response to a zero record is not zero" % what)
        return False
    bu, bv = mid.residual_bounds(a, dt, T, xi, ru, rv)
    w = 2 * np.pi / T
    fu = amax * np.minimum(dt * dt / 2, 1.0 / w ** 2)
    fv = amax * np.minimum(dt, 1.0 / w)
    pu = np.max(np.abs(ru), axis=1)
    pv = np.max(np.abs(rv), axis=1)
    su_lo = np.maximum(pu - bu, fu)   # a lower bound of the robust scale of the exact series
    sv_lo = np.maximum(pv - bv, fv)
    tol = ref.tol_c01((n - 1) * dt, T, dt)
    q = np.maximum(bu / (tol * su_lo), bv / (tol * sv_lo))
    q = np.where(np.isfinite(q), q, np.inf)
    pending = np.flatnonzero(~(q <= 1.0))
    ctx.notes["bound/tol"] = float(np.max(q))
    if len(pending):
        ctx.cls("exact-loop")
        order = pending[np.argsort(-q[pending], kind="stable")]
        k0, step = 0, 16
        while k0 < len(order):
            idx = np.sort(order[k0:k0 + step])
            try:
                _exact_rows(ctx, a, dt, T[idx], xi, ru[idx], rv[idx], ratios[idx])
            except core.Violation as v:
                raise core.Violation("%s: row(s) %s of %d: %s" % (what, idx[:6].tolist(), len(T), v))
            k0 += step
            step = 64
    return bool(np.any(pu > fu + bu))


def _check_whole(ctx, a, a_ref, dt, T, s, xi, res, what):
    """Every sentence of the statement on the whole output `res` of one call (a = record as passed, a_ref = pristine copy)."""
    n = len(a_ref)
    ctx.check(isinstance(res, (tuple, list)) and len(res) == 3, "%s: result is not a triple" % what)
    ru, rv, ra = (np.asarray(x) for x in res)
    for x, name in ((ru, "displacement"), (rv, "velocity"), (ra, "acceleration")):
        ctx.shape(x, (len(T) + s, n), "%s: response %s" % (what, name))
    ctx.finite(ru, "%s: response displacement" % what)
    ctx.finite(rv, "%s: response velocity" % what)
    if s:
        ctx.check(not np.any(ru[0]) and not np.any(rv[0]), "%s: T=0 row of displacement/velocity is not identically zero" % what)
        ctx.equal(ra[0], -a_ref, "%s: T=0 row of the acceleration series vs sign-flipped record" % what)
    _acc_identity_all(ctx, T, xi, ru[s:], rv[s:], ra[s:], what)
    return _exact_all(ctx, a_ref, dt, T, xi, ru[s:], rv[s:], what)


def _pcase(dt, ratios, lead0, container, int_periods=None):
    """Argument of _periods() / _T64()."""
    c = {"dt": dt, "ratios": ratios, "lead0": lead0, "container": container}
    if int_periods:
        c["int_periods"] = int_periods
    return c


def _cfg(tier):
    if tier == "quick":
        return dict(n=(2000, 300000, 12, "c01-n"), n_mined=(2000, 70000, 4), fn_max=60000,
                    p=(7, 3000, 10, "c01-p", 6), pn=(150, 1500),
                    prod=(1e5, 3e7, 11, "c01-prod"), prod_p=(8, 3000), prod_n=(400, 100000))
    return dict(n=(2000, 1200000, 26, "c01-n-th"), n_mined=(2000, 300000, 12), fn_max=200000,
                p=(7, 6000, 24, "c01-p-th", 16), pn=(150, 3000),
                prod=(1e5, 6e7, 24, "c01-prod-th"), prod_p=(8, 6000), prod_n=(400, 300000))


def _sharded(cases, shard, nshards, cost):
    """Heaviest first, then round-robin: the shards get similar loads."""
    cases = sorted(cases, key=lambda c: (-cost(c), core.canon(c)))
    for i, c in enumerate(cases):
        if i % nshards == shard:
            yield c


CONTAINERS = ["ndarray", "list", "tuple", "float32"]
REC_AS = [None, None, "list", "view", "negstride", "readonly"]
FORMS = [[True, True], [True, False], [False, True], [False, False]]   # [response_times given, xi given]
HIST_OPS = ["periods", "xi", "values", "same"]


def _mk_long_case(n, entry, idx, k=0, last=False):
    """idx: running index of the case, k: running index among the object-level cases (rotates the history operation)."""
    sd = int(mid.hu("c01-long", gen.run_seed(), idx, n, entry) * (2 ** 31 - 2))
    kinds = mid.RECORD_KINDS if n <= 30000 else mid.RECORD_KINDS[:3]
    npd = mid.hint(1, 5, "np", sd)
    c = {"n": int(n), "entry": entry, "seed": sd, "kind": mid.hpick(kinds, "kind", sd), "dt": mid.dt_from_hash(sd),
         "ratios": mid.ratios_from_hash(npd, 0.2, 2e4, sd), "xi": mid.xi_from_hash(sd),
         "lead0": bool(last or mid.hu("lead0", sd) < 0.4), "container": mid.hpick(CONTAINERS, "cont", sd)}
    if entry == "object":
        c["form1"] = mid.hpick(FORMS, "form1", sd)
        c["set_by"] = mid.hpick(["ctor", "property"], "setby", sd)
        if not last:
            np2 = mid.hint(1, 5, "np2", sd)
            c["hist"] = {"op": HIST_OPS[(k + gen.run_seed()) % 4], "form2": mid.hpick(FORMS, "form2", sd),
                         "ratios2": mid.ratios_from_hash(np2, 0.2, 2e4, sd, 2), "xi2": mid.xi_from_hash(sd, 2),
                         "lead02": mid.hu("lead02", sd) < 0.4, "kind2": mid.hpick(kinds, "kind2", sd),
                         "n2": int(n if mid.hu("n2same", sd) < 0.5 else n - mid.hint(1, 40, "n2", sd))}
    else:
        c["rec_as"] = mid.hpick(REC_AS, "recas", sd) if n <= 100000 else mid.hpick([None, "view", "negstride", "readonly"], "recas", sd)
    if n <= 100000 and mid.hu("recint", sd) < 0.3:
        c["rec_int"] = mid.hpick(mid.INT_KINDS, "recintkind", sd)
    c["dt_as"] = mid.hpick(mid.DT_KINDS, "dtas", sd)
    return c


def _n_enum(tier, shard, nshards):
    cfg = _cfg(tier)
    lo, hi, count, tag = cfg["n"]
    sizes = sorted(set(gen.ladder(lo, hi, count, tag)) | set(gen.mined_sizes(cfg["n_mined"][0], cfg["n_mined"][1], cfg["n_mined"][2], tag)))
    cases = []
    idx = 0
    for k, n in enumerate(sizes):
        for entry in ["object"] + (["response_series", "nigam"] if n <= cfg["fn_max"] else []):
            cases.append(_mk_long_case(n, entry, idx, k))
            idx += 1
    # the end of the range itself: one call through the outermost entry point, with a T=0 row
    cases.append(_mk_long_case(hi, "object", idx, last=True))
    return _sharded(cases, shard, nshards, lambda c: c["n"] * (2 if c.get("hist") else 1))


def _object_call(ctx, asig, P, xi, form, set_by_property):
    """AccSignal.response_series in one of the four spellings of its two optional arguments; returns (result, effective xi)."""
    kw = {}
    if form[0]:
        kw["response_times"] = P
    elif set_by_property:
        ctx.lib(setattr, asig, "response_times", P)
    if form[1]:
        kw["xi"] = xi
    return ctx.lib(asig.response_series, **kw), (xi if form[1] else 0.05)


@enum_clause(CLAUSES, "mid-range", _n_enum,
             rule="record-length ladder: one length per logarithmic bin of [2000, 3e5] (12 bins; thorough [2000, 1.2e6], 26 bins) placed by a "
                  "hash of VERIF_SEED, the end of the range, and lengths next to integer literals of the source under test; 1-5 periods "
                  "(T/dt log-uniform [0.2, 2e4] + boundary family), optional leading 0, all xi families, four period containers; every "
                  "length through AccSignal.response_series with a two-call history (new periods | new xi | reset_values | same request; "
                  "all four spellings of the optional arguments), lengths <= 60 000 (2e5) also through response_series and "
                  "nigam_and_jennings_response with list / strided / read-only records; non-trivial = non-zero record and a peak above the floor",
             oracle="reference model on the whole output: one-step residual bound against the long-double propagators for every sample of "
                    "every row (undecided rows: exact long-double loop, statement tolerance, known-finding routing as 'exact'); third-series "
                    "identity and T=0 row on every element; shapes, finiteness",
             exhaustive_note="one case per ladder length and entry point (not an exhaustive space: the lengths move with VERIF_SEED)",
             min_nontrivial=0.5, quick_shards=4)
def mid_range(case, ctx):
    n, xi = case["n"], case["xi"]
    dt_arg, dt = mid.dt_argument(case["dt"], case.get("dt_as"))
    a = mid.record(case["kind"], n, case["seed"])
    rec_arg = None
    if case.get("rec_int"):
        rec_arg, a = mid.int_record(a, case["rec_int"])
        ctx.cls("rec=" + case["rec_int"])
    a_ref = a.copy()
    pc = _pcase(dt, case["ratios"], case["lead0"], case["container"])
    P, T, s = _periods(pc), _T64(pc), (1 if case["lead0"] else 0)
    ctx.cls(_oct("n", n), "entry=" + case["entry"], "kind=" + case["kind"], "lead0" if s else None,
            "T<6dt" if np.any(T / dt < 6) else None, "T>=1000dt" if np.any(T / dt >= 1000) else None)
    if case["entry"] != "object":
        fn = sdof.response_series if case["entry"] == "response_series" else sdof.nigam_and_jennings_response
        arg = rec_arg if rec_arg is not None else gen.as_container({"as": case.get("rec_as")}, a)
        ctx.cls("as=%s" % case.get("rec_as"))
        res = ctx.lib(fn, arg, dt_arg, P, xi)
        ctx.nt(_check_whole(ctx, arg, a_ref, dt, T, s, xi, res, "%s, n=%d" % (case["entry"], n)))
        return
    form1 = case["form1"]
    ctx.cls("form=%d%d" % (form1[0], form1[1]))
    by_prop = case["set_by"] == "property"
    obj_rec = rec_arg if rec_arg is not None else a
    if form1[0] or by_prop:
        asig = ctx.lib(eqsig.AccSignal, obj_rec, dt_arg)
    else:
        asig = ctx.lib(eqsig.AccSignal, obj_rec, dt_arg, response_times=P)
    res, xe = _object_call(ctx, asig, P, xi, form1, by_prop)
    nt = _check_whole(ctx, a, a_ref, dt, T, s, xe, res, "AccSignal.response_series, n=%d" % n)
    h = case.get("hist")
    if h:
        ctx.cls("hist=" + h["op"])
        op = h["op"]
        pc2, xi2, a2 = pc, xi, a_ref
        if op == "periods":
            pc2 = _pcase(dt, h["ratios2"], h["lead02"], case["container"])
            xi2 = h["xi2"] if mid.hu("alsoxi", case["seed"]) < 0.5 else xi
        elif op == "xi":
            xi2 = h["xi2"]
        elif op == "values":
            a2 = mid.record(h["kind2"], h["n2"], case["seed"] + 1)
            ctx.lib(asig.reset_values, a2.copy())
        P2, T2, s2 = _periods(pc2), _T64(pc2), (1 if pc2["lead0"] else 0)
        form2 = h["form2"] if op != "periods" else [True, h["form2"][1]]
        res2, xe2 = _object_call(ctx, asig, P2, xi2, form2, True)
        nt2 = _check_whole(ctx, a2, a2.copy(), dt, T2, s2, xe2, res2,
                           "AccSignal.response_series, second call after '%s' (form %s), n=%d" % (op, form2, len(a2)))
        nt = nt or nt2
    ctx.nt(nt)


# --- many periods, and large periods x samples products -----------------------------------------------------------

ENTRIES = ["object", "response_series", "nigam"]


def _mk_wide_case(npd, n, idx, lead0, tag):
    sd = int(mid.hu("c01-wide", tag, gen.run_seed(), idx, npd, n) * (2 ** 31 - 2))
    rlo = mid.hlog(0.2, 200.0, "rlo", sd)
    c = {"np": int(npd), "n": int(n), "seed": sd, "kind": mid.hpick(mid.RECORD_KINDS, "kind", sd), "dt": mid.dt_from_hash(sd),
         "rlo": rlo, "rhi": min(2e4, rlo * mid.hlog(30.0, 1e5, "rspan", sd)), "xi": mid.xi_from_hash(sd), "lead0": bool(lead0),
         "container": mid.hpick(CONTAINERS, "cont", sd), "entry": ENTRIES[(idx + gen.run_seed()) % 3],
         "int": mid.hu("int", sd) < 0.2}
    if c["int"]:
        c["dt"] = 1.0 if mid.hu("intdt", sd) < 0.5 else 0.5
    return c


def _wide_inputs(case):
    """(record, period-case for _periods/_T64) of a many-periods case: pure function of the case."""
    a = mid.record(case["kind"], case["n"], case["seed"])
    npd, dt = case["np"], case["dt"]
    if case["int"]:
        rs = np.random.RandomState(case["seed"] % (2 ** 31 - 1))
        ints = (rs.permutation(int(min(2e4 * dt, max(2 * npd, 50)))) + 1)[:npd]
        ints = [int(t) for t in ints]
        pc = _pcase(dt, [t / dt for t in ints], case["lead0"], case["container"], int_periods=ints)
    else:
        pc = _pcase(dt, mid.spread_ratios(npd, case["rlo"], case["rhi"], case["seed"]), case["lead0"], case["container"])
    return a, pc


def _wide_check(case, ctx, differential):
    n, dt, xi = case["n"], case["dt"], case["xi"]
    a, pc = _wide_inputs(case)
    a_ref = a.copy()
    P, T, s = _periods(pc), _T64(pc), (1 if case["lead0"] else 0)
    ctx.cls(_oct("P", case["np"]), _oct("n", n), _oct("PxN", case["np"] * n), "entry=" + case["entry"], "lead0" if s else None,
            "int-periods" if case["int"] else None, "container=" + case["container"])
    what = "%s, %d periods%s x %d samples" % (case["entry"], case["np"], " + leading 0" if s else "", n)
    if case["entry"] == "object":
        asig = ctx.lib(eqsig.AccSignal, a, dt)
        res = ctx.lib(asig.response_series, response_times=P, xi=xi)
    else:
        fn = sdof.response_series if case["entry"] == "response_series" else sdof.nigam_and_jennings_response
        res = ctx.lib(fn, a, dt, P, xi)
    ctx.nt(_check_whole(ctx, a, a_ref, dt, T, s, xi, res, what))
    if s and differential:
        # the rows of the non-zero periods do not depend on the leading 0 (rounding model of two equal runs: the closed forms may be
        # evaluated over arrays of different length in the two calls)
        q = ctx.lib(sdof.response_series, a, dt, _periods(pc, False), xi)
        S = mid.escales(a, dt, T, xi, np.asarray(q[0]), np.asarray(q[1]))
        for k, name in enumerate(("displacement", "velocity", "acceleration")):
            got, want = np.asarray(res[k])[1:], np.asarray(q[k])
            ctx.shape(got, want.shape, "%s: %s rows" % (what, name))
            d = np.max(np.abs(got - want), axis=1)
            bad = ~(d <= mid.tol_n(n) * S[k] + TINY)
            ctx.check(not np.any(bad), "%s: %s rows with vs without the leading 0 differ: row %s |diff|=%r tol=%r" % (
                what, name, np.flatnonzero(bad)[:5].tolist(), d[bad][:3].tolist(), (mid.tol_n(n) * S[k])[bad][:3].tolist()))


def _p_enum(tier, shard, nshards):
    cfg = _cfg(tier)
    lo, hi, count, tag, mlim = cfg["p"]
    sizes = sorted(set(gen.size_ladder(lo, hi, count, tag, mined_limit=mlim)) | {hi})
    cases = []
    for k, npd in enumerate(sizes):
        for lead0 in (False, True):
            n = mid.hlogint(cfg["pn"][0], cfg["pn"][1], "pn", gen.run_seed(), tag, npd, lead0)
            cases.append(_mk_wide_case(npd, n, 2 * k + int(lead0), lead0, tag))
    return _sharded(cases, shard, nshards, lambda c: c["n"] * (12.0 + 0.1 * c["np"]))


@enum_clause(CLAUSES, "mid-range-periods", _p_enum,
             rule="period-count ladder: one count per logarithmic bin of [7, 3000] (10 bins; thorough [7, 6000], 24 bins), the end of the "
                  "range and counts next to integer literals of the source under test, each with and without a leading 0; distinct, "
                  "unsorted periods log-spread over a hash-chosen sub-range of [0.2, 2e4] dt (or distinct python ints); ndarray / list / "
                  "tuple / float32 containers; records of 150-1500 (3000) samples; the three entry points in rotation; "
                  "non-trivial = non-zero record and a peak above the floor",
             oracle="reference model on the whole output as 'mid-range' (every sample of every row) + differential: rows with vs "
                    "without the leading 0 agree to (1e-10 + 16 eps n) of the energy-consistent robust scale",
             exhaustive_note="one case per ladder count and leading-0 variant (the counts move with VERIF_SEED)",
             min_nontrivial=0.5, quick_shards=4)
def mid_range_periods(case, ctx):
    _wide_check(case, ctx, differential=True)


def _prod_enum(tier, shard, nshards):
    cfg = _cfg(tier)
    lo, hi, count, tag = cfg["prod"]
    pairs = gen.product_pairs(lo, hi, count, cfg["prod_p"], cfg["prod_n"], tag)
    cases = []
    for k, (npd, n) in enumerate(pairs):
        cases.append(_mk_wide_case(npd, n, k, mid.hu("prod-lead0", gen.run_seed(), tag, k) < 0.5, tag))
    return _sharded(cases, shard, nshards, lambda c: c["n"] * (12.0 + 0.1 * c["np"]))


@enum_clause(CLAUSES, "mid-range-products", _prod_enum,
             rule="(periods x samples) ladder: one product per logarithmic bin of [1e5, 3e7] (11 bins; thorough [1e5, 6e7], 24 bins) and "
                  "products just above integer literals of the source under test, split by hash into 8..3000 (6000) periods x "
                  "400..100 000 (300 000) samples; leading 0 in half of the cases; period lists, containers and entry points as "
                  "'mid-range-periods'; non-trivial = non-zero record and a peak above the floor",
             oracle="reference model on the whole output as 'mid-range' (every sample of every row)",
             exhaustive_note="one case per ladder product (the products and their splits move with VERIF_SEED)",
             min_nontrivial=0.5, quick_shards=4)
def mid_range_products(case, ctx):
    _wide_check(case, ctx, differential=False)
