"""C19 - surface energy of an upward wave and its delayed reflection; array time-shift helpers."""
import hashlib
import itertools
import math

import numpy as np
from hypothesis import strategies as st

import eqsig
from eqsig import surface
from eqsig.fns import time_shift as ts

from pbt import gen
from pbt.core import clause, enum_clause, HarnessError, TINY
from pbt.ref import surface as ref

PROPERTY = "C19"
CLAUSES = []
ASSUMPTIONS = [
    "narrow integer records (int16 / int32 / int8 counts using the dtype's full range, gen.narrow_int) are records like any other: the "
    "reference works on their exact values",
    "records: 3 <= n <= 412 samples in the random clauses, 413 .. 3e5 (thorough 2e6) in the mid-range enumerations (float "
    "ndarray, integer ndarray, list, views), |a| <= 1e9; dt in [1e-4, 1] or 2^-10..1; 1-5 travel times in the random clauses, "
    "6 .. 5000 in the mid-range enumerations, as scalar / list / tuple / ndarray; travel times of any length >= 0, including "
    "longer than the record (delay up to 4n+2 samples)",
    "the delay in samples is s = 2*tt/dt evaluated in double precision (scaling by 2 is exact, so this is the correctly "
    "rounded quotient whatever the order of operations); s whole -> pure sample shift, otherwise linear interpolation",
    "'linearly interpolated' has two readings and either is accepted (per row): the interpolant of the recorded samples, zero "
    "wherever k - s falls outside [0, n-1] (DESIGN), or the interpolant of the zero-padded record (a ramp over the fractional "
    "sample in front of and behind the record)",
    "'integrating' does not name the quadrature: the trapezoid rule and the three cumulative rectangle rules (right, left, plain "
    "running sum) are accepted, the same rule for all rows of one result (c19-trapz-to-rect is therefore a survivor by design)",
    "margin filter: a non-whole s within 1e-9 of a whole number m (e.g. tt=0.3, dt=0.1 -> 5.999999999999999) is "
    "'ambiguous': the answer is only bracketed by {shift m, shift m without the first reflected sample, shift m without "
    "the last reflected sample} and the floors used by the length / start options by floor(x -/+ 1e-9)",
    "reduction factors: both python scalars (float or int) or both ndarrays (float or integer dtype) of one factor per travel "
    "time; the quantifier ('scalar/array reductions') and the formula put no range on them: values in [0, 1] mostly, (1, 4] "
    "(amplification) in about a fifth and [-1, 0) in about a twentieth of the non-default cases "
    "as ndarrays, lists, tuples, or a sequence for one wave and a scalar for the other (fixed finding C19-F2)",
    "lengths: npts when trimmed (statement).  Untrimmed, no start: long enough for the delayed wave under either reading of the "
    "interpolation, n+floor(max 2tt/dt) or n+ceil(max 2tt/dt).  start without trim: the statement fixes nothing; any length "
    "from n to n + largest front padding + ceil(max 2tt/dt) + 1 is accepted and the content is compared on whatever length came back",
    "start option: row i is moved by a whole number of samples c_i with |c_i - (stt - tt_i)/dt| < 1 (the statement does not fix "
    "the rounding convention: floor(stt/dt)-floor(tt_i/dt), floor / ceil / round of the difference are all accepted), zero-filled "
    "in front; 0 <= stt < n*dt (a start shift longer than the record makes the slice assignment in trim_to_length fail; outside "
    "any caller's use, DESIGN C19.2)",
    "a single travel time (scalar or sequence of length 1) may come back 1-D or as one row",
    "rounding bounds: acceleration eps*(4|up| + (8+k+s)*(|a_lo|+|a_hi|)*|down_red|) (interpolation at a position k-s rounded "
    "in double); velocity eps*(2k+s+16)*dt*sum_{j<=k}(|up_j|+|down_j|); energy tol_v*(|v|+tol_v)+4 eps|E|; everything "
    "else is asserted with equality (dyadic records with dyadic dt, delays, reductions; 2^k scaling; helper outputs).  The "
    "whole-batch check at mid-range sizes evaluates the definition in double precision row by row and uses 3x these bounds with "
    "sum_{j<=k}(|up_j|+|down_j|) <= (|up_red|+2|down_red|)*sum_{j<=k}|a_j|",
    "mid-range enumerations: delays are whole or at least 0.01 samples away from a whole number (no 'ambiguous' rows there)",
    "join_values_w_shifts / join_sig_w_time_shift: shifts >= 0 (np.pad), time shifts as ndarray / list / tuple (fixed finding C19-F1); a time shift t moves by a whole number of samples within one sample of t/dt (floor or ceil; the "
    "statement does not fix the convention); put_array_in_2d_array: integer shifts of any sign with |shift| <= n+3 in the random "
    "clause and up to 2n in the mid-range enumeration, list or ndarray, clip in {'none','start','end','both', None, omitted}",
    "purity of the arguments (record / reductions / values unchanged by a call) is property C05's claim and is not asserted "
    "here; the same argument objects are re-used by consecutive calls of one case, so a result that is wrong BECAUSE an "
    "argument was changed by an earlier call is still reported",
]
EPS = np.finfo(float).eps
LD = np.longdouble
AMB = 1e-9

_msg = ref.validate()
if _msg:
    raise HarnessError("C19 reference failed its self-validation: " + _msg)


# ---------------------------------------------------------------------------
# generators


_DY_RED = [1.0, 0.5, 0.75, 0.25, 0.0, 1.5, 2.0, -0.5]


def _reds(exact):
    """Reduction factors: the quantifier puts no range on them (see ASSUMPTIONS)."""
    if exact:
        return st.sampled_from(_DY_RED)
    return st.one_of(st.sampled_from([1.0, 0.5, 0.9, 0.0, 0.75]),
                     st.floats(0.0, 1.0, allow_nan=False, allow_subnormal=False),
                     st.floats(0.0, 1.0, allow_nan=False, allow_subnormal=False),
                     st.sampled_from([1.5, 1.25, 2.0, 3.7]),
                     st.floats(1.0, 4.0, allow_nan=False),
                     st.floats(-1.0, 0.0, allow_nan=False, allow_subnormal=False).filter(lambda x: x != 0 and abs(x) > 1e-6))


def _pick(draw, seq):
    """Near-uniform categorical choice (Hypothesis' own sampled_from / booleans favour the first element, which starves
    some option combinations); shrinks towards seq[0]."""
    return seq[draw(st.integers(0, 2 ** 16 - 1)) % len(seq)]


@st.composite
def _delay(draw, n, exact=False):
    """Delay q in samples (tt = q*dt/2): zero, whole (odd -> tt an odd multiple of dt/2), fractional; one draw in eight is
    LONG (travel time >= the record's duration: 2n <= q <= 4n+2)."""
    top = 2 * n - 1
    kinds = ["zero", "int", "int", "dyfrac"] if exact else (
        ["zero"] * 2 + ["int"] * 4 + ["frac"] * 6 + ["dyfrac"] * 2 + ["edge", "near"])
    kind = draw(st.sampled_from(kinds))
    if kind == "zero":
        return 0.0
    where = draw(st.integers(0, 7))
    small = where < 4  # overlapping waves are the interesting half
    lo = 0
    if where == 7:
        lo, top = 2 * n, 4 * n + 2
    if kind == "int":
        return float(draw(st.integers(max(1, lo), min(top, 12) if small else top)))
    if kind == "near":  # a whole number of samples up to rounding: exercises the bracket of the margin filter
        m = float(draw(st.integers(max(1, lo), min(top, 12) if small else top)))
        return float(np.nextafter(m, m + 1.0 if draw(st.booleans()) else 0.0))
    m = draw(st.integers(lo, min(top - 1, 12) if small else top - 1))
    if kind == "frac":
        return m + draw(st.floats(1e-3, 0.999, allow_nan=False))
    if kind == "dyfrac":
        return m + draw(st.sampled_from([0.5, 0.25, 0.75, 0.125]))
    e = draw(st.integers(3, 8))
    return m + (10.0 ** -e if draw(st.booleans()) else 1.0 - 10.0 ** -e)


@st.composite
def _cases(draw, options=False, laws=False):
    spec = draw(gen.record_specs(min_n=3, max_n=400, allow_int=True))
    n = len(gen.build(spec))
    exact = spec["k"] == "dyadic" and draw(st.integers(0, 3)) != 0
    dt = draw(st.integers(-10, 0).map(lambda k: 2.0 ** k)) if exact else draw(gen.dts(1e-4, 1.0))
    nt = draw(st.integers(1, 5))
    case = {"rec": spec, "dt": dt, "exact": exact,
            "q": [draw(_delay(n, exact)) for _ in range(nt)],
            "tt_as": draw(st.sampled_from(["scalar", "list", "ndarray", "tuple"] if nt == 1 else ["list", "ndarray", "tuple"])),
            "nodal": _pick(draw, [True, False])}
    mode = _pick(draw, ["default", "scalar", "scalar", "array", "array", "array", "array", "int"])
    if mode == "int":
        # integer-typed factors (the repo's tests pass up_red=1): python ints or an integer ndarray
        mode = _pick(draw, ["scalar", "array"])
        case["red_int"] = True
        el = st.sampled_from([1, 0, 2, 1, 3])
    else:
        el = _reds(exact)
    case["red"] = mode
    if mode == "scalar":
        case["up"] = draw(el)
        case["down"] = case["up"] if draw(st.integers(0, 2)) == 0 else draw(el)
    elif mode == "array":
        case["up"] = [draw(el) for _ in range(nt)]
        case["down"] = list(case["up"]) if draw(st.integers(0, 2)) == 0 else [draw(el) for _ in range(nt)]
        # "float or array_like": ndarrays, lists, tuples and every mixture of an array / list with a scalar (fixed finding C19-F2)
        case["red_form"] = _pick(draw, ["array", "array", "list", "tuple", "array+scalar", "scalar+array", "list+scalar", "scalar+list",
                                        "array+list"])
        if case["red_form"].startswith("scalar"):
            case["up"] = [case["up"][0]] * nt
        elif case["red_form"].endswith("scalar"):
            case["down"] = [case["down"][0]] * nt
    if not exact and draw(st.integers(0, 7)) == 0:
        case["narrow"] = draw(st.sampled_from(["int16", "int32", "int8"]))   # raw counts, full range of the dtype (gen.narrow_int)
    if laws:
        case["nodal"], case["trim"], case["start"] = _pick(draw, list(itertools.product([True, False], repeat=3)))
    if options or laws:
        how = _pick(draw, ["zero", "whole", "frac", "half", "frac"])
        case["r"] = {"zero": st.just(0.0), "whole": st.integers(0, n - 1).map(float),
                     "frac": st.floats(0.0, float(n - 1), allow_nan=False, allow_subnormal=False),
                     "half": st.integers(0, min(n - 1, 12)).map(lambda i: min(i + 0.5, float(n - 1)))}[how]
        case["r"] = draw(case["r"])
    if laws:
        case["alpha"] = draw(st.one_of(st.integers(-6, 6).filter(lambda k: k != 0).map(lambda k: {"k2": k}),
                                       gen.log_uniform(1e-2, 1e2).map(lambda x: {"x": x})))
    return case


# ---------------------------------------------------------------------------
# shared pieces of the oracle


def _build(spec):
    return _mr_record(spec) if spec["k"] == "mr" else gen.build(spec)


def _mr_record(spec):
    """Record of a mid-range case (pure function of the spec): noise times a slowly varying envelope plus a slow sine and a
    non-zero mean - every stretch of the record contributes differently, no quiet tail, a dropped block cannot cancel."""
    n = int(spec["n"])
    rs = np.random.RandomState(int(spec["seed"]))
    x = np.arange(n, dtype=float) / n
    env = {"up": 0.6 + 0.8 * x, "down": 1.4 - 0.8 * x, "hump": 0.6 + 0.8 * np.sin(math.pi * x)}[spec.get("env", "up")]
    a = rs.standard_normal(n) * env + 0.11 + 0.3 * np.sin(2 * math.pi * float(spec.get("cyc", 7.3)) * x + 1.0)
    g = int(spec.get("grid", 0))
    if g:
        a = np.round(a * 2.0 ** g) / 2.0 ** g
    return np.ascontiguousarray(a * 10.0 ** int(spec.get("amp", 0)), dtype=float)


class _Row(object):
    """One travel time: the delay in samples and the candidate readings of it."""

    def __init__(self, tt, dt):
        self.tt = tt
        self.s = 2.0 * tt / dt
        r = round(self.s)
        if self.s == r:
            self.kind = "int"
            self.variants = [(int(r), 0.0, None)]
        elif abs(self.s - r) < AMB:
            self.kind = "amb"
            self.variants = [(int(r), 0.0, None), (int(r), 0.0, "first"), (int(r), 0.0, "last")]
        else:
            self.kind = "frac"
            m, f = ref.split_delay(self.s)
            self.variants = [(m, f, None), (m, f, "pad")]   # the two readings of "linearly interpolated"
        self.half_floor = _floor_cands(self.s / 2.0)  # floor(tt/dt); halving is exact


def _floor_cands(x):
    """floor(x) for x >= 0; both neighbours when a non-whole x lies within AMB of a whole number."""
    r = round(x)
    if x == r:
        return [int(r)]
    return sorted({max(0, int(math.floor(x - AMB))), max(0, int(math.floor(x + AMB)))})


def _near_ints(x):
    """The whole numbers c with |c - x| < 1 (x itself when it is whole), with the AMB margin."""
    r = round(x)
    if x == r:
        return [int(r)]
    return list(range(int(math.floor(x - AMB)), int(math.ceil(x + AMB)) + 1))


class _Setup(object):
    def __init__(self, case, ctx, asig=None):
        spec = case["rec"]
        a0 = _build(spec)
        self.arg = gen.as_container(spec, a0)
        self.a = np.array(self.arg, dtype=float)  # what the library sees
        if case.get("narrow"):
            self.arg, self.a = gen.narrow_int(a0, case["narrow"])
            ctx.cls("narrow=" + case["narrow"])
        self.n = len(self.a)
        self.dt = case["dt"]
        self.tts = list(case["tts"]) if "tts" in case else [q * self.dt / 2.0 for q in case["q"]]
        self.rows = [_Row(tt, self.dt) for tt in self.tts]
        self.nt = len(self.tts)
        self.nodal = case["nodal"]
        mode = case["red"]
        self.red_int = bool(case.get("red_int"))
        if mode == "array":
            self.ur = [float(x) for x in case["up"]]
            self.dr = [float(x) for x in case["down"]]
        elif mode == "scalar":
            self.ur = [float(case["up"])] * self.nt
            self.dr = [float(case["down"])] * self.nt
        else:
            self.ur = [1.0] * self.nt
            self.dr = [1.0] * self.nt
        self.mode = mode
        self.red_form = case.get("red_form", "array")
        if mode == "array" and self.red_form != "array":
            ctx.cls("red-form=" + self.red_form)
        self._red_kw = None
        self.stt = float(case.get("r", 0.0)) * self.dt
        self.stt_floor = _floor_cands(self.stt / self.dt)
        self.smax = max(r.s for r in self.rows)
        if asig is None:
            self.asig = ctx.lib(eqsig.AccSignal, self.arg, self.dt)
        else:
            # history: an existing signal object is given the record of this case
            ctx.lib(asig.reset_values, self.arg)
            self.asig = asig
        # the result depends on the record, not on what was computed on the signal object before: a third of the cases read
        # the velocity first, another third switch the object's own velocity series to the rectangle rule first
        pre = (len(self.arg) + int(round(1e6 * self.dt)) + len(self.tts)) % 3
        if pre == 1:
            _ = self.asig.velocity
            ctx.cls("pre=velocity-read")
        elif pre == 2 and np.asarray(self.asig.values).dtype.kind == "f":
            self.asig.generate_displacement_and_velocity_series(trap=False)
            ctx.cls("pre=rectangle-rule-velocity")
        # classification
        ctx.cls("kind=" + spec["k"], gen.size_class(self.n), "red=" + mode, "nodal" if self.nodal else "antinodal",
                "tt=" + case["tt_as"], "nt=%d" % self.nt if self.nt < 3 else "nt>=3", "red-int" if self.red_int else None)
        if mode != "default":
            ctx.cls("red>1" if any(x > 1 for x in self.ur + self.dr) else None,
                    "red<0" if any(x < 0 for x in self.ur + self.dr) else None)
        kinds = set()
        for r in self.rows:
            kinds.add("delay=" + ("zero" if r.s == 0 else r.kind))
            if r.kind == "int" and r.s % 2 == 1:
                kinds.add("delay=odd")
            if r.s > self.n:
                kinds.add("delay>n")
            if r.s >= 2 * self.n:
                kinds.add("delay>=2n")
        ctx.cls(*sorted(kinds))
        if spec.get("as"):
            ctx.cls("as=" + spec["as"])
        if case.get("exact"):
            ctx.cls("exact-dyadic")
        if "r" in case:
            x = self.stt / self.dt
            ctx.cls("stt=0" if x == 0 else ("stt=whole" if x == round(x) else (
                "stt=near-whole" if len(self.stt_floor) > 1 else "stt=frac")))
        self.has_options = "r" in case
        self.set_options(ctx, bool(case.get("trim", False)), bool(case.get("start", False)), label="trim" in case or "r" not in case)

    def set_options(self, ctx, trim, start, label=True):
        self.trim = trim
        self.start = start
        self.ambiguous = any(r.kind == "amb" for r in self.rows)
        if start and (len(self.stt_floor) > 1 or any(len(r.half_floor) > 1 for r in self.rows)):
            self.ambiguous = True
        if not label:
            return
        if self.has_options:
            ctx.cls("opt=%s%s%s" % ("N" if self.nodal else "A", "T" if trim else "t", "S" if start else "s"))
        if self.ambiguous:
            ctx.cls("ambiguous")
            ctx.amb()

    def tt_arg(self, case, tts=None):
        tts = self.tts if tts is None else tts
        how = case["tt_as"]
        if how == "scalar" and len(tts) == 1:
            return tts[0]
        if how == "ndarray":
            return np.array(tts)
        if how == "tuple":
            return tuple(tts)
        return list(tts)

    def red_kwargs(self, ur=None, dr=None):
        """Reduction arguments.  With the case's own factors the SAME objects are handed to every call of the case."""
        own = ur is None and dr is None
        if own and self._red_kw is not None:
            return dict(self._red_kw)
        ur = self.ur if ur is None else ur
        dr = self.dr if dr is None else dr
        if self.mode == "array":
            dty = np.int64 if self.red_int else float
            conv = int if self.red_int else float

            def form(vals, how):
                if how == "array":
                    return np.array(vals, dtype=dty)
                if how == "list":
                    return [conv(x) for x in vals]
                if how == "tuple":
                    return tuple(conv(x) for x in vals)
                return conv(vals[0])   # scalar side of a mixture (all its factors are equal)
            fu, fd = (self.red_form.split("+") + [self.red_form])[:2] if own else ("array", "array")
            kw = {"up_red": form(ur, fu), "down_red": form(dr, fd)}
        elif self.mode == "scalar":
            kw = {"up_red": int(ur[0]), "down_red": int(dr[0])} if self.red_int else {"up_red": ur[0], "down_red": dr[0]}
        else:
            kw = {}
        if own:
            self._red_kw = kw
        return dict(kw)

    def opt_kwargs(self, case=None):
        kw = {"nodal": self.nodal}
        if self.has_options:
            kw.update(stt=self.stt, trim=self.trim, start=self.start)
        return kw

    # -- reference -----------------------------------------------------------
    def series(self, i, variant, K, exact=False, rule="trap"):
        """Reference acceleration and energy of row i on K samples with their rounding bounds."""
        m, f, drop = variant
        pad = drop == "pad"
        dt = self.dt
        acc = ref.accel(self.a, K, m, f, self.ur[i], self.dr[i], self.nodal, drop)
        v = ref.velocity(acc, dt, rule)
        e = ref.energy(v)
        U, D = ref.accel_magnitude(self.a, K, m, f, self.ur[i], self.dr[i], pad)
        if self.rows[i].kind == "amb":  # the code interpolates with a weight ~ulp(m) on a neighbouring sample
            D = D + abs(self.dr[i]) * (ref.delayed_magnitude(self.a, K, m + 1, 0.0) +
                                       (ref.delayed_magnitude(self.a, K, m - 1, 0.0) if m >= 1 else 0.0))
        k = np.arange(K, dtype=float)
        s = m + f
        if exact:
            tol_acc = np.zeros(K)
        else:
            tol_acc = EPS * (4 * U + (8 + k + s) * D)
        tol_v = EPS * (2 * k + s + 16) * dt * np.cumsum(U + D)
        av = np.abs(np.asarray(v, dtype=float))
        tol_e = tol_v * (av + tol_v) + 4 * EPS * np.abs(np.asarray(e, dtype=float))
        return {"acc": (acc, tol_acc), "e": (e, tol_e)}

    def row_scale_tol(self, i, e_row):
        """One scalar bound for the energy of row i (used by the metamorphic laws): the bound of `series` at the last sample."""
        m, f, _ = self.rows[i].variants[0]
        K = self.n + m + 2
        U, D = ref.accel_magnitude(self.a, K, m, f, self.ur[i], self.dr[i], f != 0)
        if self.rows[i].kind == "amb":
            D = D + abs(self.dr[i]) * (ref.delayed_magnitude(self.a, K, m + 1, 0.0) +
                                       (ref.delayed_magnitude(self.a, K, m - 1, 0.0) if m >= 1 else 0.0))
        L = max(K, len(e_row))
        tol_v = EPS * (2 * L + m + f + 16) * self.dt * float(np.sum(U + D))
        emax = float(np.max(np.abs(e_row))) if len(e_row) else 0.0
        return tol_v * (math.sqrt(2 * emax) + 2 * tol_v) + 8 * EPS * emax

    def length_range(self):
        """(smallest, largest) admissible series length under the current options (see ASSUMPTIONS 'lengths')."""
        n = self.n
        if self.trim:
            return n, n
        smax = self.smax
        if not self.start:
            return n + min(_floor_cands(smax)), n + int(math.ceil(smax + (AMB if smax != round(smax) else 0.0)))
        front = max(0, max(max(self.shift_cands(i)) for i in range(self.nt)))
        return n, n + front + int(math.ceil(smax)) + 1

    def length_ok(self, length):
        lo, hi = self.length_range()
        return lo <= length <= hi

    def shift_cands(self, i):
        """Whole-sample moves of row i under the start option: every c with |c - (stt - tt_i)/dt| < 1."""
        if not self.start:
            return [0]
        row = self.rows[i]
        out = {fs - ft for fs in self.stt_floor for ft in row.half_floor}   # floor(stt/dt) - floor(tt_i/dt)
        out.update(_near_ints(self.stt / self.dt - row.s / 2.0))
        return sorted(out)


def _as_rows(ctx, su, out, what, scalar_arg=False):
    out = np.asarray(out)
    if su.nt == 1:
        # a single travel time (scalar or a sequence of one): 1-D or one row - the statement does not say which
        ctx.check(out.ndim == 1 or (out.ndim == 2 and out.shape[0] == 1),
                  "%s: one travel time returned shape %s" % (what, out.shape))
        return np.atleast_2d(out)
    ctx.check(out.ndim == 2 and out.shape[0] == su.nt, "%s: shape %s, expected %d rows" % (what, out.shape, su.nt))
    return out


def _shifted(x, shift, length):
    """x[k - shift] for k in range(length), zero where k - shift is outside the series."""
    out = np.zeros(length, dtype=x.dtype)
    lo = max(0, shift)
    hi = min(length, len(x) + shift)
    if hi > lo:
        out[lo:hi] = x[lo - shift:hi - shift]
    return out


def _check_length(ctx, su, length, what):
    lo, hi = su.length_range()
    ctx.check(lo <= length <= hi, "%s: series length %d, expected %s (n=%d, trim=%s start=%s stt/dt=%r largest delay=%r)" % (
        what, length, ("%d" % lo) if lo == hi else "%d..%d" % (lo, hi), su.n, su.trim, su.start, su.stt / su.dt, su.smax))


def _row_mismatch(su, i, got_row, which, exact, rule):
    """None when row i equals a candidate reading of the reference (moved by a candidate start shift), else the closest miss."""
    row = su.rows[i]
    length = len(got_row)
    got = got_row.astype(LD)
    cands = [(variant, sh) for variant in row.variants for sh in su.shift_cands(i)]
    best = None
    for variant, sh in cands:
        K = max(2, length - min(sh, 0))
        x, tol = su.series(i, variant, K, exact=exact, rule=rule)[which]
        want = _shifted(x, sh, length)
        wtol = _shifted(tol, sh, length)
        over = np.abs(got - want) - (wtol + TINY)
        j = int(np.argmax(over))
        if not over[j] > 0:
            return None  # this reading is matched
        if best is None or over[j] < best[0]:
            best = (float(over[j]), j, float(got[j]), float(want[j]), float(wtol[j]), len(cands))
    return best


def _check_output(ctx, su, out, which, what, exact=False, rows=None):
    """`out` (rows) must have an admissible length and every row must equal a candidate reading of the reference, moved by
    a candidate start shift (one candidate each unless the case is ambiguous or the statement leaves a convention open).
    For the energy the quadrature rule is one of ref.RULES, the same for all rows."""
    _check_length(ctx, su, out.shape[1], what)
    ctx.finite(out, what)
    first = None
    for rule in (ref.RULES if which == "e" else ("trap",)):
        miss = None
        for i in (range(su.nt) if rows is None else rows):
            best = _row_mismatch(su, i, out[i], which, exact, rule)
            if best is not None:
                miss = (i, best)
                break
        if miss is None:
            if rule != "trap":
                ctx.cls("rule=" + rule)
            return
        if first is None:
            first = miss
    i, (_, j, g, w, t, nc) = first
    row = su.rows[i]
    ctx.fail("%s row %d of %d (delay %r samples, up_red=%r down_red=%r, %s, trim=%s start=%s stt/dt=%r, n=%d): sample %d is %r, "
             "expected %r (tol %.3g)%s" % (
                 what, i, su.nt, row.s, su.ur[i], su.dr[i], "nodal" if su.nodal else "anti-nodal", su.trim, su.start,
                 su.stt / su.dt, su.n, j, g, w, t, " [closest of %d candidate readings; no quadrature rule fits]" % nc))


def _check_cum(ctx, c, e, what):
    """Cumulative absolute change: non-decreasing from >= 0 (exact) and the running sum of |dE| of the library's own energy
    (which the caller checks against the definition), for every row at once in double precision."""
    ctx.check(c.shape == e.shape, "%s: shape %s differs from energy shape %s" % (what, c.shape, e.shape))
    ctx.finite(c, what)
    ctx.check(bool(np.all(c[:, 0] >= 0)) and bool(np.all(c[:, 1:] >= c[:, :-1])),
              "%s decreases somewhere (min step %r)" % (what, float(np.min(np.diff(c, axis=1), initial=0.0))))
    steps = np.abs(np.diff(e, axis=1, prepend=0.0))  # change from the state of rest, E = 0
    cref = np.cumsum(steps, axis=1)
    k = np.arange(1, e.shape[1] + 1, dtype=float)
    ctx.close(c, cref, 2 * EPS * (k + 6) * cref, "%s vs running sum of |dE|" % what)


def _nontrivial(su):
    return bool(np.any(su.a != 0)) and any(r.kind == "frac" for r in su.rows)


_OPTS = ["opt=%s%s%s" % (a, b, c) for a in "NA" for b in "Tt" for c in "Ss"]


# ---------------------------------------------------------------------------
# clauses


@clause(CLAUSES, "definition", _cases(), quick=400, thorough=2000,
        rule="records of all kinds (n 3..412, float/int/list), dt log-uniform/repo rates/dyadic, 1-5 travel times as "
             "scalar/list/tuple/ndarray with delay 2tt/dt in {0, whole (odd and even), m+U(0,1), m+dyadic fraction, "
             "m+/-10^-3..-8, m+/-1ulp}, one delay in eight 2n..4n+2 samples (travel time longer than the record), reductions "
             "default/scalar/ndarray (float or integer typed; in [0,1], above 1, negative), nodal in {T,F}; non-trivial = "
             "non-zero record and >= 1 fractional delay",
        oracle="reference model: long-double blend f*a[k-m-1]+(1-f)*a[k-m] (record zero outside its samples, or zero-padded), "
               "up_red*a -/+ down_red*delayed, trapezoid (or one rectangle rule throughout), "
               "v|v|/2 for calc_surface_energy and get_time_shift_motions; equality of the acceleration on dyadic cases, "
               "otherwise the derived eps bounds; near-whole delays bracketed",
        require={"red=array": 0.30, "red=scalar": 0.15, "delay=frac": 0.30, "delay=int": 0.25, "delay=zero": 0.10, "antinodal": 0.25,
                 "nodal": 0.25, "delay=odd": 0.10, "delay=amb": 0.03, "delay>=2n": 0.08, "red>1": 0.08, "red<0": 0.02,
                 "red-int": 0.04, "red-form=list": 0.02, "red-form=array+scalar": 0.02, "red-form=scalar+array": 0.02,
                 "narrow=int16": 0.02},
        min_nontrivial=0.30)
def definition(case, ctx):
    su = _Setup(case, ctx)
    ctx.nt(_nontrivial(su))
    tt = su.tt_arg(case)
    kw = dict(su.red_kwargs(), nodal=su.nodal)
    if su.nodal and case["red"] == "default":
        kw.pop("nodal")  # documented default: nodal=True
        ctx.cls("nodal-default")
    acc = _as_rows(ctx, su, ctx.lib(surface.get_time_shift_motions, su.asig, tt, **kw), "get_time_shift_motions")
    _check_output(ctx, su, acc, "acc", "get_time_shift_motions", exact=bool(case.get("exact")) and not su.ambiguous)
    e = _as_rows(ctx, su, ctx.lib(surface.calc_surface_energy, su.asig, tt, **kw), "calc_surface_energy")
    _check_output(ctx, su, e, "e", "calc_surface_energy")


@clause(CLAUSES, "options", _cases(options=True), quick=300, thorough=1500,
        rule="same generator plus stt = r*dt with r in {0, whole, U(0,n-1), i+1/2}; every case is evaluated under all four "
             "(trim, start) combinations with its drawn nodal flag, so all eight option triples are exercised; "
             "non-trivial = non-zero record and >= 1 fractional delay",
        oracle="reference model: length n (trim), n+floor|ceil(max 2tt/dt) (neither), anything from n to the no-loss length "
               "(start only); row i = reference series moved by a whole number of samples within one of (stt-tt_i)/dt, zero-filled "
               "in front (start) - for calc_surface_energy, get_time_shift_motions; calc_cum_abs_surface_energy = running sum of "
               "|dE| of that energy, non-decreasing; eps bounds",
        require=dict([(o, 0.25) for o in _OPTS] + [("red=array", 0.30), ("stt=frac", 0.10), ("stt=whole", 0.05),
                                                   ("delay=odd", 0.10), ("start-advance", 0.15), ("start-delay", 0.15)]),
        min_nontrivial=0.30)
def options(case, ctx):
    su = _Setup(case, ctx)
    ctx.nt(_nontrivial(su))
    tt = su.tt_arg(case)
    for trim, start in ((False, False), (True, False), (False, True), (True, True)):
        su.set_options(ctx, trim, start)
        kw = dict(su.red_kwargs(), **su.opt_kwargs())
        if start:
            ctx.cls("start-advance" if any(min(su.shift_cands(i)) < 0 for i in range(su.nt)) else None,
                    "start-delay" if any(max(su.shift_cands(i)) > 0 for i in range(su.nt)) else None)
        e = _as_rows(ctx, su, ctx.lib(surface.calc_surface_energy, su.asig, tt, **kw), "calc_surface_energy")
        _check_output(ctx, su, e, "e", "calc_surface_energy")
        acc = _as_rows(ctx, su, ctx.lib(surface.get_time_shift_motions, su.asig, tt, **kw), "get_time_shift_motions")
        _check_output(ctx, su, acc, "acc", "get_time_shift_motions")
        c = _as_rows(ctx, su, ctx.lib(surface.calc_cum_abs_surface_energy, su.asig, tt, **kw), "calc_cum_abs_surface_energy")
        _check_cum(ctx, c, e, "calc_cum_abs_surface_energy (trim=%s start=%s)" % (trim, start))


@clause(CLAUSES, "laws", _cases(laws=True), quick=400, thorough=2000,
        rule="same generator with options and a scale factor alpha (2^k, k in -6..6, or log-uniform 1e-2..1e2); "
             "non-trivial = non-zero record and some row with a positive final cumulative energy",
        oracle="metamorphic / differential: cumulative series non-decreasing (exact) and equal to the running sum of |dE| "
               "(eps*(k+6)*sum); tt=0, nodal, equal reductions -> identically 0 (exact); E(alpha*a) = alpha^2 E(a) and the same for "
               "the cumulative series (exact for 2^k, derived bound otherwise); batch row i = single call with (tt_i, up_i, down_i) "
               "on the common length (2 tol_E)",
        require=dict([(o, 0.02) for o in _OPTS] + [("red=array", 0.30), ("alpha=2^k", 0.25), ("alpha=real", 0.25),
                                                   ("nt>=3", 0.30)]),
        min_nontrivial=0.30)
def laws(case, ctx):
    su = _Setup(case, ctx)
    tt = su.tt_arg(case)
    kw = dict(su.red_kwargs(), **su.opt_kwargs(case))
    e = _as_rows(ctx, su, ctx.lib(surface.calc_surface_energy, su.asig, tt, **kw), "calc_surface_energy")
    c = _as_rows(ctx, su, ctx.lib(surface.calc_cum_abs_surface_energy, su.asig, tt, **kw), "calc_cum_abs_surface_energy")
    ctx.check(c.shape == e.shape, "cumulative series shape %s differs from energy shape %s" % (c.shape, e.shape))
    ctx.finite(c, "cumulative absolute energy")
    ctx.nt(bool(np.any(su.a != 0)) and bool(np.any(c[:, -1] > 0)))
    length = e.shape[1]
    k = np.arange(1, length + 1, dtype=float)
    for i in range(su.nt):
        ci = c[i]
        ctx.check(ci[0] >= 0 and bool(np.all(ci[1:] >= ci[:-1])),
                  "cumulative absolute energy of row %d decreases (min step %r)" % (i, float(np.min(np.diff(ci), initial=0.0))))
        el = e[i].astype(LD)
        steps = np.abs(np.concatenate([[el[0]], el[1:] - el[:-1]]))  # change from the state of rest, E = 0
        cref = np.cumsum(steps)
        ctx.close(ci, cref, EPS * (k + 6) * np.asarray(cref, dtype=float), "row %d: cumulative series vs running sum of |dE|" % i)
    # zero travel time at a nodal surface with equal reductions: nothing happens
    zscalar = case["tt_as"] == "scalar"
    ztt = [0.0] if zscalar else [0.0] + su.tts
    zkw = dict(su.opt_kwargs(case), nodal=True)
    if su.mode == "array":
        zr = np.array(([su.ur[0]] + su.ur)[:len(ztt)], dtype=float)
        zkw.update(up_red=zr, down_red=zr.copy())
    elif su.mode == "scalar":
        zkw.update(up_red=su.ur[0], down_red=su.ur[0])
    zarg = 0.0 if zscalar else su.tt_arg(case, ztt)
    for fn in (surface.calc_surface_energy, surface.calc_cum_abs_surface_energy):
        z = np.asarray(ctx.lib(fn, su.asig, zarg, **zkw))
        z0 = z if z.ndim == 1 else z[0]
        ctx.check(len(z0) >= su.n, "%s: zero-travel-time row has %d < n samples" % (fn.__name__, len(z0)))
        ctx.check(not np.any(z0), "%s: zero travel time, nodal, equal reductions: row is not identically zero (max %r)" % (
            fn.__name__, float(np.max(np.abs(z0)))))
    tols = [su.row_scale_tol(i, e[i]) for i in range(su.nt)]
    # alpha^2 scaling of the energy and of its cumulative absolute change
    al = case["alpha"]
    alpha = 2.0 ** al["k2"] if "k2" in al else float(al["x"])
    ctx.cls("alpha=2^k" if "k2" in al else "alpha=real")
    sig2 = ctx.lib(eqsig.AccSignal, su.a * alpha, su.dt)
    e2 = _as_rows(ctx, su, ctx.lib(surface.calc_surface_energy, sig2, tt, **kw), "calc_surface_energy")
    c2 = _as_rows(ctx, su, ctx.lib(surface.calc_cum_abs_surface_energy, sig2, tt, **kw), "calc_cum_abs_surface_energy")
    ctx.check(e2.shape == e.shape, "scaled record: shape %s vs %s" % (e2.shape, e.shape))
    ctx.check(c2.shape == c.shape, "scaled record: cumulative shape %s vs %s" % (c2.shape, c.shape))
    if "k2" in al:
        ctx.close(e2, e * alpha ** 2, 0.0, "E(2^%d a) vs 4^%d E(a)" % (al["k2"], al["k2"]))
        ctx.close(c2, c * alpha ** 2, 0.0, "cumulative |dE|(2^%d a) vs 4^%d cumulative |dE|(a)" % (al["k2"], al["k2"]))
    else:
        for i in range(su.nt):
            ctx.close(e2[i], e[i] * alpha ** 2, 4 * alpha ** 2 * tols[i], "row %d: E(alpha a) vs alpha^2 E(a), alpha=%r" % (i, alpha))
            # every |dE_k| of the two series differs by at most 2 * (4 alpha^2 tol): the running sums by 2k times that
            ctx.close(c2[i], c[i] * alpha ** 2, alpha ** 2 * (8 * tols[i] * k + 4 * EPS * (k + 6) * c[i]),
                      "row %d: cumulative |dE|(alpha a) vs alpha^2 cumulative |dE|(a), alpha=%r" % (i, alpha))
    # each row of the batch equals the single-travel-time result
    for i in range(su.nt):
        _single_vs_batch(ctx, su, i, {surface.calc_surface_energy: e, surface.calc_cum_abs_surface_energy: c}, tols[i],
                         su.opt_kwargs(case))


def _single_vs_batch(ctx, su, i, batches, tol_e, okw):
    """Row i of the batch results equals the single-travel-time call with (tt_i, up_i, down_i) on their common length."""
    skw = dict(okw)
    if su.mode == "array":
        dty = np.int64 if su.red_int else float
        skw.update(up_red=np.array([su.ur[i]], dtype=dty), down_red=np.array([su.dr[i]], dtype=dty))
    elif su.mode == "scalar":
        skw.update(su.red_kwargs())
    one = su.tts[i] if i % 2 == 0 else np.array([su.tts[i]])
    for fn, batch in batches.items():
        length = batch.shape[1]
        s1 = np.asarray(ctx.lib(fn, su.asig, one, **skw))
        if s1.ndim == 2 and s1.shape[0] == 1:
            s1 = s1[0]
        ctx.check(s1.ndim == 1, "%s: single travel time returned shape %s" % (fn.__name__, s1.shape))
        m = min(len(s1), length)
        ctx.check(m >= su.n, "%s: single-travel-time series has %d < n samples" % (fn.__name__, m))
        bound = 2 * tol_e if fn is not surface.calc_cum_abs_surface_energy else \
            2 * tol_e * (2 * length) + EPS * (length + 6) * float(batch[i][m - 1])
        ctx.close(batch[i][:m], s1[:m], bound, "%s: batch row %d of %d vs single travel time %r (n=%d)" % (
            fn.__name__, i, su.nt, su.tts[i], su.n))


# ---------------------------------------------------------------------------
# mid-range sizes (DESIGN 8.5): records of 413 .. 3e5 samples (thorough 2e6), 6 .. 5000 travel times, products rows x samples of
# 1e5 .. 1.5e7 (thorough 3e7).  Deterministic enumerations: sizes from gen.size_ladder / gen.product_pairs (one per logarithmic
# bin, placed by a hash of VERIF_SEED, plus the integer literals mined from the source under test); every other parameter is a
# hash of (VERIF_SEED, tag, index).  EVERY row of every result is compared with the definition evaluated in double precision
# (ref.row64: slices and a blend, no interpolation routine) under the derived bounds; a hash-chosen sample of rows that always
# contains the rows -1, 0, +1 modulo 2^k (k = 5..12) is also compared with the long-double reference and with the
# single-travel-time call.


def _hu(*parts):
    """Uniform number in [0, 1): hash of (VERIF_SEED, parts)."""
    t = ":".join(str(x) for x in (gen.run_seed(), "c19") + parts)
    return (int(hashlib.blake2b(t.encode(), digest_size=8).hexdigest(), 16) % 10 ** 9) / 1e9


def _hpick(seq, *parts):
    return seq[min(len(seq) - 1, int(_hu(*parts) * len(seq)))]


def _hint(lo, hi, *parts):
    """Log-uniform integer in [lo, hi]."""
    return int(min(hi, max(lo, math.exp(math.log(lo) + (math.log(hi + 1) - math.log(lo)) * _hu(*parts)))))


def _sd(*parts):
    return int(_hu("seed", *parts) * (2 ** 31 - 1))


def _deal(cases, shard, nshards):
    """Deal the cases to the shards by cost (largest first, always to the least loaded shard): deterministic."""
    order = sorted(range(len(cases)), key=lambda i: (-cases[i].get("cost", 1.0), i))
    load = [0.0] * nshards
    mine = []
    for i in order:
        k = min(range(nshards), key=lambda j: (load[j], j))
        load[k] += cases[i].get("cost", 1.0)
        if k == shard:
            mine.append(i)
    return [cases[i] for i in sorted(mine)]


_MR_DTS = [0.01, 0.005, 0.02, 0.002, 0.025, 2.0 ** -7, 0.1, 0.001]
_MR_CONTAINERS = [None, None, None, "list", "view", "readonly", "negstride", "int"]


def _mr_tts(c):
    """Travel times of a mid-range case: delays (in samples) zero / whole / m+U(0.01,0.99) / m+dyadic fraction up to c['qmax'],
    a few of them longer than twice the record when c['long']; whole delays are exact (2*tt/dt == q), none is within 0.01 of
    a whole number without being one."""
    rs = np.random.RandomState(int(c["seed"]) ^ 0x5A17)
    nt, dt, n = int(c["nt"]), float(c["dt"]), int(c["n"])
    qmax = max(2, int(c["qmax"]))
    kind = rs.randint(0, 8, nt)
    m = rs.randint(0, qmax, nt).astype(float)
    if c.get("long"):
        far = rs.rand(nt) < (0.34 if nt <= 5 else 0.02)
        m[far] = rs.randint(2 * n, 3 * n + 3, int(np.sum(far)))
    q = np.where(kind <= 2, m, np.where(kind <= 5, m + rs.uniform(0.01, 0.99, nt), m + rs.choice([0.5, 0.25, 0.75, 0.125], nt)))
    if nt > 1:
        q[int(rs.randint(0, nt))] = 0.0
    tts = []
    for qi in q:
        tt = float(qi) * dt / 2.0
        if qi == round(qi):
            for cand in (tt, np.nextafter(tt, np.inf), np.nextafter(tt, 0.0)):
                if 2.0 * float(cand) / dt == qi:
                    tt = float(cand)
                    break
            else:
                tt = (float(qi) + 0.37) * dt / 2.0
        sq = 2.0 * tt / dt
        if sq != round(sq) and abs(sq - round(sq)) < 0.005:
            raise HarnessError("mid-range travel time generator produced a near-whole delay %r" % sq)
        tts.append(tt)
    return tts


def _mr_setup(c, ctx, asig=None, seed_xor=0, n=None):
    """Case dict of the random clauses from the plain parameters of a mid-range case, and its _Setup."""
    rs = np.random.RandomState((int(c["seed"]) ^ 0x7E57 ^ seed_xor) % (2 ** 31))
    nt = int(c["nt"])
    spec = {"k": "mr", "n": int(n if n is not None else c["n"]), "seed": (int(c["seed"]) ^ seed_xor) % (2 ** 31),
            "env": c.get("env", "up"), "cyc": c.get("cyc", 7.3), "amp": c.get("amp", 0), "grid": c.get("grid", 0)}
    if c.get("as"):
        spec["as"] = c["as"]
    case = {"rec": spec, "dt": float(c["dt"]), "exact": False, "tts": _mr_tts(dict(c, n=spec["n"])), "tt_as": c.get("tt_as", "ndarray"),
            "nodal": bool(c["nodal"]), "red": c["red"]}
    if c["red"] in ("scalar", "array"):
        k = 1 if c["red"] == "scalar" else nt
        if c.get("red_int"):
            case["red_int"] = True
            up, down = rs.randint(0, 4, k), rs.randint(0, 4, k)
        else:
            up, down = rs.uniform(0.3, 1.0, k), rs.uniform(0.3, 1.0, k)
            wild = rs.rand(k) < 0.2
            up = np.where(wild, rs.uniform(-1.0, 3.0, k), up)
            down = np.where(rs.rand(k) < 0.2, rs.uniform(-1.0, 3.0, k), down)
            if c.get("red_equal"):
                down = up.copy()
        case["up"] = float(up[0]) if k == 1 and c["red"] == "scalar" else [float(x) for x in up]
        case["down"] = float(down[0]) if k == 1 and c["red"] == "scalar" else [float(x) for x in down]
        if c["red"] == "array":
            case["red_form"] = c.get("red_form", "array")
            if case["red_form"].startswith("scalar"):
                case["up"] = [case["up"][0]] * nt
            elif case["red_form"].endswith("scalar"):
                case["down"] = [case["down"][0]] * nt
    if c.get("narrow") and not c.get("as"):
        case["narrow"] = c["narrow"]
    if "r" in c:
        case["r"] = min(float(c["r"]), float(spec["n"] - 1))
        case["trim"], case["start"] = bool(c["trim"]), bool(c["start"])
    return case, _Setup(case, ctx, asig=asig)


def _pick_rows(nt, count, *tag):
    """Rows of a batch for the expensive per-row checks: first, last, the rows -1, 0, +1 modulo 2^k (k = 5..12: one
    representative of every such class that exists, chosen by hash) and hash-chosen others, about `count` in all."""
    rows = {0, 1, nt // 2, nt - 2, nt - 1}
    for k in range(5, 13):
        b = 2 ** k
        for r in (b - 1, 0, 1):
            members = list(range(r if r or True else b, nt, b))
            members = [i for i in members if i >= b - 1]   # the first seam is at b-1 | b | b+1
            if members:
                rows.add(_hpick(members, "seam", k, r, nt, *tag))
                rows.add(members[0])
    j = 0
    while len(rows) < min(nt, count):
        rows.add(int(_hu("row", j, nt, *tag) * nt))
        j += 1
    return sorted(i for i in rows if 0 <= i < nt)


def _row64_mismatch(su, i, got_row, which, rule, pad, A_ext):
    """Double-precision form of _row_mismatch for one reading (quadrature rule, padded or not)."""
    row = su.rows[i]
    if row.kind == "amb":
        raise HarnessError("whole-batch check does not bracket near-whole delays (row %d, delay %r)" % (i, row.s))
    m, f, _ = row.variants[0]
    length = len(got_row)
    n = su.n
    fac = abs(su.ur[i]) + 2.0 * abs(su.dr[i])
    best = None
    for sh in su.shift_cands(i):
        K = max(2, length - min(sh, 0))
        kk = np.arange(K, dtype=float)
        if which == "acc":
            x = ref.row64(su.a, K, m, f, su.ur[i], su.dr[i], su.nodal, None, rule, pad)
            U, D = ref.accel_magnitude(su.a, K, m, f, su.ur[i], su.dr[i], pad)
            tol = 3 * EPS * (4 * U + (8 + kk + m + f) * D)
        else:
            x = ref.row64(su.a, K, m, f, su.ur[i], su.dr[i], su.nodal, su.dt, rule, pad)
            Ak = A_ext(K)
            tol_v = EPS * (2 * kk + m + f + 16) * su.dt * fac * Ak
            tol = 3 * (tol_v * (np.sqrt(2 * np.abs(x)) + tol_v) + 4 * EPS * np.abs(x))
        over = np.abs(got_row - _shifted(x, sh, length)) - (_shifted(tol, sh, length) + TINY)
        j = int(np.argmax(over))
        if not over[j] > 0:
            return None
        if best is None or over[j] < best[0]:
            best = (float(over[j]), j, float(got_row[j]), float(_shifted(x, sh, length)[j]), float(_shifted(tol, sh, length)[j]))
    return best


def _check_all_rows(ctx, su, out, which, what):
    """Every row of `out` against the definition in double precision (see the section comment)."""
    _check_length(ctx, su, out.shape[1], what)
    ctx.finite(out, what)
    A = np.cumsum(np.abs(su.a))
    cache = {}

    def A_ext(K):
        if K not in cache:
            cache.clear()
            cache[K] = A[:K] if K <= su.n else np.concatenate([A, np.full(K - su.n, A[-1])])
        return cache[K]
    out = np.asarray(out, dtype=float)
    first = None
    readings = [(rule, pad) for rule in (ref.RULES if which == "e" else ("trap",)) for pad in (False, True)]
    for rule, pad in readings:
        miss = None
        for i in range(su.nt):
            best = _row64_mismatch(su, i, out[i], which, rule, pad, A_ext)
            if best is not None:
                miss = (i, best)
                break
        if miss is None:
            return
        if first is None:
            first = miss
    i, (_, j, g, w, t) = first
    row = su.rows[i]
    ctx.fail("%s (%d rows x %d samples, n=%d) row %d (delay %r samples, up_red=%r down_red=%r, %s, trim=%s start=%s stt/dt=%r): "
             "sample %d is %r, the definition gives %r (tol %.3g) [no reading of the interpolation / quadrature fits all rows]" % (
                 what, su.nt, out.shape[1], su.n, i, row.s, su.ur[i], su.dr[i], "nodal" if su.nodal else "anti-nodal",
                 su.trim, su.start, su.stt / su.dt, j, g, w, t))


_FNS = {"e": surface.calc_surface_energy, "acc": surface.get_time_shift_motions, "cum": surface.calc_cum_abs_surface_energy}


def _mr_check(c, ctx, su=None, case=None, sample=10):
    """The functions named in c['fns'] on one mid-range case: every row (double precision), sampled rows (long double,
    single-travel-time call), the cumulative series against the running sum of |dE|."""
    if su is None:
        case, su = _mr_setup(c, ctx)
    tt = su.tt_arg(case)
    kw = dict(su.red_kwargs(), **su.opt_kwargs())
    if "r" not in case and su.nodal and c.get("drop_default"):
        kw.pop("nodal")
    rows = _pick_rows(su.nt, sample, c["n"], c["nt"])
    e = None
    for name in c["fns"]:
        if name == "cum" and e is None:
            e = _as_rows(ctx, su, ctx.lib(_FNS["e"], su.asig, tt, **kw), "calc_surface_energy")
            _check_all_rows(ctx, su, e, "e", "calc_surface_energy")
        out = _as_rows(ctx, su, ctx.lib(_FNS[name], su.asig, tt, **kw), _FNS[name].__name__)
        if name == "cum":
            _check_cum(ctx, out, e, "calc_cum_abs_surface_energy (%d x %d)" % out.shape)
            continue
        _check_all_rows(ctx, su, out, name, _FNS[name].__name__)
        _check_output(ctx, su, out, name, _FNS[name].__name__, rows=rows)
        if name == "e":
            e = out
            for i in rows[:: max(1, len(rows) // 6)]:
                _single_vs_batch(ctx, su, i, {_FNS["e"]: e}, su.row_scale_tol(i, e[i]), su.opt_kwargs())
    ctx.cls("fns=" + "+".join(c["fns"]), "rows<=5" if su.nt <= 5 else ("rows<=64" if su.nt <= 64 else (
        "rows<=700" if su.nt <= 700 else "rows>700")), "product>4e6" if su.nt * (su.n + su.smax) > 4e6 else None,
        "n>=20000" if su.n >= 20000 else None)
    ctx.nt(True)
    return case, su


def _mr_common(tag, i, n, nt):
    """Hash-chosen options of a mid-range case."""
    c = {"n": int(n), "nt": int(nt), "seed": _sd(tag, i), "dt": _hpick(_MR_DTS, tag, "dt", i),
         "env": _hpick(["up", "down", "hump"], tag, "env", i), "cyc": round(3 + 20 * _hu(tag, "cyc", i), 3),
         "nodal": _hu(tag, "nodal", i) < 0.5, "red": _hpick(["default", "scalar", "array", "array"], tag, "red", i),
         "red_int": _hu(tag, "ri", i) < 0.12, "tt_as": _hpick(["ndarray", "list", "tuple"], tag, "tta", i),
         "as": _hpick(_MR_CONTAINERS, tag, "as", i), "drop_default": _hu(tag, "dd", i) < 0.5,
         "red_form": _hpick(["array", "array", "list", "tuple", "array+scalar", "scalar+array", "list+scalar", "array+list"], tag, "rf", i),
         "narrow": _hpick([None, None, None, None, "int16", "int32", "int8"], tag, "nw", i)}
    if c["as"] == "int":
        c["amp"] = 2
    if nt == 1 and _hu(tag, "sc", i) < 0.5:
        c["tt_as"] = "scalar"
    if _hu(tag, "opt", i) < 0.6:
        c["trim"], c["start"] = _hpick([(True, False), (False, True), (True, True), (False, False)], tag, "ts", i)
        kind = _hpick(["zero", "whole", "frac", "frac"], tag, "stt", i)
        c["r"] = {"zero": 0.0, "whole": float(_hint(1, max(1, min(n - 1, 3000)), tag, "r", i)),
                  "frac": round(_hint(1, max(1, min(n - 1, 3000)), tag, "r", i) - 1 + 0.05 + 0.9 * _hu(tag, "rf", i), 4)}[kind]
    return c


def _mid_enum(tier, shard, nshards):
    if tier == "quick":
        sizes = sorted(set(gen.size_ladder(413, 300000, 14, "c19:n")) | {int(300000 * (1 + 0.1 * _hu("top")))})
    else:
        sizes = sorted(set(gen.size_ladder(413, 2000000, 30, "c19:n:t", mined_limit=16)) | set(gen.ladder(413, 300000, 14, "c19:n"))
                       | {int(2000000 * (1 + 0.05 * _hu("top:t")))})
    cases = []
    for i, n in enumerate(sizes):
        nt = 1 + int(5 * _hu("mid", "nt", i))
        c = _mr_common("mid", i, n, nt)
        c["qmax"] = _hpick([40, 400, max(2, n // 2), 2 * n - 1], "mid", "qmax", i)
        c["long"] = _hu("mid", "long", i) < 0.4
        c["fns"] = ["acc", "e", "cum"]
        c["cost"] = nt * n * (3.0 if c["long"] else 1.5)
        cases.append(c)
    return _deal(cases, shard, nshards)


@enum_clause(CLAUSES, "mid-range", _mid_enum,
             rule="records of 413 .. 3e5 samples (thorough 2e6; gen.size_ladder: one length per logarithmic bin placed by a hash of "
                  "VERIF_SEED, plus lengths around the integer literals of the source under test), noise x envelope + sine + offset, "
                  "1-5 travel times (zero / whole / fractional delays up to 40, 400, n/2 or 2n samples, sometimes 2n..3n), hash-chosen "
                  "reductions (default / scalar / array, float or integer, some above 1 or negative), nodal, trim/start/stt, containers",
             oracle="reference model over the WHOLE output: every row of get_time_shift_motions and calc_surface_energy against the "
                    "definition in double precision (3x the derived eps bounds) and in long double; calc_cum_abs_surface_energy "
                    "non-decreasing and equal to the running sum of |dE|; rows against the single-travel-time call",
             exhaustive_note="the laddered record lengths", quick_shards=4)
def mid_range(c, ctx):
    _mr_check(c, ctx, sample=5)


def _prod_enum(tier, shard, nshards):
    quick = tier == "quick"
    top = 1.5e7 if quick else 3e7   # 3e7 elements: ~1.5 GB of library temporaries per case, 16 shards run side by side
    pairs = list(gen.product_pairs(1e5, top, 12 if quick else 26, (6, 5000), (413, 300000 if quick else 1000000), "c19:prod"))
    # every octave of the number of rows on its own (cheap records), so that a window on len(travel_times) alone is entered
    for j, nt in enumerate(gen.size_ladder(6, 5000, 12 if quick else 28, "c19:nt")):
        pairs.append((int(nt), _hint(413, 3000, "prod", "n", j)))
    cases = []
    for i, (nt, n) in enumerate(pairs):
        c = _mr_common("prod", i, n, nt)
        # the product that matters is rows x (samples + largest delay): keep the delays short for the big ones
        c["qmax"] = _hpick([40, 400, 400, max(2, min(n // 2, 4000))], "prod", "qmax", i)
        c["long"] = nt * n < 1e6 and _hu("prod", "long", i) < 0.3
        prod = nt * (n + c["qmax"]) * (3 if c["long"] else 1)
        if prod > 4e6:
            c["fns"] = [_hpick(["e", "e", "acc", "cum"], "prod", "fn", i)]
        else:
            c["fns"] = ["acc", "e", "cum"]
        c["cost"] = prod * len(c["fns"])
        cases.append(c)
    return _deal(cases, shard, nshards)


@enum_clause(CLAUSES, "mid-range-products", _prod_enum,
             rule="batches of 6 .. 5000 travel times on records of 413 .. 3e5 samples: products rows x samples laddered over 1e5 .. 1.5e7 "
                  "(thorough 3e7) with a hash-chosen split (gen.product_pairs; mined literals aimed at), plus a ladder of the number "
                  "of rows alone on short records; options as in mid-range; above 4e6 elements one function per case",
             oracle="as mid-range: EVERY row against the double-precision definition; rows {first, last, -1|0|+1 mod 2^k for k=5..12, "
                    "hash-chosen others} also against the long-double reference and the single-travel-time call",
             exhaustive_note="the laddered (rows, samples) pairs", quick_shards=4)
def mid_range_products(c, ctx):
    _mr_check(c, ctx, sample=28)


def _opt_enum(tier, shard, nshards):
    cases = []
    i = 0
    reps = 1 if tier == "quick" else 3
    for rep in range(reps):
        for nodal, trim, start in itertools.product([True, False], repeat=3):
            for sttk in ("zero", "whole", "frac"):
                for red in ("default", "scalar", "array", "int"):
                    n = _hint(500, 20000 if rep == 0 else 120000, "opt", "n", i)
                    nt = _hint(1, 40, "opt", "nt", i)
                    c = _mr_common("opt", i, n, nt)
                    c.update(nodal=nodal, trim=trim, start=start, red=red if red != "int" else _hpick(["scalar", "array"], "opt", "ri2", i),
                             red_int=red == "int", red_equal=_hu("opt", "req", i) < 0.3)
                    c["r"] = {"zero": 0.0, "whole": float(_hint(1, n - 1, "opt", "r", i)),
                              "frac": round(_hint(1, n - 1, "opt", "r", i) - 1 + 0.05 + 0.9 * _hu("opt", "rf", i), 4)}[sttk]
                    c["qmax"] = _hpick([40, 400, max(2, n // 2), 2 * n - 1], "opt", "qmax", i)
                    c["long"] = _hu("opt", "long", i) < 0.3
                    c["fns"] = ["acc", "e", "cum"]
                    c["history"] = _hpick(["none", "reset-same-length", "reset-other-length"], "opt", "hist", i)
                    c["cost"] = nt * n * (3.0 if c["long"] else 1.5)
                    cases.append(c)
                    i += 1
    return _deal(cases, shard, nshards)


@enum_clause(CLAUSES, "mid-range-options", _opt_enum,
             rule="cross product nodal x trim x start x stt in {0, whole, fractional}*dt x reductions in {default, scalar, array, integer "
                  "typed} (96 combinations; thorough 3x with other sizes) on records of 500 .. 20000 (thorough 120000) samples with "
                  "1 .. 40 travel times; two thirds of the cases continue as a history: the same AccSignal object is given another "
                  "record (same / other length) by reset_values and everything is evaluated again",
             oracle="as mid-range for all three functions; after reset_values the results must be those of the new record (reference "
                    "model again, not a comparison with a fresh object only)",
             exhaustive_note="the 96 option combinations", quick_shards=4)
def mid_range_options(c, ctx):
    case, su = _mr_check(c, ctx, sample=8)
    ctx.cls("history=" + c["history"])
    if c["history"] != "none":
        n2 = su.n if c["history"] == "reset-same-length" else max(413, int(su.n * (0.6 + 0.8 * _hu("n2", c["seed"]))))
        case2, su2 = _mr_setup(c, ctx, asig=su.asig, seed_xor=0x1234567, n=n2)
        _mr_check(dict(c, n=n2), ctx, su=su2, case=case2, sample=6)


# ---------------------------------------------------------------------------
# very large batches (a site-response sweep: hundreds of travel times on a long record)


def _huge_enum(tier, shard, nshards):
    items = [{"n": 20000, "nt": 900, "red": "scalar", "nodal": True, "seed": 3}]
    if tier != "quick":
        items += [{"n": 20000, "nt": 900, "red": "array", "nodal": False, "seed": 4},
                  {"n": 33000, "nt": 700, "red": "scalar", "nodal": False, "seed": 5},
                  {"n": 9000, "nt": 2100, "red": "array", "nodal": True, "seed": 6},
                  {"n": 20000, "nt": 900, "red": "default", "nodal": False, "seed": 7}]
    for i, it in enumerate(items):
        if i % nshards == shard:
            yield dict(it, dt=0.01, qmax=400, fns=["e"], tt_as="ndarray", seed=it["seed"] + 1000 * gen.run_seed())


@enum_clause(CLAUSES, "huge-batch", _huge_enum,
             rule="fixed long records (9000-33000 samples) with 700-2100 travel times (delays 0..400 samples, a third whole), "
                  "default / scalar / per-row reductions",
             oracle="every row against the double-precision definition; rows {first, last, -1|0|+1 mod 2^k, hash-chosen} against the "
                    "long-double reference and the single-travel-time call (2 tol_E)",
             exhaustive_note="the listed batches", quick_shards=1)
def huge_batch(c, ctx):
    _mr_check(c, ctx, sample=30)


# ---------------------------------------------------------------------------
# array shifting helpers


@st.composite
def _shift_cases(draw):
    spec = draw(gen.record_specs(min_n=1, max_n=40, small_max=24, kinds=["vals", "dyadic", "levels", "noise", "const"],
                                 allow_zero_runs=False, allow_int=True))
    n = len(gen.build(spec))
    ns = draw(st.integers(1, 5))
    sign = _pick(draw, ["any", "any", "any", "neg", "pos", "zero"])
    lo, hi = {"any": (-(n + 3), n + 3), "neg": (-(n + 3), -1), "pos": (1, n + 3), "zero": (0, 0)}[sign]
    case = {"vals": spec,
            "shifts": draw(st.lists(st.integers(lo, hi), min_size=ns, max_size=ns)),
            "shifts_as": draw(st.sampled_from(["list", "ndarray"])),
            "clip": _pick(draw, ["none", "start", "end", "both", "default", "None"]),
            "jshifts": draw(st.lists(st.integers(0, n + 3), min_size=1, max_size=5)),
            "jtype": _pick(draw, ["add", "sub", "sub", "default"]),
            "dt": draw(gen.dts(1e-3, 1.0)),
            "tr_as": _pick(draw, ["ndarray", "list", "tuple"]),
            "tr": draw(st.lists(st.one_of(st.integers(0, n + 3).map(float),
                                          st.floats(0.0, n + 3.0, allow_nan=False, allow_subnormal=False)),
                                min_size=1, max_size=4))}
    return case


def _ref_put(values, shifts, clip):
    """Columns are numbered relative to the original position of values[0]."""
    n = len(values)
    lo = min(0, min(shifts)) if clip in ("none", "end") else 0
    hi = n + max(0, max(shifts)) if clip in ("none", "start") else n
    out = np.zeros((len(shifts), hi - lo))
    for i, sh in enumerate(shifts):
        for c in range(lo, hi):
            j = c - sh
            if 0 <= j < n:
                out[i, c - lo] = values[j]
    return out


def _ref_join(values, shifts, sub):
    n = len(values)
    width = n + max(shifts)
    out = np.zeros((len(shifts), width))
    for i, sh in enumerate(shifts):
        for c in range(width):
            orig = values[c] if c < n else 0.0
            moved = values[c - sh] if 0 <= c - sh < n else 0.0
            out[i, c] = orig - moved if sub else orig + moved
    return out


@clause(CLAUSES, "shift-helpers", _shift_cases(), quick=500, thorough=2500,
        rule="values n 1..40 (float/int/list), 1-5 integer shifts in [-(n+3), n+3] (mixed / all negative / all positive / "
             "all zero), list or ndarray, clip in {none,start,end,both,None,omitted}; join shifts >= 0 with jtype add/sub/omitted; "
             "time shifts r*dt, r whole or fractional; non-trivial = non-zero values and a non-zero shift",
        oracle="reference model (double loop over rows and columns, column 0 = original position of values[0]); equality",
        require={"clip=none": 0.04, "clip=start": 0.04, "clip=end": 0.04, "clip=both": 0.04, "mixed-sign": 0.06,
                 "all-neg": 0.05, "all-pos": 0.05, "jtype=sub": 0.12, "shift>=n": 0.10, "times=list": 0.1, "times=tuple": 0.1},
        min_nontrivial=0.30)
def shift_helpers(case, ctx):
    spec = case["vals"]
    v0 = gen.build(spec)
    arg = gen.as_container(spec, v0)
    vals = np.array(arg, dtype=float)
    n = len(vals)
    shifts = [int(s) for s in case["shifts"]]
    clip = case["clip"]
    ctx.cls("clip=" + clip, gen.size_class(n), "shifts=" + case["shifts_as"], "kind=" + spec["k"])
    if spec.get("as"):
        ctx.cls("as=" + spec["as"])
    neg, pos = any(s < 0 for s in shifts), any(s > 0 for s in shifts)
    ctx.cls("mixed-sign" if neg and pos else ("all-neg" if all(s < 0 for s in shifts) else (
        "all-pos" if all(s > 0 for s in shifts) else ("all-zero" if not neg and not pos else "with-zero"))))
    if any(abs(s) >= n for s in shifts):
        ctx.cls("shift>=n")
    ctx.nt(bool(np.any(vals != 0)) and (neg or pos))
    sarg = np.array(shifts) if case["shifts_as"] == "ndarray" else list(shifts)
    if clip == "default":
        out = ctx.lib(ts.put_array_in_2d_array, arg, sarg)
        want = _ref_put(vals, shifts, "none")
    elif clip == "None":   # documented: "clip: str or none"
        out = ctx.lib(ts.put_array_in_2d_array, arg, sarg, clip=None)
        want = _ref_put(vals, shifts, "none")
    else:
        out = ctx.lib(ts.put_array_in_2d_array, arg, sarg, clip=clip)
        want = _ref_put(vals, shifts, clip)
    ctx.equal(out, want, "put_array_in_2d_array(n=%d, shifts=%r, clip=%r)" % (n, shifts, clip))
    # joining
    js = [int(s) for s in case["jshifts"]]
    jt = case["jtype"]
    ctx.cls("jtype=" + jt)
    jarg = np.array(js) if case["shifts_as"] == "ndarray" else list(js)
    if jt == "default":
        out = ctx.lib(ts.join_values_w_shifts, arg, jarg)
    else:
        out = ctx.lib(ts.join_values_w_shifts, arg, jarg, jtype=jt)
    ctx.check(out is not None, "join_values_w_shifts returned None")
    ctx.equal(out, _ref_join(vals, js, jt == "sub"), "join_values_w_shifts(n=%d, shifts=%r, jtype=%r)" % (n, js, jt))
    # joining by time shifts: a whole number of samples within one sample of t/dt (the statement does not say floor or round)
    dt = case["dt"]
    times = np.array([r * dt for r in case["tr"]])
    fl = [sorted(set(_floor_cands(t / dt)) | set(c for c in _near_ints(t / dt) if c >= 0)) for t in times]
    if any(len(_floor_cands(t / dt)) > 1 for t in times):
        ctx.amb()
        ctx.cls("ambiguous")
    sig = ctx.lib(eqsig.Signal if len(js) % 2 else eqsig.AccSignal, arg, dt)
    targ = {"ndarray": times, "list": [float(t) for t in times], "tuple": tuple(float(t) for t in times)}[case.get("tr_as", "ndarray")]
    ctx.cls("times=" + case.get("tr_as", "ndarray"))   # array_like time shifts (fixed finding C19-F1)
    if jt == "default":
        out = ctx.lib(ts.join_sig_w_time_shift, sig, targ)
    else:
        out = ctx.lib(ts.join_sig_w_time_shift, sig, targ, jtype=jt)
    ctx.check(out is not None, "join_sig_w_time_shift returned None")
    out = np.asarray(out)
    ok = False
    for combo in itertools.product(*fl):
        want = _ref_join(vals, list(combo), jt == "sub")
        if out.shape == want.shape and np.array_equal(out, want):
            ok = True
            break
    if not ok:
        want = _ref_join(vals, [int(math.floor(t / dt)) for t in times], jt == "sub")
        ctx.equal(out, want, "join_sig_w_time_shift(n=%d, t/dt=%r, jtype=%r) [no floor / ceil reading of the shifts fits]" % (
            n, [float(t / dt) for t in times], jt))


# ---------------------------------------------------------------------------
# the helpers at mid-range sizes: values of 47 .. 3e5 samples, 6 .. 5000 shift rows, products rows x width of 1e5 .. 1.5e7


def _gather_rows(vals, shifts, lo, width, r0, r1):
    """Rows r0..r1 of the shifted-copies matrix by index arithmetic (a gather: out[i, c] = vals[lo + c - shift_i] where that
    index exists, else 0) - the library scatters slices instead."""
    n = len(vals)
    J = (np.arange(lo, lo + width, dtype=np.int64)[None, :] - np.asarray(shifts[r0:r1], dtype=np.int64)[:, None])
    ok = (J >= 0) & (J < n)
    return np.where(ok, vals[np.clip(J, 0, n - 1)], 0.0)


def _validate_gather():
    v = np.array([3.0, -1.0, 4.0, 1.5])
    for shifts, clip in (([2, -1, 0], "none"), ([-3, -1], "end"), ([5, 1, 0], "start"), ([-2, 6], "both"), ([0], "none")):
        want = _ref_put(v, shifts, clip)
        lo = min(0, min(shifts)) if clip in ("none", "end") else 0
        if not np.array_equal(_gather_rows(v, shifts, lo, want.shape[1], 0, len(shifts)), want):
            raise HarnessError("C19: gather reference of the shift helpers disagrees with the loop reference")


def _helper_enum(tier, shard, nshards):
    quick = tier == "quick"
    pairs = list(gen.product_pairs(1e5, 1.5e7 if quick else 3e7, 10 if quick else 22, (1, 5000), (47, 300000 if quick else 2000000), "c19:hp"))
    for j, nr in enumerate(gen.size_ladder(6, 5000, 8 if quick else 20, "c19:hr")):
        pairs.append((int(nr), _hint(47, 2000, "hp", "n", j)))
    for j, n in enumerate(gen.size_ladder(47, 300000 if quick else 2000000, 10 if quick else 24, "c19:hn")):
        pairs.append((1 + int(5 * _hu("hp", "nr", j)), int(n)))
    cases = []
    for i, (nr, n) in enumerate(pairs):
        fn = _hpick(["put", "put", "join", "joinsig"], "hp", "fn", i)
        reach = _hpick([3, 400, max(1, n // 3), n + 3, 2 * n], "hp", "reach", i)
        if nr * (n + 2 * reach) > (2.2e7 if quick else 4.5e7):
            reach = min(reach, 400)
        cases.append({"n": int(n), "nr": int(nr), "seed": _sd("hp", i), "fn": fn, "reach": int(reach),
                      "sign": _hpick(["any", "any", "neg", "pos"], "hp", "sign", i),
                      "clip": _hpick(["none", "start", "end", "both", "default", "None"], "hp", "clip", i),
                      "jtype": _hpick(["add", "sub", "default"], "hp", "jt", i),
                      "as": _hpick(["ndarray", "ndarray", "list", "int"], "hp", "as", i),
                      "shifts_as": _hpick(["ndarray", "list"], "hp", "sas", i),
                      "dtk": _hpick([0, 3, 7, 10], "hp", "dtk", i), "half": _hu("hp", "half", i) < 0.4,
                      "cost": float(nr) * (n + reach)})
    return _deal(cases, shard, nshards)


@enum_clause(CLAUSES, "mid-range-helpers", _helper_enum,
             rule="values of 47 .. 3e5 samples (thorough 2e6; distinct noise + offset; ndarray / list / integer array), 1 .. 5000 shift rows, "
                  "products rows x width laddered over 1e5 .. 1.5e7 (thorough 3e7), shifts up to 3 / 400 / n/3 / n+3 / 2n of any sign "
                  "(put) or >= 0 (join), clip in {none,start,end,both,None,omitted}, jtype add/sub/omitted, time shifts r*dt and "
                  "(r+1/2)*dt with dt = 2^-k",
             oracle="reference model over the WHOLE output: gather by index arithmetic (validated against the double loop at import), "
                    "equality; time shifts: floor or ceil of t/dt per row",
             exhaustive_note="the laddered (rows, samples) pairs", quick_shards=4)
def mid_range_helpers(c, ctx):
    n, nr = int(c["n"]), int(c["nr"])
    rs = np.random.RandomState(int(c["seed"]))
    vals = rs.standard_normal(n) * (0.6 + 0.8 * np.arange(n) / n) + 0.11
    if c["as"] == "int":
        vals = np.round(vals * 100.0)
        vals[vals == 0] = 7.0
        arg = vals.astype(np.int64)
    elif c["as"] == "list":
        arg = [float(v) for v in vals]
    else:
        arg = vals.copy()
    reach = int(c["reach"])
    fn = c["fn"]
    ctx.cls("fn=" + fn, "as=" + c["as"], "rows<=5" if nr <= 5 else ("rows<=64" if nr <= 64 else ("rows<=700" if nr <= 700 else "rows>700")),
            gen.size_class(n), "reach>=n" if reach >= n else None)
    ctx.nt(True)
    if fn == "put":
        lo_s, hi_s = {"any": (-reach, reach), "neg": (-reach, -1), "pos": (1, reach)}[c["sign"]]
        shifts = rs.randint(lo_s, hi_s + 1, nr)
        clip = c["clip"]
        ctx.cls("clip=" + clip, "sign=" + c["sign"])
        sarg = shifts.copy() if c["shifts_as"] == "ndarray" else [int(x) for x in shifts]
        if clip == "default":
            out = ctx.lib(ts.put_array_in_2d_array, arg, sarg)
        else:
            out = ctx.lib(ts.put_array_in_2d_array, arg, sarg, clip=None if clip == "None" else clip)
        eff = "none" if clip in ("default", "None") else clip
        lo = min(0, int(shifts.min())) if eff in ("none", "end") else 0
        hi = n + max(0, int(shifts.max())) if eff in ("none", "start") else n
        out = np.asarray(out)
        ctx.shape(out, (nr, hi - lo), "put_array_in_2d_array(n=%d, %d shifts in [%d, %d], clip=%r)" % (n, nr, shifts.min(), shifts.max(), clip))
        _compare_gather(ctx, out, vals, shifts, lo, None, "put_array_in_2d_array(n=%d, %d rows, clip=%r)" % (n, nr, clip))
        return
    jt = c["jtype"]
    ctx.cls("jtype=" + jt)
    kw = {} if jt == "default" else {"jtype": jt}
    sign = -1.0 if jt == "sub" else 1.0
    if fn == "join":
        shifts = rs.randint(0, reach + 1, nr)
        sarg = shifts.copy() if c["shifts_as"] == "ndarray" else [int(x) for x in shifts]
        out = np.asarray(ctx.lib(ts.join_values_w_shifts, arg, sarg, **kw))
        ctx.shape(out, (nr, n + int(shifts.max())), "join_values_w_shifts(n=%d, %d shifts, jtype=%r)" % (n, nr, jt))
        _compare_gather(ctx, out, vals, shifts, 0, sign, "join_values_w_shifts(n=%d, %d rows, jtype=%r)" % (n, nr, jt))
        return
    # join_sig_w_time_shift: dt = 2^-k, so t/dt is exactly r or r + 1/2
    dt = 2.0 ** -int(c["dtk"])
    r = rs.randint(0, reach + 1, nr).astype(float)
    if c["half"]:
        r = r + np.where(rs.rand(nr) < 0.5, 0.5, 0.0)
    times = r * dt
    sig = ctx.lib(eqsig.AccSignal if nr % 2 else eqsig.Signal, arg, dt)
    targ = [times, [float(t) for t in times], tuple(float(t) for t in times)][(n + nr) % 3]
    out = np.asarray(ctx.lib(ts.join_sig_w_time_shift, sig, targ, **kw))
    lo_c, hi_c = np.floor(r).astype(np.int64), np.ceil(r).astype(np.int64)
    ctx.check(out.ndim == 2 and out.shape[0] == nr and n + int(lo_c.max()) <= out.shape[1] <= n + int(hi_c.max()),
              "join_sig_w_time_shift(n=%d, %d time shifts): shape %s, expected (%d, %d..%d)" % (
                  n, nr, out.shape, nr, n + int(lo_c.max()), n + int(hi_c.max())))
    width = out.shape[1]
    # rows whose shift is whole have one reading; for the others floor and ceil are both tried (row by row)
    a = _gather_full(vals, lo_c, width, sign)
    bad = np.nonzero(np.any(out != a, axis=1))[0]
    if len(bad):
        b = _gather_full(vals, hi_c, width, sign, rows=bad)
        still = bad[np.any(out[bad] != b, axis=1)]
        if len(still):
            i = int(still[0])
            j = int(np.nonzero(out[i] != a[i])[0][0])
            ctx.fail("join_sig_w_time_shift(n=%d, %d rows, jtype=%r): row %d (t/dt=%r) column %d is %r, expected %r [neither floor nor "
                     "ceil of t/dt fits]" % (n, nr, jt, i, float(r[i]), j, out[i, j], a[i, j]))


def _gather_full(vals, shifts, width, sign, rows=None):
    n = len(vals)
    idx = np.arange(len(shifts)) if rows is None else np.asarray(rows)
    out = np.empty((len(idx), width))
    orig = np.zeros(width)
    orig[:n] = vals
    step = max(1, int(2e6 // max(1, width)))
    for r0 in range(0, len(idx), step):
        sub = idx[r0:r0 + step]
        out[r0:r0 + len(sub)] = orig[None, :] + sign * _gather_rows(vals, np.asarray(shifts)[sub], 0, width, 0, len(sub))
    return out


def _compare_gather(ctx, out, vals, shifts, lo, sign, what):
    """out == gather reference (plus the zero-padded original when sign is given), in chunks of rows."""
    nr, width = out.shape
    n = len(vals)
    orig = None
    if sign is not None:
        orig = np.zeros(width)
        orig[:n] = vals
    step = max(1, int(2e6 // max(1, width)))
    for r0 in range(0, nr, step):
        r1 = min(nr, r0 + step)
        want = _gather_rows(vals, shifts, lo, width, r0, r1)
        if orig is not None:
            want = orig[None, :] + sign * want
        got = out[r0:r1]
        if not np.array_equal(got, want):
            bad = np.argwhere(got != want)
            i, j = int(bad[0][0]), int(bad[0][1])
            ctx.fail("%s: row %d (shift %d) column %d is %r, expected %r (%d of %d entries of rows %d..%d differ)" % (
                what, r0 + i, int(shifts[r0 + i]), j, got[i, j], want[i, j], len(bad), got.size, r0, r1 - 1))


_validate_gather()
