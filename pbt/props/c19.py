"""C19 - surface energy of an upward wave and its delayed reflection; array time-shift helpers."""
import itertools
import math

import numpy as np
from hypothesis import strategies as st

import eqsig
from eqsig import surface
from eqsig.fns import time_shift as ts

from pbt import gen
from pbt.core import clause, enum_clause, HarnessError, TINY
from pbt.ref import surface as ref

PROPERTY = "C19"
CLAUSES = []
ASSUMPTIONS = [
    "records: 3 <= n <= 412 samples (float ndarray, integer ndarray or list), |a| <= 1e9; dt in [1e-4, 1] or 2^-10..1; "
    "1-5 travel times, 0 <= tt < n*dt (shorter than the record, DESIGN section 5), as scalar / list / tuple / ndarray",
    "the delay in samples is s = 2*tt/dt evaluated in double precision (scaling by 2 is exact, so this is the correctly "
    "rounded quotient whatever the order of operations); s whole -> pure sample shift, otherwise linear interpolation",
    "'linearly interpolated' is read as in DESIGN: the interpolant of the recorded samples, zero wherever k - s falls "
    "outside [0, n-1] (not the interpolant of the zero-padded record)",
    "margin filter: a non-whole s within 1e-9 of a whole number m (e.g. tt=0.3, dt=0.1 -> 5.999999999999999) is "
    "'ambiguous': the answer is only bracketed by {shift m, shift m without the first reflected sample, shift m without "
    "the last reflected sample} and the floors used by the length / start options by floor(x -/+ 1e-9)",
    "reduction factors: both python scalars or both float ndarrays of one factor per travel time, values in [0, 1] "
    "(lists and mixed scalar/array are not accepted by the code: `up_red[:, np.newaxis]`)",
    "start option: 0 <= stt < n*dt so that floor(stt/dt) - floor(tt_i/dt) < n (a start shift longer than the record "
    "makes the slice assignment in trim_to_length fail; outside any caller's use, DESIGN C19.2)",
    "a travel-time sequence of length 1 may come back 1-D (as the code does) or as one row; a scalar comes back 1-D",
    "rounding bounds: acceleration eps*(4|up| + (8+k+s)*(|a_lo|+|a_hi|)*down_red) (interpolation at a position k-s rounded "
    "in double); velocity eps*(2k+s+16)*dt*sum_{j<=k}(|up_j|+|down_j|); energy tol_v*(|v|+tol_v)+4 eps|E|; everything "
    "else is asserted with equality (dyadic records with dyadic dt, delays, reductions; 2^k scaling; helper outputs)",
    "join_values_w_shifts / join_sig_w_time_shift: shifts >= 0 (np.pad), time shifts as ndarray; put_array_in_2d_array: "
    "integer shifts of any sign with |shift| <= n+3, list or ndarray",
]
EPS = np.finfo(float).eps
LD = np.longdouble
AMB = 1e-9

_msg = ref.validate()
if _msg:
    raise HarnessError("C19 reference failed its self-validation: " + _msg)


# ---------------------------------------------------------------------------
# generators


_DY_RED = [1.0, 0.5, 0.75, 0.25, 0.0]


def _reds(exact):
    if exact:
        return st.sampled_from(_DY_RED)
    return st.one_of(st.sampled_from([1.0, 0.5, 0.9, 0.0, 0.75]),
                     st.floats(0.0, 1.0, allow_nan=False, allow_subnormal=False))


def _pick(draw, seq):
    """Near-uniform categorical choice (Hypothesis' own sampled_from / booleans favour the first element, which starves
    some option combinations); shrinks towards seq[0]."""
    return seq[draw(st.integers(0, 2 ** 16 - 1)) % len(seq)]


@st.composite
def _delay(draw, n, exact=False):
    """Delay q in samples (tt = q*dt/2): zero, whole (odd -> tt an odd multiple of dt/2), fractional."""
    top = 2 * n - 1
    kinds = ["zero", "int", "int", "dyfrac"] if exact else (
        ["zero"] * 2 + ["int"] * 4 + ["frac"] * 6 + ["dyfrac"] * 2 + ["edge", "near"])
    kind = draw(st.sampled_from(kinds))
    if kind == "zero":
        return 0.0
    small = draw(st.booleans())  # overlapping waves are the interesting half
    if kind == "int":
        return float(draw(st.integers(1, min(top, 12) if small else top)))
    if kind == "near":  # a whole number of samples up to rounding: exercises the bracket of the margin filter
        m = float(draw(st.integers(1, min(top, 12) if small else top)))
        return float(np.nextafter(m, m + 1.0 if draw(st.booleans()) else 0.0))
    m = draw(st.integers(0, min(top - 1, 12) if small else top - 1))
    if kind == "frac":
        return m + draw(st.floats(1e-3, 0.999, allow_nan=False))
    if kind == "dyfrac":
        return m + draw(st.sampled_from([0.5, 0.25, 0.75, 0.125]))
    e = draw(st.integers(3, 8))
    return m + (10.0 ** -e if draw(st.booleans()) else 1.0 - 10.0 ** -e)


@st.composite
def _cases(draw, options=False, laws=False):
    spec = draw(gen.record_specs(min_n=3, max_n=400, allow_int=True))
    n = len(gen.build(spec))
    exact = spec["k"] == "dyadic" and draw(st.integers(0, 3)) != 0
    dt = draw(st.integers(-10, 0).map(lambda k: 2.0 ** k)) if exact else draw(gen.dts(1e-4, 1.0))
    nt = draw(st.integers(1, 5))
    case = {"rec": spec, "dt": dt, "exact": exact,
            "q": [draw(_delay(n, exact)) for _ in range(nt)],
            "tt_as": draw(st.sampled_from(["scalar", "list", "ndarray", "tuple"] if nt == 1 else ["list", "ndarray", "tuple"])),
            "nodal": _pick(draw, [True, False])}
    mode = _pick(draw, ["default", "scalar", "array", "array", "array", "array"])
    case["red"] = mode
    if mode == "scalar":
        case["up"] = draw(_reds(exact))
        case["down"] = case["up"] if draw(st.integers(0, 2)) == 0 else draw(_reds(exact))
    elif mode == "array":
        case["up"] = [draw(_reds(exact)) for _ in range(nt)]
        case["down"] = list(case["up"]) if draw(st.integers(0, 2)) == 0 else [draw(_reds(exact)) for _ in range(nt)]
    if laws:
        case["nodal"], case["trim"], case["start"] = _pick(draw, list(itertools.product([True, False], repeat=3)))
    if options or laws:
        case["r"] = draw(st.one_of(st.just(0.0), st.integers(0, n - 1).map(float),
                                   st.floats(0.0, float(n - 1), allow_nan=False, allow_subnormal=False),
                                   st.integers(0, min(n - 1, 12)).map(lambda i: i + 0.5)))
    if laws:
        case["alpha"] = draw(st.one_of(st.integers(-6, 6).filter(lambda k: k != 0).map(lambda k: {"k2": k}),
                                       gen.log_uniform(1e-2, 1e2).map(lambda x: {"x": x})))
    return case


# ---------------------------------------------------------------------------
# shared pieces of the oracle


class _Row(object):
    """One travel time: the delay in samples and the candidate readings of it."""

    def __init__(self, tt, dt):
        self.tt = tt
        self.s = 2.0 * tt / dt
        r = round(self.s)
        if self.s == r:
            self.kind = "int"
            self.variants = [(int(r), 0.0, None)]
        elif abs(self.s - r) < AMB:
            self.kind = "amb"
            self.variants = [(int(r), 0.0, None), (int(r), 0.0, "first"), (int(r), 0.0, "last")]
        else:
            self.kind = "frac"
            m, f = ref.split_delay(self.s)
            self.variants = [(m, f, None)]
        self.half_floor = _floor_cands(self.s / 2.0)  # floor(tt/dt); halving is exact


def _floor_cands(x):
    """floor(x) for x >= 0; both neighbours when a non-whole x lies within AMB of a whole number."""
    r = round(x)
    if x == r:
        return [int(r)]
    return sorted({max(0, int(math.floor(x - AMB))), max(0, int(math.floor(x + AMB)))})


class _Setup(object):
    def __init__(self, case, ctx):
        spec = case["rec"]
        a0 = gen.build(spec)
        self.arg = gen.as_container(spec, a0)
        self.a = np.array(self.arg, dtype=float)  # what the library sees
        self.n = len(self.a)
        self.dt = case["dt"]
        self.tts = [q * self.dt / 2.0 for q in case["q"]]
        self.rows = [_Row(tt, self.dt) for tt in self.tts]
        self.nt = len(self.tts)
        self.nodal = case["nodal"]
        mode = case["red"]
        if mode == "array":
            self.ur = [float(x) for x in case["up"]]
            self.dr = [float(x) for x in case["down"]]
        elif mode == "scalar":
            self.ur = [float(case["up"])] * self.nt
            self.dr = [float(case["down"])] * self.nt
        else:
            self.ur = [1.0] * self.nt
            self.dr = [1.0] * self.nt
        self.mode = mode
        self.stt = float(case.get("r", 0.0)) * self.dt
        self.stt_floor = _floor_cands(self.stt / self.dt)
        self.asig = ctx.lib(eqsig.AccSignal, self.arg, self.dt)
        # the result depends on the record, not on what was computed on the signal object before: a third of the cases read
        # the velocity first, another third switch the object's own velocity series to the rectangle rule first
        pre = (len(self.arg) + int(round(1e6 * self.dt)) + len(self.tts)) % 3
        if pre == 1:
            _ = self.asig.velocity
            ctx.cls("pre=velocity-read")
        elif pre == 2 and np.asarray(self.asig.values).dtype.kind == "f":
            self.asig.generate_displacement_and_velocity_series(trap=False)
            ctx.cls("pre=rectangle-rule-velocity")
        # classification
        ctx.cls("kind=" + spec["k"], gen.size_class(self.n), "red=" + mode, "nodal" if self.nodal else "antinodal",
                "tt=" + case["tt_as"], "nt=%d" % self.nt if self.nt < 3 else "nt>=3")
        for r in self.rows:
            ctx.cls("delay=" + ("zero" if r.s == 0 else r.kind))
            if r.kind == "int" and r.s % 2 == 1:
                ctx.cls("delay=odd")
            if r.s > self.n:
                ctx.cls("delay>n")
        if spec.get("as"):
            ctx.cls("as=" + spec["as"])
        if case.get("exact"):
            ctx.cls("exact-dyadic")
        if "r" in case:
            x = self.stt / self.dt
            ctx.cls("stt=0" if x == 0 else ("stt=whole" if x == round(x) else (
                "stt=near-whole" if len(self.stt_floor) > 1 else "stt=frac")))
        self.has_options = "r" in case
        self.set_options(ctx, bool(case.get("trim", False)), bool(case.get("start", False)), label="trim" in case or "r" not in case)

    def set_options(self, ctx, trim, start, label=True):
        self.trim = trim
        self.start = start
        self.ambiguous = any(r.kind == "amb" for r in self.rows)
        if start and (len(self.stt_floor) > 1 or any(len(r.half_floor) > 1 for r in self.rows)):
            self.ambiguous = True
        if not label:
            return
        if self.has_options:
            ctx.cls("opt=%s%s%s" % ("N" if self.nodal else "A", "T" if trim else "t", "S" if start else "s"))
        if self.ambiguous:
            ctx.cls("ambiguous")
            ctx.amb()

    def tt_arg(self, case, tts=None):
        tts = self.tts if tts is None else tts
        how = case["tt_as"]
        if how == "scalar" and len(tts) == 1:
            return tts[0]
        if how == "ndarray":
            return np.array(tts)
        if how == "tuple":
            return tuple(tts)
        return list(tts)

    def red_kwargs(self, ur=None, dr=None):
        ur = self.ur if ur is None else ur
        dr = self.dr if dr is None else dr
        if self.mode == "array":
            return {"up_red": np.array(ur, dtype=float), "down_red": np.array(dr, dtype=float)}
        if self.mode == "scalar":
            return {"up_red": ur[0], "down_red": dr[0]}
        return {}

    def opt_kwargs(self, case=None):
        kw = {"nodal": self.nodal}
        if self.has_options:
            kw.update(stt=self.stt, trim=self.trim, start=self.start)
        return kw

    # -- reference -----------------------------------------------------------
    def series(self, i, variant, K, exact=False):
        """Reference acceleration and energy of row i on K samples with their rounding bounds."""
        m, f, drop = variant
        dt = self.dt
        acc = ref.accel(self.a, K, m, f, self.ur[i], self.dr[i], self.nodal, drop)
        v = ref.velocity(acc, dt)
        e = ref.energy(v)
        U, D = ref.accel_magnitude(self.a, K, m, f, self.ur[i], self.dr[i])
        if self.rows[i].kind == "amb":  # the code interpolates with a weight ~ulp(m) on a neighbouring sample
            D = D + abs(self.dr[i]) * (ref.delayed_magnitude(self.a, K, m + 1, 0.0) +
                                       (ref.delayed_magnitude(self.a, K, m - 1, 0.0) if m >= 1 else 0.0))
        k = np.arange(K, dtype=float)
        s = m + f
        if exact:
            tol_acc = np.zeros(K)
        else:
            tol_acc = EPS * (4 * U + (8 + k + s) * D)
        tol_v = EPS * (2 * k + s + 16) * dt * np.cumsum(U + D)
        av = np.abs(np.asarray(v, dtype=float))
        tol_e = tol_v * (av + tol_v) + 4 * EPS * np.abs(np.asarray(e, dtype=float))
        return {"acc": (acc, tol_acc), "e": (e, tol_e)}

    def row_scale_tol(self, i, e_row):
        """One scalar bound for the energy of row i (used by the metamorphic laws): the bound of `series` at the last sample."""
        m, f, _ = self.rows[i].variants[0]
        K = self.n + m + 2
        U, D = ref.accel_magnitude(self.a, K, m, f, self.ur[i], self.dr[i])
        if self.rows[i].kind == "amb":
            D = D + abs(self.dr[i]) * (ref.delayed_magnitude(self.a, K, m + 1, 0.0) +
                                       (ref.delayed_magnitude(self.a, K, m - 1, 0.0) if m >= 1 else 0.0))
        L = max(K, len(e_row))
        tol_v = EPS * (2 * L + m + f + 16) * self.dt * float(np.sum(U + D))
        emax = float(np.max(np.abs(e_row))) if len(e_row) else 0.0
        return tol_v * (math.sqrt(2 * emax) + 2 * tol_v) + 8 * EPS * emax

    def length_cands(self):
        n = self.n
        if self.trim:
            return {n}
        if not self.start:
            return {n + c for c in _floor_cands(max(r.s for r in self.rows))}
        out = set()
        for fs in self.stt_floor:
            for combo in itertools.product(*[r.half_floor for r in self.rows]):
                out.add(n + max(0, max(fs - ft for ft in combo)))
        return out

    def shift_cands(self, i):
        if not self.start:
            return [0]
        return sorted({fs - ft for fs in self.stt_floor for ft in self.rows[i].half_floor})


def _as_rows(ctx, su, out, what, scalar_arg):
    out = np.asarray(out)
    if su.nt == 1:
        if scalar_arg:
            ctx.check(out.ndim == 1, "%s: scalar travel time returned shape %s, expected 1-D" % (what, out.shape))
        ctx.check(out.ndim == 1 or (out.ndim == 2 and out.shape[0] == 1),
                  "%s: one travel time returned shape %s" % (what, out.shape))
        return np.atleast_2d(out)
    ctx.check(out.ndim == 2 and out.shape[0] == su.nt, "%s: shape %s, expected %d rows" % (what, out.shape, su.nt))
    return out


def _shifted(x, shift, length):
    """x[k - shift] for k in range(length), zero where k - shift is outside the series."""
    out = np.zeros(length, dtype=x.dtype)
    lo = max(0, shift)
    hi = min(length, len(x) + shift)
    if hi > lo:
        out[lo:hi] = x[lo - shift:hi - shift]
    return out


def _check_output(ctx, su, out, which, what, exact=False):
    """`out` (rows) must have one of the candidate lengths and every row must equal a candidate reading of the
    reference, moved by a candidate start shift (one candidate each unless the case is ambiguous)."""
    length = out.shape[1]
    cands = su.length_cands()
    ctx.check(length in cands, "%s: series length %d, expected %s (n=%d, trim=%s start=%s stt/dt=%r delays=%r)" % (
        what, length, sorted(cands), su.n, su.trim, su.start, su.stt / su.dt, [r.s for r in su.rows]))
    ctx.finite(out, what)
    for i, row in enumerate(su.rows):
        got = out[i].astype(LD)
        cands = [(variant, sh) for variant in row.variants for sh in su.shift_cands(i)]
        best = None
        for variant, sh in cands:
            K = max(2, length - min(sh, 0))
            x, tol = su.series(i, variant, K, exact=exact)[which]
            want = _shifted(x, sh, length)
            wtol = _shifted(tol, sh, length)
            over = np.abs(got - want) - (wtol + TINY)
            j = int(np.argmax(over))
            if not over[j] > 0:
                best = None
                break  # this reading is matched
            if best is None or over[j] < best[0]:
                best = (float(over[j]), j, float(got[j]), float(want[j]), float(wtol[j]))
        if best is not None:
            _, j, g, w, t = best
            ctx.fail("%s row %d (delay %r samples, up_red=%r down_red=%r, %s, trim=%s start=%s stt/dt=%r): sample %d is %r, "
                     "expected %r (tol %.3g)%s" % (
                         what, i, row.s, su.ur[i], su.dr[i], "nodal" if su.nodal else "anti-nodal", su.trim, su.start,
                         su.stt / su.dt, j, g, w, t,
                         " [closest of %d bracket candidates]" % len(cands) if len(cands) > 1 else ""))


def _nontrivial(su):
    return bool(np.any(su.a != 0)) and any(r.kind == "frac" for r in su.rows)


_OPTS = ["opt=%s%s%s" % (a, b, c) for a in "NA" for b in "Tt" for c in "Ss"]


# ---------------------------------------------------------------------------
# clauses


@clause(CLAUSES, "definition", _cases(), quick=400, thorough=2000,
        rule="records of all kinds (n 3..412, float/int/list), dt log-uniform/repo rates/dyadic, 1-5 travel times as "
             "scalar/list/tuple/ndarray with delay 2tt/dt in {0, whole (odd and even), m+U(0,1), m+dyadic fraction, "
             "m+/-10^-3..-8, m+/-1ulp}, reductions default/scalar/ndarray, nodal in {T,F}; non-trivial = non-zero record and "
             ">= 1 fractional delay",
        oracle="reference model: long-double blend f*a[k-m-1]+(1-f)*a[k-m], up_red*a -/+ down_red*delayed, trapezoid, "
               "v|v|/2 for calc_surface_energy and get_time_shift_motions; equality of the acceleration on dyadic cases, "
               "otherwise the derived eps bounds; near-whole delays bracketed",
        require={"red=array": 0.30, "delay=frac": 0.30, "delay=int": 0.25, "delay=zero": 0.10, "antinodal": 0.25,
                 "nodal": 0.25, "delay=odd": 0.10, "delay=amb": 0.03},
        min_nontrivial=0.30)
def definition(case, ctx):
    su = _Setup(case, ctx)
    ctx.nt(_nontrivial(su))
    before = su.a.copy()
    tt = su.tt_arg(case)
    scalar = not hasattr(tt, "__len__")
    kw = dict(su.red_kwargs(), nodal=su.nodal)
    if su.nodal and case["red"] == "default":
        kw.pop("nodal")  # documented default: nodal=True
        ctx.cls("nodal-default")
    acc = _as_rows(ctx, su, ctx.lib(surface.get_time_shift_motions, su.asig, tt, **kw), "get_time_shift_motions", scalar)
    _check_output(ctx, su, acc, "acc", "get_time_shift_motions", exact=bool(case.get("exact")) and not su.ambiguous)
    e = _as_rows(ctx, su, ctx.lib(surface.calc_surface_energy, su.asig, tt, **kw), "calc_surface_energy", scalar)
    _check_output(ctx, su, e, "e", "calc_surface_energy")
    ctx.check(e.shape == acc.shape, "energy shape %s differs from motion shape %s" % (e.shape, acc.shape))
    ctx.equal(np.asarray(su.asig.values, dtype=float), before, "record changed by the call")


@clause(CLAUSES, "options", _cases(options=True), quick=300, thorough=1500,
        rule="same generator plus stt = r*dt with r in {0, whole, U(0,n-1), i+1/2}; every case is evaluated under all four "
             "(trim, start) combinations with its drawn nodal flag, so all eight option triples are exercised; "
             "non-trivial = non-zero record and >= 1 fractional delay",
        oracle="reference model: length n (trim), n+floor(max 2tt/dt) (neither), n+max(0,max_i(floor(stt/dt)-floor(tt_i/dt))) "
               "(start only); row i = reference series moved by floor(stt/dt)-floor(tt_i/dt) samples, zero-filled in front "
               "(start) - for calc_surface_energy, get_time_shift_motions; calc_cum_abs_surface_energy same shape; eps bounds",
        require=dict([(o, 0.25) for o in _OPTS] + [("red=array", 0.30), ("stt=frac", 0.10), ("stt=whole", 0.05),
                                                   ("delay=odd", 0.10), ("start-advance", 0.15), ("start-delay", 0.15)]),
        min_nontrivial=0.30)
def options(case, ctx):
    su = _Setup(case, ctx)
    ctx.nt(_nontrivial(su))
    tt = su.tt_arg(case)
    scalar = not hasattr(tt, "__len__")
    for trim, start in ((False, False), (True, False), (False, True), (True, True)):
        su.set_options(ctx, trim, start)
        kw = dict(su.red_kwargs(), **su.opt_kwargs())
        if start:
            ctx.cls("start-advance" if any(min(su.shift_cands(i)) < 0 for i in range(su.nt)) else None,
                    "start-delay" if any(max(su.shift_cands(i)) > 0 for i in range(su.nt)) else None)
        e = _as_rows(ctx, su, ctx.lib(surface.calc_surface_energy, su.asig, tt, **kw), "calc_surface_energy", scalar)
        _check_output(ctx, su, e, "e", "calc_surface_energy")
        acc = _as_rows(ctx, su, ctx.lib(surface.get_time_shift_motions, su.asig, tt, **kw), "get_time_shift_motions", scalar)
        _check_output(ctx, su, acc, "acc", "get_time_shift_motions")
        c = _as_rows(ctx, su, ctx.lib(surface.calc_cum_abs_surface_energy, su.asig, tt, **kw),
                     "calc_cum_abs_surface_energy", scalar)
        ctx.check(c.shape == e.shape, "cumulative series shape %s differs from energy shape %s (trim=%s start=%s)" % (
            c.shape, e.shape, trim, start))


@clause(CLAUSES, "laws", _cases(laws=True), quick=400, thorough=2000,
        rule="same generator with options and a scale factor alpha (2^k, k in -6..6, or log-uniform 1e-2..1e2); "
             "non-trivial = non-zero record and some row with a positive final cumulative energy",
        oracle="metamorphic / differential: cumulative series non-decreasing (exact) and equal to the running sum of |dE| "
               "(eps*(k+6)*sum); tt=0, nodal, equal reductions -> identically 0 (exact); E(alpha*a) = alpha^2 E(a) "
               "(exact for 2^k, 4 alpha^2 tol_E otherwise); batch row i = single call with (tt_i, up_i, down_i) on the "
               "common length (2 tol_E)",
        require=dict([(o, 0.02) for o in _OPTS] + [("red=array", 0.30), ("alpha=2^k", 0.25), ("alpha=real", 0.25),
                                                   ("nt>=3", 0.30)]),
        min_nontrivial=0.30)
def laws(case, ctx):
    su = _Setup(case, ctx)
    tt = su.tt_arg(case)
    scalar = not hasattr(tt, "__len__")
    kw = dict(su.red_kwargs(), **su.opt_kwargs(case))
    e = _as_rows(ctx, su, ctx.lib(surface.calc_surface_energy, su.asig, tt, **kw), "calc_surface_energy", scalar)
    c = _as_rows(ctx, su, ctx.lib(surface.calc_cum_abs_surface_energy, su.asig, tt, **kw),
                 "calc_cum_abs_surface_energy", scalar)
    ctx.check(c.shape == e.shape, "cumulative series shape %s differs from energy shape %s" % (c.shape, e.shape))
    ctx.finite(c, "cumulative absolute energy")
    ctx.nt(bool(np.any(su.a != 0)) and bool(np.any(c[:, -1] > 0)))
    length = e.shape[1]
    k = np.arange(1, length + 1, dtype=float)
    for i in range(su.nt):
        ci = c[i]
        ctx.check(ci[0] >= 0 and bool(np.all(ci[1:] >= ci[:-1])),
                  "cumulative absolute energy of row %d decreases (min step %r)" % (i, float(np.min(np.diff(ci), initial=0.0))))
        el = e[i].astype(LD)
        steps = np.abs(np.concatenate([[el[0]], el[1:] - el[:-1]]))  # change from the state of rest, E = 0
        cref = np.cumsum(steps)
        ctx.close(ci, cref, EPS * (k + 6) * np.asarray(cref, dtype=float), "row %d: cumulative series vs running sum of |dE|" % i)
    # zero travel time at a nodal surface with equal reductions: nothing happens
    zscalar = case["tt_as"] == "scalar"
    ztt = [0.0] if zscalar else [0.0] + su.tts
    zkw = dict(su.opt_kwargs(case), nodal=True)
    if su.mode == "array":
        zr = np.array(([su.ur[0]] + su.ur)[:len(ztt)], dtype=float)
        zkw.update(up_red=zr, down_red=zr.copy())
    elif su.mode == "scalar":
        zkw.update(up_red=su.ur[0], down_red=su.ur[0])
    zarg = 0.0 if zscalar else su.tt_arg(case, ztt)
    for fn in (surface.calc_surface_energy, surface.calc_cum_abs_surface_energy):
        z = np.asarray(ctx.lib(fn, su.asig, zarg, **zkw))
        z0 = z if z.ndim == 1 else z[0]
        ctx.check(len(z0) >= su.n, "%s: zero-travel-time row has %d < n samples" % (fn.__name__, len(z0)))
        ctx.check(not np.any(z0), "%s: zero travel time, nodal, equal reductions: row is not identically zero (max %r)" % (
            fn.__name__, float(np.max(np.abs(z0)))))
    tols = [su.row_scale_tol(i, e[i]) for i in range(su.nt)]
    # alpha^2 scaling
    al = case["alpha"]
    alpha = 2.0 ** al["k2"] if "k2" in al else float(al["x"])
    ctx.cls("alpha=2^k" if "k2" in al else "alpha=real")
    sig2 = ctx.lib(eqsig.AccSignal, su.a * alpha, su.dt)
    e2 = _as_rows(ctx, su, ctx.lib(surface.calc_surface_energy, sig2, tt, **kw), "calc_surface_energy", scalar)
    ctx.check(e2.shape == e.shape, "scaled record: shape %s vs %s" % (e2.shape, e.shape))
    if "k2" in al:
        ctx.close(e2, e * alpha ** 2, 0.0, "E(2^%d a) vs 4^%d E(a)" % (al["k2"], al["k2"]))
    else:
        for i in range(su.nt):
            ctx.close(e2[i], e[i] * alpha ** 2, 4 * alpha ** 2 * tols[i], "row %d: E(alpha a) vs alpha^2 E(a), alpha=%r" % (i, alpha))
    # each row of the batch equals the single-travel-time result
    for i in range(su.nt):
        skw = dict(su.opt_kwargs(case))
        if su.mode == "array":
            skw.update(up_red=np.array([su.ur[i]]), down_red=np.array([su.dr[i]]))
        elif su.mode == "scalar":
            skw.update(up_red=su.ur[i], down_red=su.dr[i])
        one = su.tts[i] if i % 2 == 0 else np.array([su.tts[i]])
        for fn, batch in ((surface.calc_surface_energy, e), (surface.calc_cum_abs_surface_energy, c)):
            s1 = np.asarray(ctx.lib(fn, su.asig, one, **skw))
            if s1.ndim == 2 and s1.shape[0] == 1:
                s1 = s1[0]
            ctx.check(s1.ndim == 1, "%s: single travel time returned shape %s" % (fn.__name__, s1.shape))
            m = min(len(s1), length)
            ctx.check(m >= su.n, "%s: single-travel-time series has %d < n samples" % (fn.__name__, m))
            bound = 2 * tols[i] if fn is surface.calc_surface_energy else 2 * tols[i] * (2 * length) + EPS * (length + 6) * float(batch[i][m - 1])
            ctx.close(batch[i][:m], s1[:m], bound, "%s: batch row %d vs single travel time %r" % (fn.__name__, i, su.tts[i]))


# ---------------------------------------------------------------------------
# very large batches (a site-response sweep: hundreds of travel times on a long record)


def _huge_enum(tier, shard, nshards):
    items = [{"n": 20000, "nq": 900, "red": "scalar", "nodal": True, "seed": 3}]
    if tier != "quick":
        items += [{"n": 20000, "nq": 900, "red": "array", "nodal": False, "seed": 4},
                  {"n": 33000, "nq": 700, "red": "scalar", "nodal": False, "seed": 5},
                  {"n": 9000, "nq": 2100, "red": "array", "nodal": True, "seed": 6},
                  {"n": 20000, "nq": 900, "red": "default", "nodal": False, "seed": 7}]
    for i, it in enumerate(items):
        if i % nshards == shard:
            yield it


def _huge_case(c):
    rs = np.random.RandomState(c["seed"])
    q = rs.uniform(0.0, 400.0, c["nq"])
    q[::3] = np.round(q[::3])            # a third whole-sample delays
    q[1] = 0.0
    case = {"rec": {"k": "quake", "n": c["n"], "seed": c["seed"]}, "dt": 0.01, "exact": False, "q": [float(x) for x in q],
            "tt_as": "ndarray", "nodal": c["nodal"], "red": c["red"]}
    if c["red"] == "scalar":
        case["up"], case["down"] = 0.9, 0.8
    elif c["red"] == "array":
        case["up"] = [float(x) for x in rs.uniform(0.5, 1.0, c["nq"])]
        case["down"] = [float(x) for x in rs.uniform(0.5, 1.0, c["nq"])]
    return case


@enum_clause(CLAUSES, "huge-batch", _huge_enum,
             rule="fixed long records (9000-33000 samples) with 700-2100 travel times (delays 0..400 samples, a third whole), "
                  "default / scalar / per-row reductions; 20 rows spread over the batch (first, last, every ~50th) are checked",
             oracle="differential: batch row i == the single-travel-time call (2 tol_E); reference model for four of the rows",
             exhaustive_note="the listed batches", quick_shards=1)
def huge_batch(c, ctx):
    case = _huge_case(c)
    su = _Setup(case, ctx)
    ctx.nt(True)
    tt = su.tt_arg(case)
    kw = dict(su.red_kwargs(), nodal=su.nodal)
    e = _as_rows(ctx, su, ctx.lib(surface.calc_surface_energy, su.asig, tt, **kw), "calc_surface_energy", False)
    length = e.shape[1]
    ctx.check(length in su.length_cands(), "huge batch: series length %d, expected %s" % (length, sorted(su.length_cands())))
    nq = su.nt
    picks = sorted(set([0, 1, 2, nq // 2, nq - 3, nq - 2, nq - 1] + list(range(7, nq, max(1, nq // 14)))))
    for i in picks:
        skw = {"nodal": su.nodal}
        if su.mode == "array":
            skw.update(up_red=np.array([su.ur[i]]), down_red=np.array([su.dr[i]]))
        elif su.mode == "scalar":
            skw.update(up_red=su.ur[i], down_red=su.dr[i])
        s1 = np.asarray(ctx.lib(surface.calc_surface_energy, su.asig, su.tts[i], **skw))
        if s1.ndim == 2 and s1.shape[0] == 1:
            s1 = s1[0]
        m = min(len(s1), length)
        ctx.check(m >= su.n, "single-travel-time series has %d < n samples" % m)
        ctx.close(e[i][:m], s1[:m], 2 * su.row_scale_tol(i, e[i]), "huge batch (%d x %d): row %d vs single travel time %r" % (
            nq, su.n, i, su.tts[i]))
    # four rows against the definition
    for i in (picks[0], picks[len(picks) // 2], picks[-2], picks[-1]):
        row = su.rows[i]
        ok = False
        for variant in row.variants:
            x, tol = su.series(i, variant, max(2, length))["e"]
            if np.all(np.abs(e[i].astype(LD) - x[:length]) <= tol[:length] + TINY):
                ok = True
                break
        ctx.check(ok, "huge batch: row %d (delay %r samples) does not match the shifted-wave definition" % (i, row.s))


# ---------------------------------------------------------------------------
# array shifting helpers


@st.composite
def _shift_cases(draw):
    spec = draw(gen.record_specs(min_n=1, max_n=40, small_max=24, kinds=["vals", "dyadic", "levels", "noise", "const"],
                                 allow_zero_runs=False, allow_int=True))
    n = len(gen.build(spec))
    ns = draw(st.integers(1, 5))
    sign = _pick(draw, ["any", "any", "any", "neg", "pos", "zero"])
    lo, hi = {"any": (-(n + 3), n + 3), "neg": (-(n + 3), -1), "pos": (1, n + 3), "zero": (0, 0)}[sign]
    case = {"vals": spec,
            "shifts": draw(st.lists(st.integers(lo, hi), min_size=ns, max_size=ns)),
            "shifts_as": draw(st.sampled_from(["list", "ndarray"])),
            "clip": _pick(draw, ["none", "start", "end", "both", "default"]),
            "jshifts": draw(st.lists(st.integers(0, n + 3), min_size=1, max_size=5)),
            "jtype": _pick(draw, ["add", "sub", "sub", "default"]),
            "dt": draw(gen.dts(1e-3, 1.0)),
            "tr": draw(st.lists(st.one_of(st.integers(0, n + 3).map(float),
                                          st.floats(0.0, n + 3.0, allow_nan=False, allow_subnormal=False)),
                                min_size=1, max_size=4))}
    return case


def _ref_put(values, shifts, clip):
    """Columns are numbered relative to the original position of values[0]."""
    n = len(values)
    lo = min(0, min(shifts)) if clip in ("none", "end") else 0
    hi = n + max(0, max(shifts)) if clip in ("none", "start") else n
    out = np.zeros((len(shifts), hi - lo))
    for i, sh in enumerate(shifts):
        for c in range(lo, hi):
            j = c - sh
            if 0 <= j < n:
                out[i, c - lo] = values[j]
    return out


def _ref_join(values, shifts, sub):
    n = len(values)
    width = n + max(shifts)
    out = np.zeros((len(shifts), width))
    for i, sh in enumerate(shifts):
        for c in range(width):
            orig = values[c] if c < n else 0.0
            moved = values[c - sh] if 0 <= c - sh < n else 0.0
            out[i, c] = orig - moved if sub else orig + moved
    return out


@clause(CLAUSES, "shift-helpers", _shift_cases(), quick=500, thorough=2500,
        rule="values n 1..40 (float/int/list), 1-5 integer shifts in [-(n+3), n+3] (mixed / all negative / all positive / "
             "all zero), list or ndarray, clip in {none,start,end,both,omitted}; join shifts >= 0 with jtype add/sub/omitted; "
             "time shifts r*dt, r whole or fractional; non-trivial = non-zero values and a non-zero shift",
        oracle="reference model (double loop over rows and columns, column 0 = original position of values[0]); equality",
        require={"clip=none": 0.04, "clip=start": 0.04, "clip=end": 0.04, "clip=both": 0.04, "mixed-sign": 0.06,
                 "all-neg": 0.05, "all-pos": 0.05, "jtype=sub": 0.12, "shift>=n": 0.10},
        min_nontrivial=0.30)
def shift_helpers(case, ctx):
    spec = case["vals"]
    v0 = gen.build(spec)
    arg = gen.as_container(spec, v0)
    vals = np.array(arg, dtype=float)
    n = len(vals)
    shifts = [int(s) for s in case["shifts"]]
    clip = case["clip"]
    ctx.cls("clip=" + clip, gen.size_class(n), "shifts=" + case["shifts_as"], "kind=" + spec["k"])
    if spec.get("as"):
        ctx.cls("as=" + spec["as"])
    neg, pos = any(s < 0 for s in shifts), any(s > 0 for s in shifts)
    ctx.cls("mixed-sign" if neg and pos else ("all-neg" if all(s < 0 for s in shifts) else (
        "all-pos" if all(s > 0 for s in shifts) else ("all-zero" if not neg and not pos else "with-zero"))))
    if any(abs(s) >= n for s in shifts):
        ctx.cls("shift>=n")
    ctx.nt(bool(np.any(vals != 0)) and (neg or pos))
    sarg = np.array(shifts) if case["shifts_as"] == "ndarray" else list(shifts)
    before = vals.copy()
    if clip == "default":
        out = ctx.lib(ts.put_array_in_2d_array, arg, sarg)
        want = _ref_put(vals, shifts, "none")
    else:
        out = ctx.lib(ts.put_array_in_2d_array, arg, sarg, clip=clip)
        want = _ref_put(vals, shifts, clip)
    ctx.equal(out, want, "put_array_in_2d_array(n=%d, shifts=%r, clip=%r)" % (n, shifts, clip))
    # joining
    js = [int(s) for s in case["jshifts"]]
    jt = case["jtype"]
    ctx.cls("jtype=" + jt)
    jarg = np.array(js) if case["shifts_as"] == "ndarray" else list(js)
    if jt == "default":
        out = ctx.lib(ts.join_values_w_shifts, arg, jarg)
    else:
        out = ctx.lib(ts.join_values_w_shifts, arg, jarg, jtype=jt)
    ctx.check(out is not None, "join_values_w_shifts returned None")
    ctx.equal(out, _ref_join(vals, js, jt == "sub"), "join_values_w_shifts(n=%d, shifts=%r, jtype=%r)" % (n, js, jt))
    # joining by time shifts: floor(t/dt) samples
    dt = case["dt"]
    times = np.array([r * dt for r in case["tr"]])
    fl = [_floor_cands(t / dt) for t in times]
    if any(len(f) > 1 for f in fl):
        ctx.amb()
        ctx.cls("ambiguous")
    sig = ctx.lib(eqsig.Signal if len(js) % 2 else eqsig.AccSignal, arg, dt)
    if jt == "default":
        out = ctx.lib(ts.join_sig_w_time_shift, sig, times)
    else:
        out = ctx.lib(ts.join_sig_w_time_shift, sig, times, jtype=jt)
    ctx.check(out is not None, "join_sig_w_time_shift returned None")
    out = np.asarray(out)
    ok = False
    for combo in itertools.product(*fl):
        want = _ref_join(vals, list(combo), jt == "sub")
        if out.shape == want.shape and np.array_equal(out, want):
            ok = True
            break
    if not ok:
        want = _ref_join(vals, [f[-1] for f in fl], jt == "sub")
        ctx.equal(out, want, "join_sig_w_time_shift(n=%d, t/dt=%r, jtype=%r)" % (n, [float(t / dt) for t in times], jt))
    ctx.equal(np.array(arg, dtype=float), before, "values changed by the helpers")
