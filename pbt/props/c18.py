"""C18 - two-component rotation (combine_at_angle, compute_rotated) and cluster alignment (time_match, same_start)."""
import math
from fractions import Fraction

import numpy as np
from hypothesis import strategies as st

import eqsig
from eqsig import im
from eqsig import multiple

from pbt import gen
from pbt.core import clause, enum_clause, HarnessError

PROPERTY = "C18"
CLAUSES = []
ASSUMPTIONS = [
    "components: two AccSignals - for combine_at_angle also two plain Signals - with the same dt and the same number of samples "
    "(compute_rotated asserts both), finite float64 (or int64 / list / strided-view variants, and int16 / int32 / int8 containers using the "
    "dtype's full range - gen.narrow_int - with the oracle at the exact integer values, in combine, rotated, same-start (no "
    "added offset there) and time-match (distinct integers spread over the full range); single-precision "
    "records are handled centrally), 2 <= n <= 300 in the random clauses and 2000..300000 (thorough 2e6) in the mid-range "
    "enumerations, |a| <= 1e9; angles and offsets are finite scalars, |angle| <= 1e4 deg",
    "combination tolerance (per sample k): eps*(4 + 2*|theta_rad|)*(|ns_k|+|we_k|): degrees->radians carries a relative "
    "error <= 1.5 eps (rounded constant pi/180 and one product), cos/sin <= 1 ulp, two products and one sum <= eps*(|ns_k|+|we_k|); "
    "theta=0 is exact (cos 0 = 1, sin 0 = 0); theta=90 uses the general bound (cos(fl(pi/2)) = 6.1e-17, not 0); "
    "theta+180 (formed in double precision by the check) is compared with the library's own theta result using the sum of "
    "both bounds plus eps*|theta_rad| for the rounding of theta+180; the reference is evaluated in long double; the result must be a "
    "signal object (values, dt, npts) with the components' sampling - which class is not asserted",
    "rotated scan: 'the requested angles spanning a half circle' are -off + 180*i/(points-1), i = 0..points-1 (DESIGN), taken "
    "modulo 360; they are compared on the circle (0 and 360 are the same direction) with tolerance 16*eps*(|off|+360) "
    "(linspace: one division, one product, one sum; mod: one sum); points >= 1 (points = 1 gives the single angle -off)",
    "rotated scan values: 'exactly the measure of that combination' is asserted against the measure applied to the "
    "public combine_at_angle(ns, we, returned_angle[i]) (declared differential between two public entry points; the combination "
    "itself is anchored to the formula by clause `combine`), up to what a rounding-level difference of the combination does to the "
    "measure: 4*eps*(4+2*rad(|off|+540)) times the same measure of the envelope record |ns|+|we| (every measure used is a sum of "
    "at most quadratic terms of the samples; an implementation may combine at the un-reduced angle and return it reduced); "
    "a `parameter` names ANY attribute of the combination: scalar ones (pga, pgv, pgd, npts, and 'arias_intensity', which the scan "
    "computes itself) give one number per angle, array-valued ones (values, velocity, displacement, time) one row per angle - the "
    "whole attribute is 'the measure'; response-spectrum attributes (s_a ...) are not used (no envelope bound); for sup-norm "
    "Lipschitz-1 measures (pga, signed maximum, last sample) and for 'values' the result is additionally compared with the "
    "long-double reference combination within the combination tolerance",
    "callables are module-level functions selected by name (replayable); they return a Python/NumPy scalar, an ndarray series, "
    "a list or a tuple (last element is the measure, as the scan's code documents for anything with a length); 0-d arrays are not "
    "'scalars' for this purpose; a call with neither parameter nor callable must raise (no class named)",
    "time-match: the statement's 'any integer lag smaller than the search window' is read as lags in (-steps, steps) "
    "(quantifier), 2 <= steps <= 64, and every signal has at least steps+2 samples so that the comparison window "
    "has >= 2 samples; signals are windows of ONE underlying record whose values are pairwise distinct (checked per case), "
    "so the misfit is exactly 0 at the true lag and > 0 at every other lag; samples of a slave that have no counterpart in the "
    "master are either the record's own continuation ('window'), independent distinct reals ('rand') or the held edge value ('edge'); "
    "near-copies: a slave may carry independent noise of relative size 1e-6..1e-3 (standard-normal records only, >= 16 compared "
    "samples: any sensible misfit then has its unique minimum at the true lag with a margin of > 1e5); then 'coincide' is checked as: "
    "sample k holds exactly what the slave held at k + lag",
    "time-match 'overlapping samples': for a slave that lags by L (slave[k] = master[k-L]) the samples k with 0 <= k and "
    "k+L < len(slave) and k < len(master) for L > 0, and -L <= k < min(len(slave), len(master)) for L < 0: exactly the samples "
    "that exist in both records once the lag is removed; what the library writes outside the overlap is not asserted",
    "time-match return value: not asserted (the statement gives it no meaning); 'values remain arrays' = one-dimensional numeric "
    "ndarrays (float or integer dtype)",
    "clause time-match uses equal-length signals (DESIGN); clause time-match-unequal (addition to DESIGN, requested by the "
    "build task) uses signals of different lengths, which the constructor accepts and time_match explicitly anticipates "
    "(length_check = min of two lengths)",
    "a second time_match on an already matched cluster (mid-range enumeration, records >= 8*steps samples) must move nothing: the "
    "padded |lag| < steps edge samples are outweighed >= 7:1 by the coinciding ones",
    "same-start: sections are time windows (same_start has no index mode; index-like windows are produced with dt = 1), inside "
    "every record of the cluster; the section is [start, end] of the time axis: first sample = k when start lies exactly (rational "
    "arithmetic) on the sample instant k; k, and k-1 only if a double-precision evaluation of start/dt (division, or product with "
    "1/dt) falls below k, when start is within 1e-9 of the instant; floor(start/dt) or floor(start/dt)+1 (edge convention left open "
    "by the statement) when it lies strictly between two samples; last sample = floor(end/dt) with the same rule for an end "
    "within rounding of an instant; the same range must work for every signal of the cluster",
    "same-start tolerance 1e-12*scale, scale = largest |value| in the cluster before or after the call: derived bound "
    "(64 + 4*log2(m))*eps*scale <= 3.5e-14*scale for sections of m <= 2e6 samples (two pairwise means, one subtraction per "
    "sample), the stated tolerance leaves a factor 30",
    "same_start() without arguments (what the repo's test and example do): the section is the signature's default start=0, end=1 "
    "(seconds); generated only for records that contain it (int(1/dt)+1 <= n)",
    "same-start 'changed only by a constant': (new_k - old_k) equals (new_0 - old_0) within 4*eps*(|old_k|+|new_k|+|old_0|+|new_0|)",
    "Cluster stypes: 'custom' / 'acc' / omitted / a per-signal list mixing both; names, base, verbose, set_step, trim are not part "
    "of the statement and are left at their defaults; fns.time_indices / get_section_average are exercised through same_start in "
    "time mode only (their index mode has no caller inside the statement)",
    "mid-range enumerations: lengths / products from gen.size_ladder / gen.product_pairs (one per octave placed by hash of "
    "VERIF_SEED, + the integer literals of the source under test, + one in the top 5 % of the range); the rotated scan at large "
    "points x n checks all angles but the values only at a sample of indices (first, last, 0 / 1 / -1 modulo 2^5..2^12, by hash)",
]
EPS = np.finfo(float).eps
LD = np.longdouble

LD_PI = LD("3.14159265358979323846264338327950288419716939937510")
if not (np.finfo(LD).nmant >= 63 and abs(float(LD_PI - 4 * np.arctan(LD(1)))) < 1e-18):
    raise HarnessError("numpy.longdouble is not extended precision on this platform: C18 reference unavailable")


# ---------------------------------------------------------------------------
# shared helpers


def _hh(*parts):
    import hashlib
    return int(hashlib.blake2b(":".join(str(p) for p in parts).encode(), digest_size=8).hexdigest(), 16)


def _build(spec):
    """gen.build plus the 'mid' recipe of the mid-range enumerations: an ordinary record of n samples (noise x envelope on a floor,
    sines + noise, walk + noise), non-zero mean, no all-zero stretch, distinct values in every stretch."""
    if spec["k"] != "mid":
        return gen.build(spec)
    n = int(spec["n"])
    rs = np.random.RandomState(int(spec["seed"]) % (2 ** 31 - 1))
    t = np.arange(n, dtype=float)
    u = t / max(1, n - 1)
    fam = spec.get("fam", 0) % 3
    if fam == 0:
        xx = (t + 1.0) / n
        env = (xx ** 2) * np.exp(-6.0 * xx)
        a = 3.0 * rs.standard_normal(n) * (0.05 + env / env.max()) + 0.37 + 0.2 * u
    elif fam == 1:
        a = (2.0 * np.sin(2 * np.pi * 7.3 * u + 0.4) + 1.1 * np.sin(2 * np.pi * t / 41.7) + 0.6 * np.sin(2 * np.pi * t / 9.3 + 1.0)
             + 0.3 * rs.standard_normal(n) + 0.61)
    else:
        w = np.cumsum(rs.standard_normal(n))
        a = 3.0 * w / max(1e-9, float(np.max(np.abs(w)))) + 0.4 * rs.standard_normal(n) + 0.25
    return np.ascontiguousarray(a * 10.0 ** spec.get("amp", 0), dtype=float)


def _mid_spec(n, tag, as_=None, amp=0):
    h = _hh(gen.run_seed(), "rec", tag, n)
    spec = {"k": "mid", "n": int(n), "seed": int(h % (2 ** 31 - 1)), "fam": int((h >> 8) % 3), "amp": amp}
    if as_:
        spec["as"] = as_
    return spec


def _mid_sizes(tier, lo, hi_quick, hi_thorough, count, tag):
    """Ladder + sizes aimed at the integer literals of the source + one length in the top 5 % of the range."""
    def top(hi):
        return int(0.95 * hi) + _hh(gen.run_seed(), "top", tag, hi) % (hi - int(0.95 * hi) + 1)
    if tier == "quick":
        return sorted(set(gen.size_ladder(lo, hi_quick, count, tag)) | {top(hi_quick)})
    return sorted(set(gen.size_ladder(lo, hi_thorough, 3 * count, tag + ":t", mined_limit=16)) | set(gen.ladder(lo, hi_quick, count, tag + ":t2"))
                  | {top(hi_quick), top(hi_thorough)})


NARROW = tuple(gen.NARROW_DTYPES)  # int16 / int32 / int8 containers: raw digitiser counts using the dtype's full range
_ALLOW = ["int", "list", "int", "list", "view", "negstride", "readonly", "int16", "int32", "int8", "int16"]


def _container(spec, a):
    if spec.get("as") == "intlist":
        return [int(v) for v in np.round(a)]  # a list of Python integers (digitiser counts)
    if spec.get("as") in NARROW:
        return gen.narrow_int(a, spec["as"])[0]  # scaled to the full range of the dtype, most negative sample = its minimum
    return gen.as_container(spec, a)


def _seen(spec):
    """Record spec -> (argument handed to the library, float64 array of what the library sees)."""
    a = _build(spec)
    arg = _container(spec, a)
    return arg, np.array(arg, dtype=float)


def _rad(angle):
    return LD(angle) * LD_PI / LD(180)


def _ref_combo(ns, we, angle):
    """The statement's formula in long double."""
    r = _rad(angle)
    return ns.astype(LD) * np.cos(r) + we.astype(LD) * np.sin(r)


def _tol_combo(ns, we, angle):
    return EPS * (4.0 + 2.0 * abs(float(_rad(angle)))) * (np.abs(ns) + np.abs(we))


_SPECIAL_ANGLES = [0, 90, 180, 270, 360, -90, -180, 45, 30, 60, 0.0, 90.0, 720, -360, 135, 1e-9]


def _angles(big=1e4):
    return st.one_of(st.sampled_from(_SPECIAL_ANGLES),
                     st.floats(-400.0, 400.0, allow_nan=False),
                     st.floats(-big, big, allow_nan=False))


@st.composite
def _pairs(draw, max_n=300):
    n = draw(st.one_of(st.integers(2, 12), st.integers(2, max_n)))
    kw = dict(min_n=n, max_n=n, small_max=n, allow_zero_runs=False, allow_int=_ALLOW)
    return {"ns": draw(gen.record_specs(**kw)), "we": draw(gen.record_specs(**kw)), "dt": draw(gen.dts(1e-3, 1.0))}


_INT_AS = ("int", "intlist")


def _fix_int_amp(spec):
    # integer-dtype variant: keep the rounded record non-zero
    if spec.get("as") in _INT_AS and "amp" in spec and spec["amp"] < 1:
        spec["amp"] = min(6, 1 - spec["amp"])
    return spec


def _make_pair(case, ctx):
    arg_ns, ns = _seen(case["ns"])
    arg_we, we = _seen(case["we"])
    if len(ns) != len(we):  # cannot happen for generated cases; hand-written replay files only
        raise HarnessError("case outside the domain: components of different length")
    dt = case["dt"]
    comp = case.get("comp", "acc")  # 'sig': plain Signal components (combine_at_angle only needs .values and .dt)
    make = eqsig.Signal if comp == "sig" else eqsig.AccSignal
    s_ns = ctx.lib(make, arg_ns, dt)
    s_we = ctx.lib(make, arg_we, dt)
    ctx.cls("ns=" + case["ns"]["k"], gen.size_class(len(ns)), "comp=" + comp)
    for sp in (case["ns"], case["we"]):
        if sp.get("as"):
            ctx.cls("as=" + sp["as"], "narrow-int" if sp["as"] in NARROW else None)
    return s_ns, s_we, ns, we


# ---------------------------------------------------------------------------
# clause 1: combine


@st.composite
def _combine_cases(draw):
    case = draw(_pairs())
    _fix_int_amp(case["ns"])
    _fix_int_amp(case["we"])
    case["angle"] = draw(_angles())
    case["comp"] = draw(st.sampled_from(["acc", "acc", "sig"]))
    return case


@clause(CLAUSES, "combine", _combine_cases(), quick=600, thorough=2000,
        rule="two records of equal length (all kinds, n 2..300, float/int/list) as AccSignals (one case in three: plain Signals) with one dt; angle from the specials "
             "{0, +-90, +-180, 270, +-360, 720, 30, 45, 60, 135, 1e-9}, U(-400, 400) or U(-1e4, 1e4) degrees; "
             "non-trivial = both components non-zero and the angle is not a multiple of 90",
        oracle="reference model: ns*cos(theta)+we*sin(theta) in long double, per-sample bound eps*(4+2|theta_rad|)*(|ns_k|+|we_k|); theta=0 -> ns "
               "(exact), 90 -> we (same bound), theta+180 -> negation (sum of both bounds); result is a signal object with ns.dt and n "
               "samples; inputs not modified",
        require={"special-angle": 0.15, "general-angle": 0.35, "comp=sig": 0.15}, min_nontrivial=0.4)
def combine(case, ctx):
    s_ns, s_we, ns, we = _make_pair(case, ctx)
    angle = case["angle"]
    n = len(ns)
    dt = case["dt"]
    mult90 = Fraction(angle) % 90 == 0
    ctx.cls("special-angle" if angle in _SPECIAL_ANGLES else "general-angle")
    if abs(angle) > 720:
        ctx.cls("|angle|>720")
    ctx.nt(bool(np.any(ns != 0) and np.any(we != 0) and not mult90))
    ns0 = np.array(s_ns.values, copy=True)
    we0 = np.array(s_we.values, copy=True)

    def call(theta):
        out = ctx.lib(eqsig.combine_at_angle, s_ns, s_we, theta)
        # the statement defines the VALUES of the combination; that it comes as a signal object with the components' sampling
        # (so that a measure can be taken of it) is what 'pair of equally sampled components' / 'measure of that combination'
        # imply - not which class it is
        ctx.check(hasattr(out, "values") and hasattr(out, "dt") and hasattr(out, "npts"),
                  "combine_at_angle returned %s, not a signal object" % type(out).__name__)
        ctx.check(out.dt == dt, "combination has dt=%r, components have dt=%r" % (out.dt, dt))
        ctx.check(out.npts == n, "combination has %r samples, components have %d" % (out.npts, n))
        v = np.asarray(out.values)
        ctx.shape(v, (n,), "combination values")
        return v

    v = call(angle)
    tol = _tol_combo(ns, we, angle)
    ctx.close(v, _ref_combo(ns, we, angle), tol, "combine_at_angle(theta=%r) vs ns*cos+we*sin" % (angle,))
    # theta + 180 negates
    a2 = angle + 180.0
    v2 = call(a2)
    tol2 = tol + _tol_combo(ns, we, a2) + EPS * abs(float(_rad(a2))) * (np.abs(ns) + np.abs(we))
    ctx.close(v2, -v, tol2, "combine_at_angle(theta+180) vs -combine_at_angle(theta), theta=%r" % (angle,))
    # theta = 0 gives ns, 90 gives we (int 0 / float 0.0 alternate with the parity of n)
    v0 = call(0 if n % 2 else 0.0)
    ctx.equal(v0, ns, "combine_at_angle(theta=0) vs ns")
    v90 = call(90 if n % 2 else 90.0)
    # (cos(fl(pi/2)) = 6.1e-17, not 0: the general bound at 90 degrees, eps*(4+pi)*(|ns_k|+|we_k|), also admits an implementation
    # that forms exp(j theta) or reduces the quadrant exactly)
    ctx.close(v90, we, _tol_combo(ns, we, 90.0), "combine_at_angle(theta=90) vs we")
    ctx.equal(s_ns.values, ns0, "ns component modified by combine_at_angle")
    ctx.equal(s_we.values, we0, "we component modified by combine_at_angle")


# ---------------------------------------------------------------------------
# clause 2: rotated


def _f_peak_signed(sig):
    """scalar, sign sensitive"""
    return float(np.max(sig.values))


def _f_last_sample(sig):
    """list -> last element is the last sample (first element differs)"""
    return [float(sig.values[0]) + 1.0, float(sig.values[-1])]


def _f_cumabs(sig):
    """series (ndarray) -> last element"""
    return np.cumsum(np.abs(sig.values))


def _f_running_sum(sig):
    """series (ndarray), sign sensitive -> last element"""
    return np.cumsum(np.asarray(sig.values, dtype=float))


def _f_npts(sig):
    """Python int scalar"""
    return int(sig.npts)


def _f_np_scalar(sig):
    """NumPy scalar"""
    return np.float64(sig.values[0]) * 2.0


def _f_tuple_series(sig):
    """series given as a tuple, sign sensitive -> last element"""
    v = np.asarray(sig.values, dtype=float)
    return (float(v[0]) - 2.0, float(np.sum(v[::2])))


FUNCS = {
    "tuple_series": _f_tuple_series,
    "peak_signed": _f_peak_signed,
    "last_sample": _f_last_sample,
    "cumabs": _f_cumabs,
    "running_sum": _f_running_sum,
    "npts": _f_npts,
    "np_scalar": _f_np_scalar,
    "cav": im.calc_cav,                      # library series
    "arias_series": im.calc_arias_intensity,  # library series through func=
}
FUNC_ORDER = ["last_sample", "running_sum", "peak_signed", "np_scalar", "cumabs", "npts", "cav", "arias_series", "tuple_series"]
# parameter names: the scalar attributes of the combination and (the scan then returns one row per angle) its array-valued ones
PARAMS = ["pgv", "arias_intensity", "pgd", "pga", "values", "velocity", "displacement", "time", "npts"]
ARRAY_PARAMS = ("values", "velocity", "displacement", "time")


def _measure(ctx, how, name, sig):
    """The measure of one combination, as the statement defines it: the named attribute (whatever it holds: scalar or series), or
    what the callable returns (a scalar, or the last element of a series)."""
    if how == "parameter":
        if name == "arias_intensity":
            return ctx.lib(im.calc_arias_intensity, sig)[-1]
        if name == "pga":
            return np.max(np.abs(np.asarray(sig.values)))  # independent of the object's cached property
        return ctx.lib(getattr, sig, name)
    val = FUNCS[name](sig)
    if isinstance(val, (list, tuple, np.ndarray)):
        return val[len(val) - 1]
    return val


@st.composite
def _rotated_cases(draw):
    case = draw(_pairs(max_n=200))
    _fix_int_amp(case["ns"])
    _fix_int_amp(case["we"])
    how = draw(st.sampled_from(["func", "parameter", "parameter", "func", "neither", "parameter", "func"]))
    case["how"] = how
    if how == "parameter":
        case["name"] = draw(st.sampled_from(PARAMS))
    elif how == "func":
        case["name"] = draw(st.sampled_from(FUNC_ORDER))
    case["form"] = draw(st.sampled_from(["kw", "pos", "default-off", "default-points"]))
    if case["form"] != "default-off":
        case["off"] = draw(_angles(big=2000.0))
    if case["form"] != "default-points":
        case["points"] = draw(st.one_of(st.integers(1, 6), st.integers(2, 40)))
    return case


def _circ_dist(a, b):
    d = abs(a - b) % 360
    return min(d, 360 - d)


def _rotated_check(case, ctx, sample=None):
    """sample: None = every angle is checked; an iterable of indices = only those (the angles themselves are always all checked)."""
    s_ns, s_we, ns, we = _make_pair(case, ctx)
    how = case["how"]
    name = case.get("name")
    form = case.get("form", "kw")
    off = case.get("off", 0.0) if form != "default-off" else 0.0
    points = case.get("points", 100) if form != "default-points" else 100
    n = len(ns)
    ctx.cls("how=" + how, "form=" + form, "m=" + str(name))
    ctx.cls("off!=0" if off != 0 else "off=0", "points>=2" if points >= 2 else "points=1",
            "array-parameter" if how == "parameter" and name in ARRAY_PARAMS else None)
    ctx.nt(bool(how != "neither" and points >= 2 and np.any(ns != 0) and np.any(we != 0)))
    par = name if how == "parameter" else None
    fn = FUNCS[name] if how == "func" else None
    if form == "pos":
        args, kw = (s_ns, s_we, off, par, fn, points), {}
    elif form == "kw":
        args, kw = (s_ns, s_we), {"angle_off_ns": off, "points": points}
    elif form == "default-off":
        args, kw = (s_ns, s_we), {"points": points}
    else:
        args, kw = (s_ns, s_we), {"angle_off_ns": off}
    if form != "pos":
        if par is not None:
            kw["parameter"] = par
        if fn is not None:
            kw["func"] = fn
    if how == "neither":
        ctx.raises(Exception, eqsig.compute_rotated, *args, **kw)  # 'no measure given' is rejected; the statement names no class
        return
    out = ctx.lib(eqsig.compute_rotated, *args, **kw)
    ctx.check(isinstance(out, (tuple, list)) and len(out) == 2, "compute_rotated returned %r, expected (angles, values)" % (type(out),))
    angles, values = np.asarray(out[0]), np.asarray(out[1])
    ctx.shape(angles, (points,), "angles")
    arr = how == "parameter" and name in ARRAY_PARAMS
    ctx.shape(values, (points, n) if arr else (points,), "values")
    ctx.finite(angles, "angles")
    # the requested angles: a half circle starting at -off
    tol_a = 16 * EPS * (abs(off) + 360.0)
    foff = Fraction(off)
    for i in range(points):
        want = -foff + (Fraction(180 * i, points - 1) if points > 1 else 0)
        want = float(want % 360)
        d = _circ_dist(float(angles[i]), want)
        ctx.check(d <= tol_a, "angle %d of %d: got %r, expected %r (mod 360) for angle_off_ns=%r" % (i, points, float(angles[i]), want, off))
    # the values: 'exactly the measure of that combination'.  The measure of the PUBLIC combination at the returned angle is the
    # reference (declared differential); equality is demanded up to what a rounding-level difference in the combination can do
    # to the measure (an implementation may combine at the un-reduced angle -off + 180 i/(p-1) and return it reduced mod 360):
    # every measure used here is a sum of at most quadratic terms of the samples, so its change is bounded by
    # 2 * (relative perturbation of the combination) * (the same measure of the envelope |ns|+|we|)
    env_sig = eqsig.AccSignal(np.abs(ns) + np.abs(we), case["dt"])
    env = _measure(ctx, how, name, env_sig)
    env = np.abs(np.asarray(env, dtype=float))
    # relative perturbation of the combination between two correct implementations: the per-sample bound of `combine` for either,
    # at the largest angle either may work with (the un-reduced |off| + 180 degrees, or the reduced one < 360)
    rel_all = 4 * EPS * (4.0 + 2.0 * float(_rad(abs(off) + 540.0)))
    lipschitz = (how == "parameter" and name == "pga") or (how == "func" and name in ("peak_signed", "last_sample"))
    idx = range(points) if sample is None else sorted(set(int(i) for i in sample if 0 <= int(i) < points))
    for i in idx:
        ang = angles[i]
        sig = ctx.lib(eqsig.combine_at_angle, s_ns, s_we, ang)
        want = _measure(ctx, how, name, sig)
        got = values[i]
        rel = rel_all
        what = "value %d of %d (angle %r, %s=%s)" % (i, points, float(ang), how, name)
        if arr:
            ctx.close(np.asarray(got, dtype=float), np.asarray(want, dtype=float), rel * env,
                      what + " vs the attribute of the combination")
        else:
            ctx.check(bool(abs(float(got) - float(want)) <= rel * float(env) + 1e-290),
                      "%s: got %r, measure of the combination is %r (tolerance %.3g)" % (what, got, want, rel * float(env)))
        if lipschitz:
            ref = _ref_combo(ns, we, float(ang))
            if name == "pga":
                r = np.max(np.abs(ref))
            elif name == "peak_signed":
                r = np.max(ref)
            else:
                r = ref[-1]
            t = float(np.max(_tol_combo(ns, we, float(ang))))
            ctx.close(float(got), r, t, "value %d (angle %r, %s) vs measure of ns*cos+we*sin" % (i, float(ang), name))
        elif how == "parameter" and name == "values":
            ctx.close(np.asarray(got, dtype=float), _ref_combo(ns, we, float(ang)), _tol_combo(ns, we, float(ang)),
                      "row %d (angle %r, parameter 'values') vs ns*cos+we*sin" % (i, float(ang)))


@clause(CLAUSES, "rotated", _rotated_cases(), quick=500, thorough=2000,
        rule="pairs as in `combine` (n 2..200); angle_off_ns from the specials, U(-400,400) or U(-2000,2000), or omitted (0.0); "
             "points 1..40 or omitted (100); measure = parameter naming a scalar attribute {arias_intensity, pga, pgv, pgd, npts} or an "
             "array-valued one {values, velocity, displacement, time} | callable returning a Python "
             "scalar, NumPy scalar, list, tuple, ndarray series (sign-sensitive and sign-insensitive ones, library calc_cav / "
             "calc_arias_intensity) | neither; keyword and positional call forms; non-trivial = measure given, points >= 2, both "
             "components non-zero",
        oracle="reference model for the angles: (-off + 180*i/(points-1)) mod 360 in exact rational arithmetic, compared on the circle, "
               "16*eps*(|off|+360); differential for the values: measure of combine_at_angle(ns, we, angle[i]) (whole series for an "
               "array-valued attribute), to 4 eps (4+2 rad(|off|+540)) x the measure of the envelope |ns|+|we|; sup-norm measures and the "
               "'values' rows also against the long-double combination; lengths = points; neither parameter nor func -> an exception",
        require={"how=parameter": 0.2, "how=func": 0.2, "how=neither": 0.03, "off!=0": 0.35, "points>=2": 0.5, "array-parameter": 0.08},
        min_nontrivial=0.4)
def rotated(case, ctx):
    _rotated_check(case, ctx)


# ---------------------------------------------------------------------------
# clauses 3 and 3b: time-match


def _lag_strategy(steps):
    return st.one_of(st.integers(-(steps - 1), steps - 1),
                     st.sampled_from([steps - 1, -(steps - 1), 0, 1, -1]))


_TM_AS = [None, None, "int16", "int", "intlist", "list", "int16", "int32"]


@st.composite
def _tm_cases(draw, unequal=False):
    nsig = draw(st.sampled_from([2, 2, 3, 3, 4, 4]))
    master = draw(st.sampled_from(list(range(nsig)) + list(range(1, nsig))))
    default_steps = draw(st.integers(0, 5)) == 0
    # the search window: mostly 2..20, one case in five 21..64 (the statement puts no cap on it)
    steps = 10 if default_steps else draw(st.one_of(st.integers(2, 20), st.integers(2, 20), st.integers(2, 20), st.integers(2, 20),
                                                    st.integers(21, 64)))
    extra = st.one_of(st.integers(2, 8), st.integers(2, 80), st.integers(2, 80), st.integers(60, 1500))
    if unequal:
        lens = [steps + draw(extra) for _ in range(nsig)]
        if len(set(lens)) == 1:
            j = draw(st.integers(0, nsig - 1))
            lens[j] += draw(st.integers(1, 20))
    else:
        lens = [steps + draw(extra)] * nsig
    lags = [draw(_lag_strategy(steps)) for _ in range(nsig)]
    lags[master] = 0
    case = {"nsig": nsig, "master": master, "steps": None if default_steps else steps, "lens": lens, "lags": lags,
            "kind": draw(st.sampled_from(["normal", "normal", "perm"])), "seed": draw(st.integers(0, 2 ** 31 - 1)),
            "fill": draw(st.sampled_from(["window", "rand", "edge"])),
            "stype": draw(st.sampled_from(["custom", "custom", "acc", "default", "mixed"])),
            "dt": draw(gen.dts(1e-3, 1.0))}
    if case["kind"] == "perm":
        case["as"] = draw(st.sampled_from(_TM_AS))
    elif draw(st.integers(0, 4)) == 0:
        case["as"] = "list"
    if case["kind"] == "normal" and min(lens) >= steps + 16 and draw(st.integers(0, 2)) == 0:
        # near-copies: every slave carries its own measurement noise (relative 1e-6 .. 1e-3 of the record's scatter), so the
        # misfit is small but NOT zero at the true lag
        case["noise"] = draw(st.integers(-6, -3))
    return case


def _tm_build(case):
    """-> list of float arrays (one per signal: what the library is to see), built from one underlying record with distinct
    values; integer variants (case['as'] in int / intlist) hold integers."""
    steps = case["steps"] or 10
    lens = case["lens"]
    master = case["master"]
    nm = lens[master]
    if case.get("head"):
        # a triggered recording: `head` samples at rest (one constant level), then shaking with pairwise distinct values;
        # samples outside the overlap hold the edge value
        rs = np.random.RandomState(case["seed"])
        m = np.concatenate([np.full(case["head"], 0.125), rs.permutation(nm - case["head"]).astype(float) * 0.25 + 1.0])
        return [m.copy() if j == master else m[np.clip(np.arange(nj) - case["lags"][j], 0, nm - 1)] for j, nj in enumerate(lens)]
    total = max(lens) + 2 * steps
    rs = np.random.RandomState(case["seed"])
    pool = (len(lens) + 1) * total  # the record + enough independent values for every slave
    if case.get("rec") is not None:
        # hand-written cases: the underlying record given explicitly (integers; >= max(lens) + 2*steps samples)
        rec = np.array(case["rec"], dtype=float)
        if len(rec) < total or len(np.unique(rec)) != len(rec):
            raise HarnessError("time-match case: explicit record too short or not distinct")
        base, other = rec, np.zeros(0)
    elif case["kind"] == "perm":
        if case.get("as") in NARROW:
            # distinct integers spread over the FULL range of the dtype (squares and differences leave it)
            mult = int(np.iinfo(case["as"]).max) // (pool // 2 + 1)
            if mult < 1:
                return None
            base = (rs.permutation(pool).astype(float) - float(pool // 2)) * mult
        elif case.get("as") in _INT_AS:
            base = rs.permutation(pool).astype(float) - float(pool // 2)
        else:
            base = rs.permutation(pool).astype(float) * 0.25 - pool * 0.125
        rec, other = base[:total], base[total:]
    else:
        base = rs.standard_normal(pool)
        base[total:] *= 3.0
        rec, other = base[:total], base[total:]
    if len(np.unique(base)) != len(base):
        return None
    sigs = []
    m = rec[steps:steps + nm].copy()
    oi = 0
    for j, nj in enumerate(lens):
        if j == master:
            sigs.append(m.copy())
            continue
        lag = case["lags"][j]
        src = np.arange(nj) - lag  # index into the master
        inside = (src >= 0) & (src < nm)
        sj = np.empty(nj)
        sj[inside] = m[src[inside]]
        out = np.flatnonzero(~inside)
        if case["fill"] == "window":
            sj[out] = rec[steps + src[out]]
        elif case["fill"] == "edge":
            sj[out] = np.where(src[out] < 0, m[0], m[nm - 1])
        else:
            sj[out] = other[oi:oi + len(out)]
            oi += len(out)
        if case.get("noise") is not None:
            sj = sj + (10.0 ** case["noise"]) * np.random.RandomState((case["seed"] + 7919 * (j + 1)) % (2 ** 31 - 1)).standard_normal(nj)
        sigs.append(sj)
    return sigs


def _tm_arg(case, a):
    how = case.get("as")
    if how in NARROW:
        c = np.array(a, dtype=how)
        if not np.array_equal(c.astype(float), a):
            raise HarnessError("time-match generator: values do not fit %s" % how)
        return c
    if how == "int":
        return np.array(a, dtype=np.int64)
    if how == "intlist":
        return [int(v) for v in a]
    if how == "list":
        return [float(v) for v in a]
    return a.copy()


def _tm_check(case, ctx):
    nsig = case["nsig"]
    master = case["master"]
    steps = case["steps"] or 10
    lens = case["lens"]
    lags = case["lags"]
    if min(lens) < steps + 2 or any(abs(l) >= steps for l in lags):
        raise HarnessError("case outside the domain of the clause")
    if case.get("noise") is not None and (min(lens) < steps + 16 or case["kind"] != "normal" or not -9 <= case["noise"] <= -3):
        raise HarnessError("case outside the domain of the clause (noisy copies need >= 16 compared samples of a white record)")
    sigs = _tm_build(case)
    if sigs is None:
        ctx.cls("values-not-distinct")
        return
    ctx.cls("nsig=%d" % nsig, "master=%d" % master, "fill=" + case["fill"], "kind=" + case["kind"], "stype=" + case["stype"])
    ctx.cls("master!=0" if master != 0 else None, "nsig>=3" if nsig >= 3 else None,
            "default-steps" if case["steps"] is None else None, "steps>20" if steps > 20 else None,
            "n>120" if min(lens) > 120 else None, "noisy-copy" if case.get("noise") is not None else None,
            "as=%s" % case["as"] if case.get("as") else None, "integer-record" if case.get("as") in _INT_AS + NARROW else None,
            "narrow-int" if case.get("as") in NARROW else None)
    slave_lags = [lags[j] for j in range(nsig) if j != master]
    ctx.cls("lag>0" if any(l > 0 for l in slave_lags) else None, "lag<0" if any(l < 0 for l in slave_lags) else None,
            "lag=0" if any(l == 0 for l in slave_lags) else None,
            "lag=+-(steps-1)" if any(abs(l) == steps - 1 for l in slave_lags) else None,
            "both-signs" if any(l > 0 for l in slave_lags) and any(l < 0 for l in slave_lags) else None)
    if len(set(lens)) > 1:
        ctx.cls("slave-longer" if any(lens[j] > lens[master] for j in range(nsig)) else None,
                "slave-shorter" if any(lens[j] < lens[master] for j in range(nsig)) else None,
                "third-shortest" if nsig >= 3 and min(lens[2:]) < min(lens[:2]) else None)
    ctx.nt(any(l != 0 for l in slave_lags))
    kw = {"master_index": master}
    if case["stype"] == "mixed":
        kw["stypes"] = [("acc" if (j + master) % 2 else "custom") for j in range(nsig)]
    elif case["stype"] != "default":
        kw["stypes"] = case["stype"]
    cl = ctx.lib(multiple.Cluster, [_tm_arg(case, a) for a in sigs], case["dt"], **kw)
    if case["steps"] is None:
        ctx.lib(cl.time_match)
    else:
        ctx.lib(cl.time_match, steps=steps)
    m = sigs[master]
    nm = len(m)
    for j in range(nsig):
        v = cl.values_by_index(j)
        ctx.check(isinstance(v, np.ndarray), "values of signal %d are a %s after time_match, not an ndarray" % (j, type(v).__name__))
        # 'values remain arrays': one-dimensional numeric ndarrays (an implementation that keeps an integer record integer is fine)
        ctx.check(v.ndim == 1 and v.dtype.kind in "fiu", "values of signal %d have shape %s dtype %s after time_match" % (j, v.shape, v.dtype))
        ctx.check(len(v) == lens[j] and cl.signal_by_index(j).npts == lens[j],
                  "length of signal %d changed from %d to %d (npts %r) (master %d, lag %d)" % (
                      j, lens[j], len(v), cl.signal_by_index(j).npts, master, lags[j]))
        if j == master:
            ctx.equal(v, m, "master (signal %d) modified by time_match" % j)
            continue
        lag = lags[j]
        if lag >= 0:
            lo, hi = 0, min(lens[j] - lag, nm)
        else:
            lo, hi = -lag, min(lens[j], nm)
        # the lag is removed: sample k now holds what the slave had at k + lag - for an exact copy that IS the master's sample k
        # ('the overlapping samples then coincide'), for a noisy copy the master's sample plus the slave's own noise
        want = sigs[j][lo + lag:hi + lag]
        if case.get("noise") is None and not np.array_equal(want, m[lo:hi]):
            raise HarnessError("time-match generator: the slave is not a shifted copy of the master")
        if not np.array_equal(v[lo:hi], want):
            bad = int(np.flatnonzero(v[lo:hi] != want)[0]) + lo
            ctx.fail("signal %d (lag %d, master %d, %d signals, steps %d%s): after time_match sample %d is %r, %s "
                     "(overlap %d..%d, %d samples differ)" % (
                         j, lag, master, nsig, steps, "" if case.get("noise") is None else ", noise 1e%d" % case["noise"], bad,
                         float(v[bad]), "master has %r" % float(m[bad]) if case.get("noise") is None else
                         "the slave's sample %d was %r (master %r)" % (bad + lag, float(want[bad - lo]), float(m[bad])),
                         lo, hi - 1, int(np.sum(v[lo:hi] != want))))
    if case.get("again") and min(lens) >= 8 * steps:
        # history: the same cluster is matched a second time.  Every slave now has lag 0 against the master (its first / last
        # |lag| < steps samples hold the padding, the other >= 7 * steps compared samples coincide to the noise), so the call must
        # leave every signal as it is
        held = [np.array(cl.values_by_index(j)) for j in range(nsig)]
        if case["steps"] is None:
            ctx.lib(cl.time_match)
        else:
            ctx.lib(cl.time_match, steps=steps)
        ctx.cls("matched-twice")
        for j in range(nsig):
            ctx.equal(np.asarray(cl.values_by_index(j)), held[j], "signal %d (lag %d removed by the first time_match) moved again in a second time_match" % (j, lags[j]))


@clause(CLAUSES, "time-match", _tm_cases(), quick=600, thorough=2000,
        rule="2-4 equal-length signals (n = steps+2 .. steps+1500) cut from one record of pairwise distinct values (standard normal or a "
             "scaled permutation; permutations also as int64 arrays / lists of Python ints / lists of floats), any master_index, steps in "
             "2..20 (one case in five 21..64) or omitted (10), one lag per slave in (-steps, steps) with the extreme "
             "lags +-(steps-1), 0 and +-1 boosted; non-overlapping samples = record continuation | independent reals | held edge; "
             "one normal case in three: every slave carries its own noise of 1e-6..1e-3 (near-copies: misfit not 0 at the true lag; "
             ">= 16 compared samples); Signal, AccSignal and mixed clusters; non-trivial = some slave has a non-zero lag",
        oracle="reference model: afterwards slave[k] == (what the slave held at k + lag) (==) on the overlap - for exact copies that is "
               "master[k]; every length unchanged, values one-dimensional numeric ndarrays, master bit-for-bit unchanged",
        require={"master!=0": 0.4, "nsig>=3": 0.4, "lag>0": 0.3, "lag<0": 0.3, "lag=+-(steps-1)": 0.15, "both-signs": 0.08,
                 "steps>20": 0.06, "n>120": 0.1, "noisy-copy": 0.06, "integer-record": 0.04, "narrow-int": 0.03},
        min_nontrivial=0.5)
def time_match(case, ctx):
    _tm_check(case, ctx)


@clause(CLAUSES, "time-match-unequal", _tm_cases(unequal=True), quick=400, thorough=1500,
        rule="as `time-match`, but the signals have different lengths (each steps+2 .. steps+1500); non-trivial = some slave has a "
             "non-zero lag",
        oracle="reference model: as `time-match`; the overlap of a slave ends where either record ends",
        require={"master!=0": 0.4, "nsig>=3": 0.4, "lag>0": 0.3, "lag<0": 0.3, "slave-longer": 0.3, "slave-shorter": 0.3,
                 "third-shortest": 0.06, "steps>20": 0.06, "narrow-int": 0.03},
        min_nontrivial=0.5)
def time_match_unequal(case, ctx):
    _tm_check(case, ctx)


def _tm_long_enum(tier, shard, nshards):
    items = [{"n": 150000, "head": 136000, "lags": [4, 0, -7], "master": 1}]
    if tier != "quick":
        items += [{"n": 2 ** 17 + 300, "head": 2 ** 17 + 40, "lags": [0, 9, -1, 3], "master": 0},
                  {"n": 2 ** 18 + 5, "head": 2 ** 18 - 4000, "lags": [-9, 0], "master": 1},
                  {"n": 2 ** 16 + 11, "head": 2 ** 16 - 3, "lags": [5, -5, 0], "master": 2},
                  {"n": 400000, "head": 0, "lags": [0, 6], "master": 0}]
    for i, it in enumerate(items):
        if i % nshards == shard:
            yield dict(it, seed=17 + i)


@enum_clause(CLAUSES, "time-match-long", _tm_long_enum,
             rule="fixed long triggered recordings (65547..400000 samples at 1 kHz: a long stretch at rest, then shaking with pairwise "
                  "distinct values), 2-4 signals, default search window (10), lags up to +-9",
             oracle="reference model: as `time-match` (overlap coincides exactly, lengths unchanged, float64 ndarrays, master unchanged)",
             exhaustive_note="the listed recordings", quick_shards=1)
def time_match_long(c, ctx):
    nsig = len(c["lags"])
    case = {"nsig": nsig, "master": c["master"], "steps": None, "lens": [c["n"]] * nsig, "lags": list(c["lags"]), "kind": "perm",
            "seed": c["seed"], "fill": "edge", "stype": "acc", "dt": 0.001, "head": c["head"]}
    ctx.cls("head>2^17" if c["head"] > 2 ** 17 else "head<=2^17")
    _tm_check(case, ctx)


# ---------------------------------------------------------------------------
# clause 4: same-start


def _quot(t, dt):
    return Fraction(t) / Fraction(dt)


def _near_int(q):
    k = round(q)
    return k if abs(q - k) <= Fraction(1, 10 ** 9) * max(1, abs(k)) else None


def _fp_quotients(t, dt):
    """How a double-precision implementation may evaluate t/dt: one division, or one product with the reciprocal."""
    return [float(t) / float(dt), float(t) * (1.0 / float(dt))]


def _start_cands(t, dt):
    """First sample of the section [start, end] of the time axis.

    * start on the sample instant k exactly (rational arithmetic): k - the sample before it lies outside the section;
    * start within rounding (1e-9) of the instant k: k, and k-1 only if a double-precision evaluation of start/dt actually falls
      below k (then floor() of it is k-1: the ambiguity is real, not a licence);
    * start strictly between two samples: the sample interval that contains it (floor) or the first sample inside (floor+1) - the
      statement leaves the edge convention open."""
    q = _quot(t, dt)
    k = _near_int(q)
    if k is not None:
        return [k - 1, k] if q != k and min(_fp_quotients(t, dt)) < k else [k]
    f = math.floor(q)
    return [f, f + 1]


def _end_cands(t, dt):
    """Last sample of the section: the last sample at or before `end`; an end within rounding of the instant k is ambiguous only
    if a double-precision evaluation of end/dt falls below k."""
    q = _quot(t, dt)
    k = _near_int(q)
    if k is not None:
        return [k - 1, k] if q != k and min(_fp_quotients(t, dt)) < k else [k]
    return [math.floor(q)]


@st.composite
def _ss_cases(draw):
    nsig = draw(st.sampled_from([2, 2, 3, 3, 4, 4]))
    master = draw(st.sampled_from(list(range(nsig)) + list(range(1, nsig))))
    n = draw(st.one_of(st.integers(2, 12), st.integers(2, 300)))
    unequal = draw(st.integers(0, 3)) == 0
    specs = []
    for j in range(nsig):
        nj = n + (draw(st.integers(0, 30)) if unequal else 0)
        specs.append(_fix_int_amp(draw(gen.record_specs(min_n=nj, max_n=nj, small_max=nj, allow_zero_runs=False, allow_int=_ALLOW))))
    offsets = [draw(st.one_of(st.just(0.0), st.floats(-100.0, 100.0, allow_nan=False), st.integers(-8, 8).map(float)))
               for _ in range(nsig)]
    case = {"sigs": specs, "offsets": offsets, "master": master,
            "stype": draw(st.sampled_from(["custom", "custom", "acc", "default", "mixed"]))}
    mode = draw(st.sampled_from(["window", "window", "window", "index-like", "defaults"]))
    case["mode"] = mode
    if mode == "defaults":
        # the default section is 0..1 s: needs int(1/dt) + 1 <= n
        if draw(st.booleans()) or n < 3:
            dt = draw(st.floats(1.0 / (n - 1) * 1.001 if n > 2 else 1.001, 4.0, allow_nan=False))
        else:
            dt = 1.0 / draw(st.integers(1, n - 2))
        case["dt"] = dt
        return case
    dt = 1.0 if mode == "index-like" else draw(gen.dts(1e-3, 1.0))
    case["dt"] = dt
    si = draw(st.integers(0, n - 1))
    ei = draw(st.integers(si, n - 1))
    frac = st.sampled_from([0.0, 0.0, 0.25, 0.5, 0.75]) if mode == "window" else st.just(0.0)
    fs, fe = draw(frac), draw(frac)
    if ei == si and fe < fs:
        fe = fs
    case["start"] = (si + fs) * dt
    case["end"] = (ei + fe) * dt
    if mode == "index-like" and draw(st.booleans()):
        case["start"], case["end"] = int(si), int(ei)  # integers, as an index-minded caller would pass them
    return case


@clause(CLAUSES, "same-start", _ss_cases(), quick=600, thorough=2000,
        rule="2-4 independent records (all kinds, n 2..300, float/int/list, one in four clusters with unequal lengths) plus a per-signal offset, "
             "any master_index; section = time window [start, end] inside every record with on-sample or between-sample edges, dt log-uniform "
             "/ repo rates, or dt = 1 with integer edges (index-like), or the default section 0..1 s; Signal and AccSignal clusters; "
             "non-trivial = before the call some slave's section average differs from the master's by more than 1e-9*scale",
        oracle="reference model: long-double mean over the section of every signal equals the master's (1e-12*scale) for one of the candidate "
               "sample ranges of the window (edge convention left open, same range for all signals); master bit-for-bit unchanged; every "
               "slave changed by one constant; lengths unchanged; values ndarrays",
        require={"master!=0": 0.4, "nsig>=3": 0.4, "mode=window": 0.3, "mode=defaults": 0.05, "mode=index-like": 0.05},
        min_nontrivial=0.6)
def same_start(case, ctx):
    nsig = len(case["sigs"])
    master = case["master"]
    dt = case["dt"]
    args, seen = [], []
    for spec, off in zip(case["sigs"], case["offsets"]):
        arg, a = _seen(spec)
        if off != 0 and spec.get("as") not in NARROW:  # (a full-range narrow record has no room for an offset; its mean differs anyway)
            if spec.get("as") == "int":
                arg = arg + int(off)
            elif spec.get("as") == "intlist":
                arg = [x + int(off) for x in arg]
            elif spec.get("as") == "list":
                arg = [x + off for x in arg]
            else:
                arg = arg + off
        args.append(arg)
        seen.append(np.array(arg, dtype=float))
    lens = [len(a) for a in seen]
    nmin = min(lens)
    mode = case.get("mode", "window")
    ctx.cls("nsig=%d" % nsig, "master=%d" % master, "mode=" + mode, "stype=" + case.get("stype", "custom"), gen.size_class(nmin))
    ctx.cls("master!=0" if master != 0 else None, "nsig>=3" if nsig >= 3 else None,
            "unequal-lengths" if len(set(lens)) > 1 else None)
    for spec in case["sigs"]:
        if spec.get("as"):
            ctx.cls("as=" + spec["as"], "narrow-int" if spec["as"] in NARROW else None)
    if mode == "defaults":
        start, end = 0, 1
        kwargs = {}
    else:
        start, end = case["start"], case["end"]
        kwargs = {"start": start, "end": end}
    scands = [s for s in _start_cands(start, dt) if 0 <= s <= nmin - 1]
    ecands = [e for e in _end_cands(end, dt) if 0 <= e <= nmin - 1]
    if max(_end_cands(end, dt)) > nmin - 1 or not scands or not ecands or min(scands) > max(ecands):
        raise HarnessError("case outside the domain of the clause: section not inside the records")
    ckw = {"master_index": master}
    if case.get("stype", "custom") == "mixed":
        ckw["stypes"] = [("acc" if (j + master) % 2 else "custom") for j in range(nsig)]
    elif case.get("stype", "custom") != "default":
        ckw["stypes"] = case["stype"]
    cl = ctx.lib(multiple.Cluster, args, dt, **ckw)
    before = [np.array(cl.values_by_index(j), dtype=float) for j in range(nsig)]
    for j in range(nsig):
        if not np.array_equal(before[j], seen[j]):
            raise HarnessError("cluster does not hold the generated records")
    if (nmin + nsig + master) % 2 == 0:
        # the cluster is not fresh: it was already aligned once on another section (the first sample); the alignment that
        # is checked below is the SECOND one on the same object and must work just the same
        ctx.lib(cl.same_start, start=0, end=0)
        ctx.cls("second-alignment")
        before = [np.array(cl.values_by_index(j), dtype=float) for j in range(nsig)]
        ctx.equal(before[master], seen[master], "master (signal %d) modified by a first same_start" % master)
    ctx.lib(cl.same_start, **kwargs)
    after = []
    for j in range(nsig):
        v = cl.values_by_index(j)
        ctx.check(isinstance(v, np.ndarray) and v.ndim == 1, "values of signal %d are %s after same_start" % (j, type(v).__name__))
        ctx.check(len(v) == lens[j] and cl.signal_by_index(j).npts == lens[j],
                  "length of signal %d changed from %d to %d" % (j, lens[j], len(v)))
        ctx.finite(v, "values of signal %d after same_start" % j)
        after.append(np.array(v, dtype=float))
    ctx.equal(after[master], before[master], "master (signal %d) modified by same_start" % master)
    scale = max(max(float(np.max(np.abs(b))), float(np.max(np.abs(a)))) for b, a in zip(before, after))
    tol = 1e-12 * scale
    # slaves changed only by a constant
    for j in range(nsig):
        if j == master:
            continue
        d = after[j].astype(LD) - before[j].astype(LD)
        bound = 4 * EPS * (np.abs(before[j]) + np.abs(after[j]) + abs(before[j][0]) + abs(after[j][0]))
        ctx.close(d, np.full(lens[j], d[0]), bound, "signal %d: change by same_start is not one constant" % j)
    # section averages
    best = None
    pre_diff = 0.0
    for s in scands:
        for e in ecands:
            if s > e:
                continue
            mm = np.mean(after[master][s:e + 1].astype(LD))
            worst = 0.0
            for j in range(nsig):
                if j == master:
                    continue
                worst = max(worst, abs(float(np.mean(after[j][s:e + 1].astype(LD)) - mm)))
                pre_diff = max(pre_diff, abs(float(np.mean(before[j][s:e + 1].astype(LD)) - np.mean(before[master][s:e + 1].astype(LD)))))
            if best is None or worst < best[0]:
                best = (worst, s, e)
    ctx.nt(pre_diff > 1e-9 * scale)
    if not best[0] <= tol:
        worst, s, e = best
        mm = float(np.mean(after[master][s:e + 1].astype(LD)))
        parts = ", ".join("signal %d: %r" % (j, float(np.mean(after[j][s:e + 1].astype(LD)))) for j in range(nsig) if j != master)
        ctx.fail("same_start(%s) with master %d of %d signals: section averages over samples %d..%d: master %r, %s "
                 "(largest difference %.3g > tol %.3g)" % (
                     ", ".join("%s=%r" % kv for kv in sorted(kwargs.items())), master, nsig, s, e, mm, parts, worst, tol))


# ---------------------------------------------------------------------------
# mid-range sizes and products (DESIGN 8.5: a code path that only exists inside a window of record lengths / of a product of two
# dimensions - a blocked, streamed, cached or decimated variant - is invisible to generators that stop at 300 samples)

_MID_DTS = (0.005, 0.01, 0.02, 0.004)
_MID_AS = [None, "int16", "int", "list", "view", "intlist"]


def _mid_combine_enum(tier, shard, nshards):
    sizes = _mid_sizes(tier, 2000, 300000, 2000000, 12, "c18-combine")
    for i, n in enumerate(sizes):
        if i % nshards != shard:
            continue
        h = _hh(gen.run_seed(), "mc", n)
        a1 = _MID_AS[(h >> 4) % 6] if n <= 400000 else None
        a2 = _MID_AS[(h >> 8) % 6] if n <= 400000 else None
        ang = [37.3, -211.25, 90, 1234.5, 0.5, 180, -45.0, 359.999][(h >> 12) % 8] + ((h >> 20) % 1000) / 997.0 * ((h >> 16) % 2)
        yield {"ns": _mid_spec(n, "mc-ns", as_=a1, amp=(2 if a1 in _INT_AS else 0)), "we": _mid_spec(n, "mc-we", as_=a2, amp=(2 if a2 in _INT_AS else 0)),
               "dt": _MID_DTS[h % 4], "angle": ang, "comp": ["acc", "sig"][(h >> 30) % 2]}


@enum_clause(CLAUSES, "mid-range-combine", _mid_combine_enum,
             rule="record lengths on a logarithmic ladder 2000..300000 (thorough: ..2e6, three times as dense) + lengths aimed at the integer "
                  "literals of the source under test; ordinary records (noise x envelope / sines / walk, non-zero mean) as float64 / int64 / "
                  "list / strided view; AccSignal or Signal components; angles by hash (integer, fractional, > 360, negative)",
             oracle="as clause combine, every sample: long-double ns*cos+we*sin, theta+180, theta = 0 and 90",
             exhaustive_note="the laddered lengths of this seed", quick_shards=4)
def mid_range_combine(case, ctx):
    combine(case, ctx)


_MID_MEASURES = [("parameter", "pga"), ("func", "running_sum"), ("parameter", "pgv"), ("parameter", "arias_intensity"),
                 ("func", "last_sample"), ("parameter", "values"), ("parameter", "pgd"), ("func", "cav"), ("func", "tuple_series"),
                 ("parameter", "velocity"), ("func", "peak_signed"), ("func", "arias_series")]


def _mid_rotated_enum(tier, shard, nshards):
    hi = 1.2e7 if tier == "quick" else 1e8
    pairs = gen.product_pairs(1e5, hi, 9 if tier == "quick" else 24, (2, 6000), (60, 300000 if tier == "quick" else 1500000), "c18-rot")
    # + the length dimension alone (few angles) and the angle dimension alone (short records)
    pairs += [(2 + _hh(gen.run_seed(), "rp", n) % 5, n) for n in _mid_sizes(tier, 2000, 300000, 1500000, 6, "c18-rot-n")]
    pairs += [(p, 40 + _hh(gen.run_seed(), "rn", p) % 200) for p in gen.size_ladder(50, 6000, 6, "c18-rot-p")]
    for i, (points, n) in enumerate(pairs):
        if i % nshards != shard:
            continue
        h = _hh(gen.run_seed(), "mr", points, n)
        how, name = _MID_MEASURES[(i + gen.run_seed()) % len(_MID_MEASURES)]
        if name in ARRAY_PARAMS and points * n > 4e6:
            how, name = "parameter", "pgv"  # (points x n result array)
        yield {"ns": _mid_spec(n, "mr-ns"), "we": _mid_spec(n, "mr-we"), "dt": _MID_DTS[h % 4], "how": how, "name": name,
               "form": ["kw", "pos"][(h >> 4) % 2], "off": [0.0, 33.5, -270.0, 400.25][(h >> 8) % 4], "points": int(points),
               "pick": int(h % (2 ** 31 - 1))}


def _seam_indices(m, pick, limit=40):
    """Indices into range(m) to look at when not all can be: the first two, the last two, those that are 0, 1 or -1 modulo 2^k
    (k = 5..12: the seams of any power-of-two block size) and some chosen by hash - at most `limit` (hash-selected)."""
    idx = {0, 1, m - 2, m - 1}
    for k in range(5, 13):
        b = 2 ** k
        for j in range(b, m, b):
            idx.update((j - 1, j, j + 1))
    rs = np.random.RandomState(pick)
    idx.update(int(v) for v in rs.randint(0, m, 12))
    idx = sorted(v for v in idx if 0 <= v < m)
    if len(idx) > limit:
        keep = {0, 1, m - 2, m - 1}
        rest = [v for v in idx if v not in keep]
        rs.shuffle(rest)
        idx = sorted(keep | set(rest[:limit - len(keep)]))
    return [v for v in idx if 0 <= v < m]


@enum_clause(CLAUSES, "mid-range-rotated", _mid_rotated_enum,
             rule="(points, n) pairs whose PRODUCT is laddered over 1e5..1.2e7 (thorough: ..1e8) with a hash-chosen split (points 2..6000, "
                  "n 60..300000) + products aimed at integer literals of the source; + lengths 2000..300000 with 2-6 angles; + 50..6000 "
                  "angles on short records; measures rotate through scalar and array-valued parameter names and callables",
             oracle="as clause rotated: ALL returned angles against the exact rational reference; values at a sample of angles (first two, "
                    "last two, every index that is 0, 1, -1 modulo 2^5..2^12, twelve by hash; at most 40) against the measure of the "
                    "public combination at that angle and, for sup-norm measures / 'values', the long-double formula",
             exhaustive_note="the laddered products of this seed", quick_shards=4)
def mid_range_rotated(case, ctx):
    ctx.cls("points*n>=2^%d" % int(math.log2(case["points"] * case["ns"]["n"])))
    _rotated_check(case, ctx, sample=_seam_indices(case["points"], case["pick"]))


def _mid_tm_enum(tier, shard, nshards):
    sizes = _mid_sizes(tier, 120, 150000, 600000, 12, "c18-tm")
    for i, n in enumerate(sizes):
        if i % nshards != shard:
            continue
        h = _hh(gen.run_seed(), "mt", n)
        # the pinned search costs 2 * steps * n Python-level additions per slave
        steps = 2 + (h >> 4) % (63 if n <= 20000 else (19 if n <= 60000 else 11))
        steps = min(steps, max(2, n // 8))
        nsig = 2 + (h >> 12) % (3 if n <= 60000 else 2)
        master = (h >> 16) % nsig
        lags = [[steps - 1, -(steps - 1), 1, -((h >> 24) % steps), (h >> 28) % steps][((h >> 20) + j) % 5] for j in range(nsig)]
        lags[master] = 0
        kind = ["normal", "perm", "normal"][(h >> 32) % 3]
        case = {"nsig": nsig, "master": master, "steps": steps, "lens": [int(n) + ((h >> 36) % 7) * j * ((h >> 40) % 2) for j in range(nsig)],
                "lags": lags, "kind": kind, "seed": int(h % (2 ** 31 - 1)), "fill": ["window", "rand", "edge"][(h >> 44) % 3],
                "stype": ["custom", "acc", "mixed"][(h >> 48) % 3], "dt": _MID_DTS[h % 4], "again": True}
        if kind == "perm":
            case["as"] = _TM_AS[(h >> 52) % 8]
            pool = (nsig + 1) * (max(case["lens"]) + 2 * steps)
            if case["as"] == "int16" and pool // 2 + 1 > 32767:
                case["as"] = "int32"  # (more distinct values than int16 holds)
        elif (h >> 52) % 2:
            case["noise"] = -6 + (h >> 56) % 4
        yield case


@enum_clause(CLAUSES, "mid-range-time-match", _mid_tm_enum,
             rule="record lengths on a logarithmic ladder 120..150000 (thorough: ..600000, denser) + lengths aimed at the integer literals of "
                  "the source; search window 2..64 (narrower for the longest records: the pinned search is a Python loop), 2-4 signals, "
                  "any master, lags at the extremes +-(steps-1) and by hash, equal and slightly unequal lengths; exact copies (float / int64 / "
                  "int list / list) and noisy copies (1e-6..1e-3)",
             oracle="as clause time-match over the WHOLE overlap; then a second time_match on the same cluster (records >= 8 x steps): "
                    "the lag is gone, nothing may move any more",
             exhaustive_note="the laddered lengths of this seed", quick_shards=4)
def mid_range_time_match(case, ctx):
    ctx.cls("n>=2^%d" % int(math.log2(min(case["lens"]))))
    _tm_check(case, ctx)


def _mid_ss_enum(tier, shard, nshards):
    sizes = _mid_sizes(tier, 2000, 300000, 2000000, 12, "c18-ss")
    for i, n in enumerate(sizes):
        if i % nshards != shard:
            continue
        h = _hh(gen.run_seed(), "ms", n)
        nsig = 2 + (h >> 4) % 3
        master = (h >> 8) % nsig
        dt = [1.0, 0.005, 0.01, 0.02, 0.004, 0.0125][(h >> 12) % 6]
        lens = [int(n) + ((h >> 16) % 2) * ((h >> 20) % 50) * j for j in range(nsig)]
        u1, u2 = ((h >> 24) % 10 ** 4) / 1e4, ((h >> 40) % 10 ** 4) / 1e4
        # sections: short at the start, long in the middle, the whole record - by hash; edges on and between samples
        kind = (h >> 56) % 4
        if kind == 0:
            si, ei = 0, int(1 + u2 * min(n - 1, 400))
        elif kind == 1:
            si, ei = 0, n - 1
        else:
            si = int(u1 * (n - 2))
            ei = si + int(u2 * (n - 1 - si))
        fs, fe = [0.0, 0.0, 0.5, 0.25][(h >> 58) % 4], [0.0, 0.75, 0.0, 0.5][(h >> 60) % 4]
        if ei == n - 1:
            fe = 0.0
        specs = []
        for j in range(nsig):
            a = _MID_AS[((h >> 30) + j) % 6] if lens[j] <= 400000 else None
            specs.append(_mid_spec(lens[j], "ms%d" % j, as_=a, amp=(2 if a in _INT_AS else 0)))
        yield {"sigs": specs, "offsets": [float((h >> (3 * j)) % 17) - 8.0 if j != master else 0.0 for j in range(nsig)], "master": int(master),
               "stype": ["custom", "acc", "mixed", "default"][(h >> 50) % 4], "mode": "window", "dt": dt,
               "start": (si + fs) * dt, "end": (ei + fe) * dt}


@enum_clause(CLAUSES, "mid-range-same-start", _mid_ss_enum,
             rule="record lengths on a logarithmic ladder 2000..300000 (thorough: ..2e6, denser) + lengths aimed at the integer literals of the "
                  "source; 2-4 ordinary records (float64 / int64 / list / strided view, equal or slightly unequal lengths) with offsets, any "
                  "master; sections: a short one at the start, the whole record, or a hash-placed window, edges on and between samples; "
                  "dt = 1 (index-like) and the repo's rates",
             oracle="as clause same-start: long-double section means over one of the (narrowed) candidate sample ranges, master unchanged, "
                    "slaves changed by one constant, lengths unchanged",
             exhaustive_note="the laddered lengths of this seed", quick_shards=4)
def mid_range_same_start(case, ctx):
    same_start(case, ctx)
