"""C09 - cumulative intensity measures: definition, monotonicity, scaling laws, standardised CAV."""
import math

import numpy as np
from hypothesis import strategies as st

import eqsig
from eqsig import im

from pbt import gen
from pbt.core import clause, enum_clause, case_hash

PROPERTY = "C09"
CLAUSES = []
ASSUMPTIONS = [
    "records are finite float64 (series / final-value also integer-dtype and list variants), 2 <= n <= 5000 "
    "(cav-dp: up to 13000 samples), |a| <= 1e9, dt in [1e-4, 2]",
    "series / final-value hand the time step over as a Python float, np.float64, np.float32 or a 0-d array of either precision; "
    "a single-precision step is taken at its exact double value (the step the caller supplied), so the defining integrals "
    "use float(np.float32(dt))",
    "final-value repeats every check after the object's own in-place corrections (zero residual velocity, displacement "
    "rebasing, rolling-average removal on the record and on the velocity); which records a correction accepts is not asserted",
    "'v' in the statement is the object's velocity series (its correctness is C08); it is re-checked here against a "
    "long-double cumulative trapezoid of the record so that the velocity-based measures stay anchored to the record",
    "'rectangle sums' for the |a| and |v| integrals: the sum over all samples (what the code does), or the left or the right "
    "rectangle rule is accepted for the final value; the first value must be the one belonging to the accepted variant "
    "(|a0|*dt for the all-samples sum, 0 otherwise)",
    "rounding bound for a sequentially accumulated sum of k terms: eps*(k+8)*sum|terms| (standard recursive-summation "
    "bound, eps = 2u, leaves a factor >= 2); for unit kinetic energy the differences are formed from rounded 0.5*v*|v|, so "
    "their magnitudes sum(|ke_i|+|ke_i-1|) enter the bound as well",
    "exact (==) power-of-two scaling is asserted only when every non-zero |a_i| lies in [1e-60, 1e60] (no gradual underflow "
    "of squares); other cases use the derived rounding bound",
    "zero-padding law: only the acceleration-based quadrature measures (Arias, CAV, integral of |a|); the record's last "
    "sample is forced to 0 before padding; standardised CAV is excluded because padding can complete a partial last window",
    "standardised CAV: g = 9.81, dt = fl(1/ns) for an integer rate ns in 1..1000; one-second windows are the sample ranges "
    "[w*ns, (w+1)*ns] (closed) for w < (npts-1)//ns, i.e. every window that lies completely inside the record; records have "
    "at least two complete windows; a record of exactly k seconds (npts = k*ns+1) has k windows",
    "standardised CAV: its length and monotonicity are checked in clause cav-dp (its domain differs from the other series); "
    "the statement fixes length, monotonicity, range and the final value; the time alignment of the "
    "interpolated series is not asserted.  'Between 0 and CAV/9.81' is asserted for the final value against calc_cav's "
    "final value (relative 1e-9)",
    "standardised CAV gate: a window whose max|a|/9.81 is within 1e-9 (relative) of 0.025 is ambiguous and may count or not "
    "(bracket check); relative tolerance 1e-9 on the bracket covers the library's use of rounded time stamps as abscissae "
    "(<= 2*eps*t_end/dt ~ 6e-12) and summation rounding (<= (n+8)*eps ~ 3e-12)",
]
EPS = np.finfo(float).eps
LD = np.longdouble
G = 9.81
GATE = 0.025

# name, function, input ('acc' | 'vel'), homogeneity degree under a -> alpha*a
MEASURES = [
    ("arias", im.calc_arias_intensity, "acc", 2),
    ("cav", im.calc_cav, "acc", 1),
    ("abs_acc", im.calc_integral_of_abs_acceleration, "acc", 1),
    ("isv", im.calc_isv, "vel", 2),
    ("abs_vel", im.calc_integral_of_abs_velocity, "vel", 1),
    ("cad", im.calc_cumulative_abs_displacement, "vel", 1),
    ("uke", im.calc_unit_kinetic_energy, "vel", 2),
]
PADDED = ("arias", "cav", "abs_acc")


# ---------------------------------------------------------------------------
# reference model (long double, panel by panel from the statement)


def _panels(y, dt):
    """Trapezoid panels dt*(y_i + y_i+1)/2 of a long-double series."""
    if len(y) < 2:
        return np.zeros(0, dtype=LD)
    return LD(dt) * (y[1:] + y[:-1]) / 2


def _ref_velocity(a, dt):
    """Cumulative trapezoid of the record + rounding bound of a double-precision running sum."""
    inc = _panels(a.astype(LD), dt)
    v = np.concatenate([[LD(0)], np.cumsum(inc)])
    k = np.arange(1, len(inc) + 1, dtype=float)
    bound = np.concatenate([[0.0], EPS * (k + 4) * np.cumsum(np.abs(np.asarray(inc, dtype=float)))])
    return v, bound


def _reference(a, v, dt):
    """Final value of every quadrature-defined measure -> {name: [(variant, value, tol), ...]}.

    a: record (float64), v: velocity series the measures are built on (float64).
    """
    n = len(a)
    al = a.astype(LD)
    vl = v.astype(LD)
    h = LD(dt)
    out = {}
    s = _panels(al * al, dt).sum()
    c = LD(math.pi) / (2 * LD(G))
    out["arias"] = [("trapezoid", c * s, EPS * (n + 8) * float(c * s))]
    s = _panels(np.abs(al), dt).sum()
    out["cav"] = [("trapezoid", s, EPS * (n + 8) * float(s))]
    s = _panels(vl * vl, dt).sum()
    out["isv"] = [("trapezoid", s, EPS * (n + 8) * float(s))]
    for name, y in (("abs_acc", np.abs(al)), ("abs_vel", np.abs(vl))):
        terms = h * y
        alls = terms.sum()
        tol = EPS * (n + 8) * float(alls)
        out[name] = [("all-samples", alls, tol), ("left", terms[:-1].sum(), tol), ("right", terms[1:].sum(), tol)]
    out["cad"] = out["abs_vel"]
    ke = vl * np.abs(vl) / 2
    d = np.abs(ke[1:] - ke[:-1])
    s = np.abs(ke[0]) + d.sum()
    mags = float((np.abs(ke[1:]) + np.abs(ke[:-1])).sum() + np.abs(ke[0]))
    out["uke"] = [("sum|d(0.5 v|v|)|", s, EPS * (2 * mags + (n + 8) * float(s)))]
    return out


def _first_value(name, variant, a, dt):
    if name == "abs_acc" and variant == "all-samples":
        return abs(float(a[0])) * dt
    return 0.0


def _match_final(ctx, name, got, refs, what=""):
    """The final value must equal one of the accepted variants; returns the labels of all variants it matches."""
    hits = [variant for variant, val, tol in refs if abs(LD(got) - val) <= tol + 1e-290]
    if hits:
        return hits
    variant, val, tol = refs[0]
    ctx.fail("%s%s: final value %r, expected %r (%s; |diff|=%.3e > tol=%.3e)" % (
        name, what, float(got), float(val), variant, float(abs(LD(got) - val)), tol))


# ---------------------------------------------------------------------------
# shared helpers


def _cases_basic(allow_int=True, max_n=5000):
    @st.composite
    def cases(draw):
        if max_n >= 5000 and draw(st.integers(0, 39)) == 0:
            # very long records (tens of minutes at 100-200 Hz)
            spec = draw(gen.record_specs(min_n=60000, max_n=150000, kinds=["noise", "quake", "walk", "sines"], allow_zero_runs=False))
        else:
            spec = draw(gen.record_specs(min_n=2, max_n=max_n, allow_int=allow_int))
        # how the time step is handed over: Python float, NumPy scalar or 0-d array, double or single precision
        # (a float32 step read from a binary header IS the step: the oracle uses its exact double value)
        dtv = draw(st.sampled_from(["py", "py", "np64", "f32", "0d32", "0d64"]))
        return {"rec": spec, "dt": draw(gen.dts(1e-4, 2.0)), "dtv": dtv}
    return cases()


def _dt(case):
    """-> (time step as handed to the library, its exact value as a Python float)."""
    dt = case["dt"]
    dtv = case.get("dtv", "py")
    if dtv == "np64":
        return np.float64(dt), dt
    if dtv == "f32":
        return np.float32(dt), float(np.float32(dt))
    if dtv == "0d32":
        return np.array(dt, dtype=np.float32), float(np.float32(dt))
    if dtv == "0d64":
        return np.array(dt, dtype=np.float64), dt
    return dt, dt


def _record(case):
    spec = case["rec"]
    arg = gen.as_container(spec, gen.build(spec))
    a = np.array(arg, dtype=float)  # what the library sees (the int variant rounds)
    return arg, a


def _classify(ctx, spec, a, v=None):
    ctx.cls("kind=" + spec["k"], gen.size_class(len(a)))
    if spec.get("as"):
        ctx.cls("as=" + spec["as"])
    if not np.any(a != 0):
        ctx.cls("zero-record")
    if v is not None and gen.sign_changes(v) >= 1:
        ctx.cls("v-changes-sign")
    ctx.nt(gen.sign_changes(a) >= 2)


def _series(ctx, fn, asig, name):
    return np.asarray(ctx.lib(fn, asig))


# ---------------------------------------------------------------------------
# clause 1: length, monotonicity, first value


@clause(CLAUSES, "series", _cases_basic(), quick=600, thorough=2500,
        rule="records of all kinds (n 2..5000; float, integer-dtype and list containers), dt log-uniform [1e-4,2] + repo rates; "
             "seven series per case (Arias, CAV, ISV, integral |a|, integral |v|, cumulative abs displacement, unit kinetic "
             "energy); non-trivial = record has >= 2 sign changes",
        oracle="reference model: length == npts, diff >= 0 (exact), values finite and >= 0, first value as defined "
               "(0; |a0|*dt or 0 for the rectangle sum of |a|), cumulative abs displacement identical to integral |v|",
        require={"v-changes-sign": 0.1, "n>512": 0.05}, min_nontrivial=0.1)
def series(case, ctx):
    arg, a = _record(case)
    dt_arg, dt = _dt(case)
    n = len(a)
    asig = ctx.lib(eqsig.AccSignal, arg, dt_arg)
    v = np.asarray(ctx.lib(lambda: asig.velocity), dtype=float)
    _classify(ctx, case["rec"], a, v)
    ctx.cls("dt=" + case.get("dtv", "py"))
    got = {}
    for name, fn, _inp, _deg in MEASURES:
        s = _series(ctx, fn, asig, name)
        got[name] = s
        ctx.shape(s, (n,), "%s series" % name)
        ctx.finite(s, "%s series" % name)
        d = np.diff(s)
        if np.any(d < 0):
            i = int(np.argmax(d < 0))
            ctx.fail("%s series decreases at %d: %r -> %r" % (name, i + 1, s[i], s[i + 1]))
        ctx.check(s[0] >= 0, "%s series starts below zero: %r" % (name, s[0]))
        if name == "abs_acc":
            f_all = abs(float(a[0])) * dt
            ctx.check(s[0] == 0 or abs(s[0] - f_all) <= EPS * f_all,
                      "abs_acc series starts at %r, expected |a0|*dt=%r (or 0 for a one-sided rectangle rule)" % (s[0], f_all))
        else:
            ctx.check(s[0] == 0, "%s series starts at %r, expected 0" % (name, s[0]))
    ctx.equal(got["cad"], got["abs_vel"], "cumulative abs displacement vs integral of |v|")


# ---------------------------------------------------------------------------
# clause 2: final value = defining quadrature


@clause(CLAUSES, "final-value", _cases_basic(), quick=600, thorough=2500,
        rule="same generator; non-trivial = record has >= 2 sign changes",
        oracle="reference model: long-double panel sums of the defining quadratures (pi/(2*9.81)*trapz(a^2), trapz|a|, "
               "trapz(v^2), sum|a|dt, sum|v|dt, sum|d(0.5 v|v|)|), bound eps*(n+8)*sum|terms|; velocity vs long-double "
               "cumulative trapezoid of the record",
        require={"v-changes-sign": 0.1, "n>512": 0.05, "dt=f32": 0.06, "after-rolling-average": 0.3}, min_nontrivial=0.1)
def final_value(case, ctx):
    arg, a = _record(case)
    dt_arg, dt = _dt(case)
    n = len(a)
    asig = ctx.lib(eqsig.AccSignal, arg, dt_arg)
    v = np.asarray(ctx.lib(lambda: asig.velocity), dtype=float)
    _classify(ctx, case["rec"], a, v)
    ctx.cls("dt=" + case.get("dtv", "py"))
    _final_checks(ctx, asig, a, dt, "")
    # the measures describe the record the signal holds NOW: repeat after the object's own in-place baseline corrections
    # (velocity and peaks were read above, so a stale cache would show)
    if n >= 3 and np.asarray(asig.values).dtype.kind == "f" and np.any(a) and np.all(np.abs(a) < 1e150):
        corrs = ["set_zero_residual_velocity", "rebase_displacement"]
        if n <= 3000:
            # rolling-average removal on the record itself / on the velocity (window of 3..9 samples), in a case-dependent order
            w = 3 + (n % 7)
            roll = [("remove_rolling_average", {"mtype": m, "freq_window": 1.0 / (dt * (w + 0.5))}) for m in ("acceleration", "velocity")]
            k = n % 3
            corrs = corrs[:k] + roll[:1] + corrs[k:] + roll[1:]
        for corr in corrs:
            kw = {}
            if isinstance(corr, tuple):
                corr, kw = corr
            try:
                getattr(asig, corr)(**kw)
            except Exception:  # noqa  (which records a correction accepts is not C09's business)
                break
            if kw:
                corr += "(%s)" % kw["mtype"]
                ctx.cls("after-rolling-average")
            cur = np.array(asig.values, dtype=float)
            if not np.all(np.isfinite(cur)):
                break
            ctx.cls("after-correction")
            _final_checks(ctx, asig, cur, dt, " after %s" % corr)


def _final_checks(ctx, asig, a, dt, tag):
    n = len(a)
    v = np.asarray(ctx.lib(lambda: asig.velocity), dtype=float)
    ctx.shape(v, (n,), "velocity" + tag)
    vref, vb = _ref_velocity(a, dt)
    ctx.close(v, vref, vb, "velocity vs long-double cumulative trapezoid" + tag)
    refs = _reference(a, v, dt)
    for name, fn, _inp, _deg in MEASURES:
        s = _series(ctx, fn, asig, name)
        ctx.shape(s, (n,), "%s series%s" % (name, tag))
        variants = _match_final(ctx, name, s[-1], refs[name], what=tag)
        firsts = [_first_value(name, variant, a, dt) for variant in variants]
        ctx.check(any(abs(s[0] - f0) <= EPS * abs(f0) for f0 in firsts), "%s%s: first value %r, expected %r (%s)" % (
            name, tag, s[0], firsts[0], variants[0]))


# ---------------------------------------------------------------------------
# clause 3: sign reversal, scaling, zero padding


@st.composite
def _law_cases(draw):
    spec = draw(gen.record_specs(min_n=2, max_n=3000, allow_int=False))
    case = {"rec": spec, "dt": draw(gen.dts(1e-4, 2.0))}
    if draw(st.booleans()):
        case["k2"] = draw(st.integers(-8, 8).filter(lambda k: k != 0))
        case["neg"] = draw(st.booleans())
    else:
        case["alpha"] = draw(gen.scalars())
    case["pad"] = draw(st.one_of(st.integers(0, 8), st.integers(0, 600)))
    return case


def _all_series(ctx, a, dt):
    asig = ctx.lib(eqsig.AccSignal, a, dt)
    out = {}
    for name, fn, _inp, _deg in MEASURES:
        out[name] = _series(ctx, fn, asig, name)
    return out, np.asarray(ctx.lib(lambda: asig.velocity), dtype=float)


@clause(CLAUSES, "laws", _law_cases(), quick=500, thorough=2000,
        rule="float records of all kinds (n 2..3000), alpha = +-2^k (k in -8..8, k != 0) or signed log-uniform on [1e-3,1e3], "
             "padding length 0..600 (small lengths favoured); non-trivial = record has >= 2 sign changes",
        oracle="metamorphic: a -> -a leaves all seven series bit-identical; a -> alpha*a multiplies them by alpha^2 / |alpha| "
               "(== for powers of two, otherwise final values within the derived rounding bound); appending zeros to the "
               "record with its last sample set to 0 leaves Arias / CAV / integral |a| unchanged on the original span and "
               "constant afterwards (==)",
        require={"pow2": 0.2, "general-alpha": 0.2, "pad>0": 0.4}, min_nontrivial=0.1)
def laws(case, ctx):
    a = gen.build(case["rec"])
    dt = case["dt"]
    n = len(a)
    _classify(ctx, case["rec"], a)
    base, v = _all_series(ctx, a, dt)
    for name in base:
        ctx.shape(base[name], (n,), "%s series" % name)
    # --- sign reversal
    flip, _ = _all_series(ctx, -a, dt)
    for name in base:
        ctx.equal(flip[name], base[name], "%s of the sign-reversed record" % name)
    # --- scaling
    nz = np.abs(a[a != 0])
    tiny = bool(len(nz) and (nz.min() < 1e-60 or nz.max() > 1e60))
    if tiny:
        ctx.cls("tiny-values")
    if "k2" in case:
        alpha = (-1.0 if case.get("neg") else 1.0) * 2.0 ** case["k2"]
        ctx.cls("pow2")
    else:
        alpha = float(case["alpha"])
        ctx.cls("general-alpha")
    b = alpha * a
    scaled, _vb = _all_series(ctx, b, dt)
    exact = "k2" in case and not tiny
    # rounding bounds for the general case (see ASSUMPTIONS): each side's own evaluation error + propagation through v
    if not exact:
        _vr, bva = _ref_velocity(a, dt)
        _vr2, bvb = _ref_velocity(b, dt)
        # b_i = alpha*a_i*(1+d_i), |d_i| <= u: the exact velocities differ by at most u*|alpha|*cumtrapz(|a|)
        inc = np.concatenate([[0.0], np.cumsum(np.asarray(_panels(np.abs(a).astype(LD), dt), dtype=float))])
        delta = bvb + abs(alpha) * bva + EPS * abs(alpha) * inc          # |v(b)_i - alpha v(a)_i|
        e2 = delta * (2 * abs(alpha) * np.abs(v) + delta)                  # |v(b)_i^2 - alpha^2 v(a)_i^2|
    for name, _fn, inp, deg in MEASURES:
        f = abs(alpha) ** deg
        want = f * base[name]
        if exact:
            ctx.equal(scaled[name], want, "%s of the record scaled by %r vs %s * series" % (
                name, alpha, "alpha^2" if deg == 2 else "|alpha|"))
            continue
        sa = float(base[name][-1])
        tol = EPS * (n + 8) * (float(scaled[name][-1]) + f * sa) + 8 * EPS * f * sa
        if name == "uke":
            ke = 0.5 * v * np.abs(v)
            tol += 4 * EPS * f * float(2 * np.sum(np.abs(ke)))
        if inp == "vel":
            tol += {"isv": dt * float(np.sum(e2)), "abs_vel": dt * float(np.sum(delta)), "cad": dt * float(np.sum(delta)),
                    "uke": float(np.sum(e2))}[name]
        ctx.check(abs(LD(scaled[name][-1]) - LD(f) * LD(sa)) <= tol + 1e-290,
                  "%s does not scale as %s: alpha=%r gives %r, expected %r (tol %.3e)" % (
                      name, "alpha^2" if deg == 2 else "|alpha|", alpha, float(scaled[name][-1]), f * sa, tol))
    # --- zero padding of a record that ends at zero
    p = int(case["pad"])
    ctx.cls("pad>0" if p > 0 else "pad=0")
    a0 = a.copy()
    a0[-1] = 0.0
    ref_asig = ctx.lib(eqsig.AccSignal, a0, dt)
    pad_asig = ctx.lib(eqsig.AccSignal, np.concatenate([a0, np.zeros(p)]), dt)
    for name, fn, _inp, _deg in MEASURES:
        if name not in PADDED:
            continue
        s0 = _series(ctx, fn, ref_asig, name)
        s1 = _series(ctx, fn, pad_asig, name)
        ctx.shape(s1, (n + p,), "%s of the padded record" % name)
        ctx.equal(s1[:n], s0, "%s on the original span after appending %d zeros" % (name, p))
        ctx.check(bool(np.all(s1[n:] == s0[-1])), "%s not constant over the %d appended zeros (final %r vs %r)" % (
            name, p, s1[-1], s0[-1]))


# ---------------------------------------------------------------------------
# clause 4: standardised CAV

COMMON_RATES = [1, 2, 4, 5, 8, 10, 20, 25, 40, 50, 64, 100, 125, 128, 200, 250, 256, 400, 500, 512, 1000]
# floating-point boundary families of "integer number of samples per second" (pure float predicates on dt = fl(1/ns)):
# the reciprocal of dt rounds below ns / the end time of a k-second record rounds below k
RECIP_DOWN = [ns for ns in range(1, 1001) if 1.0 / (1.0 / ns) < ns]
DUR_DOWN = [[ns, k] for ns in range(1, 1001) for k in range(2, 13) if (k * ns) * (1.0 / ns) < k]
RECIPE_KINDS = ["noise", "sines", "pulse", "step", "walk", "const", "quake"]

_gain = st.one_of(st.sampled_from([0.0, 0.5, 0.9, 0.999999, 1.0, 1.000001, 1.1, 2.0, 8.0]),
                  st.floats(0.0, 4.0, allow_nan=False))


@st.composite
def _cavdp_cases(draw):
    fam = draw(st.sampled_from(["any", "any", "any", "common", "recip-down", "dur-down"]))
    k = draw(st.integers(2, 12))
    mode = draw(st.sampled_from(["exact", "exact", "minus1", "plus1", "rand"]))
    if fam == "any":
        ns = draw(st.integers(1, 1000))
    elif fam == "common":
        ns = draw(st.sampled_from(COMMON_RATES))
    elif fam == "recip-down":
        ns = draw(st.sampled_from(RECIP_DOWN))
    else:
        ns, k = draw(st.sampled_from(DUR_DOWN))
        mode = "exact"
    if mode == "exact":
        n = k * ns + 1                       # exactly k seconds
    elif mode == "minus1":
        n = (k + 1) * ns                     # one sample short of closing window k+1
    elif mode == "plus1":
        n = k * ns + 2
    else:
        n = k * ns + 1 + draw(st.integers(0, max(0, ns - 1)))
    kinds = None if n <= 64 else RECIPE_KINDS
    spec = draw(gen.record_specs(min_n=n, max_n=n, small_max=n, kinds=kinds, allow_zero_runs=False, amp_lo=0, amp_hi=0))
    nwin = (n - 1) // ns + 1
    gains = draw(st.lists(_gain, min_size=nwin, max_size=nwin))
    return {"ns": ns, "rec": spec, "gains": gains, "norm": draw(st.booleans())}


def _cavdp_record(case):
    """Record whose window maxima sit around 0.025 g: the base record is normalised to unit peak (globally, or per
    one-second chunk when case['norm']) and chunk w is multiplied by gains[w]*0.025*9.81."""
    ns = int(case["ns"])
    a = gen.build(case["rec"]).copy()
    n = len(a)
    gains = list(case["gains"])
    if case.get("norm"):
        for w in range((n + ns - 1) // ns):
            m = np.max(np.abs(a[w * ns:(w + 1) * ns]))
            if m > 0:
                a[w * ns:(w + 1) * ns] /= m
    else:
        m = np.max(np.abs(a))
        if m > 0:
            a = a / m
    idx = np.minimum(np.arange(n) // ns, len(gains) - 1)
    return a * np.array(gains, dtype=float)[idx] * (GATE * G)


def _cavdp_bracket(a, ns, dt):
    """[lo, hi] for the final standardised CAV from the statement + per-window gate states (True/False/None=ambiguous)."""
    n = len(a)
    nwin = (n - 1) // ns
    g = np.abs(a.astype(LD)) / LD(G)
    lo = LD(0)
    hi = LD(0)
    states = []
    for w in range(nwin):
        seg = g[w * ns:(w + 1) * ns + 1]
        pan = _panels(seg, dt)
        full = pan.sum()
        peak = float(seg.max())
        if abs(peak / GATE - 1.0) < 1e-9:
            states.append(None)
            hi += full
        elif peak >= GATE:
            states.append(True)
            hi += full
            lo += full - pan[-1]
        else:
            states.append(False)
    return lo, hi, states


@clause(CLAUSES, "cav-dp", _cavdp_cases(), quick=700, thorough=2500,
        rule="dt = 1/ns, ns uniform on 1..1000 + common rates + the float boundary families (1/dt rounds below ns; k*ns*dt "
             "rounds below k); 2..12 complete seconds, length exactly k seconds / one sample short of the next window / one "
             "over / random; base record of any kind normalised (globally or per second) and multiplied per one-second chunk "
             "by a gain in {0,.5,.9,1-1e-6,1,1+1e-6,1.1,2,8} or U(0,4) times 0.025 g; "
             "non-trivial = at least one qualifying and one non-qualifying window",
        oracle="reference model: windows [w*ns,(w+1)*ns], gate max|a|/9.81 >= 0.025 (1e-9 band ambiguous), final value in "
               "[sum(full - last panel), sum full] over qualifying windows (rel 1e-9); all zero when no window can qualify; "
               "length, diff >= 0, 0 <= final <= CAV/9.81; bit-identical for the sign-reversed record",
        require={"recip-rounds-down": 0.03, "exact-duration": 0.25, "dur-rounds-down": 0.04, "mixed-gates": 0.3,
                 "none-qualify": 0.05, "common-rate": 0.08},
        min_nontrivial=0.3)
def cav_dp(case, ctx):
    ns = int(case["ns"])
    dt = 1.0 / ns
    a = _cavdp_record(case)
    n = len(a)
    nwin = (n - 1) // ns
    if nwin < 2:
        raise ValueError("case outside the domain: fewer than two complete seconds")
    lo, hi, states = _cavdp_bracket(a, ns, dt)
    # classes
    ctx.cls("kind=" + case["rec"]["k"], "ns<=10" if ns <= 10 else ("ns<=100" if ns <= 100 else "ns<=1000"))
    if ns in COMMON_RATES:
        ctx.cls("common-rate")
    if 1.0 / dt < ns:
        ctx.cls("recip-rounds-down")
    if (n - 1) % ns == 0:
        ctx.cls("exact-duration")
        if (n - 1) * dt < nwin:
            ctx.cls("dur-rounds-down")
    elif n % ns == 0:
        ctx.cls("one-short-of-window")
    if None in states:
        ctx.amb()
        ctx.cls("gate-ambiguous")
    yes = states.count(True)
    no = states.count(False)
    ctx.cls("mixed-gates" if yes and no else ("all-qualify" if yes and not no else ("none-qualify" if not yes else None)))
    ctx.nt(bool(yes and no))

    asig = ctx.lib(eqsig.AccSignal, a, dt)
    s = np.asarray(ctx.lib(im.calc_cav_dp, asig))
    ctx.shape(s, (n,), "standardised CAV series")
    ctx.finite(s, "standardised CAV series")
    d = np.diff(s)
    if np.any(d < 0):
        i = int(np.argmax(d < 0))
        ctx.fail("standardised CAV series decreases at %d: %r -> %r" % (i + 1, s[i], s[i + 1]))
    ctx.check(s[0] >= 0, "standardised CAV series starts below zero: %r" % s[0])
    final = float(s[-1])
    if hi == 0:
        ctx.check(not np.any(s), "no one-second window reaches 0.025 g but standardised CAV is %r" % final)
    tol = 1e-9 * float(hi)
    if not (lo - tol <= final <= hi + tol):
        ctx.fail("standardised CAV %r outside [%r, %r] (ns=%d, npts=%d, %d windows: %d qualify, %d ambiguous)" % (
            final, float(lo), float(hi), ns, n, nwin, yes, states.count(None)))
    cav = np.asarray(ctx.lib(im.calc_cav, asig))
    ctx.check(0 <= final <= float(cav[-1]) / G * (1 + 1e-9), "standardised CAV %r not in [0, CAV/9.81 = %r]" % (
        final, float(cav[-1]) / G))
    s2 = np.asarray(ctx.lib(im.calc_cav_dp, ctx.lib(eqsig.AccSignal, -a, dt)))
    ctx.equal(s2, s, "standardised CAV of the sign-reversed record")


# ---------------------------------------------------------------------------
# very long records (continuous monitoring): lengths around 2^20


def _giant_enum(tier, shard, nshards):
    ns = [2 ** 20 + 6000] if tier == "quick" else [2 ** 20 - 1, 2 ** 20 + 2, 2 ** 20 + 6000, 2 ** 21 + 5]
    for i, n in enumerate(ns):
        if i % nshards == shard:
            yield {"n": n, "dt": 0.005, "seed": 21 + i}


@enum_clause(CLAUSES, "giant-records", _giant_enum,
             rule="fixed very long records (1-2 million samples): every quadrature-defined measure",
             oracle="reference model: long-double panel sums (same bounds as final-value); series length and exact monotonicity",
             exhaustive_note="the listed lengths", quick_shards=1)
def giant_records(case, ctx):
    n, dt = case["n"], case["dt"]
    a = np.random.RandomState(case["seed"]).standard_normal(n) * np.hanning(n) * 0.3 + 0.002
    ctx.nt(True)
    asig = ctx.lib(eqsig.AccSignal, a, dt)
    _final_checks(ctx, asig, a, dt, " (n=%d)" % n)
    for name, fn, _inp, _deg in MEASURES:
        sr = _series(ctx, fn, asig, name)
        ctx.check(bool(np.all(np.diff(sr) >= 0)), "%s series of a giant record is not non-decreasing" % name)
