"""C09 - cumulative intensity measures: definition, monotonicity, scaling laws, standardised CAV."""
import math

import numpy as np
from hypothesis import strategies as st

import eqsig
from eqsig import im

from pbt import gen
from pbt.core import clause, enum_clause

PROPERTY = "C09"
CLAUSES = []
ASSUMPTIONS = [
    "records are finite float64 (series / final-value / laws / mid-range also int64, int32, int16, int8 dtype - the narrow ones at the "
    "full range of the dtype with the most negative sample at the dtype's minimum, oracle at the exact values -, list, strided-view, "
    "negative-stride and read-only variants; float32 records are out of scope; standardised CAV takes float records only, its domain "
    "is tied to 0.025 g), 2 <= n <= 5000 drawn by Hypothesis plus "
    "60000..150000 (one case in 40), laddered lengths 2000..300000 (thorough 2 000 000) in the mid-range enumerations and "
    "2^20..2^21 in giant-records; |a| <= 1e9, dt in [1e-4, 2]",
    "series / final-value / laws / mid-range hand the time step over as a Python float, np.float64, np.float32 or a 0-d array of either "
    "precision; a single-precision step is taken at its exact double value (the step the caller supplied), so the defining "
    "integrals use float(np.float32(dt)); standardised CAV: Python float, np.float64 or 0-d float64 (a float32 step is an "
    "integer rate only for powers of two)",
    "final-value / mid-range-history repeat every check after the object's own in-place operations (value replacement with the same "
    "or another length, adding a constant / series / signal, mean / polynomial removal, Butterworth filter, zero residual "
    "velocity / displacement / both, displacement rebasing, rolling-average removal on the record and on the velocity, "
    "correct_me, regeneration of the velocity with the rectangle rule; 3-4 of them per case in a case-dependent order): the "
    "measures describe the record the signal holds NOW.  Which records an operation accepts is not asserted (an operation that "
    "raises ends the history)",
    "'v' in the statement is the object's velocity series (its exact rule and rounding bound are C08's claim).  Here it is only "
    "required to BELONG to the record the signal holds now: within 8 x C08's bound of the long-double cumulative trapezoid of "
    "the current record (left or right rectangle rule after generate_displacement_and_velocity_series(trap=False)), so that the "
    "velocity-based measures stay anchored to the record and every velocity C08 accepts passes",
    "'rectangle sums' for the |a| and |v| integrals: the sum over all samples (what the code does), or the left or the right "
    "rectangle rule is accepted for the final value (the statement does not say which; all three satisfy every law of the "
    "statement, so a switch between them cannot be told apart soundly)",
    "calc_cumulative_abs_displacement is documented as 'identical to integral of absolute velocity' and lies in the anchored "
    "lines: it is checked as a |v| integral on its own (length, monotone, final value); bit-equality with "
    "calc_integral_of_abs_velocity is not demanded",
    "intermediate values of a series are not fixed by the statement: asserted are length, finiteness, non-decreasing (exact), "
    "first value >= 0 (a cumulative integral of a non-negative integrand; the statement spells it out for standardised CAV) "
    "and the final value.  The laws (sign reversal, scaling, zero padding) are asserted on final values",
    "rounding bound for a sequentially accumulated sum of k terms: eps*(k+8)*sum|terms| (standard recursive-summation "
    "bound, eps = 2u, leaves a factor >= 2; pairwise / blocked summation is tighter); for unit kinetic energy the differences "
    "are formed from rounded 0.5*v*|v|, so their magnitudes sum(|ke_i|+|ke_i-1|) enter the bound as well",
    "exact (==) power-of-two scaling and sign reversal of the final values is asserted only when every non-zero |a_i| and every "
    "scaled |alpha a_i| lies in [1e-60, 1e60] (no gradual underflow of squares; every IEEE operation commutes with a power of "
    "two and with negation); other cases use the derived rounding bound.  Scale factors: +-2^k, |k| <= 40, and signed "
    "log-uniform on [1e-12, 1e12]",
    "zero-padding law: the acceleration-based quadrature measures (Arias, CAV, integral of |a|): the record's last sample is "
    "forced to 0 before padding; final values agree within the two rounding bounds; pad lengths 0..3000 (mid-range: to 100000). "
    "Standardised CAV: asserted only for records of a whole number of seconds (otherwise padding completes a partial last "
    "window and the sum over complete windows itself changes), final value within 1e-12 relative",
    "standardised CAV: g = 9.81, dt = fl(1/ns) for an integer rate ns in 1..10000; one-second windows are the sample ranges "
    "[w*ns, (w+1)*ns] (closed) for w < (npts-1)//ns, i.e. every window that lies completely inside the record; records have "
    "2..300 complete windows (mid-range: to 5000) and at most 40000 samples (mid-range: 300000 / 1500000); a record of exactly k "
    "seconds (npts = k*ns+1) has k windows; window peaks from 0 to 40 x 0.025 g",
    "standardised CAV: its length and monotonicity are checked in clause cav-dp (its domain differs from the other series); "
    "the statement fixes length, monotonicity, range and the final value; the time alignment of the "
    "interpolated series is not asserted.  'Between 0 and CAV/9.81' is asserted for the final value against the long-double "
    "trapezoid of |a| (relative 1e-9 + 8 eps n)",
    "standardised CAV gate: a window whose max|a|/9.81 is within 1e-9 (relative) of 0.025 is ambiguous and may count or not "
    "(bracket check; 0.025*9.81 is not a binary fraction, so no record has an exact tie and '>=' vs '>' is not decidable); "
    "relative tolerance 1e-9 + 8*eps*npts on the bracket covers the use of rounded time stamps as abscissae "
    "(<= 2*eps*t_end/dt = 2*eps*npts) and summation rounding (<= (npts+8)*eps)",
    "_raw_calc_arias_intensity (private, anchored) is called directly with an ndarray, a list and a 2-D array (rows = series, as "
    "cumulative_response_spectra does) when the tree under test has it; a tree without it is not a violation",
]
EPS = np.finfo(float).eps
LD = np.longdouble
G = 9.81
GATE = 0.025

# name, function, input ('acc' | 'vel'), homogeneity degree under a -> alpha*a
MEASURES = [
    ("arias", im.calc_arias_intensity, "acc", 2),
    ("cav", im.calc_cav, "acc", 1),
    ("abs_acc", im.calc_integral_of_abs_acceleration, "acc", 1),
    ("isv", im.calc_isv, "vel", 2),
    ("abs_vel", im.calc_integral_of_abs_velocity, "vel", 1),
    ("cad", im.calc_cumulative_abs_displacement, "vel", 1),
    ("uke", im.calc_unit_kinetic_energy, "vel", 2),
]
PADDED = ("arias", "cav", "abs_acc")


def _hu(*parts):
    """Uniform [0,1) from a hash of (VERIF_SEED, parts)."""
    return (gen._h(gen.run_seed(), "c09", *parts) % 10 ** 9) / 1e9


def _sd(*parts):
    return int(gen._h(gen.run_seed(), "c09seed", *parts) % (2 ** 31 - 1))


def _pick(seq, *parts):
    return seq[int(_hu(*parts) * len(seq)) % len(seq)]


def _deal(cases, shard, nshards):
    """Deal cases to shards so that the expensive ones are spread (sorted by cost, round robin)."""
    order = sorted(range(len(cases)), key=lambda i: -float(cases[i].get("cost", 0)))
    for rank, i in enumerate(order):
        if rank % nshards == shard:
            c = dict(cases[i])
            c.pop("cost", None)
            yield c


# ---------------------------------------------------------------------------
# reference model (long double, panel by panel from the statement)


def _panels(y, dt):
    """Trapezoid panels dt*(y_i + y_i+1)/2 of a long-double series."""
    if len(y) < 2:
        return np.zeros(0, dtype=LD)
    return LD(dt) * (y[1:] + y[:-1]) / 2


def _ref_velocity(a, dt, rule="trap"):
    """Cumulative integral of the record (trapezoid, or the left / right rectangle rule) + the bound within which the
    object's velocity must agree to count as the velocity of THIS record: 8 x the double-precision running-sum bound
    eps*(k+4)*sum|increments| that C08 asserts (C08 owns the rule and the tight bound; see ASSUMPTIONS)."""
    al = a.astype(LD)
    if rule == "trap":
        inc = _panels(al, dt)
    elif rule == "left":
        inc = LD(dt) * al[:-1]
    else:
        inc = LD(dt) * al[1:]
    v = np.concatenate([[LD(0)], np.cumsum(inc)])
    k = np.arange(1, len(inc) + 1, dtype=float)
    bound = np.concatenate([[0.0], 8 * EPS * (k + 4) * np.cumsum(np.abs(np.asarray(inc, dtype=float)))])
    return v, bound


def _reference(a, v, dt):
    """Final value of every quadrature-defined measure -> {name: [(variant, value, tol), ...]}.

    a: record (float64), v: velocity series the measures are built on (float64).
    """
    n = len(a)
    al = a.astype(LD)
    vl = v.astype(LD)
    h = LD(dt)
    out = {}
    s = _panels(al * al, dt).sum()
    c = LD(math.pi) / (2 * LD(G))
    out["arias"] = [("trapezoid", c * s, EPS * (n + 8) * float(c * s))]
    s = _panels(np.abs(al), dt).sum()
    out["cav"] = [("trapezoid", s, EPS * (n + 8) * float(s))]
    s = _panels(vl * vl, dt).sum()
    out["isv"] = [("trapezoid", s, EPS * (n + 8) * float(s))]
    for name, y in (("abs_acc", np.abs(al)), ("abs_vel", np.abs(vl))):
        terms = h * y
        alls = terms.sum()
        tol = EPS * (n + 8) * float(alls)
        out[name] = [("all-samples", alls, tol), ("left", terms[:-1].sum(), tol), ("right", terms[1:].sum(), tol)]
    out["cad"] = out["abs_vel"]
    ke = vl * np.abs(vl) / 2
    d = np.abs(ke[1:] - ke[:-1])
    s = np.abs(ke[0]) + d.sum()
    mags = float((np.abs(ke[1:]) + np.abs(ke[:-1])).sum() + np.abs(ke[0]))
    out["uke"] = [("sum|d(0.5 v|v|)|", s, EPS * (2 * mags + (n + 8) * float(s)))]
    return out


def _match_final(ctx, name, got, refs, what=""):
    """The final value must equal one of the accepted variants; returns the labels of all variants it matches."""
    hits = [variant for variant, val, tol in refs if abs(LD(got) - val) <= tol + 1e-290]
    if hits:
        return hits
    variant, val, tol = refs[0]
    ctx.fail("%s%s: final value %r, expected %r (%s; |diff|=%.3e > tol=%.3e)" % (
        name, what, float(got), float(val), variant, float(abs(LD(got) - val)), tol))


# ---------------------------------------------------------------------------
# shared helpers

DT_FORMS = ["py", "py", "np64", "f32", "0d32", "0d64"]
# record containers: int64, list, strided / reversed / read-only views, and the narrow integer dtypes of raw digitiser counts
# (gen.narrow_int: full range of the dtype, the most negative sample = the dtype's minimum; the oracle uses the exact values)
CONTAINERS = ["int", "list", "int", "list", "view", "negstride", "readonly", "int16", "int16", "int32", "int8"]


def _cases_basic(allow_int=True, max_n=5000):
    @st.composite
    def cases(draw):
        if max_n >= 5000 and draw(st.integers(0, 39)) == 0:
            # very long records (tens of minutes at 100-200 Hz)
            spec = draw(gen.record_specs(min_n=60000, max_n=150000, kinds=["noise", "quake", "walk", "sines"], allow_zero_runs=False))
        else:
            spec = draw(gen.record_specs(min_n=2, max_n=max_n, allow_int=CONTAINERS if allow_int else False))
        # how the time step is handed over: Python float, NumPy scalar or 0-d array, double or single precision
        # (a float32 step read from a binary header IS the step: the oracle uses its exact double value)
        dtv = draw(st.sampled_from(DT_FORMS))
        return {"rec": spec, "dt": draw(gen.dts(1e-4, 2.0)), "dtv": dtv, "ops": draw(st.integers(0, 2 ** 30))}
    return cases()


def _dt(case):
    """-> (time step as handed to the library, its exact value as a Python float)."""
    dt = case["dt"]
    dtv = case.get("dtv", "py")
    if dtv == "np64":
        return np.float64(dt), dt
    if dtv == "f32":
        return np.float32(dt), float(np.float32(dt))
    if dtv == "0d32":
        return np.array(dt, dtype=np.float32), float(np.float32(dt))
    if dtv == "0d64":
        return np.array(dt, dtype=np.float64), dt
    return dt, dt


def _record(case):
    spec = case["rec"]
    if spec.get("as") in gen.NARROW_DTYPES:
        return gen.narrow_int(gen.build(spec), spec["as"])   # (int16 / int32 / int8 container, its exact values)
    arg = gen.as_container(spec, gen.build(spec))
    a = np.array(arg, dtype=float)  # what the library sees (the int variant rounds)
    return arg, a


def _classify(ctx, spec, a, v=None):
    ctx.cls("kind=" + spec["k"], gen.size_class(len(a)))
    if spec.get("as"):
        ctx.cls("as=" + spec["as"])
    if not np.any(a != 0):
        ctx.cls("zero-record")
    if v is not None and gen.sign_changes(v) >= 1:
        ctx.cls("v-changes-sign")
    ctx.nt(gen.sign_changes(a) >= 2)


def _series(ctx, fn, asig, name):
    return np.asarray(ctx.lib(fn, asig))


def _series_checks(ctx, s, n, what):
    """What the statement fixes for every series besides its final value: the record's length, finite, non-decreasing (exact:
    'non-decreasing' is an order statement, not a numerical one), first value >= 0 (see ASSUMPTIONS)."""
    ctx.shape(s, (n,), what)
    ctx.finite(s, what)
    d = np.diff(s)
    if np.any(d < 0):
        i = int(np.argmax(d < 0))
        ctx.fail("%s decreases at %d: %r -> %r" % (what, i + 1, s[i], s[i + 1]))
    ctx.check(s[0] >= 0, "%s starts below zero: %r" % (what, s[0]))


# ---------------------------------------------------------------------------
# clause 1: length, monotonicity


@clause(CLAUSES, "series", _cases_basic(), quick=500, thorough=2500,
        rule="records of all kinds (n 2..5000, one in 40 with 60000..150000; float, int64-dtype, list, strided / read-only containers), "
             "dt log-uniform [1e-4,2] + repo rates in six forms; "
             "seven series per case (Arias, CAV, ISV, integral |a|, integral |v|, cumulative abs displacement, unit kinetic "
             "energy); non-trivial = record has >= 2 sign changes",
        oracle="reference model: length == npts, diff >= 0 (exact), values finite, first value >= 0",
        require={"v-changes-sign": 0.1, "n>512": 0.05}, min_nontrivial=0.1)
def series(case, ctx):
    arg, a = _record(case)
    dt_arg, dt = _dt(case)
    n = len(a)
    asig = ctx.lib(eqsig.AccSignal, arg, dt_arg)
    v = np.asarray(ctx.lib(lambda: asig.velocity), dtype=float)
    _classify(ctx, case["rec"], a, v)
    ctx.cls("dt=" + case.get("dtv", "py"))
    for name, fn, _inp, _deg in MEASURES:
        s = _series(ctx, fn, asig, name)
        _series_checks(ctx, s, n, "%s series" % name)


# ---------------------------------------------------------------------------
# clause 2: final value = defining quadrature

# in-place operations of the object after which every measure is re-checked
OPS = ["reset_values", "reset_values_len", "reset_values_int16", "add_constant", "add_series", "add_signal", "remove_average", "remove_poly",
       "butter_pass", "zero_res_vel", "zero_res_disp", "zero_res_disp_vel", "rebase", "roll_acc", "roll_vel", "correct_me",
       "regen_rect", "regen_trap"]
SLOW_OPS = ("roll_acc", "roll_vel", "correct_me")   # a Python loop over the record


def _apply_op(asig, op, rs, dt):
    """Apply one public in-place operation to the signal object.  Returns the velocity rule the object now uses when the
    operation fixes it ('rect' | 'trap'), else None (a mutation resets the object to its default rule)."""
    n = asig.npts
    if op == "reset_values":
        asig.reset_values(np.array(asig.values, dtype=float)[::-1] * 0.75 + 0.01 * rs.standard_normal(n))
    elif op == "reset_values_int16":
        # value replacement with raw digitiser counts (the object must hold and analyse their exact values)
        asig.reset_values(gen.narrow_int(np.array(asig.values, dtype=float)[::-1] + 0.3 * rs.standard_normal(n) * float(np.max(np.abs(asig.values))),
                                         "int16")[0])
    elif op == "reset_values_len":
        m = max(3, int(n * (0.5 + rs.uniform())))
        asig.reset_values(np.cumsum(rs.standard_normal(m)) / math.sqrt(m) + 0.05)
    elif op == "add_constant":
        asig.add_constant(float(rs.uniform(-0.5, 0.5)) * (float(np.max(np.abs(asig.values))) + 1e-3))
    elif op == "add_series":
        asig.add_series(0.3 * float(np.max(np.abs(asig.values))) * np.sin(np.arange(n) * 0.37 + 1.0))
    elif op == "add_signal":
        asig.add_signal(eqsig.AccSignal(0.2 * float(np.max(np.abs(asig.values))) * np.cos(np.arange(n) * 0.11), asig.dt))
    elif op == "remove_average":
        asig.remove_average()
    elif op == "remove_poly":
        asig.remove_poly(poly_fit=int(rs.randint(0, 3)))
    elif op == "butter_pass":
        fny = 0.5 / dt
        asig.butter_pass((None, 0.4 * fny) if rs.randint(0, 2) else (0.02 * fny, 0.5 * fny))
    elif op == "zero_res_vel":
        asig.set_zero_residual_velocity()
    elif op == "zero_res_disp":
        asig.set_zero_residual_displacement()
    elif op == "zero_res_disp_vel":
        asig.set_zero_residual_displacement_and_velocity()
    elif op == "rebase":
        asig.rebase_displacement()
    elif op in ("roll_acc", "roll_vel"):
        w = 3 + int(rs.randint(0, 7))
        asig.remove_rolling_average(mtype="acceleration" if op == "roll_acc" else "velocity", freq_window=1.0 / (dt * (w + 0.5)))
    elif op == "correct_me":
        asig.correct_me()
    elif op == "regen_rect":
        asig.generate_displacement_and_velocity_series(trap=False)
        return "rect"
    elif op == "regen_trap":
        asig.generate_displacement_and_velocity_series(trap=True)
        return "trap"
    else:
        raise ValueError(op)
    return None


def _history(ctx, asig, a, dt, seed, count, allow_slow):
    """Apply `count` operations (chosen and ordered by `seed`) and repeat the final-value checks after each one.
    The measures and the velocity were read before (a stale cache would show)."""
    n = len(a)
    if not (n >= 3 and np.asarray(asig.values).dtype.kind == "f" and np.any(a) and np.all(np.abs(a) < 1e150)):
        return
    rs = np.random.RandomState(seed % (2 ** 31 - 1))
    pool = [op for op in OPS if allow_slow or op not in SLOW_OPS]
    ops = [pool[int(i)] for i in rs.randint(0, len(pool), size=count)]
    if allow_slow and count >= 3:
        # the two rolling-average branches are part of most histories (they write the record in place)
        ops[int(rs.randint(0, count))] = "roll_acc"
        if rs.randint(0, 2):
            ops[int(rs.randint(0, count))] = "roll_vel"
    for op in ops:
        try:
            rule = _apply_op(asig, op, rs, dt)
        except Exception:  # noqa  (which records an operation accepts is not C09's business)
            break
        cur = np.array(asig.values, dtype=float)
        if cur.ndim != 1 or len(cur) < 2 or not np.all(np.isfinite(cur)) or not np.all(np.abs(cur) < 1e150):
            break
        ctx.cls("after-operation", "after-" + op)
        if op in ("roll_acc", "roll_vel"):
            ctx.cls("after-rolling-average")
        _final_checks(ctx, asig, cur, dt, " after %s" % op, rule=rule or "trap", key=seed)


@clause(CLAUSES, "final-value", _cases_basic(), quick=500, thorough=2000,
        rule="same generator; then 3-4 in-place operations of the object in a case-dependent order, every check repeated after each; "
             "non-trivial = record has >= 2 sign changes",
        oracle="reference model: long-double panel sums of the defining quadratures (pi/(2*9.81)*trapz(a^2), trapz|a|, "
               "trapz(v^2), sum|a|dt, sum|v|dt, sum|d(0.5 v|v|)|), bound eps*(n+8)*sum|terms|; the velocity the measures use "
               "belongs to the current record (8 x C08's bound of the long-double cumulative integral)",
        require={"v-changes-sign": 0.1, "n>512": 0.05, "dt=f32": 0.06, "after-rolling-average": 0.25, "after-operation": 0.5},
        min_nontrivial=0.1)
def final_value(case, ctx):
    arg, a = _record(case)
    dt_arg, dt = _dt(case)
    n = len(a)
    asig = ctx.lib(eqsig.AccSignal, arg, dt_arg)
    v = np.asarray(ctx.lib(lambda: asig.velocity), dtype=float)
    _classify(ctx, case["rec"], a, v)
    ctx.cls("dt=" + case.get("dtv", "py"))
    key = int(case.get("ops", n))
    _final_checks(ctx, asig, a, dt, "", key=key, raw_arg=arg, raw_dt=dt_arg)
    # the measures describe the record the signal holds NOW: repeat after the object's own in-place operations
    # (velocity and every measure were read above, so a stale cache would show)
    if "ops" in case:
        _history(ctx, asig, a, dt, key, 3 + key % 2, allow_slow=n <= 3000)
    else:
        _legacy_corrections(ctx, asig, a, dt)


def _legacy_corrections(ctx, asig, a, dt):
    """Cases recorded before the operation histories (regression corpus): the original corrections."""
    n = len(a)
    if n >= 3 and np.asarray(asig.values).dtype.kind == "f" and np.any(a) and np.all(np.abs(a) < 1e150):
        corrs = ["set_zero_residual_velocity", "rebase_displacement"]
        if n <= 3000:
            w = 3 + (n % 7)
            roll = [("remove_rolling_average", {"mtype": m, "freq_window": 1.0 / (dt * (w + 0.5))}) for m in ("acceleration", "velocity")]
            k = n % 3
            corrs = corrs[:k] + roll[:1] + corrs[k:] + roll[1:]
        for corr in corrs:
            kw = {}
            if isinstance(corr, tuple):
                corr, kw = corr
            try:
                getattr(asig, corr)(**kw)
            except Exception:  # noqa
                break
            if kw:
                corr += "(%s)" % kw["mtype"]
                ctx.cls("after-rolling-average")
            cur = np.array(asig.values, dtype=float)
            if not np.all(np.isfinite(cur)):
                break
            ctx.cls("after-operation")
            _final_checks(ctx, asig, cur, dt, " after %s" % corr)


def _final_checks(ctx, asig, a, dt, tag, rule="trap", key=0, raw_arg=None, raw_dt=None):
    """Every quadrature-defined measure of the signal object against the defining integral of the record `a` it holds.
    The order in which the velocity and the measures are read is case-dependent (`key`)."""
    n = len(a)
    order = list(range(len(MEASURES)))
    np.random.RandomState(key % (2 ** 31 - 1)).shuffle(order)
    got = {}
    v_first = key % 3 != 0
    if v_first:
        v = np.asarray(ctx.lib(lambda: asig.velocity), dtype=float)
    for j in order:
        name, fn, _inp, _deg = MEASURES[j]
        got[name] = _series(ctx, fn, asig, name)
    if not v_first:
        v = np.asarray(ctx.lib(lambda: asig.velocity), dtype=float)
    ctx.shape(v, (n,), "velocity" + tag)
    # the velocity the measures are built on must be the velocity of the record the signal holds now (see ASSUMPTIONS)
    fits = []
    for r in (["trap"] if rule == "trap" else ["left", "right"]):
        vref, vb = _ref_velocity(a, dt, r)
        fits.append((r, vref, vb, bool(np.all(np.abs(v.astype(LD) - vref) <= vb + 1e-290))))
    if not any(f[3] for f in fits):
        r, vref, vb, _ = fits[0]
        ctx.close(v, vref, vb, "velocity of the signal vs long-double cumulative integral of its record (%s rule)%s" % (r, tag))
    refs = _reference(a, v, dt)
    for name, fn, _inp, _deg in MEASURES:
        s = got[name]
        _series_checks(ctx, s, n, "%s series%s" % (name, tag))
        _match_final(ctx, name, s[-1], refs[name], what=tag)
    raw = getattr(im, "_raw_calc_arias_intensity", None)
    if raw is not None and raw_arg is not None:
        # the anchored array-level helper, called the way a user with a plain array (or list) would
        if isinstance(raw_arg, np.ndarray) and key % 2 and n <= 50000 and raw_arg.dtype.kind == "f":
            raw_arg = [float(x) for x in raw_arg]
        s = np.asarray(ctx.lib(raw, raw_arg, raw_dt))
        ctx.cls("raw-arias-list" if isinstance(raw_arg, list) else "raw-arias-array")
        _series_checks(ctx, s, n, "_raw_calc_arias_intensity series" + tag)
        _match_final(ctx, "arias(array-level)", s[-1], refs["arias"], what=tag)
    return got, v


# ---------------------------------------------------------------------------
# clause 3: sign reversal, scaling, zero padding


@st.composite
def _law_cases(draw):
    spec = draw(gen.record_specs(min_n=2, max_n=3000, allow_int=CONTAINERS))
    case = {"rec": spec, "dt": draw(gen.dts(1e-4, 2.0)), "dtv": draw(st.sampled_from(DT_FORMS))}
    if draw(st.booleans()):
        case["k2"] = draw(st.one_of(st.integers(-8, 8), st.integers(11, 40), st.integers(-40, -11)).filter(lambda k: k != 0))
        case["neg"] = draw(st.booleans())
    else:
        sign = draw(st.sampled_from([-1.0, 1.0]))
        case["alpha"] = draw(st.one_of(gen.scalars(), gen.log_uniform(1e3, 1e12).map(lambda x: sign * x),
                                       gen.log_uniform(1e-12, 1e-3).map(lambda x: sign * x)))
    case["pad"] = draw(st.one_of(st.integers(0, 8), st.integers(0, 600), st.integers(600, 3000)))
    return case


def _all_finals(ctx, arg, dt_arg, n, what):
    asig = ctx.lib(eqsig.AccSignal, arg, dt_arg)
    out = {}
    for name, fn, _inp, _deg in MEASURES:
        s = _series(ctx, fn, asig, name)
        ctx.shape(s, (n,), "%s series of %s" % (name, what))
        out[name] = float(s[-1])
    return out, np.asarray(ctx.lib(lambda: asig.velocity), dtype=float)


def _law_checks(ctx, case, arg, a, dt_arg, dt):
    """Sign reversal, amplitude scaling and zero padding, asserted on the final values."""
    n = len(a)
    base, v = _all_finals(ctx, arg, dt_arg, n, "the record")
    # --- sign reversal (negation commutes with every IEEE operation: exact for any implementation)
    flip, _ = _all_finals(ctx, -a, dt_arg, n, "the sign-reversed record")
    for name in base:
        ctx.check(flip[name] == base[name], "%s of the sign-reversed record: final value %r vs %r" % (name, flip[name], base[name]))
    # --- scaling
    if "k2" in case:
        alpha = (-1.0 if case.get("neg") else 1.0) * 2.0 ** case["k2"]
        ctx.cls("pow2")
    else:
        alpha = float(case["alpha"])
        ctx.cls("general-alpha")
    if abs(math.log10(abs(alpha))) > 3.01:
        ctx.cls("wide-alpha")
    b = alpha * a
    nz = np.abs(np.concatenate([a[a != 0], b[b != 0]]))
    tiny = bool(len(nz) and (nz.min() < 1e-60 or nz.max() > 1e60))
    if tiny:
        ctx.cls("tiny-values")
    scaled, _vb = _all_finals(ctx, b, dt_arg, n, "the scaled record")
    exact = "k2" in case and not tiny
    # rounding bounds for the general case (see ASSUMPTIONS): each side's own evaluation error + propagation through v
    if not exact:
        _vr, bva = _ref_velocity(a, dt)
        _vr2, bvb = _ref_velocity(b, dt)
        bva, bvb = bva / 8, bvb / 8   # the running-sum bound itself (the factor 8 belongs to the anchoring check only)
        # b_i = alpha*a_i*(1+d_i), |d_i| <= u: the exact velocities differ by at most u*|alpha|*cumtrapz(|a|)
        inc = np.concatenate([[0.0], np.cumsum(np.asarray(_panels(np.abs(a).astype(LD), dt), dtype=float))])
        delta = bvb + abs(alpha) * bva + EPS * abs(alpha) * inc          # |v(b)_i - alpha v(a)_i|
        e2 = delta * (2 * abs(alpha) * np.abs(v) + delta)                  # |v(b)_i^2 - alpha^2 v(a)_i^2|
    for name, _fn, inp, deg in MEASURES:
        f = abs(alpha) ** deg
        sa = base[name]
        if exact:
            ctx.check(scaled[name] == f * sa, "%s of the record scaled by %r: final value %r vs %s * %r" % (
                name, alpha, scaled[name], "alpha^2" if deg == 2 else "|alpha|", sa))
            continue
        tol = EPS * (n + 8) * (scaled[name] + f * sa) + 8 * EPS * f * sa
        if name == "uke":
            ke = 0.5 * v * np.abs(v)
            tol += 4 * EPS * f * float(2 * np.sum(np.abs(ke)))
        if inp == "vel":
            tol += {"isv": dt * float(np.sum(e2)), "abs_vel": dt * float(np.sum(delta)), "cad": dt * float(np.sum(delta)),
                    "uke": float(np.sum(e2))}[name]
        ctx.check(abs(LD(scaled[name]) - LD(f) * LD(sa)) <= tol + 1e-290,
                  "%s does not scale as %s: alpha=%r gives %r, expected %r (tol %.3e)" % (
                      name, "alpha^2" if deg == 2 else "|alpha|", alpha, scaled[name], f * sa, tol))
    # --- zero padding of a record that ends at zero
    p = int(case["pad"])
    ctx.cls("pad>0" if p > 0 else "pad=0")
    a0 = a.copy()
    a0[-1] = 0.0
    ref_asig = ctx.lib(eqsig.AccSignal, a0, dt_arg)
    pad_asig = ctx.lib(eqsig.AccSignal, np.concatenate([a0, np.zeros(p)]), dt_arg)
    for name, fn, _inp, _deg in MEASURES:
        if name not in PADDED:
            continue
        s0 = _series(ctx, fn, ref_asig, name)
        s1 = _series(ctx, fn, pad_asig, name)
        _series_checks(ctx, s1, n + p, "%s of the padded record" % name)
        tol = EPS * (2 * n + p + 16) * float(s0[-1])   # each side's own running-sum bound
        ctx.check(abs(LD(s1[-1]) - LD(s0[-1])) <= tol + 1e-290,
                  "%s changed by appending %d zeros to a record that ends at zero: %r -> %r (tol %.3e)" % (name, p, s0[-1], s1[-1], tol))


@clause(CLAUSES, "laws", _law_cases(), quick=450, thorough=2000,
        rule="records of all kinds and containers (n 2..3000), six dt forms, alpha = +-2^k (|k| <= 40, k != 0) or signed log-uniform on "
             "[1e-12,1e12], padding length 0..3000 (small lengths favoured); non-trivial = record has >= 2 sign changes",
        oracle="metamorphic, on final values: a -> -a leaves all seven identical (==); a -> alpha*a multiplies them by alpha^2 / |alpha| "
               "(== for powers of two, otherwise within the derived rounding bound); appending zeros to the "
               "record with its last sample set to 0 leaves Arias / CAV / integral |a| unchanged (two running-sum bounds), the padded "
               "series has the padded length and is non-decreasing",
        require={"pow2": 0.2, "general-alpha": 0.2, "pad>0": 0.4, "wide-alpha": 0.08}, min_nontrivial=0.1)
def laws(case, ctx):
    arg, a = _record(case)
    dt_arg, dt = _dt(case)
    _classify(ctx, case["rec"], a)
    ctx.cls("dt=" + case.get("dtv", "py"))
    _law_checks(ctx, case, arg, a, dt_arg, dt)


# ---------------------------------------------------------------------------
# clause 4: standardised CAV

COMMON_RATES = [1, 2, 4, 5, 8, 10, 20, 25, 40, 50, 64, 100, 125, 128, 200, 250, 256, 400, 500, 512, 1000, 2000, 2048, 4000, 5000,
                10000]
# floating-point boundary families of "integer number of samples per second" (pure float predicates on dt = fl(1/ns)):
# the reciprocal of dt rounds below ns / the end time of a k-second record rounds below k
RECIP_DOWN = [ns for ns in range(1, 1001) if 1.0 / (1.0 / ns) < ns]
DUR_DOWN = [[ns, k] for ns in range(1, 1001) for k in range(2, 13) if (k * ns) * (1.0 / ns) < k]
RECIPE_KINDS = ["noise", "sines", "pulse", "step", "walk", "const", "quake"]
CAVDP_MAX_N = 40000

_gain = st.one_of(st.sampled_from([0.0, 0.5, 0.9, 0.999999, 1.0, 1.000001, 1.1, 2.0, 8.0, 40.0]),
                  st.floats(0.0, 4.0, allow_nan=False), st.floats(4.0, 40.0, allow_nan=False))


@st.composite
def _cavdp_cases(draw):
    fam = draw(st.sampled_from(["any", "any", "any", "common", "recip-down", "dur-down", "high", "long"]))
    k = draw(st.integers(2, 12))
    mode = draw(st.sampled_from(["exact", "exact", "minus1", "plus1", "rand"]))
    if fam == "any":
        ns = draw(st.integers(1, 1000))
    elif fam == "common":
        ns = draw(st.sampled_from(COMMON_RATES))
    elif fam == "recip-down":
        ns = draw(st.sampled_from(RECIP_DOWN))
    elif fam == "high":                      # above 1 kHz (strong-motion arrays, geophones)
        ns = int(draw(gen.log_uniform(1001, 10000)))
    elif fam == "long":                      # real records last 30-300 s
        ns = draw(st.one_of(st.integers(1, 200), st.sampled_from([50, 100, 200])))
        k = draw(st.integers(13, 300))
    else:
        ns, k = draw(st.sampled_from(DUR_DOWN))
        mode = "exact"
    k = max(2, min(k, (CAVDP_MAX_N - 2) // ns - 1))
    if mode == "exact":
        n = k * ns + 1                       # exactly k seconds
    elif mode == "minus1":
        n = (k + 1) * ns                     # one sample short of closing window k+1
    elif mode == "plus1":
        n = k * ns + 2
    else:
        n = k * ns + 1 + draw(st.integers(0, max(0, ns - 1)))
    kinds = None if n <= 64 else RECIPE_KINDS
    spec = draw(gen.record_specs(min_n=n, max_n=n, small_max=n, kinds=kinds, allow_zero_runs=False, amp_lo=0, amp_hi=0,
                                 allow_int=["list", "view", "negstride", "readonly"]))
    nwin = (n - 1) // ns + 1
    gains = draw(st.lists(_gain, min_size=nwin, max_size=nwin))
    case = {"ns": ns, "rec": spec, "gains": gains, "norm": draw(st.booleans()),
            "dtv": draw(st.sampled_from(["py", "py", "np64", "0d64"])), "pad": draw(st.integers(1, 3 * ns + 2))}
    if (n - 1) % ns >= 1 and draw(st.booleans()):
        # the neighbourhood of the record's end: a weak last complete window followed by a strong incomplete second (which
        # belongs to no window), the sample they share kept at half the gate level
        gains[-2] = draw(st.sampled_from([0.0, 0.5, 0.9]))
        gains[-1] = draw(st.sampled_from([1.1, 2.0, 8.0]))
        case["tail"] = True
    return case


def _cavdp_record(case):
    """Record whose window maxima sit around 0.025 g: the base record is normalised to unit peak (globally, or per
    one-second chunk when case['norm']) and chunk w is multiplied by gains[w]*0.025*9.81."""
    ns = int(case["ns"])
    a = gen.build(case["rec"]).copy()
    n = len(a)
    gains = list(case["gains"])
    if case.get("norm"):
        for w in range((n + ns - 1) // ns):
            m = np.max(np.abs(a[w * ns:(w + 1) * ns]))
            if m > 0:
                a[w * ns:(w + 1) * ns] /= m
    else:
        m = np.max(np.abs(a))
        if m > 0:
            a = a / m
    idx = np.minimum(np.arange(n) // ns, len(gains) - 1)
    out = a * np.array(gains, dtype=float)[idx] * (GATE * G)
    if case.get("tail"):
        out[((n - 1) // ns) * ns] = 0.5 * GATE * G
    return out


def _cavdp_bracket(a, ns, dt):
    """[lo, hi] for the final standardised CAV from the statement + per-window gate states (True/False/None=ambiguous).
    Vectorised over the windows [w*ns, (w+1)*ns], w < (n-1)//ns (long double)."""
    n = len(a)
    nwin = (n - 1) // ns
    g = np.abs(a.astype(LD)) / LD(G)
    pan = _panels(g[:nwin * ns + 1], dt).reshape(nwin, ns)
    full = pan.sum(axis=1)
    last = pan[:, -1]
    peak = np.maximum(g[:nwin * ns].reshape(nwin, ns).max(axis=1), g[ns:nwin * ns + 1:ns]).astype(float)  # closing sample included
    amb = np.abs(peak / GATE - 1.0) < 1e-9
    yes = (peak >= GATE) & ~amb
    hi = full[yes | amb].sum() if np.any(yes | amb) else LD(0)
    lo = (full - last)[yes].sum() if np.any(yes) else LD(0)
    states = [None if m else bool(y) for m, y in zip(amb.tolist(), yes.tolist())]
    return lo, hi, states


def _cavdp_checks(ctx, arg, a, ns, dt_arg, dt, what=""):
    """Everything the statement says about standardised CAV of the record `a` (dt = 1/ns).  Returns (series, states)."""
    n = len(a)
    nwin = (n - 1) // ns
    lo, hi, states = _cavdp_bracket(a, ns, dt)
    yes = states.count(True)
    asig = ctx.lib(eqsig.AccSignal, arg, dt_arg)
    s = np.asarray(ctx.lib(im.calc_cav_dp, asig))
    _series_checks(ctx, s, n, "standardised CAV series" + what)
    final = float(s[-1])
    if hi == 0:
        ctx.check(not np.any(s), "no one-second window reaches 0.025 g but standardised CAV is %r%s" % (final, what))
    rel = 1e-9 + 8 * EPS * n
    tol = rel * float(hi)
    if not (lo - tol <= final <= hi + tol):
        ctx.fail("standardised CAV %r outside [%r, %r] (ns=%d, npts=%d, %d windows: %d qualify, %d ambiguous)%s" % (
            final, float(lo), float(hi), ns, n, nwin, yes, states.count(None), what))
    cav = float(_panels(np.abs(a.astype(LD)), dt).sum())   # the defining trapezoid of |a|, not the library's calc_cav
    ctx.check(0 <= final <= cav / G * (1 + rel), "standardised CAV %r not in [0, CAV/9.81 = %r]%s" % (final, cav / G, what))
    return s, states


def _cavdp_padding_law(ctx, a, ns, dt_arg, dt, p, nwin):
    """Appending zeros to a record of whole seconds that ends at zero: the complete windows are the same, the new ones empty."""
    ctx.cls("padding-law")
    a0 = a.copy()
    a0[-1] = 0.0
    s0, _ = _cavdp_checks(ctx, a0, a0, ns, dt_arg, dt, " (last sample set to 0)")
    a1 = np.concatenate([a0, np.zeros(p)])
    s1, _ = _cavdp_checks(ctx, a1, a1, ns, dt_arg, dt, " (%d zeros appended)" % p)
    ctx.check(abs(float(s1[-1]) - float(s0[-1])) <= 1e-12 * float(s0[-1]),
              "standardised CAV changed by appending %d zeros to a record of %d whole seconds ending at zero: %r -> %r" % (
                  p, nwin, float(s0[-1]), float(s1[-1])))


@clause(CLAUSES, "cav-dp", _cavdp_cases(), quick=600, thorough=2000,
        rule="dt = 1/ns, ns uniform on 1..1000 + common rates to 10 kHz + log-uniform 1001..10000 + the float boundary families (1/dt "
             "rounds below ns; k*ns*dt rounds below k); 2..12 complete seconds (one family 13..300 s), at most 40000 samples, length "
             "exactly k seconds / one sample short of the next window / one over / random; base record of any kind (float array, list, "
             "strided / read-only container) normalised (globally or per second) and multiplied per one-second chunk "
             "by a gain in {0,.5,.9,1-1e-6,1,1+1e-6,1.1,2,8,40}, U(0,4) or U(4,40) times 0.025 g (half of the records with an incomplete last "
             "second: weak last window, strong incomplete second); dt as float / np.float64 / 0-d; "
             "non-trivial = at least one qualifying and one non-qualifying window",
        oracle="reference model: windows [w*ns,(w+1)*ns], gate max|a|/9.81 >= 0.025 (1e-9 band ambiguous), final value in "
               "[sum(full - last panel), sum full] over qualifying windows (rel 1e-9 + 8 eps n); all zero when no window can qualify; "
               "length, diff >= 0, 0 <= final <= trapz|a|/9.81 (long double); identical final value for the sign-reversed record; "
               "records of whole seconds that end at zero: unchanged by appended zeros (rel 1e-12)",
        require={"recip-rounds-down": 0.03, "exact-duration": 0.25, "dur-rounds-down": 0.04, "mixed-gates": 0.3,
                 "none-qualify": 0.03, "common-rate": 0.08, "ns>1000": 0.05, "windows>12": 0.05, "peak>0.2g": 0.2,
                 "padding-law": 0.2, "strong-incomplete-second": 0.05},
        min_nontrivial=0.3)
def cav_dp(case, ctx):
    ns = int(case["ns"])
    dt = 1.0 / ns
    dt_arg, _ = _dt({"dt": dt, "dtv": case.get("dtv", "py")})
    a = _cavdp_record(case)
    arg = gen.as_container(case["rec"], a)
    n = len(a)
    nwin = (n - 1) // ns
    if nwin < 2:
        raise ValueError("case outside the domain: fewer than two complete seconds")
    _lo, _hi, states = _cavdp_bracket(a, ns, dt)
    # classes
    ctx.cls("kind=" + case["rec"]["k"], "ns<=10" if ns <= 10 else ("ns<=100" if ns <= 100 else ("ns<=1000" if ns <= 1000 else "ns>1000")))
    ctx.cls("dt=" + case.get("dtv", "py"), ("as=" + case["rec"]["as"]) if case["rec"].get("as") else None)
    if nwin > 12:
        ctx.cls("windows>12")
    if np.max(np.abs(a)) > 0.2 * G:
        ctx.cls("peak>0.2g")
    if ns in COMMON_RATES:
        ctx.cls("common-rate")
    if 1.0 / dt < ns:
        ctx.cls("recip-rounds-down")
    if (n - 1) % ns == 0:
        ctx.cls("exact-duration")
        if (n - 1) * dt < nwin:
            ctx.cls("dur-rounds-down")
    elif n % ns == 0:
        ctx.cls("one-short-of-window")
    if None in states:
        ctx.amb()
        ctx.cls("gate-ambiguous")
    if states[-1] is False and n > nwin * ns + 1 and np.max(np.abs(a[nwin * ns + 1:])) >= GATE * G:
        ctx.cls("strong-incomplete-second")
    yes = states.count(True)
    no = states.count(False)
    ctx.cls("mixed-gates" if yes and no else ("all-qualify" if yes and not no else ("none-qualify" if not yes else None)))
    ctx.nt(bool(yes and no))

    s, _ = _cavdp_checks(ctx, arg, a, ns, dt_arg, dt)
    s2 = np.asarray(ctx.lib(im.calc_cav_dp, ctx.lib(eqsig.AccSignal, -a, dt_arg)))
    ctx.shape(s2, (n,), "standardised CAV series of the sign-reversed record")
    ctx.check(s2[-1] == s[-1], "standardised CAV of the sign-reversed record: %r vs %r" % (s2[-1], s[-1]))
    if (n - 1) % ns == 0 and "pad" in case:
        _cavdp_padding_law(ctx, a, ns, dt_arg, dt, int(case["pad"]), nwin)


# ---------------------------------------------------------------------------
# very long records (continuous monitoring): lengths around 2^20


def _giant_enum(tier, shard, nshards):
    ns = [2 ** 20 + 6000] if tier == "quick" else [2 ** 20 - 1, 2 ** 20 + 2, 2 ** 20 + 6000, 2 ** 21 + 5]
    for i, n in enumerate(ns):
        if i % nshards == shard:
            yield {"n": n, "dt": 0.005, "seed": 21 + i}


@enum_clause(CLAUSES, "giant-records", _giant_enum,
             rule="fixed very long records (1-2 million samples): every quadrature-defined measure",
             oracle="reference model: long-double panel sums (same bounds as final-value); series length and exact monotonicity",
             exhaustive_note="the listed lengths", quick_shards=1)
def giant_records(case, ctx):
    n, dt = case["n"], case["dt"]
    a = np.random.RandomState(case["seed"]).standard_normal(n) * np.hanning(n) * 0.3 + 0.002
    ctx.nt(True)
    asig = ctx.lib(eqsig.AccSignal, a, dt)
    _final_checks(ctx, asig, a, dt, " (n=%d)" % n, raw_arg=a, raw_dt=dt)


# ---------------------------------------------------------------------------
# mid-range sizes (DESIGN 8.5): a code path that exists only inside a window of record lengths / window counts / rows x samples.
# Deterministic enumerations; sizes from gen.size_ladder / gen.product_pairs (one size per logarithmic bin, placed by VERIF_SEED,
# plus sizes aimed at the integer literals of the tree under test); data are a pure function of the case.

MID_KINDS = ["quake", "sines", "walk", "noise"]
MID_CONTAINERS = ["ndarray", "ndarray", "ndarray", "list", "view", "negstride", "readonly", "int", "int16", "int32"]


def _mid_record(n, seed, kind):
    """Ordinary data that keep an error visible: no trailing all-zero stretch, non-zero mean, every stretch different."""
    rs = np.random.RandomState(seed)
    t = np.arange(n, dtype=float)
    amp = 10.0 ** rs.uniform(-2.0, 1.5)
    if kind == "quake":
        x = (t + 1.0) / n
        env = x ** 2 * np.exp(-5.0 * x)
        a = rs.standard_normal(n) * (0.1 + env / env.max()) + 0.004
    elif kind == "sines":
        a = np.full(n, 0.013)
        for _ in range(3):
            a = a + rs.uniform(0.2, 1.0) * np.sin(2 * math.pi * rs.uniform(3.0, n / 9.0) * t / n + rs.uniform(0, 6.28))
    elif kind == "walk":
        a = np.cumsum(rs.standard_normal(n)) / math.sqrt(n) + 0.05 * rs.standard_normal(n) + 0.02
    else:
        a = rs.standard_normal(n) * (1.0 + 0.5 * np.sin(t * (7.0 / n))) + 0.006
    return a * amp


def _mid_container(a, how):
    if how == "int":
        return np.array(np.round(a * (1000.0 / max(1e-300, float(np.max(np.abs(a)))))), dtype=np.int64)
    if how == "ndarray":
        return a
    if how in gen.NARROW_DTYPES:
        return gen.narrow_int(a, how)[0]
    return gen.as_container({"as": how}, a)


def _mid_sizes(tier, tag, count_q, count_t, hi_q=300000, hi_t=2000000, lo=2000):
    """Laddered lengths + one anchor just above the nominal end (a window that opens anywhere below the end is entered)."""
    if tier == "quick":
        top = int(hi_q * (1 + 0.1 * _hu("top", tag)))
        return sorted(set(gen.size_ladder(lo, hi_q, count_q, "c09:" + tag)) | {top})
    top = int(hi_t * (1 + 0.05 * _hu("top:t", tag)))
    return sorted(set(gen.size_ladder(lo, hi_t, count_t, "c09:t:" + tag, mined_limit=16)) | set(gen.ladder(lo, hi_q, count_q, "c09:" + tag)) | {top})


def _mid_cases(tier):
    cases = []
    dts = [0.001, 0.002, 0.004, 0.005, 0.01, 0.02, 0.05]
    pads = gen.ladder(600, 100000, 14 if tier == "quick" else 40, "c09:pad")
    for i, n in enumerate(_mid_sizes(tier, "n", 16, 40)):
        how = _pick(MID_CONTAINERS, "how", i)
        if how == "list" and n > 60000:
            how = "view"
        c = {"n": int(n), "seed": _sd("mid", i), "kind": _pick(MID_KINDS, "kind", i), "as": how,
             "dt": _pick(dts, "dt", i) if _hu("dtk", i) < 0.6 else round(10 ** (-4 + 3.5 * _hu("dtv", i)), 7),
             "dtv": _pick(DT_FORMS, "dtf", i), "pad": int(pads[int(_hu("padi", i) * len(pads))]), "key": _sd("key", i), "cost": n}
        if _hu("sc", i) < 0.5:
            c["k2"] = int(_pick([-33, -9, -3, -1, 1, 2, 5, 17, 38], "k2", i))
            c["neg"] = bool(_hu("neg", i) < 0.5)
        else:
            c["alpha"] = float((-1 if _hu("as", i) < 0.5 else 1) * 10 ** (-6 + 12 * _hu("al", i)))
        cases.append(c)
    return cases


def _mid_enum(tier, shard, nshards):
    return _deal(_mid_cases(tier), shard, nshards)


@enum_clause(CLAUSES, "mid-range", _mid_enum,
             rule="record lengths gen.size_ladder(2000, 300000, 16) + one just above 300000 (thorough: to 2 000 000, 40 + 16 rungs; plus lengths "
                  "aimed at the integer literals of the tree under test); noise x envelope / sines / walk / modulated noise with a non-zero "
                  "mean and no zero tail; container, dt and its form, scale factor, pad length (ladder 600..100000) and read order chosen by hash",
             oracle="as final-value + laws over the whole record: every measure's length, exact monotonicity over the WHOLE series and final value "
                    "against the long-double panel sums (bound eps*(n+8)*sum|terms|), the array-level Arias helper, the velocity anchor; sign "
                    "reversal / scaling / zero padding on the final values",
             exhaustive_note="the laddered lengths of the run's VERIF_SEED", quick_shards=4)
def mid_range(case, ctx):
    n = int(case["n"])
    a0 = _mid_record(n, case["seed"], case["kind"])
    arg = _mid_container(a0, case["as"])
    a = np.array(arg, dtype=float)
    dt_arg, dt = _dt(case)
    ctx.cls("kind=" + case["kind"], "as=" + case["as"], "dt=" + case["dtv"], "n>50000" if n > 50000 else "n<=50000")
    ctx.nt(True)
    asig = ctx.lib(eqsig.AccSignal, arg, dt_arg)
    _final_checks(ctx, asig, a, dt, " (n=%d)" % n, key=int(case["key"]), raw_arg=arg, raw_dt=dt_arg)
    _law_checks(ctx, case, arg, a, dt_arg, dt)


# ---- standardised CAV: record length = rate x seconds


def _mid_cavdp_cases(tier):
    cases = []
    sizes = _mid_sizes(tier, "cavdp", 12, 30, hi_t=1500000)
    for i, n in enumerate(sizes):
        # the rate: log-uniform, at most 5000 complete windows (the library walks over the windows in Python), at least 2
        lo = max(1, -(-n // 5000))
        hi = max(lo, min(10000, (n - 1) // 2))
        ns = int(math.exp(math.log(lo) + (math.log(hi + 1) - math.log(lo)) * _hu("ns", i)))
        if _hu("nsc", i) < 0.35:
            near = [r for r in COMMON_RATES if lo <= r <= hi]
            if near:
                ns = _pick(near, "nsp", i)
        ns = min(hi, max(lo, ns))
        k = (n - 1) // ns
        mode = _pick(["exact", "rand", "rand", "minus1"], "mode", i)
        m = k * ns + 1 if mode == "exact" else ((k + 1) * ns if mode == "minus1" else n)
        cases.append({"n": int(m), "ns": int(ns), "seed": _sd("cavdp", i), "kind": _pick(MID_KINDS, "ck", i),
                      "level": round(10 ** (-0.5 + 1.3 * _hu("lev", i)), 4), "dtv": _pick(["py", "np64", "0d64"], "cdt", i),
                      "pad": int(1 + _hu("cp", i) * 3 * ns), "cost": m + 30 * k})
    return cases


def _mid_cavdp_enum(tier, shard, nshards):
    return _deal(_mid_cavdp_cases(tier), shard, nshards)


@enum_clause(CLAUSES, "mid-range-cavdp", _mid_cavdp_enum,
             rule="standardised CAV: npts = rate x seconds from gen.size_ladder(2000, 300000, 12) (thorough 1 500 000, 30 + 12 rungs), rate "
                  "log-uniform 1..10000 Hz or a common rate with 2..5000 complete windows (tens to thousands of seconds), length exact / random / "
                  "one short of a window; noise-like data whose one-second peaks scatter around 0.025 g (typical peak 0.3..6 x the gate level)",
             oracle="as cav-dp (vectorised long-double windows): bracket [sum(full - last panel), sum full] with rel 1e-9 + 8 eps n, zero when no "
                    "window qualifies, length, monotone over the whole series, <= trapz|a|/9.81; sign reversal; padding law for whole seconds",
             exhaustive_note="the laddered lengths of the run's VERIF_SEED", quick_shards=4)
def mid_range_cavdp(case, ctx):
    n, ns = int(case["n"]), int(case["ns"])
    dt = 1.0 / ns
    dt_arg, _ = _dt({"dt": dt, "dtv": case["dtv"]})
    a = _mid_record(n, case["seed"], case["kind"])
    # one-second peaks on both sides of the gate: normalise the typical one-second peak to `level` x 0.025 g
    nwin = (n - 1) // ns
    pk = np.abs(a[:nwin * ns]).reshape(nwin, ns).max(axis=1)
    a = a * (case["level"] * GATE * G / float(np.median(pk)))
    _lo, _hi, states = _cavdp_bracket(a, ns, dt)
    yes, no = states.count(True), states.count(False)
    ctx.cls("kind=" + case["kind"], "dt=" + case["dtv"], "windows>300" if nwin > 300 else "windows<=300", "ns>1000" if ns > 1000 else "ns<=1000",
            "mixed-gates" if yes and no else ("all-qualify" if yes else "none-qualify"))
    if None in states:
        ctx.amb()
    ctx.nt(bool(yes and no))
    s, _ = _cavdp_checks(ctx, a, a, ns, dt_arg, dt)
    s2 = np.asarray(ctx.lib(im.calc_cav_dp, ctx.lib(eqsig.AccSignal, -a, dt_arg)))
    ctx.check(s2.shape == s.shape and s2[-1] == s[-1], "standardised CAV of the sign-reversed record: %r vs %r" % (s2[-1], s[-1]))
    if (n - 1) % ns == 0:
        _cavdp_padding_law(ctx, a, ns, dt_arg, dt, int(case["pad"]), nwin)


# ---- array-level Arias with a 2-D argument: rows x samples


def _mid_rows_cases(tier):
    quick = tier == "quick"
    pp = gen.product_pairs(1e5, 1e7 if quick else 3e7, 8 if quick else 20, (2, 5000), (2000, 300000 if quick else 2000000), "c09:rows")
    cases = []
    for i, (rows, n) in enumerate(pp):
        cases.append({"rows": int(rows), "n": int(n), "seed": _sd("rows", i), "dt": _pick([0.002, 0.005, 0.01, 0.02], "rdt", i),
                      "layout": _pick(["c", "c", "f", "list-of-rows"], "lay", i), "cost": rows * n})
    # a "count" ladder of rows with short records
    for i, rows in enumerate(gen.size_ladder(2, 5000, 6 if quick else 14, "c09:rowcount", mined_limit=3)):
        cases.append({"rows": int(rows), "n": int(2000 + 3000 * _hu("rn", i)), "seed": _sd("rowc", i), "dt": 0.01,
                      "layout": _pick(["c", "f"], "layc", i), "cost": rows * 3000})
    return cases


def _mid_rows_enum(tier, shard, nshards):
    return _deal(_mid_rows_cases(tier), shard, nshards)


@enum_clause(CLAUSES, "mid-range-rows", _mid_rows_enum,
             rule="_raw_calc_arias_intensity with a 2-D argument (rows = series, the call of cumulative_response_spectra): rows x samples from "
                  "gen.product_pairs(1e5, 1e7, 8) (thorough 3e7, 20) with 2..5000 rows, 2000..300000 samples, plus a ladder of row counts with "
                  "short records; C / Fortran layout or a list of rows; every row a different scaled / shifted noise record",
             oracle="shape == argument's shape, every row non-decreasing (exact, all rows), final value of EVERY row against the long-double panel "
                    "sum of that row (vectorised over rows; bound eps*(n+8)*value)",
             exhaustive_note="the laddered products of the run's VERIF_SEED", quick_shards=4)
def mid_range_rows(case, ctx):
    raw = getattr(im, "_raw_calc_arias_intensity", None)
    if raw is None:
        ctx.cls("no-private-helper")
        return
    rows, n, dt = int(case["rows"]), int(case["n"]), case["dt"]
    rs = np.random.RandomState(case["seed"])
    base = rs.standard_normal(n + rows)
    # row r: a window of one noise stream, scaled and shifted differently (distinct rows, non-zero mean, no zero tail)
    x = np.lib.stride_tricks.sliding_window_view(base, n)[:rows] * (0.2 + rs.uniform(0.0, 3.0, size=rows))[:, None]
    x = x + rs.uniform(-0.05, 0.05, size=rows)[:, None]
    if case["layout"] == "f":
        arg = np.asfortranarray(x)
    elif case["layout"] == "list-of-rows" and rows * n <= 2000000:
        arg = [row for row in x]
    else:
        arg = x
    ctx.cls("layout=" + case["layout"], "rows>128" if rows > 128 else "rows<=128")
    ctx.nt(True)
    out = np.asarray(ctx.lib(raw, arg, dt))
    ctx.shape(out, (rows, n), "_raw_calc_arias_intensity of a %d x %d array" % (rows, n))
    ctx.finite(out, "_raw_calc_arias_intensity of a 2-D array")
    bad = np.argwhere(np.diff(out, axis=1) < 0)
    if len(bad):
        r, j = bad[0]
        ctx.fail("row %d of the 2-D Arias series decreases at %d: %r -> %r" % (r, j + 1, out[r, j], out[r, j + 1]))
    ctx.check(bool(np.all(out[:, 0] >= 0)), "a row of the 2-D Arias series starts below zero")
    c = LD(math.pi) / (2 * LD(G))
    want = np.empty(rows, dtype=LD)
    step = max(1, 4000000 // n)
    for r0 in range(0, rows, step):     # long double, a few rows at a time
        y = x[r0:r0 + step].astype(LD) ** 2
        want[r0:r0 + step] = c * LD(dt) * ((y[:, 1:] + y[:, :-1]) / 2).sum(axis=1)
    ctx.close(out[:, -1], want, EPS * (n + 8) * np.asarray(want, dtype=float), "final Arias value of every row vs long-double panel sum")


# ---- operation histories on the signal object at mid-range lengths


def _mid_hist_cases(tier):
    quick = tier == "quick"
    cases = []
    for i, n in enumerate(_mid_sizes(tier, "hist", 8, 20, hi_t=1000000)):
        cases.append({"n": int(n), "seed": _sd("hist", i), "kind": _pick(MID_KINDS, "hk", i), "dt": _pick([0.002, 0.005, 0.01, 0.02], "hdt", i),
                      "dtv": _pick(DT_FORMS, "hdf", i), "ops": _sd("hops", i), "count": 3 if quick else 4, "cost": n})
    return cases


def _mid_hist_enum(tier, shard, nshards):
    return _deal(_mid_hist_cases(tier), shard, nshards)


@enum_clause(CLAUSES, "mid-range-history", _mid_hist_enum,
             rule="AccSignal of gen.size_ladder(2000, 300000, 8) samples (thorough 1 000 000, 20 + 8): read the velocity and every measure, apply 3 "
                  "(thorough 4) in-place operations chosen by hash (value replacement with the same / another length, add constant / series / "
                  "signal, remove average / polynomial, Butterworth filter, zero residual velocity / displacement / both, rebasing, regenerating "
                  "the velocity with either rule; the Python-loop operations only below 30000 samples), re-read after each",
             oracle="as final-value on the record the object holds after each operation (whole series monotone, final values, velocity anchor)",
             exhaustive_note="the laddered lengths of the run's VERIF_SEED", quick_shards=4)
def mid_range_history(case, ctx):
    n = int(case["n"])
    a = _mid_record(n, case["seed"], case["kind"])
    dt_arg, dt = _dt(case)
    ctx.cls("kind=" + case["kind"], "dt=" + case["dtv"])
    ctx.nt(True)
    asig = ctx.lib(eqsig.AccSignal, a.copy(), dt_arg)
    _final_checks(ctx, asig, a, dt, " (n=%d)" % n, key=int(case["ops"]))
    _history(ctx, asig, a, dt, int(case["ops"]), int(case["count"]), allow_slow=n <= 30000)
