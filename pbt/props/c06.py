"""C06 - Fourier amplitude spectrum is dt x DFT of the zero-padded record on the stated grid."""
import hashlib
import math

import numpy as np
from hypothesis import strategies as st

import eqsig
from eqsig import im
from eqsig.fns import frequency as fr

from pbt import core, gen
from pbt.core import clause, enum_clause

PROPERTY = "C06"
CLAUSES = []
ASSUMPTIONS = [
    "reference = direct O(N^2) DFT (matrix product, long double twiddles) for N <= 512, numpy.fft.fft of the explicitly zero-padded "
    "record above that (trusted base); in the mid-range / giant clauses additionally a direct float64 DFT sum (exact integer phase "
    "reduction) at a hashed sample of bins and Parseval's identity with the bins the one-sided spectrum lacks computed directly",
    "requested n >= npts (padding, not truncation); records finite; drawn n 2..9000 (quick <= 2500), mid-range ladder 2 000..300 000 "
    "(thorough 2 000 000), giant 2^14..2^16 (+-) (thorough ..2^21); records are float64 arrays or int64 / list / non-contiguous / "
    "negative-stride / read-only variants holding such values or int16 / int32 / int8 counts using the type's full range (gen.narrow_int); float32 is not generated here",
    "dt: log-uniform 1e-4..100, the repository's time steps, and python integers 1, 2, 5",
    "value tolerance per bin |dt| (1e-12 sum|x| + 8 eps log2(N) sqrt(N) ||x||_2): component-wise FFT bound c eps log2(N) sum|x| with "
    "c log2 N <= 4500, plus the norm-wise bound (Higham, Accuracy and Stability, thm 24.2) which dominates for heavily padded short "
    "records; two entry points that both satisfy it agree within twice that - asserted as such, not as bit-equality; "
    "frequency tolerance 4 eps relative (k/(N dt), k * (1/(N dt)), linspace all fit)",
    "when BOTH p2_plus and n are given the statement does not say which wins: N must be one of the two and the object level and "
    "the array level must pick the same one",
    "inverse helper: spectra of even N (every padded N and the even-length unpadded case): the positive-bin spectrum of an odd-length "
    "transform does not determine an even-length record; tolerance 1e-12 max|x| max(1, log2 N) + 16 eps log2(N) ||x||_2 (norm-wise "
    "round-trip bound); the returned object is a Signal (an AccSignal when stype='acc') holding those values and dt - which class "
    "the default / 'signal' request yields is not part of the statement",
    "dominant period: any bin whose reference amplitude is within twice the value tolerance (+1e-12 relative) of the maximum is "
    "accepted (ties); the spectrum meant is the one the object currently reports or its default one; bin 0 has frequency 0, its "
    "period 1/0 is +inf (a ZeroDivisionError / FloatingPointError is the same arithmetic fact and accepted; a finite period is not)",
    "the Fourier moments / Boore bandwidth helpers listed among the anchors are not the subject of any sentence of the statement: "
    "not checked",
]
EPS = np.finfo(float).eps
LD = np.longdouble
MAX_N = 2500 if core.tier() == "quick" else 9000


def _hh(*parts):
    return int(hashlib.blake2b(":".join(str(p) for p in parts).encode(), digest_size=8).hexdigest(), 16)


def _hu(*parts):
    return (_hh(*parts) % 10 ** 6) / 1e6


def _hint(lo, hi, *parts):
    """log-uniform integer in [lo, hi] by hash."""
    lo, hi = int(lo), int(hi)
    if hi <= lo:
        return lo
    return min(hi, max(lo, int(math.exp(math.log(lo) + (math.log(hi + 1) - math.log(lo)) * _hu(*parts)))))


def dft_ref(x, N):
    """X_k for k = 0..N-1 of x zero-padded to N."""
    x = np.asarray(x, dtype=float)
    if N <= 512:
        n = np.arange(len(x), dtype=LD)
        k = np.arange(N, dtype=LD)[:, None]
        two_pi = 2 * np.arctan2(LD(0), LD(-1))
        ang = -two_pi * ((k * n) % N) / N
        return np.asarray((np.cos(ang) * x.astype(LD)).sum(axis=1), dtype=float) + 1j * np.asarray((np.sin(ang) * x.astype(LD)).sum(axis=1), dtype=float)
    pad = np.zeros(N)
    pad[:len(x)] = x
    return np.fft.fft(pad)


def dft_bins(x, N, ks):
    """X_k at the listed bins by the defining sum in float64; the phase k*j mod N is reduced in integers, so each term is good to
    ~2 eps |x_j| and the pairwise sum to a few eps sum|x| (far inside the value tolerance)."""
    x = np.asarray(x, dtype=float)
    j = np.arange(len(x), dtype=np.int64)
    out = np.zeros(len(ks), dtype=complex)
    for i, k in enumerate(ks):
        ang = (-2 * math.pi / N) * ((int(k) * j) % N).astype(float)
        out[i] = np.sum(x * np.cos(ang)) + 1j * np.sum(x * np.sin(ang))
    return out


def next_pow2(n, plus=0):
    p = 1
    e = 0
    while p < n:
        p *= 2
        e += 1
    return 2 ** (e + plus)


class Rec(object):
    """A record: what the caller hands over (`arg`) and the float64 values it stands for (`x`), with the sums the tolerances use."""

    def __init__(self, arg, x):
        self.arg = arg
        self.x = np.asarray(x, dtype=float)
        self.n = len(self.x)
        self.sumabs = float(np.sum(np.abs(self.x)))
        self.norm2 = float(np.sqrt(np.sum(self.x ** 2)))
        self.top = float(np.max(np.abs(self.x))) if self.n else 0.0
        self._X = {}

    def X(self, N):
        """reference transform of the record zero-padded to N (memoised: at most two lengths are kept)."""
        if N not in self._X:
            if len(self._X) >= 2:
                self._X.pop(next(iter(self._X)))
            self._X[N] = dft_ref(self.x, N)
        return self._X[N]

    def tol(self, N, dt):
        """per-bin value tolerance of a spectrum of N points (see ASSUMPTIONS)."""
        return abs(dt) * (1e-12 * self.sumabs + 8 * EPS * math.log2(max(2, N)) * math.sqrt(N) * self.norm2) + core.TINY


def _container(spec, a0, narrow=None):
    if narrow:
        return Rec(*gen.narrow_int(a0, narrow))
    how = spec.get("as")
    if how == "int":
        top = float(np.max(np.abs(a0))) if len(a0) else 0.0
        s = 10.0 ** (3 + _hh("int", len(a0), spec.get("seed", 0)) % 4) / top if 0 < top < 1e3 else 1.0
        arg = np.array(np.round(a0 * s), dtype=np.int64)
        return Rec(arg, arg.astype(float))
    arg = gen.as_container(spec, a0)
    return Rec(arg, np.array(arg, dtype=float))


def _dts():
    return st.one_of(gen.dts(1e-4, 1.0), gen.dts(1e-4, 1.0), gen.log_uniform(1.0, 100.0), st.sampled_from([1, 2, 5]))


_lengths = st.one_of(
    st.integers(2, 40),
    st.integers(2, MAX_N),
    st.integers(1, 13).flatmap(lambda e: st.sampled_from([2 ** e - 1, 2 ** e, 2 ** e + 1])).filter(lambda n: 2 <= n <= MAX_N),
    st.integers(1, MAX_N // 2 - 1).map(lambda k: 2 * k + 1),
)


@st.composite
def _rec(draw, min_n=2, containers=False):
    n = max(min_n, draw(_lengths))
    if n <= 40:
        spec = draw(gen.record_specs(min_n=n, max_n=n, small_max=n, allow_zero_runs=False, allow_int=containers))
    else:
        spec = draw(gen.record_specs(min_n=n, max_n=n, kinds=["noise", "sines", "pulse", "step", "walk", "const", "quake"], allow_zero_runs=False,
                                     allow_int=containers))
    return spec


_FIRST = ["fa_spectrum", "fa_freqs", "fa_frequencies", "fa_spectrum_abs"]


@st.composite
def _def_cases(draw):
    spec = draw(_rec(containers=True))
    n = len(gen.build(spec))
    extra = draw(st.one_of(st.integers(0, 3), st.integers(0, n), st.integers(n, 7 * n)))
    return {"rec": spec, "dt": draw(_dts()), "p2": draw(st.integers(0, 3)), "n_req": n + extra, "acc": draw(st.booleans()),
            "first": draw(st.sampled_from(_FIRST)), "narrow": draw(st.sampled_from([None, None, None, None, None, "int16", "int32", "int8"]))}


def _freqs(pts, N, dt):
    return np.arange(pts) / (N * dt)


def _check_spectrum(ctx, what, got_s, got_f, rec, dt, N, bins=None, parseval=False):
    """The spectrum / frequency pair is that of the record zero-padded to N: bins 0..N/2-1 of dt*DFT at k/(N dt)."""
    pts = N // 2
    got_s = np.asarray(got_s)
    got_f = np.asarray(got_f)
    ctx.shape(got_s, (pts,), what + " spectrum (N=%d, npts=%d)" % (N, rec.n))
    ctx.shape(got_f, (pts,), what + " frequencies (N=%d, npts=%d)" % (N, rec.n))
    tol = rec.tol(N, dt)
    X = rec.X(N)
    ctx.close(got_s, dt * X[:pts], tol, what + " spectrum vs dt*DFT (N=%d, npts=%d)" % (N, rec.n))
    want_f = _freqs(pts, N, dt)
    ctx.close(got_f, want_f, 4 * EPS * want_f, what + " frequencies vs k/(N*dt) (N=%d, npts=%d)" % (N, rec.n))
    if bins is not None and len(bins):
        ks = np.asarray(bins, dtype=int)
        keep = max(6, int(4e6 // max(1, rec.n)))          # the defining sum costs O(npts) per bin
        if len(ks) > keep:
            ks = np.concatenate([ks[:2], ks[2:-1][::max(1, (len(ks) - 3) // max(1, keep - 3))][:keep - 3], ks[-1:]])
        ctx.close(got_s[ks], dt * dft_bins(rec.x, N, ks), tol, what + " spectrum vs the defining sum at bins %s... (N=%d, npts=%d)" % (ks[:5].tolist(), N, rec.n))
    if parseval:
        _check_parseval(ctx, what, got_s, rec, dt, N)


def _check_parseval(ctx, what, got_s, rec, dt, N):
    """dt*sum x^2 == (1/(N dt)) * sum over all N bins |F_k|^2; the one-sided spectrum supplies bins 0..N/2-1, its mirror the negative
    frequencies, the defining sum the remaining (Nyquist / top) bin(s)."""
    pts = N // 2
    s = np.asarray(got_s)
    total = float(np.abs(s[0]) ** 2 + 2 * np.sum(np.abs(s[1:]) ** 2)) if pts else 0.0
    covered = 2 * pts - 1 if pts else 0
    if pts == 0:
        missing = list(range(N))
    elif N % 2 == 0:
        missing = [N // 2]
    else:
        missing = [(N - 1) // 2, (N + 1) // 2]
    assert covered + len(missing) == N
    Xm = dft_bins(rec.x, N, missing) * dt
    total += float(np.sum(np.abs(Xm) ** 2))
    energy = abs(dt) * float(np.sum(rec.x.astype(LD) ** 2))
    ctx.check(abs(total / (N * abs(dt)) - energy) <= 1e-10 * energy + core.TINY,
              "%s: Parseval: dt*sum x^2 = %r but the spectrum gives %r (N=%d, npts=%d)" % (what, energy, total / (N * abs(dt)), N, rec.n))


def _agree(ctx, what, pair, ref_s, ref_f, rec, dt, N):
    """Two entry points report the same spectrum: equal shapes, values within twice the value tolerance, grids within 8 eps."""
    s, f = np.asarray(pair[0]), np.asarray(pair[1])
    ctx.close(s, np.asarray(ref_s), 2 * rec.tol(N, dt), what + " spectrum")
    ctx.close(f, np.asarray(ref_f), 8 * EPS * np.abs(np.asarray(ref_f)), what + " frequencies")


def _check_spectrum_any(ctx, what, got_s, got_f, rec, dt, cands, **kw):
    """_check_spectrum for the first transform length of `cands` that fits (both options given: either may win)."""
    first = None
    for N in cands:
        try:
            _check_spectrum(ctx, what, got_s, got_f, rec, dt, N, **kw)
            return N
        except core.Violation as v:
            first = first or v
    raise first


def _both_N(ctx, what, got_s, n, p2, Nr):
    """Which of the two admissible transform lengths a call given both p2_plus and n used."""
    pts = len(np.asarray(got_s))
    cands = [N for N in (Nr, next_pow2(n, p2)) if N // 2 == pts]
    ctx.check(bool(cands), "%s: %d bins - neither the requested n=%d (%d bins) nor 2^(ceil(log2 %d)+%d)=%d (%d bins)" % (
        what, pts, Nr, Nr // 2, n, p2, next_pow2(n, p2), next_pow2(n, p2) // 2))
    return cands


@clause(CLAUSES, "definition", _def_cases(), quick=400, thorough=2500,
        rule="records of every length class (2..40 element-wise, up to 2500 by recipe, 2^e-1/2^e/2^e+1, odd) in every container, all dt, "
             "p2_plus 0..3, requested n from npts to 8 npts (odd and even), both options together, Signal and AccSignal, each of the four lazy "
             "attributes read first; non-trivial = non-zero record; classes record whether N is odd / a power of two",
        oracle="reference model: dt * direct DFT of the zero-padded record, bins 0..N/2-1 at k/(N dt); object vs array level and Signal vs "
               "AccSignal within twice the value tolerance",
        require={"N-odd": 0.15, "npts-not-pow2": 0.3, "narrow=int16": 0.04})
def definition(case, ctx):
    rec = _container(case["rec"], gen.build(case["rec"]), case.get("narrow"))
    n = rec.n
    dt = case["dt"]
    ctx.nt(bool(np.any(rec.x)))
    ctx.cls("narrow=" + case["narrow"] if case.get("narrow") else None)
    ctx.cls(gen.size_class(n), "npts-pow2" if next_pow2(n) == n else "npts-not-pow2", "npts-odd" if n % 2 else "npts-even",
            "acc" if case["acc"] else "sig", "dt-int" if isinstance(dt, int) else None, "as=" + case["rec"]["as"] if case["rec"].get("as") else None)
    cls = eqsig.AccSignal if case["acc"] else eqsig.Signal
    sig = ctx.lib(cls, rec.arg, dt)
    other = ctx.lib(eqsig.Signal if case["acc"] else eqsig.AccSignal, rec.arg, dt)
    # default: next power of two; any of the four lazily loaded attributes may be the first one read
    N0 = next_pow2(n)
    first = case.get("first", "fa_spectrum")
    ctx.cls("first=" + first)
    got_first = np.array(ctx.lib(lambda: getattr(sig, first)))
    s0 = np.array(ctx.lib(lambda: sig.fa_spectrum))
    f0 = np.array(ctx.lib(lambda: sig.fa_freqs))
    _check_spectrum(ctx, "Signal.fa_spectrum", s0, f0, rec, dt, N0)
    tol0 = rec.tol(N0, dt)
    want_first = {"fa_spectrum": s0, "fa_freqs": f0, "fa_frequencies": f0, "fa_spectrum_abs": np.abs(s0)}[first]
    ctx.close(got_first, want_first, 2 * tol0 if "spectrum" in first else 8 * EPS * f0, "%s read first on a fresh object" % first)
    ctx.close(np.asarray(ctx.lib(lambda: sig.fa_frequencies)), f0, 8 * EPS * f0, "fa_frequencies alias")
    sabs = np.asarray(ctx.lib(lambda: sig.fa_spectrum_abs))
    ctx.check(not np.iscomplexobj(sabs), "fa_spectrum_abs is complex")
    ctx.close(sabs, np.abs(s0), 4 * EPS * np.abs(s0), "fa_spectrum_abs vs |fa_spectrum|")
    _agree(ctx, "Signal vs AccSignal", (ctx.lib(lambda: other.fa_spectrum), ctx.lib(lambda: other.fa_freqs)), s0, f0, rec, dt, N0)
    _agree(ctx, "generate_fa_spectrum(sig) vs object", ctx.lib(fr.generate_fa_spectrum, sig), s0, f0, rec, dt, N0)
    _agree(ctx, "generate_fa_spectrum(sig, n_pad=True) vs object", ctx.lib(fr.generate_fa_spectrum, sig, n_pad=True), s0, f0, rec, dt, N0)
    # p2_plus
    p2 = case["p2"]
    Np = next_pow2(n, p2)
    ctx.lib(sig.gen_fa_spectrum, p2_plus=p2)
    sp, fp = np.array(sig.fa_spectrum), np.array(sig.fa_freqs)
    _check_spectrum(ctx, "gen_fa_spectrum(p2_plus=%d)" % p2, sp, fp, rec, dt, Np)
    _agree(ctx, "calc_fa_spectrum(p2_plus=%d) vs object" % p2, ctx.lib(fr.calc_fa_spectrum, sig, p2_plus=p2), sp, fp, rec, dt, Np)
    # explicit n
    Nr = case["n_req"]
    ctx.cls("N-odd" if Nr % 2 or n % 2 else None, "n_req>2npts" if Nr > 2 * n else None)
    ctx.lib(sig.gen_fa_spectrum, n=Nr)
    sr, frq = np.array(sig.fa_spectrum), np.array(sig.fa_freqs)
    _check_spectrum(ctx, "gen_fa_spectrum(n=%d)" % Nr, sr, frq, rec, dt, Nr)
    _agree(ctx, "calc_fa_spectrum(n=%d) vs object" % Nr, ctx.lib(fr.calc_fa_spectrum, sig, n=Nr), sr, frq, rec, dt, Nr)
    # both options: N is one of the two, the same at both levels
    ctx.lib(sig.gen_fa_spectrum, p2_plus=p2, n=Nr)
    sb, fb = np.array(sig.fa_spectrum), np.array(sig.fa_freqs)
    cands = _both_N(ctx, "gen_fa_spectrum(p2_plus=%d, n=%d)" % (p2, Nr), sb, n, p2, Nr)
    Nb = _check_spectrum_any(ctx, "gen_fa_spectrum(p2_plus=%d, n=%d)" % (p2, Nr), sb, fb, rec, dt, cands)
    cb = ctx.lib(fr.calc_fa_spectrum, sig, n=Nr, p2_plus=p2)
    ctx.check(len(np.asarray(cb[0])) == len(sb), "calc_fa_spectrum(n=%d, p2_plus=%d) has %d bins, gen_fa_spectrum(p2_plus=%d, n=%d) has %d" % (
        Nr, p2, len(np.asarray(cb[0])), p2, Nr, len(sb)))
    _agree(ctx, "calc_fa_spectrum(n=%d, p2_plus=%d) vs object" % (Nr, p2), cb, sb, fb, rec, dt, Nb)
    # unpadded array-level variants: N = npts
    us, uf = ctx.lib(fr.calc_fa_spectrum, sig)
    _check_spectrum(ctx, "calc_fa_spectrum (unpadded)", us, uf, rec, dt, n)
    _agree(ctx, "generate_fa_spectrum(n_pad=False) vs calc_fa_spectrum()", ctx.lib(fr.generate_fa_spectrum, sig, n_pad=False), us, uf, rec, dt, n)
    # back to the default
    ctx.lib(sig.generate_fa_spectrum)
    _check_spectrum(ctx, "after generate_fa_spectrum() (default restored)", ctx.lib(lambda: sig.fa_spectrum), ctx.lib(lambda: sig.fa_freqs), rec, dt, N0)


@st.composite
def _cons_cases(draw):
    spec = draw(_rec())
    n = len(gen.build(spec))
    spec_b = draw(gen.record_specs(min_n=n, max_n=n, small_max=n, kinds=["noise", "sines", "walk"], allow_zero_runs=False))
    return {"a": spec, "b": spec_b, "alpha": draw(gen.scalars()), "beta": draw(gen.scalars()), "dt": draw(_dts()),
            "zfrac": draw(st.floats(0, 1, allow_nan=False)), "padded": draw(st.booleans()),
            "variant": draw(st.sampled_from(["default", "unpadded", "p2", "n"])), "p2": draw(st.integers(1, 3)), "extra": draw(st.integers(0, 3 * n)),
            "acc": draw(st.booleans())}


def _variant_spec(ctx, case, x, dt, N_fixed=None):
    """(spectrum, frequencies, N) of record x under the padding variant of the case; N_fixed pins an explicit n."""
    v = case.get("variant") or ("default" if case["padded"] else "unpadded")
    s = (eqsig.AccSignal if case.get("acc") else eqsig.Signal)(x, dt)
    n = len(x)
    if v == "default":
        return np.array(ctx.lib(lambda: s.fa_spectrum)), np.array(ctx.lib(lambda: s.fa_freqs)), next_pow2(n)
    if v == "unpadded":
        out = ctx.lib(fr.calc_fa_spectrum, s)
        return np.array(out[0]), np.array(out[1]), n
    if v == "p2":
        if n % 2:
            ctx.lib(s.gen_fa_spectrum, p2_plus=case["p2"])
            return np.array(s.fa_spectrum), np.array(s.fa_freqs), next_pow2(n, case["p2"])
        out = ctx.lib(fr.calc_fa_spectrum, s, p2_plus=case["p2"])
        return np.array(out[0]), np.array(out[1]), next_pow2(n, case["p2"])
    N = N_fixed
    if N % 2:
        out = ctx.lib(fr.calc_fa_spectrum, s, n=N)
        return np.array(out[0]), np.array(out[1]), N
    ctx.lib(s.gen_fa_spectrum, n=N)
    return np.array(s.fa_spectrum), np.array(s.fa_freqs), N


@clause(CLAUSES, "consequences", _cons_cases(), quick=400, thorough=2500,
        rule="pairs of records of equal length, alpha/beta as in C02, trailing-zero counts that keep N fixed, every padding variant (default, "
             "unpadded, p2_plus, explicit n; object or array level); non-trivial = both records non-zero",
        oracle="metamorphic: linearity (value tolerance of the terms), trailing zeros within the same N leave spectrum and grid unchanged "
               "(twice the value tolerance), Parseval with the missing bins supplied by the defining sum (1e-10 relative)")
def consequences(case, ctx):
    a = gen.build(case["a"])
    b = gen.build(case["b"])
    n = len(a)
    if len(b) != n:
        b = np.resize(b, n)
    dt = case["dt"]
    al, be = case["alpha"], case["beta"]
    v = case.get("variant") or ("default" if case["padded"] else "unpadded")
    ctx.nt(bool(np.any(a) and np.any(b)))
    ctx.cls(gen.size_class(n), "variant=" + v, "npts-odd" if n % 2 else "npts-even")
    Nn = n + case.get("extra", 0)
    sa, fa, N = _variant_spec(ctx, case, a, dt, Nn)
    sb, _, _ = _variant_spec(ctx, case, b, dt, Nn)
    sc, fc, _ = _variant_spec(ctx, case, al * a + be * b, dt, Nn)
    ra = Rec(a, a)
    terms = Rec(None, abs(al) * np.abs(a) + abs(be) * np.abs(b))
    ctx.shape(sa, (N // 2,), "spectrum (variant %s, N=%d)" % (v, N))
    ctx.close(sc, al * sa + be * sb, 3 * terms.tol(N, dt), "linearity of the Fourier amplitude spectrum (variant %s)" % v)
    ctx.close(fc, _freqs(N // 2, N, dt), 4 * EPS * _freqs(N // 2, N, dt), "frequencies (variant %s, N=%d)" % (v, N))
    # trailing zeros that do not change N
    room = {"default": next_pow2(n) - n, "p2": next_pow2(n) - n, "n": Nn - n, "unpadded": 0}[v]
    z = int(round(case["zfrac"] * room))
    if z > 0:
        ctx.cls("trailing-zeros")
        s2, f2, N2 = _variant_spec(ctx, case, np.concatenate([a, np.zeros(z)]), dt, Nn)
        assert N2 == N, "trailing zeros changed N"
        ctx.close(s2, sa, 2 * ra.tol(N, dt), "spectrum after appending %d zeros (same N=%d, variant %s)" % (z, N, v))
        ctx.close(f2, fa, 8 * EPS * np.abs(fa), "frequencies after appending zeros (same N, variant %s)" % v)
    _check_parseval(ctx, "variant %s" % v, sa, ra, dt, N)


@st.composite
def _inv_cases(draw):
    spec = draw(_rec())
    return {"rec": spec, "dt": draw(_dts()), "variant": draw(st.sampled_from(["default", "p2", "n-even", "unpadded-even"])),
            "p2": draw(st.integers(1, 2)), "extra": draw(st.integers(0, 40)), "stype": draw(st.sampled_from(["signal", "acc", "default", "acc-signal"]))}


def _inverse_want(x, N):
    pad = np.zeros(N)
    pad[:len(x)] = x
    alt = 1.0 - 2.0 * (np.arange(N) % 2)
    nyq = np.sum(pad * alt) / N
    return pad - pad.mean() - nyq * alt


def _check_inverse(ctx, what, F, rec, dt, N, stype, form="kw"):
    """fas2values / fas2signal of a one-sided spectrum of even N rebuild the padded record minus its mean and Nyquist components."""
    want = _inverse_want(rec.x, N)
    tol = 1e-12 * rec.top * max(1.0, math.log2(N)) + 16 * EPS * math.log2(N) * rec.norm2 + core.TINY
    vals = np.asarray(ctx.lib(fr.fas2values, F, dt))
    ctx.shape(vals, (N,), "%s: fas2values output (N=%d)" % (what, N))
    ctx.close(np.real(vals), want, tol, "%s: fas2values real part vs padded record minus mean and Nyquist (N=%d)" % (what, N))
    ctx.check(float(np.max(np.abs(np.imag(vals)))) <= tol, "%s: fas2values imaginary part not ~0 (N=%d)" % (what, N))
    if stype == "default":
        obj = ctx.lib(fr.fas2signal, F, dt)
    else:
        obj = ctx.libf(form, fr.fas2signal, ["stype"], F, dt, stype=stype)
    ctx.check(isinstance(obj, eqsig.Signal), "%s: fas2signal(stype=%s) returned %s, not a signal object" % (what, stype, type(obj).__name__))
    if stype == "acc":
        ctx.check(isinstance(obj, eqsig.AccSignal), "%s: fas2signal(stype='acc') returned %s" % (what, type(obj).__name__))
    ctx.check(obj.dt == dt, "%s: fas2signal dt %r != %r" % (what, obj.dt, dt))
    ov = np.asarray(ctx.lib(lambda: obj.values))
    ctx.shape(ov, (N,), "%s: fas2signal values (N=%d)" % (what, N))
    ctx.close(np.real(ov), want, tol, "%s: fas2signal(stype=%s) values vs padded record minus mean and Nyquist (N=%d)" % (what, stype, N))
    ctx.check(float(np.max(np.abs(np.imag(ov)))) <= tol, "%s: fas2signal values imaginary part not ~0 (N=%d)" % (what, N))


@clause(CLAUSES, "inverse", _inv_cases(), quick=400, thorough=2500,
        rule="spectra of even N from all variants (default padding, p2_plus, even requested n incl. non-powers of two, unpadded even records) "
             "fed to fas2values / fas2signal (stype omitted, 'signal', 'acc', another string); non-trivial = non-zero record",
        oracle="round trip: real part == zero-padded record minus its mean and Nyquist components, imaginary part ~ 0, length N, a signal object "
               "with that dt; the object's own spectrum is still dt*DFT after it was handed to the helper",
        require={"N-not-pow2": 0.2})
def inverse(case, ctx):
    x = gen.build(case["rec"])
    n = len(x)
    dt = case["dt"]
    sig = eqsig.Signal(x, dt)
    v = case["variant"]
    if v == "default":
        N = next_pow2(n)
        F = np.array(sig.fa_spectrum)
    elif v == "p2":
        N = next_pow2(n, case["p2"])
        F = np.array(fr.calc_fa_spectrum(sig, p2_plus=case["p2"])[0])
    elif v == "n-even":
        N = n + case["extra"]
        N += N % 2
        F = np.array(fr.calc_fa_spectrum(sig, n=N)[0])
    else:
        if n % 2:
            x = x[:-1] if n > 2 else np.concatenate([x, [0.5]])
            n = len(x)
            sig = eqsig.Signal(x, dt)
        N = n
        F = np.array(fr.calc_fa_spectrum(sig)[0])
    ctx.cls("variant=" + v, "N-pow2" if next_pow2(N) == N else "N-not-pow2", gen.size_class(n), "stype=" + case["stype"])
    ctx.nt(bool(np.any(x)))
    rec = Rec(x, x)
    if v == "default":
        # hand over the object's own (cached) spectrum, as a caller naturally does; what the object reports afterwards is still the
        # spectrum of its record (a helper that scales its argument in place would break the first sentence of the statement)
        own = ctx.lib(lambda: sig.fa_spectrum)
        ctx.lib(fr.fas2values, own, dt)
        if case["stype"] == "default":
            ctx.lib(fr.fas2signal, own, dt)
        else:
            ctx.lib(fr.fas2signal, own, dt, stype=case["stype"])
        _check_spectrum(ctx, "the signal's own spectrum after it was passed to fas2values / fas2signal", ctx.lib(lambda: sig.fa_spectrum),
                        ctx.lib(lambda: sig.fa_freqs), rec, dt, N)
        ctx.cls("own-spectrum")
    _check_inverse(ctx, "variant %s" % v, F, rec, dt, N, case["stype"], core.call_form(case))


@st.composite
def _dom_cases(draw):
    n = draw(st.one_of(st.sampled_from([32, 64, 128, 256, 100, 200, 75]), st.integers(300, 2 * MAX_N)))
    N = next_pow2(n)
    return {"n": n, "k0": draw(st.one_of(st.integers(1, N // 2 - 1), st.integers(max(1, N // 4), N // 2 - 1))),
            "phase": (draw(st.integers(0, 7)) + draw(st.floats(0, 1, allow_nan=False, exclude_max=True))) * math.pi / 4,
            "amp": draw(gen.log_uniform(1e-3, 1e3)), "noise": draw(st.sampled_from([0.0, 0.01, 0.1])), "seed": draw(st.integers(0, 10 ** 6)),
            "dt": draw(gen.dts(1e-3, 0.1)), "arbitrary": draw(st.integers(0, 4)) == 0, "rec": draw(gen.record_specs(min_n=4, max_n=300)),
            "acc": draw(st.integers(0, 2)) > 0, "state": draw(st.sampled_from(["default", "default", "p2", "n"])), "p2": draw(st.integers(1, 2)),
            "extra": draw(st.integers(0, 300))}


def _check_dominant(ctx, what, sig, rec, dt, Ns):
    """max_fa_period(sig) is the period of a largest-amplitude bin of the spectrum of N points, for one N of the list Ns (the
    transform length the object currently reports, or its default one)."""
    try:
        got = im.max_fa_period(sig)
    except (ZeroDivisionError, FloatingPointError):
        got = math.inf
        ctx.cls("dc-raises")
    except core.Violation:
        raise
    except Exception as e:  # noqa
        ctx.fail("%s: max_fa_period raised %s: %s" % (what, type(e).__name__, str(e)[:160]))
    ctx.check(np.ndim(got) == 0, "%s: max_fa_period returned %r" % (what, got))
    got = float(got)
    shown = []
    for N in Ns:
        pts = N // 2
        F = np.abs(rec.X(N)[:pts]) * abs(dt)
        f = _freqs(pts, N, dt)
        top = float(np.max(F))
        ok_bins = np.where(F >= top - 2 * rec.tol(N, dt) - 1e-12 * top)[0]
        for k in ok_bins:
            if k == 0:
                if math.isinf(got) and got > 0:
                    ctx.cls("dominant=bin0")
                    return
            elif abs(got - 1.0 / f[k]) <= 1e-12 / f[k]:
                ctx.cls("dominant-bin>255" if k > 255 else "dominant-bin<=255")
                return
        shown.append("N=%d: bin(s) %s, period(s) %s" % (N, ok_bins[:4].tolist(), [math.inf if k == 0 else 1.0 / f[k] for k in ok_bins[:4]]))
    ctx.fail("%s: max_fa_period=%r but the largest-amplitude bin(s) are %s" % (what, got, "; ".join(shown)))


@clause(CLAUSES, "dominant-period", _dom_cases(), quick=400, thorough=2500,
        rule="sinusoids on the padded Fourier grid (records of 32..5000 samples, bins up to N/2-1) with drawn phase in [0, 2pi), amplitude and "
             "additive noise, plus arbitrary records; Signal and AccSignal; default spectrum or after gen_fa_spectrum(p2_plus / n); "
             "non-trivial = sinusoid case (phase decides the sign of the real part)",
        oracle="reference model (own DFT, not the library's spectrum): reported period is 1/f_k of a bin whose |F_k| is within the value "
               "tolerance of max|F| (bin 0 -> inf)",
        require={"phase-real-negative": 0.2, "dominant-bin>255": 0.1})
def dominant_period(case, ctx):
    dt = case["dt"]
    if case["arbitrary"]:
        x = gen.build(case["rec"])
        ctx.cls("arbitrary")
    else:
        n = case["n"]
        N = next_pow2(n)
        t = np.arange(n)
        x = case["amp"] * (np.cos(2 * math.pi * case["k0"] * t / N + case["phase"])
                           + case["noise"] * np.random.RandomState(case["seed"]).standard_normal(n))
        ctx.nt(True)
        ctx.cls("sinusoid", "phase-real-negative" if math.cos(case["phase"]) < 0 else "phase-real-positive")
    rec = Rec(x, x)
    cls = eqsig.AccSignal if case.get("acc", True) else eqsig.Signal
    ctx.cls("acc" if case.get("acc", True) else "sig")
    sig = ctx.lib(cls, x, dt)
    Ns = [next_pow2(rec.n)]
    state = case.get("state", "default")
    if state == "p2":
        ctx.lib(sig.gen_fa_spectrum, p2_plus=case["p2"])
        Ns = [next_pow2(rec.n, case["p2"])] + Ns
    elif state == "n":
        ctx.lib(sig.gen_fa_spectrum, n=rec.n + case["extra"])
        Ns = [rec.n + case["extra"]] + Ns
    ctx.cls("state=" + state)
    _check_dominant(ctx, "max_fa_period (%s spectrum)" % state, sig, rec, dt, Ns)


# ---------------------------------------------------------------------------
# lengths around large powers of two


def _seam_bins(pts, key, count=20):
    """A sample of bins that always holds the first, the last, and for every k = 5..20 one bin at or next to a multiple of 2^k."""
    out = {0, 1, pts - 1, pts // 2}
    k = 5
    while 2 ** k < pts:
        m = 1 + _hh(key, "m", k) % max(1, pts // 2 ** k - 1)
        out.add(min(pts - 1, m * 2 ** k + _hh(key, "d", k) % 3 - 1))
        k += 1
    i = 0
    while len(out) < count and i < 4 * count:
        out.add(_hh(key, "r", i) % pts)
        i += 1
    return sorted(b for b in out if 0 <= b < pts)


def _giant_enum(tier, shard, nshards):
    i = 0
    ks = range(14, 22) if tier == "thorough" else range(14, 17)
    for k in ks:
        for j in (-1, 0, 1, 2):
            if i % nshards == shard:
                yield {"k": k, "j": j}
            i += 1


@enum_clause(CLAUSES, "giant-lengths", _giant_enum,
             rule="record lengths 2^k + j, j in {-1,0,1,2}, k = 14..16 (quick) / 14..21 (thorough, up to 2 097 154 samples): default padding, "
                  "p2_plus=1, the unpadded array-level variant, the inverse helper and the dominant period",
             oracle="reference model: N = next power of two >= npts (computed with integers), bins N/2 on k/(N dt); spectrum vs numpy.fft of the "
                    "explicitly zero-padded record and vs the defining sum at sampled bins; Parseval; object vs array level within tolerance",
             exhaustive_note="all listed lengths", quick_shards=2)
def giant_lengths(case, ctx):
    n = 2 ** case["k"] + case["j"]
    dt = 0.005
    x = np.random.RandomState(case["k"] * 7 + case["j"] + 3).standard_normal(n)
    rec = Rec(x, x)
    ctx.nt(True)
    ctx.cls("j=%d" % case["j"])
    sig = ctx.lib(eqsig.Signal, x, dt)
    N0 = next_pow2(n)
    s0, f0 = ctx.lib(lambda: sig.fa_spectrum), ctx.lib(lambda: sig.fa_freqs)
    _check_spectrum(ctx, "Signal.fa_spectrum", s0, f0, rec, dt, N0, bins=_seam_bins(N0 // 2, n, 12), parseval=True)
    _agree(ctx, "generate_fa_spectrum vs object (npts=%d)" % n, ctx.lib(fr.generate_fa_spectrum, sig), s0, f0, rec, dt, N0)
    _check_dominant(ctx, "max_fa_period (npts=%d)" % n, sig, rec, dt, [N0])
    if case["k"] <= 19:
        _check_inverse(ctx, "default spectrum (npts=%d)" % n, np.array(s0), rec, dt, N0, "default")
    ctx.lib(sig.gen_fa_spectrum, p2_plus=1)
    _check_spectrum(ctx, "gen_fa_spectrum(p2_plus=1)", sig.fa_spectrum, sig.fa_freqs, rec, dt, 2 * N0)
    us, uf = ctx.lib(fr.calc_fa_spectrum, sig)
    _check_spectrum(ctx, "calc_fa_spectrum (unpadded)", us, uf, rec, dt, n, bins=_seam_bins(n // 2, n + 1, 8))


# ---------------------------------------------------------------------------
# mid-range sizes and option crosses (notes/brief_midrange.md).  A code path that exists only inside a window of sizes (padding to a
# fast FFT length for long records, a blocked transform, a spectrum cache kept for mid-size records) is invisible between the drawn
# lengths (<= 2500 / 9000) and the giant ones (>= 2^14 - 1, and only 2^k + j there).  Size dimensions of the property: the record
# length npts, the transform length N (requested n, or p2_plus), the length of the one-sided spectrum handed to the inverse helper.
# Every bin / sample of every output is compared (O(N log N)); a hashed sample of bins is also compared with the defining sum.

_MID_DTS = [0.0025, 0.004, 0.005, 0.01, 0.02, 1.0 / 128, 0.05, 2]
_MID_CONT = ["int", "list", "view", "negstride", "readonly"]


def _mid_record(n, seed, kind="burst"):
    """Ordinary, nowhere-zero data whose every stretch is distinct, with a non-zero mean: noise x envelope + sine + offset."""
    rs = np.random.RandomState(seed % (2 ** 31 - 1))
    t = (np.arange(n) + 1.0) / n
    if kind == "walk":
        x = np.cumsum(rs.standard_normal(n)) / math.sqrt(n) + 0.1 * rs.standard_normal(n) + 0.02
    else:
        env = 0.15 + 1.8 * (4 * t) ** 2 * np.exp(-4 * t)
        x = rs.standard_normal(n) * env + 0.3 * np.sin(2 * math.pi * (5 + seed % 23) * t + 0.7) + 0.05
    return x * 10.0 ** (seed % 5 - 2)


def _tone_bin(pts, seed, mode):
    """A bin 1..pts-1 of a one-sided spectrum of pts bins: among the last few per cent ('top'), at or next to a multiple of 2^k
    ('seam'), log-uniform ('log') or in the upper half ('high')."""
    if pts <= 4:
        return max(1, pts - 1)
    if mode == "top":
        k = pts - 1 - _hh(seed, "top") % max(1, pts // 40)
    elif mode == "seam":
        e = 5 + _hh(seed, "e") % max(1, int(math.log2(pts)) - 5)
        m = 1 + _hh(seed, "m") % max(1, pts // 2 ** e - 1)
        k = m * 2 ** e + _hh(seed, "d") % 3 - 1
    elif mode == "high":
        k = pts // 2 + _hh(seed, "hi") % (pts - pts // 2)
    else:
        k = _hint(2, pts - 1, seed, "k0")
    return min(pts - 1, max(1, k))


_TONE_MODES = ["top", "seam", "log", "high"]


def _mid_tone(n, seed, dc, N=None, mode=None):
    """A record for the dominant period: zero-mean burst + a tone on a bin of the grid of N points (default: the default padding),
    placed by `mode` (hashed when None); DC-dominated when dc."""
    x = _mid_record(n, seed)
    if dc:
        return x + 3.0 * float(np.max(np.abs(x)))
    x = x - np.mean(x)
    N = next_pow2(n) if N is None else N
    k0 = _tone_bin(N // 2, seed, mode or _TONE_MODES[(seed // 3) % 4])
    amp = [0.3, 2.0, 20.0][seed % 3] * float(np.std(x))
    return x + amp * np.cos(2 * math.pi * k0 * np.arange(n) / N + 0.1 * (seed % 60))


def _mid_container(a, how):
    if how == "f64":
        return Rec(a, a)
    if how == "int":
        arg = np.array(np.round(a * (1e5 / float(np.max(np.abs(a))))), dtype=np.int64)
        return Rec(arg, arg.astype(float))
    if how in gen.NARROW_DTYPES:
        return Rec(*gen.narrow_int(a, how))
    arg = gen.as_container({"as": how}, a)
    return Rec(arg, np.array(arg, dtype=float))


def _mid_sizes(tier, tag, lo=2000):
    if tier == "quick":
        return gen.size_ladder(lo, 300000, 14, tag, mined_limit=8)
    return gen.size_ladder(lo, 2000000, 36, tag + ":t", mined_limit=24)


def _mid_enum(tier, shard, nshards):
    for i, n in enumerate(_mid_sizes(tier, "c06:n")):
        if i % nshards == shard:
            h = _hh(gen.run_seed(), "c06:mid", i, n)
            yield {"n": int(n), "seed": h % (2 ** 31 - 1), "dt": _MID_DTS[h % len(_MID_DTS)], "i": i}


def _req_n(n, seed, tag):
    """A requested transform length >= n: just above, a non-round multiple, or far above; odd or even."""
    mode = _hh(seed, tag, "mode") % 4
    if mode == 3 and n > 60000:
        mode = 1
    if mode == 0:
        return n + _hh(seed, tag) % 7
    if mode == 1:
        return int(n * (1.05 + 0.9 * _hu(seed, tag))) + 1
    if mode == 2:
        return 2 * n + _hh(seed, tag) % 5 - 1
    return int(n * (2.0 + 2.5 * _hu(seed, tag)))


@enum_clause(CLAUSES, "mid-range", _mid_enum, quick_shards=4,
             rule="record lengths: one per logarithmic bin of [2 000, 300 000] (14 bins; thorough 36 bins to 2 000 000) placed by VERIF_SEED, plus "
                  "lengths c-1, c, c+1, 2c+1, 3c+2 for integer literals c of the tree under test; at every length: the default spectrum (hashed "
                  "first attribute, Signal / AccSignal, container variant), p2_plus, requested n (odd / even, just above to 4.5 npts), both "
                  "options, both unpadded array-level functions, the inverse helper (N a power of two and not), the dominant period (tone on a "
                  "high bin / DC-dominated), linearity, trailing zeros, a history (non-default spectrum, default restored, new record of "
                  "another length through reset_values); non-trivial = always",
             oracle="reference model on every bin / sample of every output (numpy.fft of the explicitly padded record), the defining sum at ~20 "
                    "hashed bins incl. block seams, Parseval; entry points agree within twice the value tolerance",
             exhaustive_note="the laddered and mined lengths x every entry point")
def mid_range(case, ctx):
    n, seed, dt = int(case["n"]), int(case["seed"]), case["dt"]
    ctx.nt(True)
    how = (["f64"] * 2 + _MID_CONT + ["int16", "int32", "int16", "int8"])[(seed // 7) % 11]
    rec = _mid_container(_mid_record(n, seed, "walk" if seed % 5 == 0 else "burst"), how)
    cls = eqsig.AccSignal if seed % 2 else eqsig.Signal
    ctx.cls(gen.size_class(n), "as=" + how, cls.__name__, "npts-odd" if n % 2 else "npts-even")
    form = core.call_form(case)
    sig = ctx.lib(cls, rec.arg, dt)
    # 1. default spectrum, any attribute first
    N0 = next_pow2(n)
    first = _FIRST[(seed // 3) % 4]
    ctx.cls("first=" + first)
    got_first = np.array(ctx.lib(lambda: getattr(sig, first)))
    s0, f0 = np.array(ctx.lib(lambda: sig.fa_spectrum)), np.array(ctx.lib(lambda: sig.fa_freqs))
    _check_spectrum(ctx, "%s.fa_spectrum" % cls.__name__, s0, f0, rec, dt, N0, bins=_seam_bins(N0 // 2, seed), parseval=True)
    want_first = {"fa_spectrum": s0, "fa_freqs": f0, "fa_frequencies": f0, "fa_spectrum_abs": np.abs(s0)}[first]
    ctx.close(got_first, want_first, 2 * rec.tol(N0, dt) if "spectrum" in first else 8 * EPS * f0, "%s read first on a fresh object (npts=%d)" % (first, n))
    ctx.close(np.asarray(ctx.lib(lambda: sig.fa_spectrum_abs)), np.abs(s0), 4 * EPS * np.abs(s0), "fa_spectrum_abs vs |fa_spectrum| (npts=%d)" % n)
    _agree(ctx, "generate_fa_spectrum(sig) vs object (npts=%d)" % n, ctx.libf(form, fr.generate_fa_spectrum, ["n_pad"], sig, n_pad=True), s0, f0, rec, dt, N0)
    _check_dominant(ctx, "max_fa_period (npts=%d, default spectrum)" % n, sig, rec, dt, [N0])
    # 2. the inverse helper on the default spectrum (N a power of two)
    _check_inverse(ctx, "default spectrum (npts=%d)" % n, ctx.lib(lambda: sig.fa_spectrum), rec, dt, N0, ["default", "signal", "acc"][seed % 3], form)
    _check_spectrum(ctx, "the object's spectrum after it was passed to the inverse helper", ctx.lib(lambda: sig.fa_spectrum), ctx.lib(lambda: sig.fa_freqs), rec, dt, N0)
    # 3. p2_plus, object and array level: every value 1..3 whose transform stays below the tier's cap (a window may be defined on
    #    npts x 2^p2_plus)
    cap = 2 ** 21 if core.tier() == "quick" else 2 ** 22
    p2s = [q for q in (1, 2, 3) if N0 * 2 ** q <= cap] or [1]
    p2 = p2s[(seed // 5) % len(p2s)]
    for q in p2s:
        Np = next_pow2(n, q)
        ctx.libf(form if q == p2 else "kw", sig.gen_fa_spectrum, ["p2_plus"], p2_plus=q)
        sp, fp = np.array(sig.fa_spectrum), np.array(sig.fa_freqs)
        _check_spectrum(ctx, "gen_fa_spectrum(p2_plus=%d)" % q, sp, fp, rec, dt, Np, bins=_seam_bins(Np // 2, seed + q, 8) if q == p2 else None)
        _agree(ctx, "calc_fa_spectrum(p2_plus=%d) vs object (npts=%d)" % (q, n), ctx.lib(fr.calc_fa_spectrum, sig, p2_plus=q), sp, fp, rec, dt, Np)
        if q == p2:
            _check_dominant(ctx, "max_fa_period (npts=%d, after gen_fa_spectrum(p2_plus=%d))" % (n, q), sig, rec, dt, [Np, N0])
    _agree(ctx, "calc_fa_spectrum(p2_plus=0) vs default (npts=%d)" % n, ctx.lib(fr.calc_fa_spectrum, sig, p2_plus=0), s0, f0, rec, dt, N0)
    # 4. requested n, object and array level; both options
    Nr = _req_n(n, seed, "nr")
    ctx.cls("N-odd" if Nr % 2 else "N-even")
    ctx.lib(sig.gen_fa_spectrum, n=Nr)
    sr, frq = np.array(sig.fa_spectrum), np.array(sig.fa_freqs)
    _check_spectrum(ctx, "gen_fa_spectrum(n=%d)" % Nr, sr, frq, rec, dt, Nr, bins=_seam_bins(Nr // 2, seed + 2, 10), parseval=True)
    _agree(ctx, "calc_fa_spectrum(n=%d) vs object (npts=%d)" % (Nr, n), ctx.libf(form, fr.calc_fa_spectrum, ["n"], sig, n=Nr), sr, frq, rec, dt, Nr)
    Nr2 = _req_n(n, seed, "nr2")
    ctx.libf(form, sig.gen_fa_spectrum, ["p2_plus", "n"], p2_plus=p2, n=Nr2)
    sb, fb = np.array(sig.fa_spectrum), np.array(sig.fa_freqs)
    Nb = _check_spectrum_any(ctx, "gen_fa_spectrum(p2_plus=%d, n=%d)" % (p2, Nr2), sb, fb, rec, dt,
                             _both_N(ctx, "gen_fa_spectrum(p2_plus=%d, n=%d)" % (p2, Nr2), sb, n, p2, Nr2))
    cb = ctx.libf(form, fr.calc_fa_spectrum, ["n", "p2_plus"], sig, n=Nr2, p2_plus=p2)
    ctx.check(len(np.asarray(cb[0])) == len(sb), "calc_fa_spectrum(n=%d, p2_plus=%d) has %d bins, gen_fa_spectrum(p2_plus=%d, n=%d) has %d" % (
        Nr2, p2, len(np.asarray(cb[0])), p2, Nr2, len(sb)))
    _agree(ctx, "calc_fa_spectrum(n=%d, p2_plus=%d) vs object" % (Nr2, p2), cb, sb, fb, rec, dt, Nb)
    # 5. the inverse helper on a spectrum of even N that is not a power of two
    Ne = Nr + Nr % 2
    if next_pow2(Ne) == Ne:
        Ne += 2
    Fe = np.array(ctx.lib(fr.calc_fa_spectrum, sig, n=Ne)[0])
    _check_inverse(ctx, "calc_fa_spectrum(n=%d) (npts=%d)" % (Ne, n), Fe, rec, dt, Ne, ["acc", "default", "signal"][seed % 3], form)
    # 6. unpadded array-level functions: N = npts
    us, uf = ctx.lib(fr.calc_fa_spectrum, sig)
    _check_spectrum(ctx, "calc_fa_spectrum (unpadded)", us, uf, rec, dt, n, bins=_seam_bins(n // 2, seed + 3), parseval=True)
    _agree(ctx, "generate_fa_spectrum(n_pad=False) vs calc_fa_spectrum() (npts=%d)" % n, ctx.libf(form, fr.generate_fa_spectrum, ["n_pad"], sig, n_pad=False),
           us, uf, rec, dt, n)
    # 7. history: default restored; a new record of another length; then a non-default spectrum on it
    ctx.lib(sig.generate_fa_spectrum)
    _check_spectrum(ctx, "after generate_fa_spectrum() (default restored, npts=%d)" % n, ctx.lib(lambda: sig.fa_spectrum), ctx.lib(lambda: sig.fa_freqs), rec, dt, N0)
    if seed % 3 == 0:
        ctx.lib(sig.gen_fa_spectrum, n=Nr)
    n2 = max(2, int(n * (0.4 + 1.2 * _hu(seed, "n2"))))
    rec2 = Rec(None, _mid_tone(n2, seed // 3 + 1, dc=seed % 4 == 0))
    ctx.lib(sig.reset_values, rec2.x)
    N2 = next_pow2(n2)
    second = _FIRST[(seed // 11) % 4]
    ctx.lib(lambda: getattr(sig, second))
    _check_spectrum(ctx, "after reset_values(record of %d samples) on an object that held %d (%s read first)" % (n2, n, second),
                    ctx.lib(lambda: sig.fa_spectrum), ctx.lib(lambda: sig.fa_freqs), rec2, dt, N2, parseval=True)
    _check_dominant(ctx, "max_fa_period (npts=%d, tone / DC record)" % n2, sig, rec2, dt, [N2])
    # 8. linearity and trailing zeros at this length (default padding on one level, explicit n on the other)
    b = _mid_record(n, seed // 3 + 2, "walk")
    al = (-1.0) ** (seed % 2) * 10.0 ** (4 * _hu(seed, "al") - 2)
    be = (-1.0) ** (seed // 2 % 2) * 10.0 ** (4 * _hu(seed, "be") - 2)
    vcase = {"variant": ["default", "n", "p2", "unpadded"][(seed // 13) % 4], "p2": p2, "acc": bool(seed % 2), "padded": True}
    Nn = Nr
    sa, fa, N = _variant_spec(ctx, vcase, rec.x, dt, Nn)
    sbb, _, _ = _variant_spec(ctx, vcase, b, dt, Nn)
    sc, _, _ = _variant_spec(ctx, vcase, al * rec.x + be * b, dt, Nn)
    terms = Rec(None, abs(al) * np.abs(rec.x) + abs(be) * np.abs(b))
    ctx.close(sc, al * sa + be * sbb, 3 * terms.tol(N, dt), "linearity of the Fourier amplitude spectrum (variant %s, npts=%d)" % (vcase["variant"], n))
    room = {"default": N0 - n, "p2": N0 - n, "n": Nn - n, "unpadded": 0}[vcase["variant"]]
    z = int(room * _hu(seed, "z"))
    if z > 0:
        ctx.cls("trailing-zeros")
        s2, f2, _ = _variant_spec(ctx, vcase, np.concatenate([rec.x, np.zeros(z)]), dt, Nn)
        ctx.close(s2, sa, 2 * rec.tol(N, dt), "spectrum after appending %d zeros (same N=%d, variant %s, npts=%d)" % (z, N, vcase["variant"], n))
        ctx.close(f2, fa, 8 * EPS * np.abs(fa), "frequencies after appending zeros (same N=%d, npts=%d)" % (N, n))


def _n_enum(tier, shard, nshards):
    for i, N in enumerate(_mid_sizes(tier, "c06:N", lo=3000)):
        if i % nshards == shard:
            h = _hh(gen.run_seed(), "c06:midN", i, N)
            yield {"N": int(N), "seed": h % (2 ** 31 - 1), "dt": _MID_DTS[h % len(_MID_DTS)], "i": i}


@enum_clause(CLAUSES, "mid-range-n", _n_enum, quick_shards=4,
             rule="transform lengths N (requested n; the inverse helper's 2 len(fas)): the ladder / mined sizes of `mid-range` from 3 000, each "
                  "with a record of hashed length between 2 samples and N (log-uniform): object and array level, the inverse helper when N is even "
                  "(and on N+1 otherwise), the dominant period on the non-default spectrum; non-trivial = always",
             oracle="as `mid-range` (every bin; the defining sum at hashed bins; Parseval)",
             exhaustive_note="the laddered and mined transform lengths")
def mid_range_n(case, ctx):
    N, seed, dt = int(case["N"]), int(case["seed"]), case["dt"]
    n = _hint(2, N, seed, "npts") if seed % 4 else N - seed % 3
    n = max(2, min(N, n))
    ctx.nt(True)
    rec = Rec(None, _mid_tone(n, seed, dc=seed % 5 == 0, N=N) if n >= 64 else _mid_record(n, seed))
    cls = eqsig.AccSignal if seed % 2 else eqsig.Signal
    form = core.call_form(case)
    ctx.cls(gen.size_class(n), cls.__name__, "N-odd" if N % 2 else "N-even", "N>=8npts" if N >= 8 * n else None)
    sig = ctx.lib(cls, rec.x, dt)
    if seed % 3 == 0:
        ctx.lib(lambda: sig.fa_spectrum)  # with or without the default spectrum cached before
    ctx.lib(sig.gen_fa_spectrum, n=N)
    s, f = np.array(ctx.lib(lambda: sig.fa_spectrum)), np.array(ctx.lib(lambda: sig.fa_freqs))
    _check_spectrum(ctx, "gen_fa_spectrum(n=%d)" % N, s, f, rec, dt, N, bins=_seam_bins(N // 2, seed), parseval=True)
    _agree(ctx, "calc_fa_spectrum(n=%d) vs object (npts=%d)" % (N, n), ctx.libf(form, fr.calc_fa_spectrum, ["n"], sig, n=N), s, f, rec, dt, N)
    _check_dominant(ctx, "max_fa_period (npts=%d, after gen_fa_spectrum(n=%d))" % (n, N), sig, rec, dt, [N, next_pow2(n)])
    if n >= 64:
        # the dominant period with the tone among the last bins, at a block seam, anywhere: three more records of this length
        for j, mode in enumerate(("top", "seam", "log")):
            rj = Rec(None, _mid_tone(n, seed + 1 + j, False, N=N, mode=mode))
            sj = ctx.lib(cls, rj.x, dt)
            ctx.lib(sj.gen_fa_spectrum, n=N)
            _check_dominant(ctx, "max_fa_period (npts=%d, after gen_fa_spectrum(n=%d), tone placed '%s')" % (n, N, mode), sj, rj, dt, [N])
    Ne = N + N % 2
    Fe = s if Ne == N else np.array(ctx.lib(fr.calc_fa_spectrum, sig, n=Ne)[0])
    _check_inverse(ctx, "spectrum of N=%d points (npts=%d)" % (Ne, n), Fe, rec, dt, Ne, ["signal", "acc", "default"][seed % 3], form)


def _opt_enum(tier, shard, nshards):
    sizes = gen.ladder(300, 20000, 6 if tier == "quick" else 18, "c06:opt" + tier)
    cases = []
    for acc in (False, True):
        for form in ("kw", "pos"):
            for entry in ("gen", "calc"):
                for p2 in (None, 0, 1, 2, 3):
                    for nk in (None, "odd", "even"):
                        cases.append({"entry": entry, "p2": p2, "nk": nk, "acc": acc, "form": form})
            for n_pad in (None, True, False):
                cases.append({"entry": "generate", "n_pad": n_pad, "acc": acc, "form": form})
            for stype in ("default", "signal", "acc", "acc-signal"):
                for nk in ("pow2", "even"):
                    cases.append({"entry": "inverse", "stype": stype, "nk": nk, "acc": acc, "form": form})
            for state in ("default", "p2", "n"):
                cases.append({"entry": "dominant", "state": state, "acc": acc, "form": form})
        for first in _FIRST:
            cases.append({"entry": "lazy", "first": first, "acc": acc, "form": "kw"})
    for k, c in enumerate(cases):
        if k % nshards == shard:
            h = _hh(gen.run_seed(), "c06:opt", k)
            yield dict(c, n=int(sizes[h % len(sizes)]), seed=h % (2 ** 31 - 1), dt=_MID_DTS[k % len(_MID_DTS)], how=(["f64"] + _MID_CONT)[(h // 7) % 6])


@enum_clause(CLAUSES, "mid-range-options", _opt_enum, quick_shards=2,
             rule="cross product of the optional arguments: {gen_fa_spectrum, calc_fa_spectrum} x p2_plus {omitted, 0..3} x n {omitted, odd, even}; "
                  "generate_fa_spectrum n_pad {omitted, True, False}; fas2signal stype {omitted, 'signal', 'acc', other} x N {power of two, even}; "
                  "max_fa_period on {default, p2_plus, n} spectra; each lazy attribute first; all x {Signal, AccSignal} x {keyword, positional} "
                  "with a hashed container variant; lengths from a ladder 300..20 000; dt incl. a python int",
             oracle="reference model on every bin (as `definition`)",
             exhaustive_note="the option cross product")
def mid_range_options(case, ctx):
    n, seed, dt = int(case["n"]), int(case["seed"]), case["dt"]
    entry, form = case["entry"], case["form"]
    rec = _mid_container(_mid_tone(n, seed, dc=seed % 6 == 0) if entry == "dominant" else _mid_record(n, seed), case["how"])
    n = rec.n
    cls = eqsig.AccSignal if case["acc"] else eqsig.Signal
    ctx.nt(True)
    ctx.cls("entry=" + entry, "as=" + case["how"], cls.__name__)
    sig = ctx.lib(cls, rec.arg, dt)
    N0 = next_pow2(n)
    if entry in ("gen", "calc"):
        p2, nk = case["p2"], case["nk"]
        Nr = None if nk is None else _req_n(n, seed, "o")
        if Nr is not None and (Nr % 2 == 0) != (nk == "even"):
            Nr += 1
        kw = {}
        if p2 is not None:
            kw["p2_plus"] = p2
        if Nr is not None:
            kw["n"] = Nr
        ctx.cls("p2=%s" % p2, "n=%s" % nk)
        if entry == "gen":
            if seed % 2:
                ctx.lib(lambda: sig.fa_spectrum)
            ctx.libf(form, sig.gen_fa_spectrum, ["p2_plus", "n"], **kw)
            s, f = np.array(ctx.lib(lambda: sig.fa_spectrum)), np.array(ctx.lib(lambda: sig.fa_freqs))
            what = "gen_fa_spectrum(%s)" % kw
        else:
            s, f = ctx.libf(form, fr.calc_fa_spectrum, ["n", "p2_plus"], sig, **kw)
            what = "calc_fa_spectrum(%s)" % kw
        cands = None
        if Nr is not None and p2 is not None:
            cands = _both_N(ctx, what, s, n, p2, Nr)
            N = None
            # the other level picks the same one
            if entry == "gen":
                o = ctx.lib(fr.calc_fa_spectrum, sig, n=Nr, p2_plus=p2)[0]
            else:
                ctx.lib(sig.gen_fa_spectrum, p2_plus=p2, n=Nr)
                o = sig.fa_spectrum
            ctx.check(len(np.asarray(o)) == len(np.asarray(s)), "%s has %d bins, the other level %d (npts=%d)" % (what, len(np.asarray(s)), len(np.asarray(o)), n))
        elif Nr is not None:
            N = Nr
        elif p2 is not None:
            N = next_pow2(n, p2)
        else:
            N = N0 if entry == "gen" else n
        _check_spectrum_any(ctx, what, s, f, rec, dt, cands or [N], parseval=True)
    elif entry == "generate":
        kw = {} if case["n_pad"] is None else {"n_pad": case["n_pad"]}
        s, f = ctx.libf(form, fr.generate_fa_spectrum, ["n_pad"], sig, **kw)
        _check_spectrum(ctx, "generate_fa_spectrum(%s)" % kw, s, f, rec, dt, n if case["n_pad"] is False else N0, parseval=True)
    elif entry == "inverse":
        if case["nk"] == "pow2":
            N = N0
            F = np.array(ctx.lib(lambda: sig.fa_spectrum))
        else:
            N = _req_n(n, seed, "i")
            N += N % 2
            F = np.array(ctx.lib(fr.calc_fa_spectrum, sig, n=N)[0])
        _check_inverse(ctx, "N=%d (npts=%d)" % (N, n), F, rec, dt, N, case["stype"], form)
    elif entry == "dominant":
        Ns = [N0]
        if case["state"] == "p2":
            ctx.lib(sig.gen_fa_spectrum, p2_plus=1 + seed % 2)
            Ns = [next_pow2(n, 1 + seed % 2), N0]
        elif case["state"] == "n":
            Nr = _req_n(n, seed, "d")
            ctx.lib(sig.gen_fa_spectrum, n=Nr)
            Ns = [Nr, N0]
        _check_dominant(ctx, "max_fa_period (%s spectrum, npts=%d)" % (case["state"], n), sig, rec, dt, Ns)
    else:
        first = case["first"]
        got = np.array(ctx.lib(lambda: getattr(sig, first)))
        s0, f0 = np.array(ctx.lib(lambda: sig.fa_spectrum)), np.array(ctx.lib(lambda: sig.fa_freqs))
        _check_spectrum(ctx, "%s.fa_spectrum (%s read first)" % (cls.__name__, first), s0, f0, rec, dt, N0)
        want = {"fa_spectrum": s0, "fa_freqs": f0, "fa_frequencies": f0, "fa_spectrum_abs": np.abs(s0)}[first]
        ctx.close(got, want, 2 * rec.tol(N0, dt) if "spectrum" in first else 8 * EPS * f0, "%s read first on a fresh object (npts=%d)" % (first, n))
