"""C06 - Fourier amplitude spectrum is dt x DFT of the zero-padded record on the stated grid."""
import math

import numpy as np
from hypothesis import strategies as st

import eqsig
from eqsig import im
from eqsig.fns import frequency as fr

from pbt import core, gen
from pbt.core import clause, enum_clause

PROPERTY = "C06"
CLAUSES = []
ASSUMPTIONS = [
    "reference = direct O(N^2) DFT (matrix product, long double twiddles) for N <= 512, numpy.fft.fft of the explicitly zero-padded "
    "record above that (trusted base)",
    "requested n >= npts (padding, not truncation); records finite, n 2..9000 (quick <= 2500)",
    "value tolerance 1e-12*dt*sum|x| per bin (FFT rounding ~ eps*log2(N)*sum|x|); frequency tolerance 4 eps relative",
    "inverse helper: spectra of even N (every padded N and the even-length unpadded case): the positive-bin spectrum of an odd-length "
    "transform does not determine an even-length record",
    "dominant period: any bin whose amplitude is within 1e-12 of the maximum is accepted (ties); bin 0 maps to an infinite period",
]
EPS = np.finfo(float).eps
LD = np.longdouble
MAX_N = 2500 if core.tier() == "quick" else 9000


def dft_ref(x, N):
    """X_k for k = 0..N-1 of x zero-padded to N."""
    x = np.asarray(x, dtype=float)
    if N <= 512:
        n = np.arange(len(x), dtype=LD)
        k = np.arange(N, dtype=LD)[:, None]
        two_pi = 2 * np.arctan2(LD(0), LD(-1))
        ang = -two_pi * ((k * n) % N) / N
        return np.asarray((np.cos(ang) * x.astype(LD)).sum(axis=1), dtype=float) + 1j * np.asarray((np.sin(ang) * x.astype(LD)).sum(axis=1), dtype=float)
    pad = np.zeros(N)
    pad[:len(x)] = x
    return np.fft.fft(pad)


def next_pow2(n, plus=0):
    p = 1
    e = 0
    while p < n:
        p *= 2
        e += 1
    return 2 ** (e + plus)


_lengths = st.one_of(
    st.integers(2, 40),
    st.integers(2, MAX_N),
    st.integers(1, 13).flatmap(lambda e: st.sampled_from([2 ** e - 1, 2 ** e, 2 ** e + 1])).filter(lambda n: 2 <= n <= MAX_N),
    st.integers(1, MAX_N // 2 - 1).map(lambda k: 2 * k + 1),
)


@st.composite
def _rec(draw, min_n=2):
    n = max(min_n, draw(_lengths))
    if n <= 40:
        spec = draw(gen.record_specs(min_n=n, max_n=n, small_max=n, allow_zero_runs=False))
    else:
        spec = draw(gen.record_specs(min_n=n, max_n=n, kinds=["noise", "sines", "pulse", "step", "walk", "const", "quake"], allow_zero_runs=False))
    return spec


@st.composite
def _def_cases(draw):
    spec = draw(_rec())
    n = len(gen.build(spec))
    return {"rec": spec, "dt": draw(gen.dts(1e-4, 1.0)), "p2": draw(st.integers(0, 3)),
            "n_req": n + draw(st.one_of(st.integers(0, 3), st.integers(0, n))), "acc": draw(st.booleans())}


def _check_spectrum(ctx, what, got_s, got_f, x, dt, N, sumabs):
    pts = N // 2
    got_s = np.asarray(got_s)
    got_f = np.asarray(got_f)
    ctx.shape(got_s, (pts,), what + " spectrum (N=%d)" % N)
    ctx.shape(got_f, (pts,), what + " frequencies (N=%d)" % N)
    X = dft_ref(x, N)[:pts]
    ctx.close(got_s, dt * X, 1e-12 * dt * sumabs + core.TINY, what + " spectrum vs dt*DFT (N=%d, npts=%d)" % (N, len(x)))
    want_f = np.arange(pts) / (N * dt)
    ctx.close(got_f, want_f, 4 * EPS * want_f, what + " frequencies vs k/(N*dt) (N=%d, npts=%d)" % (N, len(x)))


@clause(CLAUSES, "definition", _def_cases(), quick=400, thorough=2500,
        rule="records of every length class (2..40 element-wise, up to 2000 by recipe, 2^e-1/2^e/2^e+1, odd), all dt, p2_plus 0..3, requested n >= npts "
             "(odd and even), Signal and AccSignal; non-trivial = non-zero record; classes record whether N is odd / a power of two",
        oracle="reference model: dt * direct DFT of the zero-padded record, bins 0..N/2-1 at k/(N dt); differential: object vs array level (exact)",
        require={"N-odd": 0.15, "npts-not-pow2": 0.3})
def definition(case, ctx):
    x = gen.build(case["rec"])
    n = len(x)
    dt = case["dt"]
    sumabs = float(np.sum(np.abs(x)))
    ctx.nt(bool(np.any(x)))
    ctx.cls(gen.size_class(n), "npts-pow2" if next_pow2(n) == n else "npts-not-pow2", "npts-odd" if n % 2 else "npts-even",
            "acc" if case["acc"] else "sig")
    cls = eqsig.AccSignal if case["acc"] else eqsig.Signal
    sig = ctx.lib(cls, x, dt)
    other = ctx.lib(eqsig.Signal if case["acc"] else eqsig.AccSignal, x, dt)
    # default: next power of two
    N0 = next_pow2(n)
    s0 = np.array(ctx.lib(lambda: sig.fa_spectrum))
    f0 = np.array(ctx.lib(lambda: sig.fa_freqs))
    _check_spectrum(ctx, "Signal.fa_spectrum", s0, f0, x, dt, N0, sumabs)
    ctx.equal(ctx.lib(lambda: sig.fa_frequencies), f0, "fa_frequencies alias")
    ctx.equal(ctx.lib(lambda: sig.fa_spectrum_abs), np.abs(s0), "fa_spectrum_abs")
    ctx.equal(ctx.lib(lambda: cls(x, dt).fa_spectrum_abs), np.abs(s0), "fa_spectrum_abs read first on a fresh object")
    ctx.equal(ctx.lib(lambda: other.fa_spectrum), s0, "Signal vs AccSignal spectrum")
    ctx.equal(ctx.lib(lambda: other.fa_freqs), f0, "Signal vs AccSignal frequencies")
    gs, gf = ctx.lib(fr.generate_fa_spectrum, sig)
    ctx.equal(gs, s0, "generate_fa_spectrum(n_pad=True) vs object")
    ctx.equal(gf, f0, "generate_fa_spectrum(n_pad=True) frequencies vs object")
    # p2_plus
    p2 = case["p2"]
    Np = next_pow2(n, p2)
    ctx.lib(sig.gen_fa_spectrum, p2_plus=p2)
    sp, fp = np.array(sig.fa_spectrum), np.array(sig.fa_freqs)
    _check_spectrum(ctx, "gen_fa_spectrum(p2_plus=%d)" % p2, sp, fp, x, dt, Np, sumabs)
    cs, cf = ctx.lib(fr.calc_fa_spectrum, sig, p2_plus=p2)
    ctx.equal(cs, sp, "calc_fa_spectrum(p2_plus) vs object")
    ctx.equal(cf, fp, "calc_fa_spectrum(p2_plus) frequencies vs object")
    # explicit n
    Nr = case["n_req"]
    ctx.cls("N-odd" if Nr % 2 or n % 2 else None)
    ctx.lib(sig.gen_fa_spectrum, n=Nr)
    sr, frq = np.array(sig.fa_spectrum), np.array(sig.fa_freqs)
    _check_spectrum(ctx, "gen_fa_spectrum(n=%d)" % Nr, sr, frq, x, dt, Nr, sumabs)
    cs, cf = ctx.lib(fr.calc_fa_spectrum, sig, n=Nr)
    ctx.equal(cs, sr, "calc_fa_spectrum(n) vs object")
    ctx.equal(cf, frq, "calc_fa_spectrum(n) frequencies vs object")
    # unpadded array-level variants: N = npts
    us, uf = ctx.lib(fr.calc_fa_spectrum, sig)
    _check_spectrum(ctx, "calc_fa_spectrum (unpadded)", us, uf, x, dt, n, sumabs)
    vs, vf = ctx.lib(fr.generate_fa_spectrum, sig, n_pad=False)
    ctx.equal(vs, us, "generate_fa_spectrum(n_pad=False) vs calc_fa_spectrum()")
    ctx.equal(vf, uf, "generate_fa_spectrum(n_pad=False) frequencies vs calc_fa_spectrum()")
    # back to the default
    ctx.lib(sig.generate_fa_spectrum)
    ctx.equal(sig.fa_spectrum, s0, "generate_fa_spectrum() restores the default spectrum")


@st.composite
def _cons_cases(draw):
    spec = draw(_rec())
    n = len(gen.build(spec))
    spec_b = draw(gen.record_specs(min_n=n, max_n=n, small_max=n, kinds=["noise", "sines", "walk"], allow_zero_runs=False))
    return {"a": spec, "b": spec_b, "alpha": draw(gen.scalars()), "beta": draw(gen.scalars()), "dt": draw(gen.dts(1e-4, 1.0)),
            "zfrac": draw(st.floats(0, 1, allow_nan=False)), "padded": draw(st.booleans())}


@clause(CLAUSES, "consequences", _cons_cases(), quick=400, thorough=2500,
        rule="pairs of records of equal length, alpha/beta as in C02, trailing-zero counts that keep N fixed, padded and unpadded variants; "
             "non-trivial = both records non-zero",
        oracle="metamorphic: linearity (1e-12*dt*sum|terms|), trailing zeros within the same N leave the spectrum unchanged (exact), "
               "Parseval with the missing bins supplied by the reference (1e-10 relative)")
def consequences(case, ctx):
    a = gen.build(case["a"])
    b = gen.build(case["b"])
    n = len(a)
    if len(b) != n:
        b = np.resize(b, n)
    dt = case["dt"]
    al, be = case["alpha"], case["beta"]
    ctx.nt(bool(np.any(a) and np.any(b)))
    ctx.cls(gen.size_class(n), "padded" if case["padded"] else "unpadded", "npts-odd" if n % 2 else "npts-even")

    def spec(x):
        s = eqsig.Signal(x, dt)
        if case["padded"]:
            return np.array(ctx.lib(lambda: s.fa_spectrum)), np.array(s.fa_freqs)
        out = ctx.lib(fr.calc_fa_spectrum, s)
        return np.array(out[0]), np.array(out[1])
    sa, fa = spec(a)
    sb, _ = spec(b)
    sc, _ = spec(al * a + be * b)
    tol = 1e-12 * dt * float(np.sum(abs(al) * np.abs(a) + abs(be) * np.abs(b))) + core.TINY
    ctx.close(sc, al * sa + be * sb, tol, "linearity of the Fourier amplitude spectrum")
    # trailing zeros that do not change N (default padding only)
    N = next_pow2(n)
    room = N - n
    z = int(round(case["zfrac"] * room))
    if z > 0:
        ctx.cls("trailing-zeros")
        s2 = eqsig.Signal(np.concatenate([a, np.zeros(z)]), dt)
        ctx.equal(ctx.lib(lambda: s2.fa_spectrum), eqsig.Signal(a, dt).fa_spectrum, "spectrum after appending %d zeros (same N=%d)" % (z, N))
        ctx.equal(s2.fa_freqs, eqsig.Signal(a, dt).fa_freqs, "frequencies after appending zeros (same N)")
    # Parseval: dt*sum x^2 == (1/(N dt)) * sum_k |F_k|^2 over all N bins; the returned half supplies bins 0..N/2-1, its mirror the
    # negative frequencies, the reference the remaining (Nyquist / top) bin(s)
    Nn = N if case["padded"] else n
    pts = Nn // 2
    X = dft_ref(a, Nn) * dt
    total = np.abs(sa[0]) ** 2 + 2 * np.sum(np.abs(sa[1:]) ** 2)
    covered = set([0] + list(range(1, pts)) + [Nn - k for k in range(1, pts)])
    missing = [k for k in range(Nn) if k not in covered]
    total = total + float(np.sum(np.abs(X[missing]) ** 2))
    energy = dt * float(np.sum(a.astype(LD) ** 2))
    ctx.check(abs(total / (Nn * dt) - energy) <= 1e-10 * energy + core.TINY,
              "Parseval: dt*sum x^2 = %r but spectrum gives %r (N=%d)" % (energy, total / (Nn * dt), Nn))


@st.composite
def _inv_cases(draw):
    spec = draw(_rec())
    return {"rec": spec, "dt": draw(gen.dts(1e-4, 1.0)), "variant": draw(st.sampled_from(["default", "p2", "n-even", "unpadded-even"])),
            "p2": draw(st.integers(1, 2)), "extra": draw(st.integers(0, 40)), "stype": draw(st.sampled_from(["signal", "acc"]))}


@clause(CLAUSES, "inverse", _inv_cases(), quick=400, thorough=2500,
        rule="spectra of even N from all variants (default padding, p2_plus, even requested n incl. non-powers of two, unpadded even records) "
             "fed to fas2values / fas2signal; non-trivial = non-zero record",
        oracle="round trip: real part == zero-padded record minus its mean and Nyquist components (1e-12*max|x|), imaginary part ~ 0, length N, "
               "returned object type as requested",
        require={"N-not-pow2": 0.2})
def inverse(case, ctx):
    x = gen.build(case["rec"])
    n = len(x)
    dt = case["dt"]
    sig = eqsig.Signal(x, dt)
    v = case["variant"]
    if v == "default":
        N = next_pow2(n)
        F = np.array(sig.fa_spectrum)
    elif v == "p2":
        N = next_pow2(n, case["p2"])
        F = np.array(fr.calc_fa_spectrum(sig, p2_plus=case["p2"])[0])
    elif v == "n-even":
        N = n + case["extra"]
        N += N % 2
        F = np.array(fr.calc_fa_spectrum(sig, n=N)[0])
    else:
        if n % 2:
            x = x[:-1] if n > 2 else np.concatenate([x, [0.5]])
            n = len(x)
            sig = eqsig.Signal(x, dt)
        N = n
        F = np.array(fr.calc_fa_spectrum(sig)[0])
    ctx.cls("variant=" + v, "N-pow2" if next_pow2(N) == N else "N-not-pow2", gen.size_class(n))
    ctx.nt(bool(np.any(x)))
    pad = np.zeros(N)
    pad[:n] = x
    nyq = np.sum(pad * (-1.0) ** np.arange(N)) / N
    want = pad - pad.mean() - nyq * (-1.0) ** np.arange(N)
    scale = float(np.max(np.abs(x))) if np.any(x) else 1.0
    if v == "default":
        # hand over the object's own (cached) spectrum, as a caller naturally does; it must survive the call unchanged
        own = ctx.lib(lambda: sig.fa_spectrum)
        ctx.lib(fr.fas2values, own, dt)
        ctx.lib(fr.fas2signal, own, dt, stype=case["stype"])
        ctx.equal(sig.fa_spectrum, F, "the signal's own Fourier spectrum after it was passed to fas2values / fas2signal")
        ctx.cls("own-spectrum")
    F_before = F.copy()
    vals = np.asarray(ctx.lib(fr.fas2values, F, dt))
    ctx.equal(F, F_before, "spectrum argument of fas2values after the call")
    ctx.shape(vals, (N,), "fas2values output (N=%d)" % N)
    ctx.close(np.real(vals), want, 1e-12 * scale * max(1.0, math.log2(N)), "fas2values real part vs padded record minus mean and Nyquist (N=%d)" % N)
    ctx.check(float(np.max(np.abs(np.imag(vals)))) <= 1e-12 * scale * max(1.0, math.log2(N)) + core.TINY, "fas2values imaginary part not ~0")
    obj = ctx.lib(fr.fas2signal, F, dt, stype=case["stype"])
    if case["stype"] == "signal":
        ctx.check(type(obj) is eqsig.Signal, "fas2signal(stype='signal') returned %s" % type(obj).__name__)
    else:
        ctx.check(type(obj) is eqsig.AccSignal, "fas2signal(stype='acc') returned %s" % type(obj).__name__)
    ctx.check(obj.dt == dt, "fas2signal dt %r != %r" % (obj.dt, dt))
    ctx.equal(np.asarray(obj.values), vals, "fas2signal values vs fas2values")
    ctx.equal(F, F_before, "spectrum argument of fas2signal after the call")


@st.composite
def _dom_cases(draw):
    n = draw(st.sampled_from([32, 64, 128, 256, 100, 200, 75]))
    N = next_pow2(n)
    return {"n": n, "k0": draw(st.integers(1, N // 2 - 1)), "phase": (draw(st.integers(0, 7)) + draw(st.floats(0, 1, allow_nan=False, exclude_max=True))) * math.pi / 4,
            "amp": draw(gen.log_uniform(1e-3, 1e3)), "noise": draw(st.sampled_from([0.0, 0.01, 0.1])), "seed": draw(st.integers(0, 10 ** 6)),
            "dt": draw(gen.dts(1e-3, 0.1)), "arbitrary": draw(st.integers(0, 4)) == 0, "rec": draw(gen.record_specs(min_n=4, max_n=300))}


@clause(CLAUSES, "dominant-period", _dom_cases(), quick=400, thorough=2500,
        rule="sinusoids on the padded Fourier grid with drawn phase in [0, 2pi), amplitude and additive noise, plus arbitrary records; "
             "non-trivial = sinusoid case (phase decides the sign of the real part)",
        oracle="reference model: reported period is 1/f_k of a bin whose |F_k| is within 1e-12 of max|F| (bin 0 -> inf)",
        require={"phase-real-negative": 0.2})
def dominant_period(case, ctx):
    dt = case["dt"]
    if case["arbitrary"]:
        x = gen.build(case["rec"])
        ctx.cls("arbitrary")
    else:
        n = case["n"]
        N = next_pow2(n)
        t = np.arange(n)
        x = case["amp"] * (np.cos(2 * math.pi * case["k0"] * t / N + case["phase"])
                           + case["noise"] * np.random.RandomState(case["seed"]).standard_normal(n))
        ctx.nt(True)
        ctx.cls("sinusoid", "phase-real-negative" if math.cos(case["phase"]) < 0 else "phase-real-positive")
    asig = eqsig.AccSignal(x, dt)
    F = np.abs(np.asarray(asig.fa_spectrum))
    f = np.asarray(asig.fa_freqs)
    got = ctx.lib(im.max_fa_period, asig)
    top = float(np.max(F))
    ok_bins = np.where(F >= (1 - 1e-12) * top)[0]
    allowed = [math.inf if f[k] == 0 else 1.0 / f[k] for k in ok_bins]
    good = any((math.isinf(a_) and math.isinf(got)) or (not math.isinf(a_) and abs(got - a_) <= 1e-12 * a_) for a_ in allowed)
    ctx.check(good, "max_fa_period=%r but the largest-amplitude bin(s) %s have period(s) %s" % (got, ok_bins.tolist()[:4], allowed[:4]))


# ---------------------------------------------------------------------------
# lengths around large powers of two (thorough tier only: FFTs of up to 2^22 points)


def _giant_enum(tier, shard, nshards):
    i = 0
    ks = range(14, 22) if tier == "thorough" else range(14, 17)
    for k in ks:
        for j in (-1, 0, 1, 2):
            if i % nshards == shard:
                yield {"k": k, "j": j}
            i += 1


@enum_clause(CLAUSES, "giant-lengths", _giant_enum,
             rule="record lengths 2^k + j, j in {-1,0,1,2}, k = 14..16 (quick) / 14..21 (thorough, up to 2 097 154 samples): default padding, "
                  "p2_plus=1 and the unpadded array-level variant",
             oracle="reference model: N = next power of two >= npts (computed with integers), bins N/2 on k/(N dt); spectrum vs numpy.fft of the "
                    "explicitly zero-padded record (1e-12*dt*sum|x|); object vs array level (exact)",
             exhaustive_note="all listed lengths", quick_shards=2)
def giant_lengths(case, ctx):
    n = 2 ** case["k"] + case["j"]
    dt = 0.005
    x = np.random.RandomState(case["k"] * 7 + case["j"] + 3).standard_normal(n)
    ctx.nt(True)
    ctx.cls("j=%d" % case["j"])
    sig = ctx.lib(eqsig.Signal, x, dt)
    sumabs = float(np.sum(np.abs(x)))
    N0 = next_pow2(n)
    _check_spectrum(ctx, "Signal.fa_spectrum", ctx.lib(lambda: sig.fa_spectrum), ctx.lib(lambda: sig.fa_freqs), x, dt, N0, sumabs)
    gs, gf = ctx.lib(fr.generate_fa_spectrum, sig)
    ctx.equal(gs, sig.fa_spectrum, "generate_fa_spectrum vs object (npts=%d)" % n)
    ctx.equal(gf, sig.fa_freqs, "generate_fa_spectrum frequencies vs object (npts=%d)" % n)
    ctx.lib(sig.gen_fa_spectrum, p2_plus=1)
    _check_spectrum(ctx, "gen_fa_spectrum(p2_plus=1)", sig.fa_spectrum, sig.fa_freqs, x, dt, 2 * N0, sumabs)
    us, uf = ctx.lib(fr.calc_fa_spectrum, sig)
    _check_spectrum(ctx, "calc_fa_spectrum (unpadded)", us, uf, x, dt, n, sumabs)
