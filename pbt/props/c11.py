"""C11 - local-peak detection is sound and complete on every non-constant series."""
import itertools

import numpy as np
from hypothesis import strategies as st

from eqsig.fns import peaks_and_crossings as pc

from pbt import gen
from pbt.core import clause, enum_clause, HarnessError
from pbt.ref import peaks as ref

PROPERTY = "C11"
CLAUSES = []
ASSUMPTIONS = [
    "series are non-constant (the statement's quantifier); constant series produced by a generator are counted as class "
    "'constant' and not asserted",
    "samples with |value| < 1e-100 are flushed to exactly 0 before the call, so every non-zero difference between samples is "
    ">= 1e-116 in magnitude: the code multiplies successive differences and a product below 1e-308 underflows - an implicit "
    "precondition no ground motion violates (DESIGN C11.2: stated, not tested)",
    "|values| <= 1e9 + offsets up to 2^30, optionally rescaled by 2^k with |k| <= 300 (|values| <= 1e100: no overflow in "
    "differences or their products)",
    "the reference (plateau compression + comparison of neighbouring plateaus) and the statement's validity predicate are "
    "independent encodings of the statement; the library must satisfy both, and the predicate must accept the reference's own "
    "answer on every case - if it does not, the oracle is broken and the run is a harness error (exit 2), not a violation",
    "cycle counter: at the reported peaks to (8+4n)*eps*max(1,value) (bound of an n-term running sum: the statement fixes the values, not the arithmetic); between them and after the last one only 'non-decreasing' is "
    "asserted (the statement does not say how the counter rises between two peaks)",
]
EPS = np.finfo(float).eps
ALPHABET = 5
FLUSH = 1e-100
KINDS = ["vals", "dyadic", "levels", "levels", "noise", "sines", "pulse", "step", "walk", "quake"]
PTYPES = ("all", "max", "min")


# ---------------------------------------------------------------------------
# building the series from a case


def series(case):
    """Case -> (float64 array actually analysed, argument handed to the library)."""
    if "v" in case:  # enumerated / hand-written
        a = np.array(case["v"], dtype=float)
        return a, a.copy()
    if "smooth" in case:
        kind, n, cyc, ph = case["smooth"]
        t = np.arange(int(n), dtype=float) / float(n)
        if kind == "sine":
            a = np.sin(2 * np.pi * cyc * t + ph)
        elif kind == "decay":
            a = np.exp(-3.0 * t) * np.cos(2 * np.pi * cyc * t + ph)
        else:
            a = np.cumsum(np.sin(2 * np.pi * cyc * t + ph) ** 2)
        if case.get("lead"):
            a = np.concatenate([np.full(case["lead"], a[0]), a])
        if case.get("tail"):
            a = np.concatenate([a, np.full(case["tail"], a[-1])])
        return a, a.copy()
    spec = case["rec"]
    a = gen.build(spec)
    lv = case.get("levels")
    if lv:
        lo, hi = float(np.min(a)), float(np.max(a))
        if hi > lo:
            g = (hi - lo) / (lv - 1)
            a = np.round(a / g) * g
    off = case.get("offset")
    if off:
        a = a + float(off)
    lead = case.get("lead", 0)
    if lead:
        a = np.concatenate([np.full(lead, a[0]), a])
    tail = case.get("tail", 0)
    if tail:
        a = np.concatenate([a, np.full(tail, a[-1])])
    out = case.get("outlier")
    if out:
        # one sample many orders of magnitude larger than its neighbours (a spike / an un-zeroed first sample): differences
        # between the ordinary samples are far below the resolution of anything computed relative to the outlier
        a = a.copy()
        a[out[0] % len(a)] = out[1]
    p2 = case.get("pow2")
    if p2 and spec.get("as") != "int":
        a = a * 2.0 ** p2  # exact rescaling: the answer does not depend on the unit of the series
    a = np.where(np.abs(a) < FLUSH, 0.0, a)
    if spec.get("as") == "int":
        peak = float(np.max(np.abs(a)))
        if 0 < peak < 8:
            a = a * (8.0 / peak)  # keep some structure after rounding to integers
    arg = gen.as_container(spec, a)
    if case.get("uint") and spec.get("as") in (None, "int"):
        # raw digitiser counts: unsigned integer dtype (the series is shifted to be non-negative; peaks do not depend on a shift)
        bits = {"uint8": 8, "uint16": 16, "uint64": 40}[case["uint"]]
        r = np.array(arg, dtype=float)
        span = float(np.max(r) - np.min(r))
        r = (r - np.min(r)) * (min(1.0, (2.0 ** bits - 1) / span) if span > 0 else 1.0)
        arg = np.array(np.floor(r), dtype=case["uint"])
    a = np.array(arg, dtype=float)  # what the library sees (the int variant rounds)
    if isinstance(arg, np.ndarray):
        arg = arg.copy()
    return a, arg


@st.composite
def _cases(draw, max_n=5000):
    spec = draw(gen.record_specs(min_n=2, max_n=max_n, kinds=KINDS, allow_int=True))
    case = {"rec": spec}
    if draw(st.integers(0, 2)) == 0:
        case["levels"] = draw(st.integers(2, 9))  # plateau-rich: values rounded to a coarse grid
    if draw(st.integers(0, 2)) == 0:
        case["offset"] = draw(st.one_of(
            st.tuples(st.sampled_from([-1.0, 1.0]), st.integers(-3, 30)).map(lambda t: t[0] * 2.0 ** t[1]),
            st.floats(-1e3, 1e3, allow_nan=False).filter(lambda x: x != 0)))
    if draw(st.integers(0, 4)) < 2:
        case["lead"] = draw(st.integers(1, 5))  # leading plateau (of whatever the first value is)
    if draw(st.integers(0, 4)) == 0:
        case["tail"] = draw(st.integers(1, 5))
    if draw(st.integers(0, 5)) == 0:
        case["pow2"] = draw(st.sampled_from([-300, -200, -60, -30, 60, 200, 300]))
    elif draw(st.integers(0, 5)) == 0:
        case["uint"] = draw(st.sampled_from(["uint8", "uint16", "uint64"]))
    elif draw(st.integers(0, 3)) == 0:
        case["outlier"] = [draw(st.sampled_from([0, 0, 1, -1, 3, 17])),
                           draw(st.sampled_from([-1.0, 1.0])) * 2.0 ** draw(st.integers(40, 70))]
    return case


def _classify(ctx, case, a, r_all, pl):
    spec = case.get("rec")
    if spec is not None:
        ctx.cls("kind=" + spec["k"])
        if spec.get("as"):
            ctx.cls("as=" + spec["as"])
        if case.get("levels"):
            ctx.cls("coarse-grid")
        if case.get("offset"):
            ctx.cls("offset")
        if case.get("outlier"):
            ctx.cls("outlier")
        if case.get("uint"):
            ctx.cls("unsigned-dtype")
        if case.get("pow2") and spec.get("as") != "int":
            ctx.cls("rescaled")
    ctx.cls(gen.size_class(len(a)))
    if a[0] != 0:
        ctx.cls("nonzero-start")
    elif len(pl) > 1 and pl[1][2] < 0:
        ctx.cls("zero-start-then-fall")
    if len(a) > 1 and a[0] == a[1]:
        ctx.cls("lead-plateau")
        nxt = pl[1][2] if len(pl) > 1 else a[0]
        ctx.cls("lead-plateau-then-rise" if nxt > a[0] else "lead-plateau-then-fall")
    if len(a) > 1 and a[-1] == a[-2]:
        ctx.cls("final-plateau")
    starts = dict((p[0], p[1]) for p in pl)
    if any(starts.get(i, 1) >= 2 for i in r_all[1:-1]):
        ctx.cls("interior-plateau-extremum")
    ctx.nt(len(r_all) >= 3)  # at least one interior extremum


def _check_indices(ctx, a, arg):
    """All three selections against the reference and the statement's predicate.  Returns reference data."""
    r_all, kinds = ref.local_peaks(a)
    got = {}
    for ptype in PTYPES:
        if ptype == "all" and len(a) % 2:
            out = ctx.lib(pc.get_peak_array_indices, arg)  # default ptype
        else:
            out = ctx.lib(pc.get_peak_array_indices, arg, ptype=ptype)
        out = np.asarray(out)
        if out.ndim != 1:
            ctx.fail("ptype=%s: result is not one-dimensional: shape %s" % (ptype, out.shape))
        if out.size and out.dtype.kind not in "iu":
            ctx.fail("ptype=%s: indices have dtype %s" % (ptype, out.dtype))
        got[ptype] = out.tolist()
    # 1. the statement as a predicate on the library's answer, and the turning-point reference; the two encodings guard
    #    each other: the predicate must accept the reference's own answer (otherwise the oracle is broken: exit 2)
    msg = ref.peaks_violation(a, got["all"])
    if got["all"] != r_all:
        if ref.peaks_violation(a, r_all) is not None:
            raise HarnessError("validity predicate rejects the reference answer %r for %r" % (r_all, a.tolist()[:40]))
        ctx.fail("ptype=all: %s; got %s, turning points (reference) %s" % (
            msg or "not the set of turning points", _sh(got["all"]), _sh(r_all)))
    if msg is not None:
        raise HarnessError("validity predicate rejects the reference answer %r (%s) for %r" % (r_all, msg, a.tolist()[:40]))
    # 2. max / min selections
    r_max = [i for i, k in zip(r_all, kinds) if k == "max"]
    r_min = [i for i, k in zip(r_all, kinds) if k == "min"]
    kmsg = ref.kinds_violation(a, got["all"], got["max"], got["min"])
    if got["max"] != r_max or got["min"] != r_min:
        if ref.kinds_violation(a, r_all, r_max, r_min) is not None:
            raise HarnessError("max/min predicate rejects the reference answer for %r" % (a.tolist()[:40],))
        which = "max" if got["max"] != r_max else "min"
        ctx.fail("ptype=%s: got %s, local %s are %s (%s)" % (
            which, _sh(got[which]), "maxima" if which == "max" else "minima", _sh(r_max if which == "max" else r_min), kmsg))
    if kmsg is not None:
        raise HarnessError("max/min predicate rejects the reference answer (%s) for %r" % (kmsg, a.tolist()[:40]))
    return r_all, kinds


def _sh(lst, n=12):
    lst = list(lst)
    return repr(lst) if len(lst) <= n else "%r...(%d)" % (lst[:n], len(lst))


# ---------------------------------------------------------------------------
# 1. exhaustive


def _max_len(tier):
    return 8 if tier == "thorough" else 7


ALPHABETS = (range(0, 5), range(-2, 3))


def _enum(tier, shard, nshards):
    idx = 0
    for alphabet in ALPHABETS:
        for n in range(2, _max_len(tier) + 1):
            for tup in itertools.product(alphabet, repeat=n):
                mine = idx % nshards == shard
                idx += 1
                if mine and min(tup) != max(tup):
                    yield {"v": list(tup)}


@enum_clause(CLAUSES, "exhaustive", _enum,
             rule="every sequence over the 5-level alphabet {0,1,2,3,4} of length 2..8 (quick: 2..7) except the constant ones "
                  "(488 240 / 97 620 series), and the same over the centred 5-level alphabet {-2..2} (same rise/fall/flat patterns, "
                  "but zero-valued and negative first samples, which the plateau compression treats differently), each with "
                  "ptype in {all, max, min}; non-trivial = at least one interior extremum",
             oracle="reference model (plateau compression, neighbour comparison; exact index equality) cross-checked against the "
                    "statement's validity predicate (ascending, starts at 0, ends at first sample of final run, monotone between, "
                    "direction strictly alternates, first sample of plateau; max/min partition by neighbour comparison)",
             exhaustive_note="all non-constant sequences over the 5-level alphabets {0..4} and {-2..2}, length 2..8 in the thorough "
                             "tier (2..7 quick): 2 x 488 240 (2 x 97 620) series x 3 ptypes, sharded by enumeration index % nshards",
             require={"lead-plateau": 0.15, "lead-plateau-then-rise": 0.05, "lead-plateau-then-fall": 0.05,
                      "interior-plateau-extremum": 0.10, "zero-start-then-fall": 0.02},
             min_nontrivial=0.5, quick_shards=6)
def exhaustive(case, ctx):
    a, arg = series(case)
    r_all, _ = ref.local_peaks(a)
    _classify(ctx, case, a, r_all, ref.plateaus(a))
    _check_indices(ctx, a, arg)


# ---------------------------------------------------------------------------
# 2. random


@clause(CLAUSES, "random", _cases(), quick=500, thorough=3000,
        rule="records of all kinds (element-wise reals, dyadic, few-level, noise, sines, pulse, step, walk, quake; n 2..5000; "
             "ndarray / int / list), optionally rounded to a coarse grid of 2..9 levels (plateau-rich), shifted by an offset "
             "(2^k up to 2^30 or a real), rescaled by 2^k (|k| <= 300), with a leading plateau (40 %) and a trailing plateau; "
             "non-trivial = at least one interior extremum",
        oracle="reference model (exact index equality) cross-checked against the statement's validity predicate; input unchanged",
        require={"lead-plateau": 0.25, "interior-plateau-extremum": 0.10, "offset": 0.15, "n>512": 0.10, "rescaled": 0.05, "outlier": 0.05},
        min_nontrivial=0.3)
def random(case, ctx):
    a, arg = series(case)
    if ref.is_constant(a):
        ctx.cls("constant")
        return
    r_all, _ = ref.local_peaks(a)
    _classify(ctx, case, a, r_all, ref.plateaus(a))
    before = np.array(arg, dtype=float).copy()
    _check_indices(ctx, a, arg)
    ctx.equal(np.array(arg, dtype=float), before, "input series after the calls")


# ---------------------------------------------------------------------------
# 3. cycle counter


@st.composite
def _ncyc_cases(draw):
    case = draw(_cases(max_n=3000))
    case["start"] = draw(st.sampled_from(["origin", "peak", "default"]))
    if draw(st.integers(0, 3)) == 0:
        # smooth, finely sampled series (far fewer than one turning point per 16 samples): slow sines, a decaying cosine, a
        # monotone cumulative curve - a counter that takes another route for such records must still honour `start`
        n = draw(st.integers(40, 3000))
        kind = draw(st.sampled_from(["sine", "sine", "decay", "cumulative"]))
        cyc = draw(st.floats(0.3, max(0.5, n / 48.0), allow_nan=False))
        case = {"smooth": [kind, n, cyc, draw(st.floats(0, 6.28, allow_nan=False))], "start": case["start"]}
        if draw(st.integers(0, 2)) == 0:
            case["lead"] = draw(st.integers(1, 40))
        if draw(st.integers(0, 2)) == 0:
            case["tail"] = draw(st.integers(1, 40))
    return case


@clause(CLAUSES, "n-cyc", _ncyc_cases(), quick=400, thorough=2000,
        rule="same generator (n <= 3000), start in {origin, peak, default(=origin)}, opt='all'; "
             "non-trivial = at least one interior extremum",
        oracle="reference model: length, non-decreasing, value at the j-th reported (reference) peak = 0.5*j - 0.25*[origin]*[j>0], "
               "non-decreasing (hence bracketed) between; tolerance (8+4n)*eps*max(1, value)",
        require={"lead-plateau": 0.2, "start=peak": 0.1, "start=origin": 0.1, "smooth&start=peak": 0.04},
        min_nontrivial=0.3)
def n_cyc(case, ctx):
    a, arg = series(case)
    if ref.is_constant(a):
        ctx.cls("constant")
        return
    r_all, _ = ref.local_peaks(a)
    _classify(ctx, case, a, r_all, ref.plateaus(a))
    start = case["start"]
    ctx.cls("start=" + start)
    if start == "default":
        out = ctx.lib(pc.get_n_cyc_array, arg)
        start = "origin"
    else:
        out = ctx.lib(pc.get_n_cyc_array, arg, opt="all", start=start)
    out = np.asarray(out, dtype=float)
    n = len(a)
    ctx.shape(out, (n,), "cycle counter")
    ctx.finite(out, "cycle counter")
    d = np.diff(out)
    if np.any(d < 0):
        j = int(np.argmax(d < 0))
        ctx.fail("cycle counter decreases at sample %d: %r -> %r" % (j + 1, float(out[j]), float(out[j + 1])))
    expect, at = ref.n_cyc_reference(n, r_all, start)
    expect = np.array(expect, dtype=float)
    # tolerance: the statement fixes the VALUES at the peaks (multiples of 0.25), not the arithmetic that produces them: an
    # implementation that accumulates the ramp sample by sample (n additions) is as correct as one that interpolates, so the
    # bound is that of an n-term running sum, (8 + 4n) eps max(1, value) (< 3e-12 for n = 3000; the smallest meaningful
    # error is a fraction of the 0.25 step)
    tol = (8 + 4 * n) * EPS * np.maximum(1.0, np.abs(expect))
    pk = np.array(r_all)
    ctx.close(out[pk], np.array(at), tol[pk], "cycle counter at the reported peaks (start=%s)" % start)
    # between two reported peaks the statement only promises "non-decreasing" (asserted above), which together with the exact
    # values at the peaks brackets every sample; HOW the counter rises in between (np.interp's ramp or any other monotone
    # rise) is not stated and not asserted.  (An earlier version demanded the linear ramp to 8 eps and flagged a correct
    # cumulative-sum ramp that differed from it by 2e-15: a harness false alarm, removed.)
    smooth = n > 16 * (len(r_all) + 1)
    ctx.cls("smooth" if smooth else None, "smooth&start=peak" if smooth and start == "peak" else None)
    # the increments the statement names
    if len(r_all) >= 2:
        first = out[r_all[1]] - out[r_all[0]]
        want = 0.25 if start == "origin" else 0.5
        ctx.check(abs(first - want) <= (16 + 8 * n) * EPS, "counter rises by %r up to the first peak, expected %r" % (float(first), want))
        steps = out[pk[2:]] - out[pk[1:-1]]
        ctx.check(bool(np.all(np.abs(steps - 0.5) <= (16 + 8 * n) * EPS * np.maximum(1.0, out[pk[2:]]))),
                  "counter does not rise by 0.5 between consecutive reported peaks")
