"""C11 - local-peak detection is sound and complete on every non-constant series."""
import hashlib
import itertools
import math

import numpy as np
from hypothesis import strategies as st

import eqsig
from eqsig.fns import peaks_and_crossings as pc

from pbt import gen
from pbt.core import clause, enum_clause, HarnessError
from pbt.ref import peaks as ref
from pbt.ref import peaks_mid as pm

PROPERTY = "C11"
CLAUSES = []
ASSUMPTIONS = [
    "series are non-constant (the statement's quantifier); constant series produced by a generator are counted as class "
    "'constant' and not asserted",
    "clauses exhaustive / random / n-cyc / mid-range: samples with |value| < 1e-100 are flushed to exactly 0 before the call (every "
    "non-zero difference between samples is >= 1e-116 in magnitude) and |values| <= 1e100; the statement's 'every non-constant "
    "series' beyond that range (values of 1e-160 .. 1e-200, where products of two differences underflow, and of 1e150 .. 1e305, "
    "where they overflow) is asserted by the separate clause extreme-magnitudes with the same oracles and NO flush",
    "|values| <= 1e9 + offsets up to 2^30, optionally rescaled by 2^k with |k| <= 300 (clause extreme-magnitudes: 2^-665 .. 2^-532 and "
    "2^500 .. 2^1015; all values stay normal finite doubles, so the rescaling is exact and differences of samples do not overflow)",
    "the reference (plateau compression + comparison of neighbouring plateaus) and the statement's validity predicate are "
    "independent encodings of the statement; the library must satisfy both, and the predicate must accept the reference's own "
    "answer on every case - if it does not, the oracle is broken and the run is a harness error (exit 2), not a violation; the "
    "mid-range clauses use the vectorised twins of both (pbt/ref/peaks_mid.py, cross-checked against the loops at import)",
    "cycle counter: the statement names INCREMENTS only, so the counter is compared after subtracting its own first sample (a "
    "counter that starts at another value is not flagged); at the reported peaks to (8+4n)*eps*max(1,|value|) (bound of an n-term "
    "running sum: the statement fixes the values, not the arithmetic); between them and after the last one only 'non-decreasing' "
    "is asserted (the statement does not say how the counter rises between two peaks)",
    "cycle counter with opt='switched': 'reported peaks' are the switched peaks; where the C12 statement determines them uniquely "
    "(no excursion attains its largest |value| twice, final sample non-zero) the canonical reference is used, otherwise the library's "
    "own get_switched_peak_array_indices answer provided it satisfies the C12 predicate (if it does not, that is C12's violation and "
    "only length / monotonicity are asserted here); sample 0 is the origin: 0.25 (origin) up to the first reported peak after sample 0, "
    "0.5 between consecutive switched peaks; with start='peak' and a first switched peak that is not sample 0 the statement gives no "
    "value for the stretch before it (only non-decreasing is asserted there)",
    "reported indices must have an integer dtype: they are positions, and every caller in the repository (np.take in "
    "get_switched_peak_array_indices, eqsig/im.py) indexes with them, which numpy refuses for floating arrays",
    "the input-unchanged assertion of earlier versions was removed: purity of arguments is property C05's promise, not C11's",
    "direct calls of the anchored mechanisms: clean_out_non_changing(values) must return (values at its indices, indices) with the "
    "distinct indices = first samples of the plateaus, non-decreasing (a repeated index is tolerated: the pinned code lists sample 0 "
    "twice for a non-zero first sample); determine_indices_of_peaks_for_cleaned_array (and its deprecated alias) on a series without "
    "adjacent repeats must return the reported peaks of that series (the statement applied to the cleaned series)",
    "object-level wrapper get_peak_indices(asig) is called with real eqsig.Signal / eqsig.AccSignal objects (dt hash-chosen); the "
    "reference is computed from the values the object holds (asig.values) at the time of the call",
]
EPS = np.finfo(float).eps
ALPHABET = 5
FLUSH = 1e-100
KINDS = ["vals", "dyadic", "levels", "levels", "noise", "sines", "pulse", "step", "walk", "quake"]
PTYPES = ("all", "max", "min")


# ---------------------------------------------------------------------------
# building the series from a case


def series(case):
    """Case -> (float64 array actually analysed, argument handed to the library)."""
    if "v" in case:  # enumerated / hand-written
        a = np.array(case["v"], dtype=float)
        return a, a.copy()
    if "smooth" in case:
        kind, n, cyc, ph = case["smooth"]
        t = np.arange(int(n), dtype=float) / float(n)
        if kind == "sine":
            a = np.sin(2 * np.pi * cyc * t + ph)
        elif kind == "decay":
            a = np.exp(-3.0 * t) * np.cos(2 * np.pi * cyc * t + ph)
        else:
            a = np.cumsum(np.sin(2 * np.pi * cyc * t + ph) ** 2)
        if case.get("lead"):
            a = np.concatenate([np.full(case["lead"], a[0]), a])
        if case.get("tail"):
            a = np.concatenate([a, np.full(case["tail"], a[-1])])
        return a, a.copy()
    spec = case["rec"]
    a = gen.build(spec)
    lv = case.get("levels")
    if lv:
        lo, hi = float(np.min(a)), float(np.max(a))
        if hi > lo:
            g = (hi - lo) / (lv - 1)
            a = np.round(a / g) * g
    off = case.get("offset")
    if off:
        a = a + float(off)
    lead = case.get("lead", 0)
    if lead:
        a = np.concatenate([np.full(lead, a[0]), a])
    tail = case.get("tail", 0)
    if tail:
        a = np.concatenate([a, np.full(tail, a[-1])])
    out = case.get("outlier")
    if out:
        # one sample many orders of magnitude larger than its neighbours (a spike / an un-zeroed first sample): differences
        # between the ordinary samples are far below the resolution of anything computed relative to the outlier
        a = a.copy()
        a[out[0] % len(a)] = out[1]
    p2 = case.get("pow2")
    if p2 and spec.get("as") != "int":
        a = a * 2.0 ** p2  # exact rescaling: the answer does not depend on the unit of the series
    xm = case.get("xmag")
    if xm is not None:
        # clause extreme-magnitudes: the largest |value| of the series is moved to (2^(xm-1), 2^xm] by an exact power-of-two factor;
        # NO flush (all samples of the generated families stay normal doubles or exact zeros; the reference compares, it never multiplies)
        peak = float(np.max(np.abs(a)))
        if peak > 0:
            a = np.ldexp(a, int(xm) - int(math.ceil(math.log2(peak))))  # exact; the factor itself may exceed 2^1023
    else:
        a = np.where(np.abs(a) < FLUSH, 0.0, a)
    if spec.get("as") == "int":
        peak = float(np.max(np.abs(a)))
        if 0 < peak < 8:
            a = a * (8.0 / peak)  # keep some structure after rounding to integers
    arg = gen.as_container(spec, a)
    if case.get("uint") and spec.get("as") in (None, "int"):
        # raw digitiser counts: unsigned integer dtype (the series is shifted to be non-negative; peaks do not depend on a shift)
        bits = {"uint8": 8, "uint16": 16, "uint64": 40}[case["uint"]]
        r = np.array(arg, dtype=float)
        span = float(np.max(r) - np.min(r))
        r = (r - np.min(r)) * (min(1.0, (2.0 ** bits - 1) / span) if span > 0 else 1.0)
        arg = np.array(np.floor(r), dtype=case["uint"])
    if case.get("narrow") and spec.get("as") in (None, "int") and not case.get("uint"):
        # signed 8 / 16 / 32-bit counts over the full range of the dtype, most negative sample = the dtype's minimum
        arg = gen.narrow_int(np.array(arg, dtype=float), case["narrow"])[0]
    a = np.array(arg, dtype=float)  # what the library sees (the int variant rounds)
    if isinstance(arg, np.ndarray):
        arg = arg.copy()
    return a, arg


@st.composite
def _cases(draw, max_n=5000):
    spec = draw(gen.record_specs(min_n=2, max_n=max_n, kinds=KINDS, allow_int=True))
    case = {"rec": spec}
    if draw(st.integers(0, 2)) == 0:
        case["levels"] = draw(st.integers(2, 9))  # plateau-rich: values rounded to a coarse grid
    if draw(st.integers(0, 2)) == 0:
        case["offset"] = draw(st.one_of(
            st.tuples(st.sampled_from([-1.0, 1.0]), st.integers(-3, 30)).map(lambda t: t[0] * 2.0 ** t[1]),
            st.floats(-1e3, 1e3, allow_nan=False).filter(lambda x: x != 0)))
    if draw(st.integers(0, 4)) < 2:
        case["lead"] = draw(st.integers(1, 5))  # leading plateau (of whatever the first value is)
    if draw(st.integers(0, 4)) == 0:
        case["tail"] = draw(st.integers(1, 5))
    if draw(st.integers(0, 5)) == 0:
        case["pow2"] = draw(st.sampled_from([-300, -200, -60, -30, 60, 200, 300]))
    elif draw(st.integers(0, 5)) == 0:
        case["uint"] = draw(st.sampled_from(["uint8", "uint16", "uint64"]))
    elif draw(st.integers(0, 3)) == 0:
        case["outlier"] = [draw(st.sampled_from([0, 0, 1, -1, 3, 17])),
                           draw(st.sampled_from([-1.0, 1.0])) * 2.0 ** draw(st.integers(40, 70))]
    if "uint" not in case and draw(st.integers(0, 6)) == 0:
        case["narrow"] = draw(st.sampled_from(gen.NARROW_DTYPES))
    w = draw(st.integers(0, 9))  # one band index decides both whether and which (balanced classes: a health floor failed at seed 11)
    if w < 4:
        # the object-level wrapper get_peak_indices(asig) with a real Signal / AccSignal holding the series
        case["obj"] = ["AccSignal" if w % 2 == 0 else "Signal", draw(st.sampled_from(gen.REPO_DTS))]
    return case


def _classify(ctx, case, a, r_all, pl):
    spec = case.get("rec")
    if spec is not None:
        ctx.cls("kind=" + spec["k"])
        if spec.get("as"):
            ctx.cls("as=" + spec["as"])
        if case.get("levels"):
            ctx.cls("coarse-grid")
        if case.get("offset"):
            ctx.cls("offset")
        if case.get("outlier"):
            ctx.cls("outlier")
        if case.get("uint") and spec.get("as") in (None, "int"):
            ctx.cls("unsigned-dtype")
        elif case.get("narrow") and spec.get("as") in (None, "int"):
            ctx.cls("narrow-int")
        if case.get("pow2") and spec.get("as") != "int":
            ctx.cls("rescaled")
    ctx.cls(gen.size_class(len(a)))
    if a[0] != 0:
        ctx.cls("nonzero-start")
    elif len(pl) > 1 and pl[1][2] < 0:
        ctx.cls("zero-start-then-fall")
    if len(a) > 1 and a[0] == a[1]:
        ctx.cls("lead-plateau")
        nxt = pl[1][2] if len(pl) > 1 else a[0]
        ctx.cls("lead-plateau-then-rise" if nxt > a[0] else "lead-plateau-then-fall")
    if len(a) > 1 and a[-1] == a[-2]:
        ctx.cls("final-plateau")
    starts = dict((p[0], p[1]) for p in pl)
    if any(starts.get(i, 1) >= 2 for i in r_all[1:-1]):
        ctx.cls("interior-plateau-extremum")
    ctx.nt(len(r_all) >= 3)  # at least one interior extremum


def _check_indices(ctx, a, arg):
    """All three selections against the reference and the statement's predicate.  Returns reference data."""
    r_all, kinds = ref.local_peaks(a)
    got = {}
    for ptype in PTYPES:
        if ptype == "all" and len(a) % 2:
            out = ctx.lib(pc.get_peak_array_indices, arg)  # default ptype
        else:
            out = ctx.lib(pc.get_peak_array_indices, arg, ptype=ptype)
        out = np.asarray(out)
        if out.ndim != 1:
            ctx.fail("ptype=%s: result is not one-dimensional: shape %s" % (ptype, out.shape))
        if out.size and out.dtype.kind not in "iu":
            ctx.fail("ptype=%s: indices have dtype %s" % (ptype, out.dtype))
        got[ptype] = out.tolist()
    # 1. the statement as a predicate on the library's answer, and the turning-point reference; the two encodings guard
    #    each other: the predicate must accept the reference's own answer (otherwise the oracle is broken: exit 2)
    msg = ref.peaks_violation(a, got["all"])
    if got["all"] != r_all:
        if ref.peaks_violation(a, r_all) is not None:
            raise HarnessError("validity predicate rejects the reference answer %r for %r" % (r_all, a.tolist()[:40]))
        ctx.fail("ptype=all: %s; got %s, turning points (reference) %s" % (
            msg or "not the set of turning points", _sh(got["all"]), _sh(r_all)))
    if msg is not None:
        raise HarnessError("validity predicate rejects the reference answer %r (%s) for %r" % (r_all, msg, a.tolist()[:40]))
    # 2. max / min selections
    r_max = [i for i, k in zip(r_all, kinds) if k == "max"]
    r_min = [i for i, k in zip(r_all, kinds) if k == "min"]
    kmsg = ref.kinds_violation(a, got["all"], got["max"], got["min"])
    if got["max"] != r_max or got["min"] != r_min:
        if ref.kinds_violation(a, r_all, r_max, r_min) is not None:
            raise HarnessError("max/min predicate rejects the reference answer for %r" % (a.tolist()[:40],))
        which = "max" if got["max"] != r_max else "min"
        ctx.fail("ptype=%s: got %s, local %s are %s (%s)" % (
            which, _sh(got[which]), "maxima" if which == "max" else "minima", _sh(r_max if which == "max" else r_min), kmsg))
    if kmsg is not None:
        raise HarnessError("max/min predicate rejects the reference answer (%s) for %r" % (kmsg, a.tolist()[:40]))
    return r_all, kinds


def _sh(lst, n=12):
    lst = list(lst)
    return repr(lst) if len(lst) <= n else "%r...(%d)" % (lst[:n], len(lst))


# ---------------------------------------------------------------------------
# 1. exhaustive


def _max_len(tier):
    return 8 if tier == "thorough" else 7


ALPHABETS = (range(0, 5), range(-2, 3))


def _enum(tier, shard, nshards):
    idx = 0
    for alphabet in ALPHABETS:
        for n in range(2, _max_len(tier) + 1):
            for tup in itertools.product(alphabet, repeat=n):
                mine = idx % nshards == shard
                idx += 1
                if mine and min(tup) != max(tup):
                    yield {"v": list(tup)}


@enum_clause(CLAUSES, "exhaustive", _enum,
             rule="every sequence over the 5-level alphabet {0,1,2,3,4} of length 2..8 (quick: 2..7) except the constant ones "
                  "(488 240 / 97 620 series), and the same over the centred 5-level alphabet {-2..2} (same rise/fall/flat patterns, "
                  "but zero-valued and negative first samples, which the plateau compression treats differently), each with "
                  "ptype in {all, max, min}; non-trivial = at least one interior extremum",
             oracle="reference model (plateau compression, neighbour comparison; exact index equality) cross-checked against the "
                    "statement's validity predicate (ascending, starts at 0, ends at first sample of final run, monotone between, "
                    "direction strictly alternates, first sample of plateau; max/min partition by neighbour comparison)",
             exhaustive_note="all non-constant sequences over the 5-level alphabets {0..4} and {-2..2}, length 2..8 in the thorough "
                             "tier (2..7 quick): 2 x 488 240 (2 x 97 620) series x 3 ptypes, sharded by enumeration index % nshards",
             require={"lead-plateau": 0.15, "lead-plateau-then-rise": 0.05, "lead-plateau-then-fall": 0.05,
                      "interior-plateau-extremum": 0.10, "zero-start-then-fall": 0.02},
             min_nontrivial=0.5, quick_shards=6)
def exhaustive(case, ctx):
    a, arg = series(case)
    r_all, _ = ref.local_peaks(a)
    _classify(ctx, case, a, r_all, ref.plateaus(a))
    _check_indices(ctx, a, arg)


# ---------------------------------------------------------------------------
# 2. random


def _signal(kind, arg, dt):
    """A real eqsig object holding the series -> (object, float64 copy of the values it holds)."""
    cls = eqsig.AccSignal if kind == "AccSignal" else eqsig.Signal
    try:
        sig = cls(arg, float(dt))
        return sig, np.array(sig.values, dtype=float)
    except Exception:  # noqa  (building / reading the object is not this property's promise: C04 / C05)
        return None, None


def _check_wrapper(ctx, kind, arg, dt, fast=False):
    """get_peak_indices(asig) with a real Signal / AccSignal: the reported peaks of the values the object holds."""
    ctx.cls("wrapper=" + kind)
    sig, held = _signal(kind, arg, dt)
    if sig is None or held.ndim != 1 or len(held) < 2 or (pm.is_constant if fast else ref.is_constant)(held):
        ctx.cls("wrapper-skipped")
        return
    got = np.asarray(ctx.lib(pc.get_peak_indices, sig))
    want = pm.local_peaks(held)[0].tolist() if fast else ref.local_peaks(held)[0]
    if got.ndim != 1 or got.tolist() != want:
        ctx.fail("get_peak_indices(%s): got %s, reported peaks of asig.values are %s" % (kind, _sh(got.ravel().tolist()), _sh(want)))
    if len(held) < 4:
        return
    # history: the same object is given other values of the same length, first and last sample (interior reversed, one interior
    # sample moved) and read again - the answer must be that of the values it holds NOW
    b = held.copy()
    b[1:-1] = held[1:-1][::-1]
    j = 1 + (len(b) - 2) // 3
    b[j] = b[j] + (float(np.max(held)) - float(np.min(held)))
    try:
        sig.reset_values(b)
        held = np.array(sig.values, dtype=float)
    except Exception:  # noqa  (not this property's promise)
        return
    if held.ndim != 1 or len(held) < 2 or (pm.is_constant if fast else ref.is_constant)(held):
        return
    ctx.cls("wrapper-history")
    got = np.asarray(ctx.lib(pc.get_peak_indices, sig))
    want = pm.local_peaks(held)[0].tolist() if fast else ref.local_peaks(held)[0]
    if got.ndim != 1 or got.tolist() != want:
        ctx.fail("get_peak_indices(%s) after reset_values: got %s, reported peaks of the values held now are %s" % (
            kind, _sh(got.ravel().tolist()), _sh(want)))


@clause(CLAUSES, "random", _cases(), quick=500, thorough=3000,
        rule="records of all kinds (element-wise reals, dyadic, few-level, noise, sines, pulse, step, walk, quake; n 2..5000; "
             "ndarray / int / list / views / unsigned / int8-16-32 full range), optionally rounded to a coarse grid of 2..9 levels (plateau-rich), shifted by an offset "
             "(2^k up to 2^30 or a real), rescaled by 2^k (|k| <= 300), with a leading plateau (40 %) and a trailing plateau; in a "
             "quarter of the cases also through get_peak_indices(Signal | AccSignal); non-trivial = at least one interior extremum",
        oracle="reference model (exact index equality) cross-checked against the statement's validity predicate; the anchored "
               "mechanisms called directly (plateau compression, peaks of the cleaned series, deprecated alias)",
        require={"lead-plateau": 0.25, "interior-plateau-extremum": 0.10, "offset": 0.15, "n>512": 0.10, "rescaled": 0.05, "outlier": 0.05,
                 "unsigned-dtype": 0.02, "narrow-int": 0.03, "as=int": 0.03, "wrapper=Signal": 0.04, "wrapper=AccSignal": 0.04},
        min_nontrivial=0.3)
def random(case, ctx):
    a, arg = series(case)
    if ref.is_constant(a):
        ctx.cls("constant")
        return
    r_all, _ = ref.local_peaks(a)
    _classify(ctx, case, a, r_all, ref.plateaus(a))
    _check_indices(ctx, a, arg)
    _check_mechanisms(ctx, a, [p[0] for p in ref.plateaus(a)], r_all)
    if case.get("obj"):
        _check_wrapper(ctx, case["obj"][0], arg, case["obj"][1])


def _check_mechanisms(ctx, a, starts, r_all):
    """The two anchored mechanisms called directly on caller data (see ASSUMPTIONS)."""
    res = ctx.lib(pc.clean_out_non_changing, a.copy())  # documented argument: an array of floats
    try:
        cleaned, idx = res
        cleaned = np.asarray(cleaned)
        idx = np.asarray(idx)
    except Exception:  # noqa
        ctx.fail("clean_out_non_changing did not return a pair (cleaned values, indices)")
    if idx.ndim != 1 or (idx.size and idx.dtype.kind not in "iu") or cleaned.shape != idx.shape:
        ctx.fail("clean_out_non_changing: cleaned values %s / indices %s (dtype %s) are not two equally long 1-d arrays of values and "
                 "integer indices" % (cleaned.shape, idx.shape, idx.dtype))
    if np.any(idx < 0) or np.any(idx >= len(a)) or np.any(np.diff(idx) < 0):
        ctx.fail("clean_out_non_changing: indices out of range or decreasing: %s" % _sh(idx.tolist()))
    uniq = idx[np.concatenate(([True], np.diff(idx) != 0))] if idx.size else idx
    if uniq.tolist() != [int(i) for i in starts]:
        ctx.fail("clean_out_non_changing: indices %s are not the first samples of the plateaus %s" % (_sh(uniq.tolist()), _sh(starts)))
    if not np.array_equal(cleaned.astype(float), a[idx]):
        ctx.fail("clean_out_non_changing: cleaned values are not the values at the returned indices")
    # peaks of a series without adjacent repeats = its reported peaks (the statement on the cleaned series)
    c = a[np.asarray(starts, dtype=np.int64)]
    want = np.searchsorted(np.asarray(starts), np.asarray(r_all)).tolist()
    for fn in (pc.determine_indices_of_peaks_for_cleaned_array, pc.determine_indices_of_peaks_for_cleaned):
        got = np.asarray(ctx.lib(fn, c.copy()))
        if got.ndim != 1 or got.tolist() != want:
            ctx.fail("%s on the plateau-compressed series: got %s, its reported peaks are %s" % (fn.__name__, _sh(got.ravel().tolist()), _sh(want)))


# ---------------------------------------------------------------------------
# 3. cycle counter


OPTS = ("default", "all", "switched")
STARTS = ("default", "origin", "peak")


@st.composite
def _ncyc_cases(draw):
    case = draw(_cases(max_n=5000))
    case.pop("obj", None)
    extra = {"start": draw(st.sampled_from(["origin", "peak", "default"])),
             "opt": draw(st.sampled_from(["all", "all", "default", "switched", "switched"]))}
    if draw(st.integers(0, 3)) == 0:
        # smooth, finely sampled series (far fewer than one turning point per 16 samples): slow sines, a decaying cosine, a
        # monotone cumulative curve - a counter that takes another route for such records must still honour `start`
        n = draw(st.integers(40, 5000))
        kind = draw(st.sampled_from(["sine", "sine", "decay", "cumulative"]))
        cyc = draw(st.floats(0.3, max(0.5, n / 48.0), allow_nan=False))
        case = {"smooth": [kind, n, cyc, draw(st.floats(0, 6.28, allow_nan=False))]}
        if draw(st.integers(0, 2)) == 0:
            case["lead"] = draw(st.integers(1, 40))
        if draw(st.integers(0, 2)) == 0:
            case["tail"] = draw(st.integers(1, 40))
    case.update(extra)
    return case


def _switched_reported(ctx, a, arg, fast=False):
    """The switched peaks opt='switched' counts (see ASSUMPTIONS), as an int64 array, or None when they cannot be named soundly."""
    if fast:
        canon, tie = pm.switched(a)
    else:
        v = a.tolist()
        canon, tie = np.array(ref.switched_peaks(v), dtype=np.int64), ref.switched_freedom(v)[0]
    if not tie and a[-1] != 0:
        return canon
    ctx.cls("switched-peaks-from-library")
    got = np.asarray(ctx.lib(pc.get_switched_peak_array_indices, arg))
    msg = pm.switched_violation(a, got) if fast else ref.switched_violation(a.tolist(), got.tolist() if got.ndim == 1 else got)
    if msg is not None:
        ctx.cls("switched-peaks-invalid(C12)")
        return None
    return got.astype(np.int64)


def _check_ncyc(ctx, a, arg, opt, start, r_all, fast=False):
    """One call of get_n_cyc_array against the statement: length, non-decreasing everywhere, increments at the reported peaks."""
    kw = {}
    if opt != "default":
        kw["opt"] = opt
    if start != "default":
        kw["start"] = start
    if kw.keys() == {"start"}:
        kw["opt"] = "all"      # `start` is the second optional argument: spell the first one too, so both call forms exist
    out = ctx.lib(pc.get_n_cyc_array, arg, **kw)
    what = "cycle counter (opt=%s, start=%s)" % (opt, start)
    opt = "all" if opt == "default" else opt
    start = "origin" if start == "default" else start
    out = np.asarray(out)
    n = len(a)
    ctx.shape(out, (n,), what)
    if out.dtype.kind not in "fiu":
        ctx.fail("%s: dtype %s" % (what, out.dtype))
    out = out.astype(float)
    ctx.finite(out, what)
    d = np.diff(out)
    if np.any(d < 0):
        j = int(np.argmax(d < 0))
        ctx.fail("%s decreases at sample %d: %r -> %r" % (what, j + 1, float(out[j]), float(out[j + 1])))
    if opt == "all":
        pk = np.asarray(r_all, dtype=np.int64)
        first_stated = True
    else:
        sw = _switched_reported(ctx, a, arg, fast)
        if sw is None or len(sw) == 0:
            return
        first_stated = start == "origin" or sw[0] == 0
        pk = sw if sw[0] == 0 else np.concatenate(([0], sw))
    # the statement names INCREMENTS: +0.5 between consecutive reported peaks, +0.25 up to the first one from the origin.  Summed from
    # the first sample: rise[j] = out[p_j] - out[p_0] = 0.5 j - 0.25 [origin][j > 0].  Tolerance: the statement fixes the values, not
    # the arithmetic that produces them - an implementation that accumulates the ramp sample by sample (n additions) is as correct as
    # one that interpolates, so the bound is that of an n-term running sum, (8 + 4n) eps max(1, |value|) (3e-12 for n = 3000,
    # 3e-10 for n = 300 000; the smallest meaningful error is a fraction of the 0.25 step).  HOW the counter rises between two
    # reported peaks is not stated and not asserted (monotone, hence bracketed by the values at the peaks).
    j = np.arange(len(pk), dtype=float)
    want = 0.5 * j - (0.25 if start == "origin" else 0.0) * (j > 0)
    rise = out[pk] - out[pk[0]]
    tol = (8 + 4 * n) * EPS * np.maximum(1.0, np.maximum(np.abs(out[pk]), want))
    lo = 1
    if not first_stated:
        # start='peak' counted over switched peaks whose first one is not sample 0: the statement gives the +0.5 steps between the
        # switched peaks only; compare from the first switched peak on
        rise = out[pk[1:]] - out[pk[1]]
        want = 0.5 * np.arange(len(pk) - 1, dtype=float)
        tol = tol[1:]
        lo = 0
    bad = ~(np.abs(rise - want) <= 2 * tol)
    if np.any(bad):
        k = int(np.argmax(bad))
        ctx.fail("%s: rise up to reported peak #%d (sample %d) is %r, the statement gives %r (%d of %d reported peaks out)" % (
            what, k + (0 if lo else 1), int(pk[k] if lo else pk[k + 1]), float(rise[k]), float(want[k]), int(np.sum(bad)), len(want)))


@clause(CLAUSES, "n-cyc", _ncyc_cases(), quick=400, thorough=2000,
        rule="same generator (n <= 5000) plus smooth finely sampled series (n <= 5000); opt in {default, all, switched} x start in "
             "{default(=origin), origin, peak}; non-trivial = at least one interior extremum",
        oracle="the statement: length, non-decreasing over the whole array, rise from the first sample to the j-th reported peak = "
               "0.5*j - 0.25*[origin]*[j>0] (reported peaks: reference local peaks for opt='all'; switched peaks for opt='switched', "
               "see ASSUMPTIONS); tolerance 2*(8+4n)*eps*max(1, value)",
        require={"lead-plateau": 0.2, "start=peak": 0.1, "start=origin": 0.1, "smooth&start=peak": 0.04, "opt=switched": 0.2,
                 "opt=switched&start=peak": 0.05, "opt=all": 0.2, "n>512": 0.08},
        min_nontrivial=0.3)
def n_cyc(case, ctx):
    a, arg = series(case)
    if ref.is_constant(a):
        ctx.cls("constant")
        return
    r_all, _ = ref.local_peaks(a)
    _classify(ctx, case, a, r_all, ref.plateaus(a))
    start, opt = case["start"], case.get("opt", "all")
    ctx.cls("start=" + start, "opt=" + opt, "opt=%s&start=%s" % (opt, start))
    smooth = len(a) > 16 * (len(r_all) + 1)
    ctx.cls("smooth" if smooth else None, "smooth&start=peak" if smooth and start == "peak" else None)
    _check_ncyc(ctx, a, arg, opt, start, r_all)


# ---------------------------------------------------------------------------
# 4. mid-range sizes (DESIGN 8.5): series of 2e3 .. 3e5 samples (thorough 2e6).  Deterministic enumeration: lengths from
# gen.size_ladder (one per logarithmic bin, placed by a hash of VERIF_SEED, plus lengths aimed at the integer literals mined from the
# source under test); every other parameter is a hash of (VERIF_SEED, tag, index).  The WHOLE output of every function is compared
# with the vectorised reference / predicate of pbt/ref/peaks_mid.py; every case calls the full cross product ptype in
# {default, all, max, min} and opt in {default, all, switched} x start in {default, origin, peak}.


def _hu(*parts):
    """Uniform number in [0, 1): hash of (VERIF_SEED, parts)."""
    s = ":".join(str(p) for p in (gen.run_seed(), "c11") + parts)
    return (int(hashlib.blake2b(s.encode(), digest_size=8).hexdigest(), 16) % 10 ** 9) / 1e9


def _pick(seq, *parts):
    return seq[min(len(seq) - 1, int(_hu(*parts) * len(seq)))]


def _logu(lo, hi, *parts):
    return float(math.exp(math.log(lo) + (math.log(hi) - math.log(lo)) * _hu(*parts)))


def _sd(*parts):
    return int(_hu("seed", *parts) * (2 ** 31 - 1))


MR_KINDS = ("smooth", "band", "noise", "grid-noise", "grid-smooth", "walk")


def _mr_series(c):
    """Series of a mid-range case (pure function of the case).  Ordinary data that keep an error visible everywhere: noise /
    band-limited noise / modulated sines / a random walk times a slowly varying envelope plus a non-zero mean (every stretch of
    the series is different), optionally rounded to a coarse grid (plateaus and plateau extrema in every stretch), with a leading /
    trailing plateau that may span many thousand samples, shifted by an offset, in a hash-chosen unit."""
    n = int(c["n"])
    rs = np.random.RandomState(int(c["seed"]))
    t = np.arange(n, dtype=float)
    kind = c["kind"]
    if kind in ("noise", "grid-noise"):
        a = rs.standard_normal(n)
    elif kind == "band":
        w = int(c["w"])
        w2 = w // 2 + 1
        cs = np.cumsum(rs.standard_normal(n + w + w2))
        a = (cs[w:] - cs[:-w]) / math.sqrt(w)
        cs = np.cumsum(a)
        a = (cs[w2:] - cs[:-w2]) / math.sqrt(w2)
    elif kind in ("smooth", "grid-smooth"):
        cyc = float(c["cyc"])
        ph = rs.uniform(0, 2 * math.pi, 3)
        a = (np.sin(2 * math.pi * cyc * t / n + ph[0]) * (1 + 0.4 * np.sin(2 * math.pi * 3.3 * t / n + ph[1]))
             + 0.3 * np.sin(2 * math.pi * 0.377 * cyc * t / n + ph[2]))
    elif kind == "walk":
        a = np.cumsum(rs.standard_normal(n)) / math.sqrt(n) * 3.0
    else:
        raise ValueError(kind)
    x = t / n
    e = {"up": 0.6 + 0.8 * x, "down": 1.4 - 0.8 * x, "hump": 0.6 + 0.8 * np.sin(math.pi * x)}[c.get("env", "up")]
    a = a[:n] * e + 0.11
    q = float(c.get("grid", 0))
    if q:
        a = np.round(a / q) * q
    a = a + float(c.get("offset", 0.0))
    lead = int(c.get("lead", 0))
    if lead:
        a[:lead + 1] = a[lead]
    tail = int(c.get("tail", 0))
    if tail:
        a[n - tail - 1:] = a[n - tail - 1]
    a = a * 2.0 ** int(c.get("unit", 0))
    a = np.where(np.abs(a) < FLUSH, 0.0, a)
    if pm.is_constant(a):
        a[n // 2] += 2.0 ** int(c.get("unit", 0))
    return np.ascontiguousarray(a)


def _mr_container(a, how):
    """(argument handed to the library, the float64 values it represents)."""
    if how == "int":
        k = 30 - int(math.ceil(math.log2(float(np.max(np.abs(a))))))
        ai = np.round(a * 2.0 ** k).astype(np.int64)
        if np.all(ai == ai[0]):
            ai[len(ai) // 2] += 1
        return ai, ai.astype(float)
    if how in gen.NARROW_DTYPES:
        ai, av = gen.narrow_int(a - float(np.mean(a)), how)      # centred: counts of both signs, the most negative = the dtype's minimum
        if np.all(av == av[0]):
            ai[len(ai) // 2] += 1
            av = ai.astype(float)
        return ai, av
    if how == "list":
        return [float(v) for v in a], a
    if how in ("view", "negstride", "readonly"):
        return gen.as_container({"as": how}, a), a
    return a.copy(), a


def _mr_params(kind, n, *parts):
    c = {"kind": kind, "env": _pick(["up", "down", "hump"], "env", *parts)}
    if kind == "band":
        c["w"] = int(_logu(4, 120, "w", *parts))
    if kind in ("smooth", "grid-smooth"):
        c["cyc"] = round(_logu(3, max(10, min(3000, n / 40.0)), "cyc", *parts), 3)
    if kind == "grid-noise":
        c["grid"] = _pick([1.0, 0.5, 0.25], "grid", *parts)
    if kind == "grid-smooth":
        c["grid"] = _pick([0.25, 2.0 ** -4, 2.0 ** -7, 2.0 ** -10], "grid", *parts)
    u = _hu("lead", *parts)
    if u < 0.55:
        # leading plateau: a few samples, or a stretch of up to a third of the series (spans any block boundary below n / 3)
        c["lead"] = int(_pick([1, 2, 5], "leadn", *parts)) if u < 0.2 else int(_logu(8, max(9, n // 3), "leadn", *parts))
    u = _hu("tail", *parts)
    if u < 0.45:
        c["tail"] = int(_pick([1, 2, 5], "tailn", *parts)) if u < 0.2 else int(_logu(8, max(9, n // 3), "tailn", *parts))
    if _hu("off", *parts) < 0.4:
        c["offset"] = _pick([1024.0, -2.5, 1.0, -0.375, 2.0 ** 20], "offv", *parts)
    c["unit"] = _pick([0, 0, 0, -7, 5, -40, 33], "unit", *parts)
    c["container"] = _pick(["ndarray", "ndarray", "ndarray", "list", "int", "readonly", "negstride", "view", "int16", "int32", "int8"], "cont", *parts)
    if _hu("obj", *parts) < 0.5:
        c["obj"] = [_pick(["Signal", "AccSignal"], "objk", *parts), _pick(gen.REPO_DTS, "objdt", *parts)]
    return c


def _mid_sizes(tier):
    """The last rung is an anchor just above the nominal end of the range: a window that opens anywhere below the end is entered
    by at least one series."""
    if tier == "quick":
        top = int(300000 * (1 + 0.1 * _hu("top")))
        return sorted(set(gen.size_ladder(2000, 300000, 14, "c11:n")) | {top})
    top = int(2000000 * (1 + 0.05 * _hu("top:t")))
    return sorted(set(gen.size_ladder(2000, 2000000, 30, "c11:n:t", mined_limit=16)) | set(gen.ladder(2000, 300000, 14, "c11:n")) | {top})


# micro-seconds per sample of one case (library walk over the switched peaks dominates for the peak-dense kinds)
_COST = {"smooth": 0.15, "grid-smooth": 0.2, "band": 0.6, "walk": 1.6, "noise": 2.0, "grid-noise": 1.6}


def _mid_cases(tier):
    cases = []
    for i, n in enumerate(_mid_sizes(tier)):
        # every length: the peak-dense and the plateau-rich family always, two of the other four by hash
        others = [k for k in MR_KINDS if k not in ("noise", "grid-noise")]
        chosen = ["noise", "grid-noise"] + sorted(others, key=lambda k: _hu("kinds", i, k))[:2]
        for r, kind in enumerate(chosen):
            c = dict(n=int(n), seed=_sd("mid", i, kind), sw_start=STARTS[(i + r) % 3], cost=_COST[kind] * n, **_mr_params(kind, n, "mid", i, kind))
            cases.append(c)
    return cases


def _deal(cases, shard, nshards):
    """Costly cases first, then dealt round-robin: shards of equal weight."""
    order = sorted(range(len(cases)), key=lambda i: (-cases[i].get("cost", 0), i))
    for rank, i in enumerate(order):
        if rank % nshards == shard:
            yield cases[i]


def _mid_enum(tier, shard, nshards):
    return _deal(_mid_cases(tier), shard, nshards)


def _check_indices_fast(ctx, a, arg):
    """All ptype spellings against the vectorised reference and the vectorised statement predicate (whole output)."""
    r_all, is_max = pm.local_peaks(a)
    got = {}
    for ptype in ("default",) + PTYPES:
        out = ctx.lib(pc.get_peak_array_indices, arg) if ptype == "default" else ctx.lib(pc.get_peak_array_indices, arg, ptype=ptype)
        out = np.asarray(out)
        if out.ndim != 1:
            ctx.fail("ptype=%s: result is not one-dimensional: shape %s" % (ptype, out.shape))
        if out.size and out.dtype.kind not in "iu":
            ctx.fail("ptype=%s: indices have dtype %s" % (ptype, out.dtype))
        got[ptype] = out
    for ptype in ("all", "default"):
        msg = pm.peaks_violation(a, got[ptype])
        if not np.array_equal(got[ptype], r_all):
            if pm.peaks_violation(a, r_all) is not None:
                raise HarnessError("validity predicate rejects the vectorised reference answer (n=%d)" % len(a))
            bad = int(np.argmax(got[ptype][:len(r_all)] != r_all[:len(got[ptype])])) if len(got[ptype]) and len(r_all) else 0
            ctx.fail("ptype=%s: %s; got %d indices, the series has %d turning points (reference); first difference at position %d: "
                     "got %s, reference %s" % (ptype, msg or "not the set of turning points", len(got[ptype]), len(r_all), bad,
                                               _sh(got[ptype][bad:bad + 4].tolist()), _sh(r_all[bad:bad + 4].tolist())))
        if msg is not None:
            raise HarnessError("validity predicate rejects the vectorised reference answer (%s)" % msg)
    r_max, r_min = r_all[is_max], r_all[~is_max]
    kmsg = pm.kinds_violation(a, got["all"], got["max"], got["min"])
    if not (np.array_equal(got["max"], r_max) and np.array_equal(got["min"], r_min)):
        if pm.kinds_violation(a, r_all, r_max, r_min) is not None:
            raise HarnessError("max/min predicate rejects the vectorised reference answer (n=%d)" % len(a))
        which = "max" if not np.array_equal(got["max"], r_max) else "min"
        want = r_max if which == "max" else r_min
        ctx.fail("ptype=%s: got %d indices %s..., the local %s are %d indices %s... (%s)" % (
            which, len(got[which]), _sh(got[which][:6].tolist()), "maxima" if which == "max" else "minima", len(want),
            _sh(want[:6].tolist()), kmsg))
    if kmsg is not None:
        raise HarnessError("max/min predicate rejects the vectorised reference answer (%s)" % kmsg)
    return r_all


def _mid_check(ctx, case, flush_note=True):
    a0 = _mr_series(case)
    arg, a = _mr_container(a0, case.get("container", "ndarray"))
    n = len(a)
    r_all = _check_indices_fast(ctx, a, arg)
    starts = pm.run_starts(a)
    ctx.cls("kind=" + case["kind"], "n>50000" if n > 50000 else "n<=50000", "container=" + case.get("container", "ndarray"),
            "lead-plateau" if a[0] == a[1] else None, "long-lead-plateau" if case.get("lead", 0) >= 8 else None,
            "final-plateau" if a[-1] == a[-2] else None, "offset" if case.get("offset") else None,
            "plateau-rich" if len(starts) < 0.9 * n else None, "peaks>%d" % (10 ** int(math.log10(max(1, len(r_all))))))
    ctx.nt(len(r_all) >= 3)
    _check_mechanisms(ctx, a, starts, r_all)
    if case.get("obj"):
        _check_wrapper(ctx, case["obj"][0], arg, case["obj"][1], fast=True)
    # cycle counter: opt='all' (and default) with every start; opt='switched' with one start per case (the library walks over the
    # local peaks in Python for it); the start rotates with the case index so every length sees all three
    for opt in ("default", "all"):
        for start in STARTS:
            _check_ncyc(ctx, a, arg, opt, start, r_all, fast=True)
    ctx.cls("switched&start=" + case["sw_start"])
    _check_ncyc(ctx, a, arg, "switched", case["sw_start"], r_all, fast=True)


@enum_clause(CLAUSES, "mid-range", _mid_enum,
             rule="series lengths gen.size_ladder(2000, 300000, 14) + an anchor just above 300 000 (thorough: to 2 000 000, 30 + 14 rungs; plus "
                  "lengths aimed at the integer literals of the source) x four families per length (white noise, noise on a coarse grid, two of "
                  "{modulated sines, sines on a grid, band-limited noise, random walk}); leading / trailing plateaus of 1..n/3 samples, offsets, "
                  "units 2^-40..2^33, ndarray / list / int64 / read-only / strided containers by hash of (VERIF_SEED, index); every case calls "
                  "ptype in {default, all, max, min}, opt in {default, all} x start in {default, origin, peak}, opt='switched' with one start "
                  "(rotating), the two anchored mechanisms, and (half of the cases) get_peak_indices(Signal | AccSignal); "
                  "non-trivial = at least one interior extremum",
             oracle="reference model over the WHOLE output (vectorised plateau reference cross-checked against the loops at import; exact index "
                    "equality) guarded by the vectorised statement predicate; cycle counter: length, non-decreasing at every sample, rise to "
                    "every reported peak to 2*(8+4n)*eps*max(1, value)",
             exhaustive_note="deterministic size ladder: one series length per logarithmic bin of [2000, 300000] (thorough [2000, 2000000]) and per "
                             "mined literal, four families each, full cross product of ptype and of opt x start per case",
             require={"kind=noise": 0.2, "kind=grid-noise": 0.2, "n>50000": 0.1, "long-lead-plateau": 0.1, "plateau-rich": 0.2},
             min_nontrivial=0.9, quick_shards=4)
def mid_range(case, ctx):
    _mid_check(ctx, case)


# ---------------------------------------------------------------------------
# 5. extreme magnitudes: the statement says "every non-constant series"


@st.composite
def _extreme_cases(draw):
    spec = draw(gen.record_specs(min_n=2, max_n=2000, kinds=KINDS, allow_int=["list", "view", "readonly"]))
    case = {"rec": spec}
    if draw(st.integers(0, 2)) == 0:
        case["levels"] = draw(st.integers(2, 9))
    if draw(st.integers(0, 2)) == 0:
        case["offset"] = draw(st.sampled_from([-1.0, 1.0])) * 2.0 ** draw(st.integers(-3, 6))
    if draw(st.integers(0, 4)) < 2:
        case["lead"] = draw(st.integers(1, 5))
    if draw(st.integers(0, 4)) == 0:
        case["tail"] = draw(st.integers(1, 5))
    if draw(st.booleans()):
        case["xmag"] = draw(st.integers(-665, -532))      # largest |value| 6.5e-201 .. 1.4e-160
    else:
        case["xmag"] = draw(st.integers(500, 1015))       # largest |value| 3.3e150 .. 3.5e305
    case["start"] = draw(st.sampled_from(STARTS))
    return case


@clause(CLAUSES, "extreme-magnitudes", _extreme_cases(), quick=300, thorough=1500,
        rule="the series of clause random (n <= 2000; element-wise reals, dyadic, few-level, noise, sines, pulse, step, walk, quake; optional "
             "coarse grid, offset, leading / trailing plateau) rescaled by an exact power of two so that the largest |value| is 2^-665..2^-532 "
             "(6.5e-201 .. 1.4e-160) or 2^500..2^1015 (3e150 .. 3.5e305), WITHOUT the 1e-100 flush of the other clauses; "
             "non-trivial = at least one interior extremum",
        oracle="as clause random (reference model + statement predicate, exact index equality, all three ptypes) and the cycle counter of "
               "clause n-cyc with opt='all'; the references compare samples and never multiply, so they have no range precondition",
        require={"tiny": 0.3, "huge": 0.3}, min_nontrivial=0.3)
def extreme_magnitudes(case, ctx):
    a, arg = series(case)
    ctx.cls("tiny" if case["xmag"] < 0 else "huge")
    if ref.is_constant(a):
        ctx.cls("constant")
        return
    r_all, _ = ref.local_peaks(a)
    _classify(ctx, case, a, r_all, ref.plateaus(a))
    _check_indices(ctx, a, arg)
    _check_ncyc(ctx, a, arg, "all", case["start"], r_all)
