"""Core of the property-based checking framework for eqsig.

A *clause* is one sentence of a property statement turned into
(strategy, oracle, non-trivial rule).  Its check function receives a *case*
(plain JSON-serialisable data drawn by Hypothesis or produced by an
enumerator) and a :class:`Ctx`, and raises :class:`Violation` when the library
breaks the clause.  Any other exception is a harness error (exit 2), never a
violation.
"""
import hashlib
import json
import math
import os
import sys
import warnings

import numpy as np


# absolute floor added to every tolerance: results that underflow to subnormals / zero in double
# precision are not errors (values of physical interest are > 1e-200)
TINY = 1e-290


class Violation(Exception):
    """The library under test broke the clause on this case."""


def _load_signatures():
    import json as _json
    path = os.path.join(os.path.dirname(os.path.abspath(__file__)), "signatures.json")
    try:
        with open(path) as f:
            return _json.load(f)
    except Exception:  # noqa
        return {}


SIGNATURES = _load_signatures()


class Inconclusive(Exception):
    """A case that could not be evaluated for lack of resources (memory); counted, never reported as a violation."""


class HarnessError(Exception):
    """The checking machinery itself is wrong / unhealthy (exit 2)."""


class Ctx(object):
    """Per-case context handed to a clause function."""

    def __init__(self, strict=False, kf_open=()):
        self.classes = []
        self.nontrivial = False
        self.known = []
        self.ambiguous = False
        self.strict = strict  # strict: ignore known-finding routing
        self.kf_open = frozenset(kf_open)
        self.notes = {}
        self.form = "kw"

    # -- classification -------------------------------------------------
    def cls(self, *labels):
        for lab in labels:
            if lab is not None and lab not in self.classes:
                self.classes.append(str(lab))

    def nt(self, flag=True):
        if flag:
            self.nontrivial = True

    def amb(self):
        self.ambiguous = True

    def kf(self, kid):
        """True when the open known finding `kid` may relax the bound here."""
        if self.strict or kid not in self.kf_open:
            return False
        if kid not in self.known:
            self.known.append(kid)
        return True

    # -- assertions -----------------------------------------------------
    def fail(self, msg):
        raise Violation(msg)

    def check(self, cond, msg):
        if not cond:
            raise Violation(msg)

    def lib(self, fn, *args, **kwargs):
        """Call the library; an exception there is a violation (the clause
        promises a value for this input).

        In one case out of three (self.form == 'pos', decided by the case's hash) keyword arguments that are the next
        positional-or-keyword parameters of the PINNED signature (pbt/signatures.json, recorded from the pinned tree, not
        read from the code under test) are passed positionally instead: the two spellings are the same request."""
        if self.form == "pos" and kwargs:
            names = SIGNATURES.get("%s.%s" % (getattr(fn, "__module__", ""), getattr(fn, "__qualname__", "")))
            if names is not None:
                nxt = names[len(args):len(args) + len(kwargs)]
                if len(nxt) == len(kwargs) and set(nxt) == set(kwargs):
                    args = tuple(args) + tuple(kwargs[n] for n in nxt)
                    kwargs = {}
                    self.cls("call=positional")
        try:
            with warnings.catch_warnings():
                warnings.simplefilter("ignore")
                return fn(*args, **kwargs)
        except Violation:
            raise
        except MemoryError as e:
            # the machine, not the library, ran out: the case is inconclusive (a resource limit is never a violation)
            raise Inconclusive("out of memory in %s: %s" % (getattr(fn, "__name__", str(fn)), str(e)[:120]))
        except Exception as e:  # noqa
            name = getattr(fn, "__name__", str(fn))
            raise Violation("%s raised %s: %s" % (name, type(e).__name__, str(e)[:200]))

    def libf(self, form, fn, order, *args, **kwargs):
        """Call the library with its optional arguments spelled by keyword (form 'kw') or, when form is 'pos' and the given
        keywords are the first len(kwargs) names of `order` (the documented parameter order after the required arguments),
        positionally in that order.  The two spellings are the same request."""
        if form == "pos" and kwargs and set(kwargs) == set(order[:len(kwargs)]):
            self.cls("call=positional")
            return self.lib(fn, *(tuple(args) + tuple(kwargs[k] for k in order[:len(kwargs)])))
        return self.lib(fn, *args, **kwargs)

    def raises(self, exc_types, fn, *args, **kwargs):
        """The clause promises rejection."""
        try:
            with warnings.catch_warnings():
                warnings.simplefilter("ignore")
                out = fn(*args, **kwargs)
        except exc_types:
            return
        except Exception as e:  # noqa
            raise Violation("%s raised %s instead of %s" % (
                getattr(fn, "__name__", fn), type(e).__name__, exc_types))
        raise Violation("%s returned %r instead of raising %s" % (
            getattr(fn, "__name__", fn), _short(out), exc_types))

    def shape(self, a, shape, what):
        a = np.asarray(a)
        if tuple(a.shape) != tuple(shape):
            raise Violation("%s: shape %s, expected %s" % (what, a.shape, tuple(shape)))

    def finite(self, a, what):
        a = np.asarray(a)
        if not np.all(np.isfinite(a)):
            raise Violation("%s: non-finite values %s" % (what, _short(a)))

    def equal(self, a, b, what):
        a = np.asarray(a)
        b = np.asarray(b)
        if a.shape != b.shape:
            raise Violation("%s: shape %s vs %s" % (what, a.shape, b.shape))
        if not np.array_equal(a, b):
            bad = np.argwhere(~(a == b))
            i = tuple(bad[0]) if len(bad) else ()
            raise Violation("%s: not equal at %s: %r vs %r (of %d elements, %d differ)" % (
                what, i, a[i] if a.shape else a, b[i] if b.shape else b, a.size, len(bad)))

    def close(self, a, b, tol, what):
        """max |a-b| <= tol (tol scalar or broadcastable array); shapes equal."""
        a = np.asarray(a)
        b = np.asarray(b)
        if a.shape != b.shape:
            raise Violation("%s: shape %s vs %s" % (what, a.shape, b.shape))
        if a.size == 0:
            return 0.0
        d = np.abs(a.astype(np.longdouble) - b.astype(np.longdouble)) if not np.iscomplexobj(a) and not np.iscomplexobj(b) \
            else np.abs(a - b)
        bad = ~(d <= np.asarray(tol) + TINY)  # TINY: gradual-underflow floor, see module constant
        if np.any(bad):
            idx = np.argwhere(bad)
            i = tuple(idx[0])
            ti = np.broadcast_to(np.asarray(tol), a.shape)[i] if np.ndim(tol) else tol
            raise Violation("%s: |diff|=%.6g > tol=%.6g at %s: got %r expected %r (%d of %d out)" % (
                what, float(d[i]), float(ti), i, a[i] if a.shape else a[()], b[i] if b.shape else b[()],
                len(idx), a.size))
        return float(np.max(d))


def _short(x, n=8):
    try:
        a = np.asarray(x)
        if a.ndim == 0:
            return repr(a[()])
        flat = a.ravel()
        if flat.size <= n:
            return repr(flat.tolist())
        return "%r...(%d)" % (flat[:n].tolist(), flat.size)
    except Exception:  # noqa
        return repr(x)[:120]


class Clause(object):
    kind = "hyp"

    def __init__(self, name, fn, strategy=None, quick=200, thorough=2000, rule="", oracle="",
                 require=None, min_nontrivial=0.05, enum=None, exhaustive_note="", shards=16,
                 quick_shards=1):
        self.name = name
        self.fn = fn
        self.strategy = strategy
        self.quick = quick
        self.thorough = thorough
        self.rule = rule
        self.oracle = oracle
        self.require = require or {}      # class label -> minimum fraction of cases
        self.min_nontrivial = min_nontrivial
        self.enum = enum                  # callable(tier, shard, nshards) -> iterable of cases
        self.exhaustive_note = exhaustive_note
        self.shards = shards
        self.quick_shards = quick_shards
        if enum is not None:
            self.kind = "enum"


def clause(registry, name, strategy, quick=200, thorough=2000, rule="", oracle="", require=None,
           min_nontrivial=0.05, shards=16, quick_shards=1):
    def deco(fn):
        registry.append(Clause(name, fn, strategy=strategy, quick=quick, thorough=thorough, rule=rule,
                               oracle=oracle, require=require, min_nontrivial=min_nontrivial,
                               shards=shards, quick_shards=quick_shards))
        return fn
    return deco


def enum_clause(registry, name, enum, rule="", oracle="", exhaustive_note="", require=None,
                min_nontrivial=0.0, shards=16, quick_shards=4, thorough_only=False):
    def deco(fn):
        cl = Clause(name, fn, enum=enum, rule=rule, oracle=oracle, require=require,
                    min_nontrivial=min_nontrivial, exhaustive_note=exhaustive_note,
                    shards=shards, quick_shards=quick_shards)
        cl.thorough_only = thorough_only  # the enumeration is empty in the quick tier (too expensive there)
        registry.append(cl)
        return fn
    return deco


def machine_clause(registry, name, machine, make_history, quick=100, thorough=400, quick_steps=30, thorough_steps=60,
                   rule="", oracle="", require=None, min_nontrivial=0.05, shards=16, quick_shards=1):
    """A clause over call *histories*, explored by a Hypothesis RuleBasedStateMachine.

    machine: subclass of HistoryMachine (rules call self.start(init) once and self.do(op, args) per step);
    make_history(init, ctx) -> object with .step(op, args) and .finish(), raising Violation when the history breaks the clause.
    A case is {"init": ..., "ops": [[op, args], ...]} and replays through make_history without Hypothesis."""
    def fn(case, ctx):
        h = make_history(case["init"], ctx)
        for op, args in case["ops"]:
            h.step(op, args)
        h.finish()
    cl = Clause(name, fn, quick=quick, thorough=thorough, rule=rule, oracle=oracle, require=require,
                min_nontrivial=min_nontrivial, shards=shards, quick_shards=quick_shards)
    cl.kind = "machine"
    cl.machine = machine
    cl.make_history = make_history
    cl.steps = {"quick": quick_steps, "thorough": thorough_steps}
    registry.append(cl)
    return cl


def history_machine_base():
    """Base class factory (imports hypothesis lazily)."""
    from hypothesis.stateful import RuleBasedStateMachine

    class HistoryMachine(RuleBasedStateMachine):
        _hooks = None          # set by the runner: object with .done(case, ctx), .fail(case, exc, kind), .kf_open
        _make_history = None   # set by the runner from the clause

        def __init__(self):
            super().__init__()
            self.case = None
            self.ctx = None
            self.h = None
            self._dead = False

        def start(self, init):
            self.ctx = Ctx(kf_open=self._hooks.kf_open)
            self.case = {"init": init, "ops": []}
            self._guard(lambda: setattr(self, "h", type(self)._make_history(init, self.ctx)))

        def do(self, op, args):
            if self.h is None:
                return
            self.case["ops"].append([op, args])
            self._guard(lambda: self.h.step(op, args))

        def _guard(self, thunk):
            try:
                with warnings.catch_warnings():
                    warnings.simplefilter("ignore")
                    old = np.seterr(all="ignore")
                    try:
                        thunk()
                    finally:
                        np.seterr(**old)
            except Violation as v:
                self._dead = True
                self._hooks.fail(self.case, v, "violation")
                raise
            except Exception as e:  # noqa
                self._dead = True
                self._hooks.fail(self.case, e, "harness")
                raise

        def teardown(self):
            if self.h is None or self._dead:
                return
            self._guard(self.h.finish)
            self._hooks.done(self.case, self.ctx)

    return HistoryMachine


# ---------------------------------------------------------------------------
# canonical JSON / hashing / abbreviations


def _default(o):
    if isinstance(o, (np.integer,)):
        return int(o)
    if isinstance(o, (np.floating,)):
        return float(o)
    if isinstance(o, np.ndarray):
        return o.tolist()
    if isinstance(o, (np.bool_,)):
        return bool(o)
    if isinstance(o, tuple):
        return list(o)
    raise TypeError("not JSON serialisable: %r" % type(o))


def canon(case):
    return json.dumps(case, sort_keys=True, default=_default, allow_nan=True)


def call_form(case, share=3):
    """'pos' for one case in `share` (decided by the case's hash, so replay files reproduce it), else 'kw'."""
    return "pos" if int(case_hash(case)[:4], 16) % share == 0 else "kw"


def case_hash(case):
    return hashlib.blake2b(canon(case).encode(), digest_size=8).hexdigest()


def abbreviate(obj, maxlen=10):
    """Truncate long lists so samples in the evidence stay readable."""
    if isinstance(obj, dict):
        return {k: abbreviate(v, maxlen) for k, v in obj.items()}
    if isinstance(obj, (list, tuple)):
        if len(obj) > maxlen:
            return [abbreviate(v, maxlen) for v in obj[:maxlen]] + ["... (%d items)" % len(obj)]
        return [abbreviate(v, maxlen) for v in obj]
    if isinstance(obj, float):
        if math.isnan(obj) or math.isinf(obj):
            return repr(obj)
        return obj
    if isinstance(obj, (np.integer,)):
        return int(obj)
    if isinstance(obj, (np.floating,)):
        return float(obj)
    if isinstance(obj, np.ndarray):
        return abbreviate(obj.tolist(), maxlen)
    return obj


def tier():
    """Tier of the current run ('quick' | 'thorough'); set by the runner before property modules are imported."""
    return os.environ.get("VERIF_TIER", "quick")


def derive_seed(seed, prop, clause_name, shard):
    s = "%d:%s:%s:%d" % (int(seed), prop, clause_name, int(shard))
    return int(hashlib.blake2b(s.encode(), digest_size=4).hexdigest(), 16)


# ---------------------------------------------------------------------------
# locating the code under test


def import_eqsig():
    """Import eqsig from /repo's working tree (or VERIF_EQSIG_PATH for the
    sensitivity harness) and verify where it came from."""
    root = os.path.realpath(os.environ.get("VERIF_EQSIG_PATH", "/repo"))
    sys.dont_write_bytecode = True
    if root in sys.path:
        sys.path.remove(root)
    sys.path.insert(0, root)
    have = sys.modules.get("eqsig")
    if have is not None and os.path.realpath(getattr(have, "__file__", "")).startswith(root + os.sep):
        return have  # already imported from the right tree (e.g. inherited by a forked worker): keep one set of module objects
    for m in list(sys.modules):
        if m == "eqsig" or m.startswith("eqsig."):
            del sys.modules[m]
    import eqsig  # noqa
    f = os.path.realpath(eqsig.__file__)
    if not f.startswith(root + os.sep):
        raise HarnessError("eqsig imported from %s, expected under %s" % (f, root))
    return eqsig
