"""Runner: ./vcheck <ID> [--tier quick|thorough] [--replay FILE] [--clauses a,b] [--procs N]

Exit 0: property held on everything explored (KNOWN-FINDING lines allowed).
Exit 1: at least one line `VIOLATION property=<ID> replay=<path>`.
Exit 2: harness error / inconclusive (never reported as a violation).
"""
import argparse
import glob
import importlib
import json
import multiprocessing as mp
import os
import signal
import sys
import time
import traceback
import warnings

VERIF = os.path.dirname(os.path.dirname(os.path.abspath(__file__)))
if VERIF not in sys.path:
    sys.path.insert(0, VERIF)

from pbt import core  # noqa: E402
from pbt.core import Violation, HarnessError, Ctx  # noqa: E402

WATCHDOG_S = {"quick": 20 * 60, "thorough": 150 * 60}  # generous: a busy machine must not turn a healthy check into exit 2
MAX_SAMPLES = 3
HEALTH_SCALE = 0.4  # floors are enforced at 40 % of their declared value (seed-to-seed scatter; a starved class shows as a share near zero)
# per-property multiplier of the per-shard thorough budgets declared in the modules, chosen from measured wall times so
# that every thorough check takes roughly 4-8 minutes on 16 cores (enumerations are complete and do not scale)
THOROUGH_MULT = {"C01": 2.0, "C03": 1.5, "C04": 4.0, "C05": 4.0, "C06": 1.5, "C07": 2.0, "C08": 5.0, "C09": 4.0, "C10": 3.0,
                 "C11": 4.0, "C12": 3.0, "C13": 4.0, "C14": 2.0, "C15": 4.0, "C16": 3.0, "C17": 2.5, "C18": 3.0, "C19": 3.0}


def load_known(prop):
    path = os.path.join(VERIF, "known_findings.json")
    if not os.path.exists(path):
        return []
    with open(path) as f:
        data = json.load(f)
    return [e for e in data.get("findings", []) if e.get("property") == prop]


def load_module(prop):
    return importlib.import_module("pbt.props.%s" % prop.lower())


def find_clause(mod, name):
    for c in mod.CLAUSES:
        if c.name == name:
            return c
    raise HarnessError("no clause %r in %s" % (name, mod.__name__))


class Stats(object):
    def __init__(self):
        self.evaluations = 0
        self.nontrivial = set()
        self.nontrivial_count = 0
        self.classes = {}
        self.known = {}
        self.ambiguous = 0
        self.samples = []
        self.trivial_sample = None

    def record(self, case, ctx, hashed=True):
        self.evaluations += 1
        for lab in ctx.classes:
            self.classes[lab] = self.classes.get(lab, 0) + 1
        for k in ctx.known:
            self.known[k] = self.known.get(k, 0) + 1
        if ctx.ambiguous:
            self.ambiguous += 1
        if ctx.nontrivial:
            self.nontrivial_count += 1
            if hashed:
                self.nontrivial.add(core.case_hash(case))
            if len(self.samples) < MAX_SAMPLES:
                self.samples.append({"case": core.abbreviate(case), "classes": list(ctx.classes)})
        elif self.trivial_sample is None:
            self.trivial_sample = {"case": core.abbreviate(case), "classes": list(ctx.classes), "trivial": True}

    def to_dict(self):
        return {
            "evaluations": self.evaluations,
            "nontrivial_hashes": sorted(self.nontrivial),
            "nontrivial_count": self.nontrivial_count,
            "classes": self.classes,
            "known": self.known,
            "ambiguous": self.ambiguous,
            "samples": self.samples,
            "trivial_sample": self.trivial_sample,
        }


def run_case(cl, case, kf_open, strict=False):
    ctx = Ctx(strict=strict, kf_open=kf_open)
    try:
        ctx.form = core.call_form(case)
    except Exception:  # noqa  (a case that cannot be canonicalised keeps the keyword spelling)
        ctx.form = "kw"
    with warnings.catch_warnings():
        warnings.simplefilter("ignore")
        with _np_quiet():
            cl.fn(case, ctx)
    return ctx


class _np_quiet(object):
    def __enter__(self):
        import numpy as np
        self._old = np.seterr(all="ignore")

    def __exit__(self, *a):
        import numpy as np
        np.seterr(**self._old)


def _run_hyp(prop, cl, n, seed, tier, kf_open):
    import hypothesis
    from hypothesis import given, settings, HealthCheck, Phase
    import hypothesis.internal.conjecture.engine as engine
    engine.MAX_SHRINKING_SECONDS = 25 if tier == "quick" else 120

    stats = Stats()
    last_fail = {}
    recent = []  # the last few cases executed before the current one (a result that depends on EARLIER calls needs them to replay)

    def body(case):
        prelude = list(recent)
        recent.append(case)
        del recent[:-3]
        try:
            ctx = run_case(cl, case, kf_open)
        except (core.Inconclusive, MemoryError):
            stats.classes["inconclusive:out-of-memory"] = stats.classes.get("inconclusive:out-of-memory", 0) + 1
            return
        except Violation as v:
            if "first" not in last_fail:  # the first violating case of the run, with the cases that preceded it
                last_fail["first"] = {"case": case, "msg": str(v), "prelude": prelude}
            last_fail["case"] = case
            last_fail["msg"] = str(v)
            last_fail["kind"] = "violation"
            last_fail["prelude"] = prelude  # replayed before the case: harmless for a stateless library, needed for a stateful one
            raise
        except Exception as e:  # noqa
            last_fail["case"] = case
            last_fail["msg"] = "%s: %s" % (type(e).__name__, e)
            last_fail["kind"] = "harness"
            last_fail["tb"] = traceback.format_exc()
            raise
        stats.record(case, ctx)

    test = given(cl.strategy)(body)
    test = settings(max_examples=n, database=None, deadline=None, derandomize=False,
                    report_multiple_bugs=False, print_blob=False,
                    suppress_health_check=[HealthCheck.too_slow, HealthCheck.data_too_large,
                                           HealthCheck.large_base_example],
                    phases=(Phase.explicit, Phase.generate) if os.environ.get("VERIF_NO_SHRINK") else
                    (Phase.explicit, Phase.generate, Phase.shrink))(test)
    test = hypothesis.seed(seed)(test)
    failure = None
    try:
        test()
    except Violation:
        failure = dict(last_fail)
    except hypothesis.errors.HypothesisException as e:
        failure = {"kind": "harness", "msg": "hypothesis: %s: %s" % (type(e).__name__, e),
                   "case": last_fail.get("case"), "tb": traceback.format_exc()}
        # A violation that Hypothesis could not reproduce when it re-ran the same case (FlakyFailure) means the library's answer
        # depended on what had been called BEFORE (a module-level memo, a shared buffer).  The checks are deterministic functions
        # of the case, so try the first violating case again after the cases that preceded it: if the violation comes back it
        # is reported as a violation whose replay file carries that prelude; if not, it stays a harness error (exit 2).
        first = last_fail.get("first")
        if first is not None and "Flaky" in type(e).__name__:
            msg = _replay_with_prelude(cl, first["prelude"], first["case"], kf_open)
            if msg is not None:
                failure = {"kind": "violation", "case": first["case"], "prelude": first["prelude"],
                           "msg": msg + "  [result depends on earlier calls: reproduced only after %d preceding case(s)]" % len(first["prelude"])}
    except Exception as e:  # noqa
        failure = dict(last_fail) if last_fail else {"kind": "harness", "msg": repr(e), "case": None,
                                                       "tb": traceback.format_exc()}
        failure["kind"] = "harness"
    if failure:
        failure.pop("first", None)
    return stats, failure


def _replay_with_prelude(cl, prelude, case, kf_open):
    """Run the prelude cases (their own outcome is ignored), then `case`; the violation message, or None."""
    for pc in prelude:
        try:
            run_case(cl, pc, kf_open)
        except Exception:  # noqa
            pass
    try:
        run_case(cl, case, kf_open)
    except Violation as v:
        return str(v)
    except Exception:  # noqa
        return None
    return None


def _run_machine(prop, cl, n, seed, tier, kf_open):
    import hypothesis
    from hypothesis import settings, HealthCheck, Phase
    from hypothesis.stateful import run_state_machine_as_test
    import hypothesis.internal.conjecture.engine as engine
    engine.MAX_SHRINKING_SECONDS = 40 if tier == "quick" else 150

    stats = Stats()
    last_fail = {}

    class Hooks(object):
        pass
    hooks = Hooks()
    hooks.kf_open = kf_open

    def done(case, ctx):
        stats.record(case, ctx)

    def fail(case, exc, kind):
        last_fail["case"] = json.loads(core.canon(case))
        last_fail["msg"] = str(exc) if kind == "violation" else "%s: %s" % (type(exc).__name__, exc)
        last_fail["kind"] = kind
        if kind != "violation":
            last_fail["tb"] = traceback.format_exc()
    hooks.done = done
    hooks.fail = fail
    Machine = type("M_" + cl.name.replace("-", "_"), (cl.machine,), {"_hooks": hooks, "_make_history": staticmethod(cl.make_history)})
    sett = settings(max_examples=n, stateful_step_count=cl.steps[tier], database=None, deadline=None, derandomize=False,
                    report_multiple_bugs=False, print_blob=False,
                    suppress_health_check=[HealthCheck.too_slow, HealthCheck.data_too_large, HealthCheck.large_base_example],
                    phases=(Phase.explicit, Phase.generate) if os.environ.get("VERIF_NO_SHRINK") else
                    (Phase.explicit, Phase.generate, Phase.shrink))
    failure = None
    import io
    import contextlib
    sink = io.StringIO()
    try:
        with contextlib.redirect_stdout(sink):
            run_state_machine_as_test(hypothesis.seed(seed)(Machine), settings=sett)
    except Violation:
        failure = dict(last_fail)
    except hypothesis.errors.HypothesisException as e:
        failure = {"kind": "harness", "msg": "hypothesis: %s: %s" % (type(e).__name__, e),
                   "case": last_fail.get("case"), "tb": traceback.format_exc()}
    except Exception as e:  # noqa
        failure = dict(last_fail) if last_fail else {"kind": "harness", "msg": repr(e), "case": None,
                                                       "tb": traceback.format_exc()}
        failure["kind"] = "harness"
    return stats, failure


def _run_enum(prop, cl, tier, shard, nshards, kf_open):
    stats = Stats()
    failure = None
    for case in cl.enum(tier, shard, nshards):
        try:
            ctx = run_case(cl, case, kf_open)
        except (core.Inconclusive, MemoryError):
            stats.evaluations += 1
            stats.classes["inconclusive:out-of-memory"] = stats.classes.get("inconclusive:out-of-memory", 0) + 1
            continue
        except Violation as v:
            if failure is None or len(core.canon(case)) < len(core.canon(failure["case"])):
                failure = {"kind": "violation", "case": case, "msg": str(v)}
            stats.evaluations += 1
            continue
        except Exception as e:  # noqa
            failure = {"kind": "harness", "case": case, "msg": "%s: %s" % (type(e).__name__, e),
                       "tb": traceback.format_exc()}
            break
        stats.record(case, ctx, hashed=False)
    return stats, failure


def worker(task):
    prop, clause_name, shard, nshards, n, seed, tier, kf_open = task
    t0 = time.time()
    try:
        core.import_eqsig()
        mod = load_module(prop)
        cl = find_clause(mod, clause_name)
        if cl.kind == "enum":
            stats, failure = _run_enum(prop, cl, tier, shard, nshards, kf_open)
        elif cl.kind == "machine":
            stats, failure = _run_machine(prop, cl, n, seed, tier, kf_open)
        else:
            stats, failure = _run_hyp(prop, cl, n, seed, tier, kf_open)
        return {"clause": clause_name, "shard": shard, "stats": stats.to_dict(), "failure": failure,
                "wall_s": time.time() - t0, "seed": seed}
    except BaseException as e:  # noqa
        return {"clause": clause_name, "shard": shard, "stats": Stats().to_dict(),
                "failure": {"kind": "harness", "msg": "worker: %r" % (e,), "case": None,
                            "tb": traceback.format_exc()},
                "wall_s": time.time() - t0, "seed": seed}


def write_replay(prop, clause_name, failure, seed, tier, subdir="replays"):
    d = os.path.join(os.environ.get("VERIF_REPLAY_DIR") or os.path.join(VERIF, subdir), prop)
    os.makedirs(d, exist_ok=True)
    h = core.case_hash(failure.get("case"))
    path = os.path.join(d, "%s-%s.json" % (clause_name, h))
    with open(path, "w") as f:
        rec = [("property", prop), ("clause", clause_name), ("case", failure.get("case")),
               ("message", failure.get("msg")), ("seed", seed), ("tier", tier)]
        if failure.get("prelude"):
            rec.insert(3, ("prelude", failure.get("prelude")))  # cases to run first (same clause): the result depends on earlier calls
        f.write("{\n" + ",\n".join(" %s: %s" % (json.dumps(k), json.dumps(v, default=core._default))
                                    for k, v in rec) + "\n}\n")
    return path


def do_replay(prop, path, kf_open):
    with open(path) as f:
        rec = json.load(f)
    mod = load_module(prop)
    cl = find_clause(mod, rec["clause"])
    if rec.get("prelude"):
        return _replay_with_prelude(cl, rec["prelude"], rec["case"], kf_open)
    try:
        run_case(cl, rec["case"], kf_open)
    except Violation as v:
        return str(v)
    return None


def main(argv=None):
    ap = argparse.ArgumentParser()
    ap.add_argument("prop")
    ap.add_argument("--tier", default=os.environ.get("VERIF_TIER", "quick"), choices=["quick", "thorough"])
    ap.add_argument("--replay", default=None)
    ap.add_argument("--clauses", default=None)
    ap.add_argument("--procs", type=int, default=None)
    ap.add_argument("--scale", type=float, default=1.0, help="multiply case counts (development aid)")
    args = ap.parse_args(argv)
    prop = args.prop.upper()
    tier = args.tier
    os.environ["VERIF_TIER"] = tier  # property modules may size their generators by tier (core.tier())
    try:
        seed = int(os.environ.get("VERIF_SEED", "1") or "1")
    except ValueError:
        seed = 1
    t0 = time.time()

    def on_alarm(signum, frame):
        print("INCONCLUSIVE property=%s watchdog expired" % prop)
        sys.stdout.flush()
        for ch in mp.active_children():
            try:
                ch.terminate()
            except Exception:  # noqa
                pass
        os._exit(2)
    signal.signal(signal.SIGALRM, on_alarm)
    signal.alarm(WATCHDOG_S[tier])

    try:
        eqsig = core.import_eqsig()
        mod = load_module(prop)
    except Exception:  # noqa
        traceback.print_exc()
        print("HARNESS-ERROR property=%s import failed" % prop)
        return 2

    known = load_known(prop)
    kf_open = tuple(e["id"] for e in known if e.get("status") == "open")

    if args.replay:
        try:
            msg = do_replay(prop, args.replay, kf_open)
        except Exception:  # noqa
            traceback.print_exc()
            print("HARNESS-ERROR property=%s replay failed" % prop)
            return 2
        if msg is not None:
            print("replay: %s" % msg)
            print("VIOLATION property=%s replay=%s" % (prop, args.replay))
            return 1
        print("replay passes: %s" % args.replay)
        return 0

    violations = []
    harness_errors = []
    known_lines = []

    # 1. known findings: does the recorded repro still fail the strict clause?
    for e in known:
        if e.get("status") != "open":
            continue
        try:
            cl = find_clause(mod, e["repro"]["clause"])
            try:
                run_case(cl, e["repro"]["case"], kf_open, strict=True)
            except Violation:
                line = "KNOWN-FINDING: property=%s %s %s" % (prop, e["id"], e["what"])
                known_lines.append(line)
                print(line)
        except Exception:  # noqa
            harness_errors.append("known-finding repro %s: %s" % (e.get("id"), traceback.format_exc()))

    # 2. committed regression corpus
    corpus_files = sorted(glob.glob(os.path.join(VERIF, "corpus", prop, "*.json")))
    if os.environ.get("VERIF_NO_CORPUS"):  # development aid (selftest): judge the generated search alone
        corpus_files = []
    corpus_replayed = 0
    for path in corpus_files:
        try:
            msg = do_replay(prop, path, kf_open)
            corpus_replayed += 1
            if msg is not None:
                print("corpus: %s: %s" % (os.path.basename(path), msg))
                violations.append((_rel(path), msg))
        except Exception:  # noqa
            harness_errors.append("corpus %s: %s" % (path, traceback.format_exc()))

    # 3. generated search
    clauses = list(mod.CLAUSES)
    if args.clauses:
        want = set(args.clauses.split(","))
        clauses = [c for c in clauses if c.name in want]
    tasks = []
    for cl in clauses:
        if tier == "quick":
            nshards = cl.quick_shards
            n = max(1, int(cl.quick * args.scale))
        else:
            nshards = cl.shards
            n = max(1, int(cl.thorough * args.scale * THOROUGH_MULT.get(prop, 1.0)))
        for sh in range(nshards):
            tasks.append((prop, cl.name, sh, nshards, n, core.derive_seed(seed, prop, cl.name, sh), tier, kf_open))
    procs = args.procs or (int(os.environ.get("VERIF_PROCS", "0")) or (16 if tier == "thorough" else 8))
    procs = max(1, min(procs, len(tasks)))
    if procs == 1:
        results = [worker(t) for t in tasks]
    else:
        ctx = mp.get_context("fork")
        with ctx.Pool(procs, maxtasksperchild=1) as pool:
            if os.environ.get("VERIF_FAIL_FAST"):
                # development aid (selftest/auto_mutants.py): stop at the first violating task; evidence is incomplete then
                results = []
                for r in pool.imap_unordered(worker, tasks, chunksize=1):
                    results.append(r)
                    if r["failure"] and r["failure"].get("kind") == "violation":
                        pool.terminate()
                        break
            else:
                results = pool.map(worker, tasks, chunksize=1)

    per_clause = {}
    for cl in clauses:
        per_clause[cl.name] = {"evaluations": 0, "distinct_nontrivial": 0, "classes": {}, "known_matches": {},
                               "ambiguous": 0, "samples": [], "rule": cl.rule, "oracle": cl.oracle,
                               "kind": cl.kind, "shards": 0, "wall_s": 0.0, "_hashes": set(),
                               "_ntcount": 0}
        if cl.kind == "enum":
            per_clause[cl.name]["exhaustive"] = True
            per_clause[cl.name]["exhaustive_note"] = cl.exhaustive_note
    results.sort(key=lambda r: (r["clause"], r["shard"]))
    seen_fail = set()
    for r in results:
        pc = per_clause[r["clause"]]
        st = r["stats"]
        pc["evaluations"] += st["evaluations"]
        pc["_hashes"].update(st["nontrivial_hashes"])
        pc["_ntcount"] += st["nontrivial_count"]
        for k, v in st["classes"].items():
            pc["classes"][k] = pc["classes"].get(k, 0) + v
        for k, v in st["known"].items():
            pc["known_matches"][k] = pc["known_matches"].get(k, 0) + v
        pc["ambiguous"] += st["ambiguous"]
        if len(pc["samples"]) < MAX_SAMPLES:
            pc["samples"].extend(st["samples"][:MAX_SAMPLES - len(pc["samples"])])
        if not pc["samples"] and st["trivial_sample"]:
            pc["_trivial"] = st["trivial_sample"]
        pc["shards"] += 1
        pc["wall_s"] = round(pc["wall_s"] + r["wall_s"], 2)
        f = r["failure"]
        if f:
            if f.get("kind") == "violation":
                if r["clause"] not in seen_fail:  # first failure per clause (lowest shard) wins
                    seen_fail.add(r["clause"])
                    path = write_replay(prop, r["clause"], f, r["seed"], tier)
                    print("clause %s: %s" % (r["clause"], f.get("msg")))
                    violations.append((_rel(path), f.get("msg")))
            else:
                path = write_replay(prop, "harness-" + r["clause"], f, r["seed"], tier, subdir="replays")
                harness_errors.append("clause %s shard %d: %s\n%s\n(case saved to %s)" % (
                    r["clause"], r["shard"], f.get("msg"), f.get("tb", ""), path))

    # generator health
    for cl in clauses:
        pc = per_clause[cl.name]
        if cl.kind == "enum":
            pc["distinct_nontrivial"] = pc["_ntcount"]  # enumerated cases are distinct by construction
        else:
            pc["distinct_nontrivial"] = len(pc["_hashes"])
        ev = pc["evaluations"]
        if cl.name in seen_fail or any(("clause %s " % cl.name) in h for h in harness_errors):
            continue
        if ev == 0:
            if not (tier == "quick" and getattr(cl, "thorough_only", False)):
                harness_errors.append("clause %s generated no cases" % cl.name)
            continue
        # declared floors (min_nontrivial, require=) are the generator's design targets; the run is declared unhealthy
        # (exit 2) when a share falls below HEALTH_SCALE of its target.  Seed-to-seed scatter of the shares is about
        # +-30 % at quick budgets (tools/health_margins.py), starvation shows as a share near zero.
        if pc["_ntcount"] < HEALTH_SCALE * cl.min_nontrivial * ev:
            harness_errors.append("clause %s: only %d of %d cases non-trivial (< %.0f%%): generator unhealthy" % (
                cl.name, pc["_ntcount"], ev, 100 * HEALTH_SCALE * cl.min_nontrivial))
        for lab, frac in cl.require.items():
            if pc["classes"].get(lab, 0) < HEALTH_SCALE * frac * ev:
                harness_errors.append("clause %s: class %r in %d of %d cases (< %.1f%%): generator unhealthy" % (
                    cl.name, lab, pc["classes"].get(lab, 0), ev, 100 * HEALTH_SCALE * frac))
        pc["health_targets"] = {"min_nontrivial": cl.min_nontrivial, "require": cl.require, "enforced_at": HEALTH_SCALE}

    # 4. evidence
    evaluations = sum(pc["evaluations"] for pc in per_clause.values()) + corpus_replayed
    distinct = sum(pc["distinct_nontrivial"] for pc in per_clause.values())
    samples = []
    for name, pc in per_clause.items():
        for s in pc["samples"][:2]:
            samples.append(dict(clause=name, **s))
        if not pc["samples"] and pc.get("_trivial"):
            samples.append(dict(clause=name, **pc["_trivial"]))
    rule = " || ".join("%s: %s [oracle: %s]" % (name, pc["rule"], pc["oracle"]) for name, pc in per_clause.items())
    for pc in per_clause.values():
        pc.pop("_hashes", None)
        pc.pop("_ntcount", None)
        pc.pop("_trivial", None)
    all_enum = bool(clauses) and all(c.kind == "enum" for c in clauses)
    evidence = {
        "property_id": prop,
        "tier": tier,
        "seed": seed,
        "level": "exploration",
        "coverage": {
            "evaluations": int(evaluations),
            "distinct_nontrivial": int(distinct),
            "rule": rule,
            "samples": samples,
            "per_clause": per_clause,
            "corpus_replayed": corpus_replayed,
            "known_findings_printed": known_lines,
            "exhaustive": all_enum,
            "exhaustive_subspaces": [c.name + ": " + c.exhaustive_note for c in clauses if c.kind == "enum"],
            "eqsig_path": os.path.dirname(os.path.realpath(eqsig.__file__)),
            "harness_errors": len(harness_errors),
        },
        "assumptions": list(getattr(mod, "ASSUMPTIONS", [])),
        "wall_s": round(time.time() - t0, 2),
        "violations": len(violations),
    }
    if not args.clauses:
        evdir = os.environ.get("VERIF_EVIDENCE_DIR") or os.path.join(VERIF, "evidence")
        os.makedirs(evdir, exist_ok=True)
        tmp = os.path.join(evdir, ".%s.json.tmp" % prop)
        with open(tmp, "w") as f:
            json.dump(evidence, f, indent=1, default=core._default)
            f.write("\n")
        os.replace(tmp, os.path.join(evdir, "%s.json" % prop))

    # 5. report
    for name, pc in per_clause.items():
        print("  %-22s eval=%-7d nontrivial=%-7d amb=%-5d known=%s %.1fs  classes=%s" % (
            name, pc["evaluations"], pc["distinct_nontrivial"], pc["ambiguous"], pc["known_matches"] or "-",
            pc["wall_s"], _fmt_classes(pc["classes"], pc["evaluations"])))
    for path, msg in violations:
        print("VIOLATION property=%s replay=%s" % (prop, path))
    if harness_errors:
        for h in harness_errors:
            print("HARNESS-ERROR property=%s %s" % (prop, h))
    print("%s tier=%s seed=%d evaluations=%d distinct_nontrivial=%d violations=%d harness_errors=%d wall=%.1fs" % (
        prop, tier, seed, evaluations, distinct, len(violations), len(harness_errors), time.time() - t0))
    if violations:
        return 1
    if harness_errors:
        return 2
    return 0


def _rel(path):
    path = os.path.abspath(path)
    return os.path.relpath(path, VERIF) if path.startswith(VERIF + os.sep) else path


def _fmt_classes(classes, ev):
    if not classes or not ev:
        return "-"
    items = sorted(classes.items(), key=lambda kv: -kv[1])[:14]
    return " ".join("%s:%d%%" % (k, round(100.0 * v / ev)) for k, v in items)


if __name__ == "__main__":
    rc = main()
    sys.stdout.flush()
    sys.exit(rc)
