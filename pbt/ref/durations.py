"""Reference models for C10 (significant / bracketed durations).

Written from the property statement, not from the library:

* cumulative measures are running sums accumulated sample by sample, either in
  numpy.longdouble (general records) or in exact rational arithmetic
  (``fractions.Fraction``; small dyadic records, where equality is decidable);
* "first and last sample strictly between the two fractions of the final value"
  is found by scanning from the front and from the back with the statement's two
  strict inequalities;
* strict comparisons are evaluated three times: at the thresholds themselves and at
  thresholds moved by the relative margin in both directions (DESIGN 2.4 margin
  filter).  ``inner`` (narrowed interval) is a subset of every admissible floating
  point classification, ``outer`` (widened) a superset, so the library's first index
  lies in [first(outer), first(inner)] and its last in [last(inner), last(outer)].
"""
import math
from fractions import Fraction

import numpy as np

LD = np.longdouble
MARGIN = 1e-9
G = 9.81


# ---------------------------------------------------------------------------
# cumulative measures


def running_sum_of_squares_ld(a):
    a = np.asarray(a, dtype=float).astype(LD)
    return np.cumsum(a * a)  # sequential accumulation in long double


def arias_ld(a, dt):
    """pi/(2g) * running trapezoid of a^2, long double."""
    a = np.asarray(a, dtype=float).astype(LD)
    y = a * a
    panels = LD(dt) * (y[1:] + y[:-1]) / LD(2)
    k = LD(math.pi) / (LD(2) * LD(G))
    return k * np.concatenate([[LD(0)], np.cumsum(panels)])


def running_sum_of_squares_exact(a):
    out = []
    c = Fraction(0)
    for x in a:
        fx = Fraction(float(x))
        c = c + fx * fx
        out.append(c)
    return out


def arias_exact(a, dt):
    """Running trapezoid of a^2 in exact arithmetic.  The positive constant pi/(2g)
    multiplies every value and the final value alike, so it cannot change which
    samples lie strictly between two fractions of the final value; it is left out
    (it is irrational, no exact representation exists)."""
    out = [Fraction(0)]
    c = Fraction(0)
    fdt = Fraction(float(dt))
    prev = None
    for x in a:
        fx = Fraction(float(x))
        y = fx * fx
        if prev is not None:
            c = c + fdt * (prev + y) / 2
            out.append(c)
        prev = y
    return out


def arias_float_variants(y, dt):
    """Double-precision Arias series of the squared record `y` evaluated in the orders a reasonable implementation may use:
    constant pi/(2g) applied to the running sum, to every panel, or to every sample; three spellings of the constant and of
    the panel.  Used only to PROVE, per case, that an exact tie of the statement is a tie in floating point whatever the
    evaluation order (own formulas; nothing here looks at the library)."""
    y = np.asarray(y, dtype=float)
    zero = np.zeros(1)
    pans = [dt * (y[1:] + y[:-1]) / 2, (y[1:] + y[:-1]) * (dt / 2), 0.5 * dt * (y[1:] + y[:-1])]
    for c in (math.pi / (2 * G), math.pi / 2 / G, 0.5 * math.pi / G):
        for p in pans:
            yield c * np.concatenate([zero, np.cumsum(p)])          # constant applied to the running sum
            yield np.concatenate([zero, np.cumsum(c * p)])          # ... to every panel
        z = c * y                                                   # ... to every sample
        yield np.concatenate([zero, np.cumsum(dt * (z[1:] + z[:-1]) / 2)])
        yield (c * dt) * np.concatenate([zero, np.cumsum((y[1:] + y[:-1]) / 2)])
        yield (c * dt / 2) * np.concatenate([zero, np.cumsum(y[1:] + y[:-1])])


def arias_ties_robust(a, dt, s, e, exact_vals):
    """True when every floating-point evaluation order of arias_float_variants, with the thresholds taken either as
    fraction*final value or by normalising the series with its final value, classifies EVERY sample exactly as the exact
    rational arithmetic does (exact_vals: arias_exact(a, dt)).  Then strictness on the Arias path is decidable on this case:
    typically a fraction 2^-p meeting a level exactly (fl(c*L) == 2^-p * fl(c*T) whenever L = 2^-p * T)."""
    a = np.asarray(a, dtype=float)
    y = a * a
    if any(Fraction(float(q)) != Fraction(float(x)) ** 2 for q, x in zip(y, a)):
        return False
    total = exact_vals[-1]
    lo, hi = Fraction(float(s)) * total, Fraction(float(e)) * total
    want = np.array([bool(lo < v < hi) for v in exact_vals])
    for w in arias_float_variants(y, dt):
        t = w[-1]
        if not (np.isfinite(t) and t > 0):
            return False
        if not np.array_equal((w > s * t) & (w < e * t), want):
            return False
        r = w / t
        if not np.array_equal((r > s) & (r < e), want):
            return False
    return True


# ---------------------------------------------------------------------------
# strict-threshold scans


def _first_last(mask):
    """First and last True of a Python list of booleans, by scanning from both ends."""
    n = len(mask)
    first = None
    for i in range(n):
        if mask[i]:
            first = i
            break
    if first is None:
        return None
    last = first
    for i in range(n - 1, first, -1):
        if mask[i]:
            last = i
            break
    return (first, last)


def scan_between(vals, lo, hi, strict=True):
    """(first, last) index with lo < vals[i] < hi, or None.  vals: LD ndarray or list of Fractions."""
    if isinstance(vals, np.ndarray):
        if strict:
            mask = (vals > lo) & (vals < hi)
        else:
            mask = (vals >= lo) & (vals <= hi)
        if len(mask) > 6000:   # long records: first True from the front, first True from the back (no Python loop)
            if not mask.any():
                return None
            return (int(mask.argmax()), int(len(mask) - 1 - mask[::-1].argmax()))
        mask = mask.tolist()
    else:
        if strict:
            mask = [(v > lo and v < hi) for v in vals]
        else:
            mask = [(v >= lo and v <= hi) for v in vals]
    return _first_last(mask)


class Between(object):
    """Result of evaluating 'strictly between s and e times the final value' with a margin."""

    def __init__(self, vals, s, e, margin):
        exact = not isinstance(vals, np.ndarray)
        if exact:
            num = Fraction
            s_, e_, m = Fraction(float(s)), Fraction(float(e)), Fraction(margin).limit_denominator(10 ** 12)
        else:
            num = LD
            s_, e_, m = LD(s), LD(e), LD(margin)
        total = vals[-1]
        one = num(1)
        self.total = total
        self.n = len(vals)
        self.lo = s_ * total
        self.hi = e_ * total
        self.strict = scan_between(vals, self.lo, self.hi)
        if margin == 0:
            self.inner = self.outer = self.strict
        else:
            self.inner = scan_between(vals, s_ * (one + m) * total, e_ * (one - m) * total)
            self.outer = scan_between(vals, s_ * (one - m) * total, e_ * (one + m) * total)
        self.nonstrict = scan_between(vals, self.lo, self.hi, strict=False)
        self.ambiguous = self.inner != self.outer
        self.holds = self.inner is not None          # precondition of the statement, robustly
        self.fails = self.outer is None              # robustly no sample in between


def scan_exceeding(absvals, thr):
    """(first, last) index with absvals[i] > thr (strict), or None; explicit scan."""
    if isinstance(absvals, np.ndarray):   # long records: the same exact comparison, vectorised
        idx = np.flatnonzero(absvals > thr)
        return (int(idx[0]), int(idx[-1])) if len(idx) else None
    mask = [bool(v > thr) for v in absvals]
    return _first_last(mask)
