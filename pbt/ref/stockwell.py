"""Reference model for C15: the discrete S-transform (Stockwell, Mansinha & Lowe 1996).

Written from the property statement, not from the library.  For a real record x of
even length n with discrete Fourier transform X_j = sum_t x_t exp(-2 pi i j t / n),
the discrete S-transform with a Gaussian window of width 1/f is, for the frequency
index k = 1 .. n/2 (first harmonic .. Nyquist) and the time index tau = 0 .. n-1,

    S[k, tau] = (1/n) * sum_m X[(m + k) mod n] * exp(-2 pi^2 m^2 / k^2) * exp(2 pi i m tau / n)

with m running over the signed FFT index set {-(n/2 - 1), ..., -1, 0, 1, ..., n/2}
(the Nyquist term is taken at +n/2; the Gaussian only sees m^2 and exp(2 pi i m tau/n)
has the same value at m = +n/2 and m = -n/2, so the choice does not matter).

The statement's array is the complex conjugate of S with the rows ordered from the
Nyquist frequency (row 0) down to the first harmonic (row n/2 - 1).

Two evaluations are provided:

* :func:`s_transform` - the triple sum itself in numpy.longdouble (64-bit mantissa) with
  X from the direct O(n^2) DFT; no FFT anywhere.  Cost n^3/2 long-double operations,
  intended for n <= ~160.
* :func:`s_transform_rows_fft` - the same formula row by row in double precision: the
  spectrum is shifted by +k (plain index arithmetic), multiplied by the Gaussian and
  inverse-FFT'd.  Used for longer records; the check cross-validates it against the direct
  form on every short record.
"""
import numpy as np

LD = np.longdouble
CLD = np.clongdouble
PI = LD("3.14159265358979323846264338327950288419716939937510")


def even_length(n_samples):
    """Length after truncation to an even number of samples."""
    return 2 * (int(n_samples) // 2)


def roots_of_unity(n):
    """w[j] = exp(2 pi i j / n), j = 0..n-1, long double."""
    ang = 2 * PI * np.arange(n).astype(LD) / LD(n)
    w = np.empty(n, dtype=CLD)
    w.real = np.cos(ang)
    w.imag = np.sin(ang)
    return w


def signed_indices(n):
    """FFT index set in storage order: 0, 1, ..., n/2, -(n/2 - 1), ..., -1."""
    return np.concatenate([np.arange(0, n // 2 + 1), np.arange(-(n // 2) + 1, 0)])


def dft(x):
    """Direct discrete Fourier transform X_j = sum_t x_t exp(-2 pi i j t / n), long double."""
    x = np.asarray(x, dtype=float).astype(LD)
    n = len(x)
    w = np.conj(roots_of_unity(n))
    idx = np.outer(np.arange(n), np.arange(n)) % n  # (j * t) mod n, exact integer arithmetic
    return w[idx] @ x


def gaussian_row(n, k):
    """exp(-2 pi^2 m^2 / k^2) over the signed index set, long double."""
    m = signed_indices(n).astype(LD)
    return np.exp(-2 * PI * PI * m * m / LD(k * k))


def s_transform(x):
    """S[k-1, tau] for k = 1..n/2 (row 0 = first harmonic), long-double triple sum.  x: even length."""
    x = np.asarray(x, dtype=float)
    n = len(x)
    if n % 2 or n < 2:
        raise ValueError("even length required")
    big_x = dft(x)
    m = signed_indices(n)
    w = roots_of_unity(n)
    e = w[np.outer(np.arange(n), m) % n]  # e[tau, i] = exp(2 pi i m_i tau / n)
    y = np.empty((n // 2, n), dtype=CLD)
    for k in range(1, n // 2 + 1):
        y[k - 1] = big_x[(m + k) % n] * gaussian_row(n, k)
    return (y @ e.T) / LD(n)


def s_transform_rows_fft(x):
    """Same formula, double precision, one inverse FFT per frequency row.  x: even length."""
    x = np.asarray(x, dtype=float)
    n = len(x)
    if n % 2 or n < 2:
        raise ValueError("even length required")
    big_x = np.fft.fft(x)
    m = signed_indices(n)
    k = np.arange(1, n // 2 + 1)
    shifted = big_x[(m[None, :] + k[:, None]) % n]
    mf = m.astype(float)
    g = np.exp(-2 * np.pi ** 2 * (mf[None, :] ** 2) / (k[:, None].astype(float) ** 2))
    # position i of the inverse FFT input carries the signed index m_i (numpy stores the Nyquist term at n/2 too)
    return np.fft.ifft(shifted * g, axis=1)


def statement_array(s):
    """Rows from the Nyquist frequency down to the first harmonic, complex conjugate of S."""
    return np.flipud(np.conj(s))


def nyquist_and_mean_removed(x):
    """x - mean(x) - (X_{n/2}/n) * (-1)^t, long double.  x: even length."""
    x = np.asarray(x, dtype=float).astype(LD)
    n = len(x)
    sign = np.where(np.arange(n) % 2 == 0, LD(1), LD(-1))
    mean = x.sum() / LD(n)
    nyq = (x * sign).sum() / LD(n)
    return x - mean - nyq * sign


# ---------------------------------------------------------------------------
# mid-range additions (records of 129 .. 4096 samples): the same long-double formula on a SAMPLE of cells


def dft_chunked(x, chunk=256):
    """The direct long-double DFT of :func:`dft`, evaluated in blocks of `chunk` output coefficients (bounded memory:
    chunk * n long-double complex numbers at a time)."""
    x = np.asarray(x, dtype=float).astype(LD)
    n = len(x)
    w = np.conj(roots_of_unity(n))
    t = np.arange(n)
    out = np.empty(n, dtype=CLD)
    for j0 in range(0, n, chunk):
        j = np.arange(j0, min(n, j0 + chunk))
        out[j0:j0 + len(j)] = w[np.outer(j, t) % n] @ x
    return out


def s_cells(big_x, ks, taus):
    """S[k, tau] of the statement's formula for the frequency indices `ks` (1..n/2) and the time indices `taus`, long-double
    sum over all n signed indices m, with big_x the (long-double) DFT of the even-length record.  Returns (len(ks), len(taus))."""
    big_x = np.asarray(big_x, dtype=CLD)
    n = len(big_x)
    m = signed_indices(n)
    w = roots_of_unity(n)
    taus = np.asarray(taus, dtype=np.int64)
    e = w[np.outer(taus, m) % n]  # e[i, j] = exp(2 pi i m_j tau_i / n)
    out = np.empty((len(ks), len(taus)), dtype=CLD)
    for i, k in enumerate(ks):
        k = int(k)
        y = big_x[(m + k) % n] * gaussian_row(n, k)
        out[i] = (e @ y) / LD(n)
    return out
