"""Parallel-in-time evaluation of the SDOF recurrence  x_{i+1} = A x_i + g_i,  x_0 = 0  (x = (u, v) per oscillator).

The library (and pbt/ref/sdof.response) walk the record sample by sample in a Python loop; that costs ~10 us per sample
and makes a reference over 1e5..1e6 samples as expensive as the call under test.  Here the same linear recurrence is
solved by *cyclic reduction* in numpy.longdouble: the even-indexed states satisfy a recurrence of the same form with A^2
and g'_j = A g_{2j} + g_{2j+1}; recurse on the half-length problem, then fill in the odd states.  O(N) work in ~log2(N)
vectorised levels, a different order of operations than the sequential loop (no shared seam / block / carry structure).

Rounding: every operation is long double (eps_ld = 2^-63); A^(2^l) by repeated squaring carries an error <= 2^l * c * eps_ld
and is applied N/2^l times on level l, so the result differs from the exact solution of the recurrence by at most
~ c * log2(N) * N * eps_ld relative to the peak of the series (N = 1e6: ~2e-12) - `scan_slack(n)` returns that term.
"""
import numpy as np

from pbt.ref import sdof as ref

LD = np.longdouble
EPS_LD = float(np.finfo(LD).eps)


def scan_slack(n):
    """Relative (to the peak of the series) error bound of scan() itself, see the module docstring."""
    return 64.0 * max(1.0, np.log2(max(2, n))) * n * EPS_LD


def _scan(a11, a12, a21, a22, g1, g2):
    """States x_1..x_M (two arrays (Q, M)) for loads g_0..g_{M-1}; coefficient arrays have shape (Q, 1)."""
    m = g1.shape[1]
    if m <= 16:
        x1 = np.empty_like(g1)
        x2 = np.empty_like(g2)
        c1 = np.zeros_like(g1[:, 0])
        c2 = np.zeros_like(c1)
        for i in range(m):
            n1 = a11[:, 0] * c1 + a12[:, 0] * c2 + g1[:, i]
            n2 = a21[:, 0] * c1 + a22[:, 0] * c2 + g2[:, i]
            c1, c2 = n1, n2
            x1[:, i] = c1
            x2[:, i] = c2
        return x1, x2
    h = m // 2
    ge1, ge2 = g1[:, 0:2 * h:2], g2[:, 0:2 * h:2]
    gp1 = a11 * ge1 + a12 * ge2 + g1[:, 1:2 * h:2]
    gp2 = a21 * ge1 + a22 * ge2 + g2[:, 1:2 * h:2]
    s11 = a11 * a11 + a12 * a21
    s12 = a11 * a12 + a12 * a22
    s21 = a21 * a11 + a22 * a21
    s22 = a21 * a12 + a22 * a22
    y1, y2 = _scan(s11, s12, s21, s22, gp1, gp2)  # x_2, x_4, ..., x_{2h}
    del gp1, gp2
    x1 = np.empty_like(g1)
    x2 = np.empty_like(g2)
    x1[:, 1:2 * h:2] = y1
    x2[:, 1:2 * h:2] = y2
    nodd = (m + 1) // 2  # x_1, x_3, ...: x_{2j+1} = A x_{2j} + g_{2j}
    x1[:, 0] = g1[:, 0]
    x2[:, 0] = g2[:, 0]
    if nodd > 1:
        p1, p2 = y1[:, :nodd - 1], y2[:, :nodd - 1]
        x1[:, 2:2 * nodd:2] = a11 * p1 + a12 * p2 + g1[:, 2:2 * nodd:2]
        x2[:, 2:2 * nodd:2] = a21 * p1 + a22 * p2 + g2[:, 2:2 * nodd:2]
    return x1, x2


def scan(a, g1, g2):
    """a: (Q, 2, 2); g1, g2: (Q, M) long double.  Returns u, v of shape (Q, M + 1) with the initial state 0 in column 0."""
    a = np.asarray(a, dtype=LD)
    q, m = g1.shape
    x1, x2 = _scan(a[:, 0, 0][:, None], a[:, 0, 1][:, None], a[:, 1, 0][:, None], a[:, 1, 1][:, None],
                   np.asarray(g1, dtype=LD), np.asarray(g2, dtype=LD))
    u = np.zeros((q, m + 1), dtype=LD)
    v = np.zeros((q, m + 1), dtype=LD)
    u[:, 1:] = x1
    v[:, 1:] = x2
    return u, v


def response_exact(acc, dt, periods, xi):
    """Exact u, v (long double, (Q, N)) of u'' + 2 xi w u' + w^2 u = a(t), a piecewise linear, w = 2 pi / T: the propagators are
    the long-double matrix exponentials of pbt/ref/sdof.py (independent of the Nigam-Jennings closed forms), the time
    stepping is scan().  Same quantity as ref.response() (sample-by-sample loop); pbt/props/c03.py compares the two at import."""
    acc = np.asarray(acc, dtype=float).astype(LD)
    n = len(acc)
    periods = np.asarray(periods, dtype=float)
    q = len(periods)
    if n < 2:
        return np.zeros((q, n), dtype=LD), np.zeros((q, n), dtype=LD)
    e = ref.propagators(periods, dt, xi)
    dt2 = LD(dt) * LD(dt)
    la = (dt2 * acc[:-1])[None, :]
    ld = (dt2 * (acc[1:] - acc[:-1]))[None, :]
    g1 = e[:, 0, 2][:, None] * la + e[:, 0, 3][:, None] * ld
    g2 = e[:, 1, 2][:, None] * la + e[:, 1, 3][:, None] * ld
    u, w = scan(e[:, :2, :2], g1, g2)
    return u, w / LD(dt)


def response_coeffs(acc, a, b):
    """The recurrence x_{i+1} = A x_i + B (f_i, f_{i+1}) with f = -acc for given coefficient arrays a, b of shape (2, 2, Q)
    (float64, e.g. the library's compute_a_and_b), evaluated by scan() in long double.  Returns u, v (Q, N)."""
    f = -np.asarray(acc, dtype=float).astype(LD)
    a = np.asarray(a, dtype=float).astype(LD)
    b = np.asarray(b, dtype=float).astype(LD)
    q = a.shape[2]
    n = len(f)
    if n < 2:
        return np.zeros((q, n), dtype=LD), np.zeros((q, n), dtype=LD)
    f0, f1 = f[:-1][None, :], f[1:][None, :]
    g1 = b[0, 0][:, None] * f0 + b[0, 1][:, None] * f1
    g2 = b[1, 0][:, None] * f0 + b[1, 1][:, None] * f1
    return scan(np.moveaxis(a, 2, 0), g1, g2)


def recurrence_rounding_bound(acc, a, b, u, v, w, xi):
    """Bound on |u_float64 - u|, |v_float64 - v| when the recurrence with the float64 coefficients a, b is run sequentially in
    double precision (any order of the four products / three additions per component) and u, v are its exact solution.

    Local error of one step: |du_i| <= 4 eps (|a11 u_i| + |a12 v_i| + |b11 f_i| + |b12 f_{i+1}|) (gamma_4 with eps = 2 unit
    roundoffs: a factor 2 in hand), same for v.  Propagation: in the coordinates (u, v/w) every entry of A^m is bounded by
    exp(-xi w m dt)/sqrt(1-xi^2) <= 1/s, so |e_u(n)|, |e_v(n)|/w <= (1/s) sum_{i<n} (|du_i| + |dv_i|/w); a factor 2 covers the
    difference between the float64 coefficients and the exact propagator.  Returns (tol_u, tol_v), arrays (Q, N)."""
    eps = np.finfo(float).eps
    f = np.abs(np.asarray(acc, dtype=float))
    a = np.abs(np.asarray(a, dtype=float))
    b = np.abs(np.asarray(b, dtype=float))
    au = np.abs(np.asarray(u, dtype=float))
    av = np.abs(np.asarray(v, dtype=float))
    w = np.asarray(w, dtype=float)[:, None]
    q, n = au.shape
    f0, f1 = f[:-1][None, :], f[1:][None, :]
    su = a[0, 0][:, None] * au[:, :-1] + a[0, 1][:, None] * av[:, :-1] + b[0, 0][:, None] * f0 + b[0, 1][:, None] * f1
    sv = a[1, 0][:, None] * au[:, :-1] + a[1, 1][:, None] * av[:, :-1] + b[1, 0][:, None] * f0 + b[1, 1][:, None] * f1
    g = 2.0 / np.sqrt(max(1e-12, 1.0 - xi * xi))
    tol = np.zeros((q, n))
    tol[:, 1:] = g * 4.0 * eps * np.cumsum(su + sv / w, axis=1)
    return tol, tol * w
