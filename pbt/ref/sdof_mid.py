"""Helpers of the mid-range enumerations of C01 / C02 (long records, many periods, large periods x samples products).

1. residual_bounds(): a whole-output oracle for SDOF response series that needs no Python loop over the samples.
   The exact solution obeys  y[i+1] = A y[i] + L[i]  with y = (u, v), A = exp(M dt) the exact free-vibration propagator
   and L[i] the exact response to the linear load segment (both taken from the long-double matrix exponential of
   pbt/ref/sdof.py - nothing here looks at the library's closed forms).  For a candidate series x (the library's) let
   r[i] = x[i+1] - A x[i] - L[i] (one-step residual).  The error e = x - y obeys e[i+1] = A e[i] + r[i], e[0] = x[0], and
   a free vibration never gains energy (d/dt (v^2 + w^2 u^2) = -4 xi w v^2 <= 0), i.e. ||A^k z||_E <= ||z||_E for the
   norm ||z||_E = sqrt(w^2 z_u^2 + z_v^2).  Hence, for every sample i,

        w |e_u[i]|, |e_v[i]|  <=  ||e[i]||_E  <=  ||x[0]||_E + sum_j ||r[j]||_E  <=  B := w|x_u[0]| + |x_v[0]| + sum_j (w |r_u[j]| + |r_v[j]|).

   B is a *sound upper bound* of the error of every sample of the row; it is evaluated in float64 over all rows and
   all samples at once, with an explicit allowance for the rounding of that evaluation.  A row whose bound is within the
   tolerance is proven correct; a row whose bound is not is *undecided* (the bound ignores cancellation between the
   residuals) and is handed to the exact sample loop by the caller.  A violation is therefore never reported on the
   strength of this bound.

2. small deterministic helpers: hash -> numbers, "ordinary" long records, seam rows.
"""
import hashlib
import math

import numpy as np

from pbt.ref import sdof as ref

LD = np.longdouble
EPS = np.finfo(float).eps


# ---------------------------------------------------------------------------
# hash -> numbers (cases are plain JSON; everything else is a pure function of it)


def hu(*parts):
    """Uniform number in [0, 1) from a hash of the parts."""
    s = ":".join(str(p) for p in parts)
    return (int(hashlib.blake2b(s.encode(), digest_size=8).hexdigest(), 16) % 10 ** 9) / 1e9


def hint(lo, hi, *parts):
    """Integer in [lo, hi] from a hash."""
    lo, hi = int(lo), int(hi)
    if hi <= lo:
        return lo
    return min(hi, lo + int(hu(*parts) * (hi - lo + 1)))


def hlog(lo, hi, *parts):
    """Log-uniform float in [lo, hi] from a hash."""
    return float(min(hi, max(lo, math.exp(math.log(lo) + hu(*parts) * (math.log(hi) - math.log(lo))))))


def hlogint(lo, hi, *parts):
    return int(min(hi, max(lo, round(hlog(lo, hi, *parts)))))


def hpick(seq, *parts):
    return seq[min(len(seq) - 1, int(hu(*parts) * len(seq)))]


RECORD_KINDS = ["quake", "noise", "sines", "walk"]


def record(kind, n, seed):
    """An 'ordinary' long record that makes errors visible: energy in every stretch of the record (no trailing silence
    that would hide a dropped tail), a non-zero mean (a dropped block does not cancel), distinct values everywhere."""
    rs = np.random.RandomState(int(seed) % (2 ** 31 - 1))
    n = int(n)
    t = np.arange(n, dtype=float)
    z = rs.standard_normal(n)
    if kind == "quake":      # noise x envelope; the tail keeps ~15 % of the peak amplitude
        x = (t + 1.0) / n
        env = (x ** 2) * np.exp(-6.0 * x)
        a = z * (env / env.max()) + 0.02
    elif kind == "noise":
        a = z + 0.3
    elif kind == "sines":
        c1 = math.exp(rs.uniform(math.log(3.0), math.log(max(4.0, n / 8.0))))
        c2 = math.exp(rs.uniform(math.log(3.0), math.log(max(4.0, n / 8.0))))
        a = np.sin(2 * math.pi * c1 * t / n + rs.uniform(0, 6.28)) + 0.5 * np.sin(2 * math.pi * c2 * t / n) + 0.2 * z + 0.1
    elif kind == "walk":
        a = np.cumsum(z) / math.sqrt(n) + 0.05 * rs.standard_normal(n)
    else:
        raise ValueError("unknown record kind %r" % kind)
    return np.ascontiguousarray(a, dtype=float)


def seam_rows(p, i_seed=0, extra=6, tag=""):
    """Row indices of a p-row output that a blocked implementation is most likely to get wrong: first, second, last,
    and -1, 0, +1 around every multiple of 2^k (k = 5..12) as well as `extra` hash-chosen rows.  Sorted, distinct."""
    p = int(p)
    rows = {0, 1, p - 1, p - 2}
    for k in range(5, 13):
        b = 2 ** k
        for m in range(b, p + 2, b):
            rows.update((m - 1, m, m + 1))
            if len(rows) > 400:
                break
    for j in range(extra):
        rows.add(hint(0, p - 1, "seam-extra", tag, i_seed, j))
    return sorted(r for r in rows if 0 <= r < p)


def xi_from_hash(*parts):
    """Damping ratios as gen.xis(): 0, 0.05, uniform [0, 0.99], 1 - 10^-k."""
    u = hu("xi-kind", *parts)
    if u < 0.2:
        return 0.0
    if u < 0.45:
        return 0.05
    if u < 0.85:
        return round(0.99 * hu("xi-val", *parts), 6)
    return 1.0 - 10.0 ** (-hint(2, 15, "xi-k", *parts))


BOUNDARY_RATIOS = (0.2, 1.0, 5.999, 6.0, 6.001, 20.0, 2e4)


def ratios_from_hash(count, lo, hi, *parts):
    """`count` period ratios T/dt: log-uniform on [lo, hi], one in eight replaced by a member of the boundary family."""
    out = []
    for j in range(count):
        if hu("ratio-bd", j, *parts) < 0.125:
            cand = [r for r in BOUNDARY_RATIOS if lo <= r <= hi]
            if cand:
                out.append(float(hpick(cand, "ratio-bdv", j, *parts)))
                continue
        out.append(hlog(lo, hi, "ratio", j, *parts))
    return out


def spread_ratios(count, lo, hi, *parts):
    """`count` distinct ratios covering [lo, hi] log-uniformly (one per log-bin, jittered), in a hash-shuffled order:
    a long period list as a user's np.logspace would give, but neither sorted nor regular."""
    llo, lhi = math.log(lo), math.log(hi)
    rs = np.random.RandomState(int(hu("spread", *parts) * (2 ** 31 - 2)))
    u = (np.arange(count) + rs.uniform(0.05, 0.95, count)) / float(count)
    r = np.exp(llo + (lhi - llo) * u)
    rs.shuffle(r)
    return [float(min(hi, max(lo, x))) for x in r]


DTS = [0.001, 0.002, 0.0025, 0.004, 0.005, 0.01, 0.02, 0.025, 0.05, 0.1, 0.2, 1.0]


def dt_from_hash(*parts):
    if hu("dt-kind", *parts) < 0.5:
        return float(hpick(DTS, "dt-repo", *parts))
    return hlog(1e-4, 3.0, "dt", *parts)


# ---------------------------------------------------------------------------
# the whole-output bound


def residual_bounds(acc, dt, periods, xi, ru, rv, chunk=1 << 21):
    """Sound upper bounds (bu, bv), one per row, of max_i |ru[row, i] - u_exact(i)| and max_i |rv[row, i] - v_exact(i)|,
    u_exact / v_exact the exact zero-start response to the linearly interpolated record for w = 2 pi / T.

    acc (n,), periods (p,) all > 0, ru / rv (p, n) float64.  See the module docstring for the derivation.  The one-step
    residuals are evaluated in float64 in the scaled variables (u, dt*v, dt^2*a, dt^2*(a[i+1]-a[i])) of pbt/ref/sdof.py;
    the rounding of that evaluation (coefficients rounded from long double, dt*v, dt^2*a, products and sums:
    < 8 eps * sum|terms| per step) is added to the bound as 8 eps * n * (|coefficients| . max|terms|)."""
    a = np.asarray(acc, dtype=float)
    n = len(a)
    T = np.asarray(periods, dtype=float)
    p = len(T)
    ru = np.asarray(ru)
    rv = np.asarray(rv)
    if ru.shape != (p, n) or rv.shape != (p, n):
        raise ValueError("residual_bounds: shape mismatch %r %r vs (%d, %d)" % (ru.shape, rv.shape, p, n))
    dt = float(dt)
    w = np.asarray(ref.TWO_PI / T.astype(LD), dtype=float)
    e_all = np.empty((p, 2, 4))
    cb = max(1, 4096)
    for j0 in range(0, p, cb):   # the long-double expm is vectorised over periods; keep its temporaries small
        e_all[j0:j0 + cb] = np.asarray(ref.propagators(T[j0:j0 + cb], dt, xi)[:, :2, :], dtype=float)
    la = (dt * dt) * a[:-1]
    ld = (dt * dt) * (a[1:] - a[:-1])
    la_max = float(np.max(np.abs(la))) if n > 1 else 0.0
    ld_max = float(np.max(np.abs(ld))) if n > 1 else 0.0
    bu = np.zeros(p)
    bv = np.zeros(p)
    rows = max(1, int(chunk // max(1, n)))
    for j0 in range(0, p, rows):
        j1 = min(p, j0 + rows)
        U = ru[j0:j1]
        W = rv[j0:j1] * dt
        e = e_all[j0:j1]
        wj = w[j0:j1]
        U0, W0 = U[:, :-1], W[:, :-1]
        pred = e[:, 0, 0, None] * U0 + e[:, 0, 1, None] * W0 + e[:, 0, 2, None] * la + e[:, 0, 3, None] * ld
        r_u = np.sum(np.abs(U[:, 1:] - pred), axis=1)
        pred = e[:, 1, 0, None] * U0 + e[:, 1, 1, None] * W0 + e[:, 1, 2, None] * la + e[:, 1, 3, None] * ld
        r_w = np.sum(np.abs(W[:, 1:] - pred), axis=1)
        del pred
        u_max = np.max(np.abs(U), axis=1)
        w_max = np.max(np.abs(W), axis=1)
        ae = np.abs(e)
        allow_u = 8 * EPS * n * (ae[:, 0, 0] * u_max + ae[:, 0, 1] * w_max + ae[:, 0, 2] * la_max + ae[:, 0, 3] * ld_max)
        allow_w = 8 * EPS * n * (ae[:, 1, 0] * u_max + ae[:, 1, 1] * w_max + ae[:, 1, 2] * la_max + ae[:, 1, 3] * ld_max + w_max)
        tot = wj * (r_u * (1 + 4 * EPS) + allow_u) + (r_w * (1 + 4 * EPS) + allow_w) / dt
        tot = tot + wj * np.abs(U[:, 0]) + np.abs(rv[j0:j1, 0])
        tot = tot * (1 + 16 * EPS * math.sqrt(n) + 8 * EPS)  # rounding of the two sums themselves (pairwise summation)
        bu[j0:j1] = tot / wj
        bv[j0:j1] = tot
    return bu, bv


def _self_check():
    """Oracle guard (cheap, at import): on a short problem the bound must (a) dominate the true error of a perturbed
    series, (b) be tiny for the exact series itself."""
    rs = np.random.RandomState(7)
    n = 160
    a = rs.standard_normal(n) + 0.2
    dt = 0.01
    T = np.array([0.003, 0.05, 0.4, 30.0])
    for xi in (0.0, 0.05, 0.9):
        u, v = ref.response(a, dt, T, xi)
        u64, v64 = np.asarray(u, dtype=float), np.asarray(v, dtype=float)
        bu, bv = residual_bounds(a, dt, T, xi, u64, v64)
        su = np.max(np.abs(u64), axis=1)
        sv = np.max(np.abs(v64), axis=1)
        if not (np.all(bu <= 1e-9 * su) and np.all(bv <= 1e-9 * sv)):
            raise RuntimeError("sdof_mid.residual_bounds: bound not tight on the exact series (xi=%r): %r %r" % (xi, bu / su, bv / sv))
        u2, v2 = u64.copy(), v64.copy()
        u2[:, 70:] *= 1.0 + 1e-5          # a seam: everything after sample 70 is off
        v2[:, 100] += 1e-4 * sv
        bu, bv = residual_bounds(a, dt, T, xi, u2, v2)
        eu = np.max(np.abs(u2 - u64), axis=1)
        ev = np.max(np.abs(v2 - v64), axis=1)
        if not (np.all(bu >= eu) and np.all(bv >= ev)):
            raise RuntimeError("sdof_mid.residual_bounds: bound below the true error (xi=%r)" % xi)


_self_check()


# ---------------------------------------------------------------------------
# integer-typed / tuple record containers (the quantifier says "every record") and dt containers

INT_KINDS = ["int64", "int32", "int16", "int8", "uint8", "uint16", "pyint-list", "tuple"]


def int_record(a, kind):
    """(container, exact float64 values) of the record `a` in an integer-typed (or tuple) container.
    int8/16/32: gen.narrow_int (full range of the dtype, the most negative sample is the dtype's minimum);
    uint8/uint16: |a| scaled to the full unsigned range (the negation of such a sample does not exist in the dtype);
    int64 / pyint-list: a scaled to +-1e6 and rounded; tuple: python floats, values unchanged."""
    from pbt import gen
    a = np.asarray(a, dtype=float)
    if kind == "tuple":
        return tuple(float(x) for x in a), a.copy()
    if kind in ("int8", "int16", "int32"):
        return gen.narrow_int(a, kind)
    peak = float(np.max(np.abs(a))) if a.size else 0.0
    if kind in ("uint8", "uint16"):
        top = float(np.iinfo(kind).max)
        q = np.round(np.abs(a) * (top / peak)) if peak > 0 else np.zeros_like(a)
        c = np.array(np.clip(q, 0, top), dtype=kind)
        return c, np.array(c, dtype=float)
    q = np.round(a * (1e6 / peak)) if peak > 0 else np.zeros_like(a)
    c = np.array(q, dtype=np.int64)
    if kind == "pyint-list":
        return [int(x) for x in c], np.array(c, dtype=float)
    return c, np.array(c, dtype=float)


DT_KINDS = [None, None, "f64", "f32", "0d", "0d32"]


def dt_argument(dt, kind):
    """(argument to pass, exact float value of that argument): python float | np.float64 | np.float32 | 0-d arrays."""
    dt = float(dt)
    if kind in ("f32", "0d32"):
        dt = float(np.float32(dt))
        return (np.float32(dt) if kind == "f32" else np.array(dt, dtype=np.float32)), dt
    if kind == "f64":
        return np.float64(dt), dt
    if kind == "0d":
        return np.array(dt), dt
    return dt, dt


def tol_n(n):
    """Rounding model for two mathematically equal runs of an n-step linear recurrence: 1e-10 + 16 eps n of the
    energy-consistent robust scale (each step rounds the state by <= 4 eps of its energy norm; a free vibration never gains
    energy; two runs; factor 2)."""
    return 1e-10 + 16 * EPS * n


def escales(a, dt, T, xi, ru, rv):
    """Energy-consistent robust scales per row from library series: S_u = max(s_u, s_v/w), S_v = max(s_v, w s_u),
    S_a = 2 xi w S_v + w^2 S_u (s_u, s_v: peaks floored by the response to one step of the largest sample)."""
    su, sv, _ = ref.lib_scales(a, dt, T, xi, ru, rv)
    w = 2 * np.pi / np.asarray(T, dtype=float)
    Su = np.maximum(su, sv / w)
    Sv = np.maximum(sv, w * su)
    return Su, Sv, 2 * xi * w * Sv + w ** 2 * Su
