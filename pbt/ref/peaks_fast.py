"""Vectorised variants of the reference models of pbt/ref/peaks.py for records of 1e4 .. 2e6 samples.

Written from the same *statements* (plateaus, turning points, excursions) as the loops of pbt/ref/peaks.py, with run-length
arithmetic (np.flatnonzero of change flags, ufunc.reduceat over runs) instead of Python loops.  Nothing here multiplies
neighbouring values or differences and no code is shared with eqsig (the library walks over its list of local peaks and groups
them by the sign of a product; here excursions are runs of np.sign and the largest |value| of a run is a reduceat).

The two encodings are cross-checked against each other when this module is imported (every series over a 5-level alphabet of
length 1..4 and over a 3-level alphabet of length 5..7, plus 300 random short series): a disagreement is a broken oracle and raises HarnessError (exit 2).
"""
import numpy as np

from pbt import core
from pbt.ref import peaks as loop


def _run_starts(flags_source):
    """First index of every maximal run of equal consecutive entries."""
    a = flags_source
    chg = np.empty(len(a), dtype=bool)
    chg[0] = True
    np.not_equal(a[1:], a[:-1], out=chg[1:])
    return np.flatnonzero(chg)


def local_peak_indices(values):
    """Reported local peaks (C11): first plateau, last plateau and every plateau whose two neighbouring plateaus lie on the same
    side; index = first sample of the plateau.  int64 ndarray, ascending."""
    a = np.asarray(values, dtype=float)
    starts = _run_starts(a)
    if len(starts) <= 2:
        return starts
    pv = a[starts]
    up = pv[1:] > pv[:-1]             # direction of the movement into plateau k+1 (neighbouring plateaus differ)
    keep = np.ones(len(starts), dtype=bool)
    keep[1:-1] = up[:-1] != up[1:]    # interior plateau: reported iff the movement in and the movement out differ in direction
    return starts[keep]


def switched(values, with_free=False):
    """(indices, tie): canonical switched peaks (for each excursion the first index of its largest |value|, plus every reported
    local peak whose value is 0) and whether some excursion attains its largest |value| more than once."""
    a = np.asarray(values, dtype=float)
    n = len(a)
    sg = np.sign(a)
    rs = _run_starts(sg)                               # runs of one sign (-1 / 0 / +1)
    absa = np.abs(a)
    rmax = np.maximum.reduceat(absa, rs)
    lengths = np.diff(np.append(rs, n))
    rid = np.repeat(np.arange(len(rs)), lengths)
    at_max = absa == rmax[rid]
    first = np.minimum.reduceat(np.where(at_max, np.arange(n), n), rs)
    count = np.add.reduceat(at_max.astype(np.int64), rs)
    exc = sg[rs] != 0
    lp = local_peak_indices(a)
    zero_tp = lp[a[lp] == 0]
    idx = np.union1d(first[exc], zero_tp).astype(np.int64)
    tied = exc & (count > 1)
    if with_free:
        # samples at which the statement leaves a cumulative series open: from the first to just before the last index at which
        # a tied excursion attains its largest |value| (any of them may be the reported one)
        free = np.zeros(n, dtype=bool)
        if np.any(tied):
            last = np.maximum.reduceat(np.where(at_max, np.arange(n), -1), rs)
            for f_, l_ in zip(first[tied], last[tied]):
                free[f_:l_] = True
        return idx, bool(np.any(tied)), free
    return idx, bool(np.any(tied))


def switched_peaks(values):
    return switched(values)[0]


def is_constant(values):
    a = np.asarray(values, dtype=float)
    return bool(np.all(a == a[0]))


# ---------------------------------------------------------------------------
# import-time cross-check against the loops


def _self_check():
    import itertools
    series = []
    for n in range(1, 5):
        for tup in itertools.product((-2.0, -1.0, 0.0, 1.0, 2.0), repeat=n):
            series.append(tup)
    for n in range(5, 8):
        for tup in itertools.product((-1.0, 0.0, 1.0), repeat=n):
            series.append(tup)
    rs = np.random.RandomState(20260928)
    for _ in range(300):
        n = int(rs.randint(1, 40))
        kind = rs.randint(4)
        if kind == 0:
            v = rs.standard_normal(n)
        elif kind == 1:
            v = np.round(rs.standard_normal(n) * 2)
        elif kind == 2:
            v = np.round(np.cumsum(rs.standard_normal(n)) * 2) / 2
        else:
            v = rs.standard_normal(n) * (rs.uniform(size=n) < 0.7)
        series.append(tuple(float(x) for x in v))
    for s in series:
        lp = [int(i) for i in local_peak_indices(s)]
        if lp != loop.local_peak_indices(s):
            raise core.HarnessError("peaks_fast.local_peak_indices disagrees with the loop reference on %r: %r vs %r" % (
                s, lp, loop.local_peak_indices(s)))
        sw, tie = switched(s)
        sw3, tie3, free = switched(s, with_free=True)
        want_free = [False] * len(s)
        for (e0, e1, _sg) in loop.excursions(s):
            m = max(abs(v) for v in s[e0:e1])
            at = [i for i in range(e0, e1) if abs(s[i]) == m]
            for i in range(at[0], at[-1]):
                want_free[i] = True
        if list(free) != want_free or list(sw3) != list(sw) or tie3 != tie:
            raise core.HarnessError("peaks_fast.switched(with_free) disagrees with the loop reference on %r" % (s,))
        if [int(i) for i in sw] != loop.switched_peaks(s) or tie != loop.switched_freedom(s)[0]:
            raise core.HarnessError("peaks_fast.switched disagrees with the loop reference on %r: %r/%r vs %r/%r" % (
                s, list(sw), tie, loop.switched_peaks(s), loop.switched_freedom(s)[0]))


_self_check()
