"""Exact SDOF reference, independent of the Nigam-Jennings closed forms.

Solves  u'' + 2 xi w u' + w^2 u = a(t),  u(0)=u'(0)=0, a(t) the linear
interpolation of the record, by the matrix exponential of the augmented
non-dimensional system

    y = [u, dt*v, dt^2*a, dt^2*(a_{i+1}-a_i)],   dy/dtau = M y,   tau = t/dt,
    M = [[0, 1, 0, 0], [-th^2, -2 xi th, 1, 0], [0, 0, 0, 1], [0, 0, 0, 0]],  th = w*dt,

computed in numpy.longdouble (64-bit mantissa required) by scaling and squaring
with a Taylor series.  Every entry of M is O(1)..O(th^2), so a small dt does not
lose the load terms.
"""
import numpy as np

LD = np.longdouble
TWO_PI = 2 * np.arctan2(LD(0), LD(-1))  # 2*pi in long double


def longdouble_ok():
    return np.finfo(LD).nmant >= 63


def expm_batch(m, terms=30):
    """expm for a stack of matrices (P, k, k) in long double."""
    m = np.asarray(m, dtype=LD)
    norms = np.max(np.sum(np.abs(m), axis=2), axis=1)
    s = np.maximum(0, np.ceil(np.log2(np.maximum(np.asarray(norms, dtype=float), 1e-300))) + 2).astype(int)
    smax = int(s.max()) if s.size else 0
    # scale every matrix by its own 2^-s (norm <= 1/4)
    a = m / (LD(2) ** s.astype(LD))[:, None, None]
    k = m.shape[1]
    eye = np.broadcast_to(np.eye(k, dtype=LD), m.shape).copy()
    out = eye.copy()
    term = eye.copy()
    for j in range(1, terms + 1):
        term = np.matmul(term, a) / LD(j)
        out = out + term
    # square s times (per matrix)
    for j in range(smax):
        sq = np.matmul(out, out)
        mask = (s > j)[:, None, None]
        out = np.where(mask, sq, out)
    return out


def propagators(periods, dt, xi):
    periods = np.asarray(periods, dtype=LD)
    th = TWO_PI / periods * LD(dt)
    p = len(periods)
    m = np.zeros((p, 4, 4), dtype=LD)
    m[:, 0, 1] = 1
    m[:, 1, 0] = -th * th
    m[:, 1, 1] = -2 * LD(xi) * th
    m[:, 1, 2] = 1
    m[:, 2, 3] = 1
    return expm_batch(m)


def response(acc, dt, periods, xi):
    """Exact u, v at the sample instants; arrays (P, N) in long double.
    All periods must be > 0."""
    acc = np.asarray(acc, dtype=float).astype(LD)
    n = len(acc)
    periods = np.asarray(periods, dtype=float)
    e = propagators(periods, dt, xi)
    p = len(periods)
    u = np.zeros((p, n), dtype=LD)
    w = np.zeros((p, n), dtype=LD)  # dt * v
    dt2 = LD(dt) * LD(dt)
    la = dt2 * acc
    ld = dt2 * (acc[1:] - acc[:-1])
    e00, e01, e02, e03 = e[:, 0, 0], e[:, 0, 1], e[:, 0, 2], e[:, 0, 3]
    e10, e11, e12, e13 = e[:, 1, 0], e[:, 1, 1], e[:, 1, 2], e[:, 1, 3]
    cu = np.zeros(p, dtype=LD)
    cw = np.zeros(p, dtype=LD)
    for i in range(n - 1):
        a0 = la[i]
        d0 = ld[i]
        nu = e00 * cu + e01 * cw + e02 * a0 + e03 * d0
        nw = e10 * cu + e11 * cw + e12 * a0 + e13 * d0
        cu, cw = nu, nw
        u[:, i + 1] = cu
        w[:, i + 1] = cw
    return u, w / LD(dt)


def tol_c01(duration, period, dt, relaxed=False):
    """Statement tolerance: 1e-6 + 5e-8*duration/T + eps/(w dt)^3 (relative to the series peak).
    relaxed=True: the bound of known finding C01-KF1 (16 eps/(w dt)^3)."""
    wdt = 2 * np.pi / np.asarray(period, dtype=float) * dt
    c = 16.0 if relaxed else 1.0
    return 1e-6 + 5e-8 * duration / np.asarray(period, dtype=float) + c * np.finfo(float).eps / wdt ** 3


def robust_scales(acc, dt, periods, u_ref, v_ref):
    """Peak of the exact series floored by the response to one step of the largest sample."""
    amax = float(np.max(np.abs(acc))) if len(acc) else 0.0
    w = 2 * np.pi / np.asarray(periods, dtype=float)
    pu = np.max(np.abs(u_ref), axis=1).astype(float)
    pv = np.max(np.abs(v_ref), axis=1).astype(float)
    fu = amax * np.minimum(dt * dt / 2, 1.0 / w ** 2)
    fv = amax * np.minimum(dt, 1.0 / w)
    return np.maximum(pu, fu), np.maximum(pv, fv), pu > fu, pv > fv


def lib_scales(acc, dt, periods, xi, ru, rv):
    """Robust per-period scales (u, v, third series) from *library* series (used by metamorphic clauses)."""
    amax = float(np.max(np.abs(acc))) if len(acc) else 0.0
    w = 2 * np.pi / np.asarray(periods, dtype=float)
    su = np.maximum(np.max(np.abs(ru), axis=1), amax * np.minimum(dt * dt / 2, 1.0 / w ** 2))
    sv = np.maximum(np.max(np.abs(rv), axis=1), amax * np.minimum(dt, 1.0 / w))
    sa = 2 * xi * w * sv + w ** 2 * su
    return su, sv, sa


def perturbation_bounds(abs_err_sum, dt, n, periods, xi):
    """Sound bound on the response (u, v, third series) to an input perturbation e with sum_j |e_j| = abs_err_sum:
    |u_e| <= dt*sum|e|*max|h|, |h(t)| <= min(t, 1/w_d);  |v_e| <= 2*dt*sum|e| (|h'| <= 1/sqrt(1-xi^2) capped by the
    critically damped limit, a factor 2 covers both)."""
    w = 2 * np.pi / np.asarray(periods, dtype=float)
    wd = w * np.sqrt(max(1e-300, 1.0 - xi * xi))
    hmax = np.minimum(n * dt, 1.0 / wd)
    bu = dt * abs_err_sum * hmax
    bv = 2.0 * dt * abs_err_sum * np.ones_like(w)
    ba = 2 * xi * w * bv + w ** 2 * bu
    return bu, bv, ba


LIB_TWO_PI = 6.2831853  # the truncated constant the library divides by (eqsig/sdof.py); relative error 1.14e-9


def library_periods(periods):
    """Periods T' with 2*pi/T' == 6.2831853/T: the exact reference evaluated at T' is the exact solution for the
    angular frequency the library actually uses (used only to *identify* known finding C01-KF2 and by C03, whose
    statement is about spectra versus series, not about the constant)."""
    return np.asarray(periods, dtype=float) * float(TWO_PI / LD(LIB_TWO_PI))
