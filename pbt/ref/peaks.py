"""Reference models for local peaks, zero crossings and switched (per-half-cycle) peaks.

Shared by C11, C12 and C13.  Everything here is written from the property
*statements* (plateaus, excursions, comparisons of neighbouring values) with
plain Python loops; nothing multiplies differences or values, so there is no
underflow precondition on this side and no code is shared with eqsig.

Vocabulary
----------
plateau     maximal run of equal consecutive samples
turning pt  first sample of a plateau that is a local extremum (both neighbouring plateaus on the same side)
reported    local peaks of C11: first plateau, last plateau and every turning point (index = first sample of the plateau)
excursion   maximal run of consecutive samples of one strict sign (zeros separate excursions)
"""


def _vals(values):
    return [float(v) for v in values]


# ---------------------------------------------------------------------------
# C11: local peaks


def plateaus(values):
    """Run-length compression: list of (first_index, length, value)."""
    v = _vals(values)
    out = []
    for i, x in enumerate(v):
        if out and x == out[-1][2]:
            out[-1][1] += 1
        else:
            out.append([i, 1, x])
    return [tuple(p) for p in out]


def is_constant(values):
    v = _vals(values)
    return all(x == v[0] for x in v)


def local_peaks(values):
    """Reported local peaks of a series -> (indices, kinds), kinds[k] in {'max', 'min'}.

    A plateau is reported iff it is the first, the last, or its two neighbours lie on the same side;
    max/min by comparing with a neighbour.  A constant series gives ([0], ['flat']) (outside C11's quantifier)."""
    pl = plateaus(values)
    m = len(pl)
    if m == 1:
        return [pl[0][0]], ["flat"]
    idx, kinds = [], []
    for k, (i, _len, x) in enumerate(pl):
        if k == 0:
            kind = "max" if pl[1][2] < x else "min"
        elif k == m - 1:
            kind = "max" if pl[k - 1][2] < x else "min"
        else:
            lo, hi = pl[k - 1][2], pl[k + 1][2]
            if lo < x and hi < x:
                kind = "max"
            elif lo > x and hi > x:
                kind = "min"
            else:
                continue
        idx.append(i)
        kinds.append(kind)
    return idx, kinds


def local_peak_indices(values, ptype="all"):
    idx, kinds = local_peaks(values)
    if ptype == "all":
        return idx
    if ptype not in ("max", "min"):
        raise ValueError(ptype)
    return [i for i, k in zip(idx, kinds) if k == ptype]


def first_of_final_run(values):
    v = _vals(values)
    j = len(v) - 1
    while j > 0 and v[j - 1] == v[j]:
        j -= 1
    return j


def _index_list(idx, n):
    """Reported indices as a list of ints, or an error message."""
    try:
        out = [int(i) for i in idx]
    except Exception:  # noqa
        return None, "indices are not integers: %r" % (idx,)
    for a, b in zip(out, idx):
        if a != b:
            return None, "non-integral index %r" % (b,)
    for i in out:
        if not 0 <= i < n:
            return None, "index %d outside the series (n=%d)" % (i, n)
    return out, None


def peaks_violation(values, idx):
    """C11 statement as a predicate on the reported indices (ptype='all') of a non-constant series.
    Returns None when the statement holds, else a message."""
    v = _vals(values)
    n = len(v)
    idx, err = _index_list(idx, n)
    if err:
        return err
    if len(idx) < 2:
        return "fewer than two indices reported for a non-constant series: %r" % (idx,)
    for a, b in zip(idx[:-1], idx[1:]):
        if not a < b:
            return "indices not strictly ascending: %r" % (idx,)
    if idx[0] != 0:
        return "first reported index is %d, not 0" % idx[0]
    last = first_of_final_run(v)
    if idx[-1] != last:
        return "last reported index is %d, not the first sample of the final constant run (%d)" % (idx[-1], last)
    prev_dir = 0
    for a, b in zip(idx[:-1], idx[1:]):
        up = down = False
        for i in range(a, b):
            if v[i + 1] > v[i]:
                up = True
            elif v[i + 1] < v[i]:
                down = True
        if up and down:
            return "series is not monotone between reported indices %d and %d" % (a, b)
        if not (up or down):
            return "series does not move between reported indices %d and %d" % (a, b)
        d = 1 if up else -1
        if prev_dir and d == prev_dir:
            return "direction does not alternate at reported index %d" % a
        prev_dir = d
    for i in idx[1:]:
        if v[i - 1] == v[i]:
            return "reported index %d is not the first sample of its plateau" % i
    return None


def kinds_violation(values, idx_all, idx_max, idx_min):
    """'max'/'min' selections are exactly the reported indices that are local maxima / minima:
    they partition the reported indices, and an index is a maximum iff the series is lower on the
    side(s) where it has a neighbouring plateau."""
    v = _vals(values)
    n = len(v)
    all_, err = _index_list(idx_all, n)
    if err:
        return err
    mx, err = _index_list(idx_max, n)
    if err:
        return "max: " + err
    mn, err = _index_list(idx_min, n)
    if err:
        return "min: " + err
    if sorted(mx + mn) != all_ or set(mx) & set(mn):
        return "max %r and min %r do not partition the reported indices %r" % (mx, mn, all_)
    if mx != sorted(mx) or mn != sorted(mn):
        return "max/min selections are not ascending"
    for name, sel, sgn in (("max", mx, 1), ("min", mn, -1)):
        for i in sel:
            # nearest different value on each side
            j = i - 1
            while j >= 0 and v[j] == v[i]:
                j -= 1
            k = i + 1
            while k < n and v[k] == v[i]:
                k += 1
            for nb in (j, k):
                if 0 <= nb < n and not (sgn * (v[i] - v[nb]) > 0):
                    return "index %d selected as %s but v[%d]=%r vs neighbouring v[%d]=%r" % (i, name, i, v[i], nb, v[nb])
    return None


def n_cyc_reference(n, peaks, start):
    """Cycle counter: value at the j-th reported peak = 0.5*j - 0.25*[origin]*[j>0], linear between,
    held after the last one.  Returns (expected list, peak values list)."""
    if start not in ("origin", "peak"):
        raise ValueError(start)
    off = 0.25 if start == "origin" else 0.0
    at = [0.5 * j - (off if j > 0 else 0.0) for j in range(len(peaks))]
    out = [None] * n
    for j in range(len(peaks) - 1):
        a, b = peaks[j], peaks[j + 1]
        for i in range(a, b + 1):
            out[i] = at[j] + (at[j + 1] - at[j]) * (i - a) / float(b - a)
    for i in range(peaks[-1], n):
        out[i] = at[-1]
    for i in range(0, peaks[0]):
        out[i] = at[0]
    return out, at


# ---------------------------------------------------------------------------
# C12: zero crossings


def zero_crossings(values, keep_adj_zeros=False):
    """{0} + exact zeros (first of each run unless keep_adj_zeros) + first sample after each strict sign change."""
    v = _vals(values)
    out = []
    for i, x in enumerate(v):
        if i == 0:
            out.append(i)
        elif x == 0:
            if keep_adj_zeros or v[i - 1] != 0:
                out.append(i)
        elif v[i - 1] != 0 and (x > 0) != (v[i - 1] > 0):
            out.append(i)
    return out


# ---------------------------------------------------------------------------
# C12: switched peaks


def excursions(values):
    """Maximal runs of one strict sign: list of (start, end_exclusive, sign)."""
    v = _vals(values)
    out = []
    i, n = 0, len(v)
    while i < n:
        if v[i] == 0:
            i += 1
            continue
        pos = v[i] > 0
        j = i
        while j < n and v[j] != 0 and (v[j] > 0) == pos:
            j += 1
        out.append((i, j, 1 if pos else -1))
        i = j
    return out


def switched_peaks(values):
    """Canonical switched peaks: for each excursion the *first* index of its largest |value|, plus every
    reported local peak (C11, end points included) whose value is 0.  Ascending list."""
    v = _vals(values)
    idx = set()
    for s, e, _sg in excursions(v):
        best = s
        for i in range(s, e):
            if abs(v[i]) > abs(v[best]):
                best = i
        idx.add(best)
    for i in local_peaks(v)[0]:
        if v[i] == 0:
            idx.add(i)
    return sorted(idx)


def switched_freedom(values):
    """What the statement leaves open: (tie, end_zero).
    tie      = some excursion attains its largest |value| at more than one index (the statement does not say which is reported)
    end_zero = the first sample or the final constant run is 0 (a zero-valued end point is a reported local peak but not a
               turning point in the strict sense; the statement allows but does not demand it)"""
    v = _vals(values)
    tie = False
    for s, e, _sg in excursions(v):
        m = max(abs(x) for x in v[s:e])
        if sum(1 for x in v[s:e] if abs(x) == m) > 1:
            tie = True
            break
    end_zero = v[0] == 0 or v[-1] == 0
    return tie, end_zero


def switched_violation(values, idx):
    """C12 statement as a predicate on reported switched-peak indices of a non-constant series.
    Returns None when the statement holds, else a message."""
    v = _vals(values)
    n = len(v)
    idx, err = _index_list(idx, n)
    if err:
        return err
    for a, b in zip(idx[:-1], idx[1:]):
        if not a < b:
            return "indices not strictly ascending: %r" % (idx,)
    rep = set(idx)
    used = set()
    for s, e, _sg in excursions(v):
        inside = [i for i in idx if s <= i < e]
        if len(inside) != 1:
            return "excursion [%d,%d) contains %d reported indices %r, expected exactly one" % (s, e, len(inside), inside)
        m = max(abs(x) for x in v[s:e])
        if abs(v[inside[0]]) != m:
            return "excursion [%d,%d): reported index %d has |value| %r, the largest is %r" % (
                s, e, inside[0], abs(v[inside[0]]), m)
        used.add(inside[0])
    zero_tp = set(i for i in local_peaks(v)[0] if v[i] == 0)
    for i in sorted(rep - used):
        if v[i] != 0:
            return "reported index %d (value %r) is a second index of its excursion" % (i, v[i])
        if i not in zero_tp:
            return "reported index %d is zero-valued but not a turning point" % i
    for a, b in zip(idx[:-1], idx[1:]):
        if (v[a] > 0 and v[b] > 0) or (v[a] < 0 and v[b] < 0):
            return "consecutive reported indices %d and %d share a strict sign (%r, %r)" % (a, b, v[a], v[b])
    big = max(abs(x) for x in v)
    if big > 0 and not any(abs(v[i]) == big for i in idx):
        return "global absolute maximum %r is not among the reported values" % big
    return None


def is_subsequence(sub, full):
    """True when `sub` can be obtained from `full` by deleting elements (order kept)."""
    it = iter(list(full))
    for x in list(sub):
        for y in it:
            if y == x:
                break
        else:
            return False
    return True
