"""Mid-range companion of pbt/ref/ko.py (Konno-Ohmachi smoothing, C07).

pbt/ref/ko.py evaluates the statement's window one target at a time in numpy.longdouble: exact enough to be *the*
reference, but ~250 ns per (frequency, target) pair - affordable for a sample of targets only once a spectrum has
1e5 frequencies or a target set has thousands of members.  The mid-range clauses therefore use two layers:

* `scan()`: the same per-target loop (the statement, not the library's 2-d broadcast) in float64, over ALL targets,
  with the same conditioning bound as ko.window (the bound is what a correct double evaluation may differ from the exact
  value by; two correct double evaluations differ by at most twice that).  1-d sums are numpy's pairwise sums, the fourth
  power is two squarings: the arithmetic differs from the library's.  ~30 ns per pair.
* the long-double reference of ko.py on a hash-chosen sample of targets (always the first and the last, preferably
  next to multiples of 2^k), against which both the library AND `scan()` are checked (`guard()`).

Summation allowance (`rel_for`): the library may add the n_f non-negative terms of a column in any order (NumPy adds the
rows of a C-ordered matrix one after the other: no pairwise summation); for non-negative terms every order has a relative
error <= (n_f - 1) u, u = eps/2.  Numerator and denominator of the mean each carry one such sum, the window value a few
more roundings (sin, quotient, two squarings, |A| of a complex number: < 10 u), so a correct double evaluation is within
(n_f + 10) eps of the exact value, apart from the conditioning of the window argument.  rel_for(n_f) = 1e-12 +
2 (n_f + 64) eps: the module's 1e-12 (which covers n_f <= 1023) plus twice the any-order bound.
"""
import math

import numpy as np

from pbt.ref import ko

EPS = ko.EPS
LD = ko.LD


def rel_for(nf):
    return 1e-12 + 2.0 * (int(nf) + 64) * EPS


class Scan(object):
    """Result of scan(): S, cond per target; for a matrix additionally the worst entry excess, column sums and minima."""


def scan(freqs, amps, targets, b, mat_t=None, rel=None):
    """float64 per-target evaluation of the statement for all targets.

    freqs / amps may carry a leading 0 Hz bin (dropped).  amps None: weights only (S, cond are not computed).
    mat_t: the TRANSPOSED library matrix (m x n_f, C-contiguous) to compare column by column:
        |M[i, j] - w_ij / sum_i w_ij| <= rel * w + 2 * (conditioning bound of the entry)
    returns Scan with .S, .cond (float, m), .bad (None or a tuple describing the first matrix entry out of tolerance),
    .colsum, .colmin (float, m)."""
    f, a = ko.drop_zero_bin(freqs, amps)
    nf = len(f)
    if nf == 0:
        raise ValueError("no non-zero frequency")
    if rel is None:
        rel = rel_for(nf)
    bf = float(b)
    logf = np.log10(f)
    cfix = bf * (1.0 + np.abs(logf))
    if a is not None:
        a = np.abs(np.asarray(a)).astype(float)
    targets = np.asarray(targets, dtype=float)
    m = len(targets)
    out = Scan()
    out.S = np.zeros(m)
    out.cond = np.zeros(m)
    out.bad = None
    out.colsum = np.zeros(m)
    out.colmin = np.zeros(m)
    out.rel = rel
    for j in range(m):
        fc = float(targets[j])
        x = bf * np.log10(f / fc)
        ax = np.abs(x)
        zero = (ax == 0)
        anyzero = bool(zero.any())
        xs = np.where(zero, 1.0, x) if anyzero else x
        sinc = np.sin(xs) / xs
        if anyzero:
            sinc[zero] = 1.0
        s2 = sinc * sinc
        w = s2 * s2
        dx = (4 * EPS) * (cfix + bf * abs(math.log10(fc)) + ax)
        sl = np.minimum(0.5, 2.1 / np.maximum(ax, 1e-300))
        t = sl * dx
        u = np.abs(sinc) + t
        dw = 4.0 * u * u * u * t
        if anyzero:
            dw[zero] = 0.0
        sw = float(w.sum())
        sdw = float(dw.sum())
        room = sw - sdw
        if a is not None:
            s = float((w * a).sum()) / sw
            out.S[j] = s
            out.cond[j] = float(((a + s) * dw).sum()) / room if room > 0 else np.inf
        if mat_t is not None:
            col = mat_t[j]
            wn = w / sw
            out.colsum[j] = float(col.sum())
            out.colmin[j] = float(col.min())
            if out.bad is None and room > 0:
                tolc = rel * wn + (2.0 / room) * (dw + wn * sdw) + 1e-290
                d = np.abs(col - wn) - tolc
                k = int(np.argmax(d))
                if not d[k] <= 0:  # also catches NaN
                    out.bad = (k, j, float(col[k]), float(wn[k]), float(tolc[k]), int(np.sum(~(d <= 0))))
    return out


def sample_indices(m, count, key):
    """`count` distinct indices of range(m): 0 and m-1 always, then indices that are 0, 1, -1 modulo 2^k (k = 5..12) and
    arbitrary indices, alternately, in an order fixed by a hash of `key` (a blocked loop has its seams at multiples of its
    block size; an arbitrary block size is met by the arbitrary half)."""
    import hashlib

    def h(i):
        return hashlib.blake2b(("%s:%d" % (key, i)).encode(), digest_size=8).digest()
    if m <= count:
        return list(range(m))
    chosen = [0, m - 1]
    seams = set()
    for k in range(5, 13):
        step = 2 ** k
        for c in range(step, m, step):
            for i in (c - 1, c, c + 1):
                if 0 < i < m - 1:
                    seams.add(i)
    seams = sorted(seams, key=h)
    rest = sorted((i for i in range(1, m - 1)), key=h) if m <= 20000 else None
    si = ri = 0
    turn = 0
    while len(chosen) < count:
        pick = None
        if turn % 2 == 0 and si < len(seams):
            pick = seams[si]
            si += 1
        else:
            if rest is not None:
                if ri < len(rest):
                    pick = rest[ri]
                    ri += 1
            else:
                pick = 1 + int.from_bytes(h(ri), "big") % (m - 2)
                ri += 1
        turn += 1
        if pick is not None and pick not in chosen:
            chosen.append(pick)
        if si >= len(seams) and rest is not None and ri >= len(rest):
            break
    return sorted(chosen)
