"""Vectorised encodings of the C11 / C12 statements for series of 1e4 .. 2e6 samples (mid-range clauses of c11.py and c12.py).

Everything is written from the property *statements* with run-length arithmetic (np.flatnonzero of change flags,
ufunc.reduceat over runs, cumulative counts of rises and falls) - no Python loop over samples.  Nothing multiplies
neighbouring samples or differences: directions and signs are *comparisons* (a[i+1] > a[i], a[i] > 0), so there is no
underflow / overflow precondition on this side, and no code is shared with eqsig (which multiplies successive differences
and neighbouring samples and walks over its list of local peaks).

Two kinds of function, as in pbt/ref/peaks.py:
  * constructive references   local_peaks, zero_crossings, switched           (the canonical answer)
  * the statements as predicates on a reported answer   peaks_violation, kinds_violation, switched_violation
    (message or None), used to guard the references and to accept every answer the statement leaves open.

Every function is cross-checked against its loop twin of pbt/ref/peaks.py when this module is imported (all series over a
5-level alphabet of length 1..4, over a 3-level alphabet of length 5..6 and a fifth of length 7, 200 random short series; the predicates on the
canonical answer and on ~10 corrupted answers for every series up to length 3 and one in eight of the longer ones): a disagreement is a broken oracle and raises HarnessError (exit 2).
"""
import numpy as np

from pbt import core
from pbt.ref import peaks as loop


def _arr(values):
    return np.asarray(values, dtype=float)


def run_starts(a):
    """First index of every maximal run of equal consecutive entries (int64, ascending; a has >= 1 entry)."""
    chg = np.empty(len(a), dtype=bool)
    chg[0] = True
    np.not_equal(a[1:], a[:-1], out=chg[1:])
    return np.flatnonzero(chg)


def is_constant(values):
    a = _arr(values)
    return bool(np.all(a == a[0]))


# ---------------------------------------------------------------------------
# C11


def local_peaks(values):
    """Reported local peaks -> (indices int64 ascending, is_max bool array).  A plateau is reported iff it is the first, the last,
    or its two neighbouring plateaus lie on the same side; index = first sample of the plateau.  Constant series: ([0], [False])."""
    a = _arr(values)
    starts = run_starts(a)
    m = len(starts)
    if m == 1:
        return starts, np.zeros(1, dtype=bool)
    pv = a[starts]
    up = pv[1:] > pv[:-1]              # movement from plateau k to plateau k+1 (neighbouring plateaus differ)
    keep = np.ones(m, dtype=bool)
    keep[1:-1] = up[:-1] != up[1:]
    is_max = np.empty(m, dtype=bool)
    is_max[0] = not up[0]
    is_max[1:] = up                    # plateau k >= 1 reached by a rise: if reported it is a maximum (the last one included)
    return starts[keep], is_max[keep]


def _index_array(idx, n):
    """Reported indices as int64 array, or (None, message)."""
    x = np.asarray(idx)
    if x.ndim != 1:
        return None, "indices are not a one-dimensional sequence: shape %s" % (x.shape,)
    if x.size == 0:
        return np.zeros(0, dtype=np.int64), None
    if x.dtype.kind not in "iu":
        try:
            xi = x.astype(np.int64)
        except Exception:  # noqa
            return None, "indices are not integers: dtype %s" % x.dtype
        if not np.array_equal(xi, x):
            return None, "non-integral index among %r" % (x[:8].tolist(),)
        x = xi
    x = x.astype(np.int64)
    bad = (x < 0) | (x >= n)
    if np.any(bad):
        return None, "index %d outside the series (n=%d)" % (int(x[np.argmax(bad)]), n)
    return x, None


def peaks_violation(values, idx):
    """C11 statement as a predicate on the reported indices (ptype='all') of a non-constant series: None or a message."""
    a = _arr(values)
    n = len(a)
    idx, err = _index_array(idx, n)
    if err:
        return err
    if len(idx) < 2:
        return "fewer than two indices reported for a non-constant series: %r" % (idx.tolist(),)
    d = np.diff(idx)
    if np.any(d <= 0):
        k = int(np.argmax(d <= 0))
        return "indices not strictly ascending at position %d: %d then %d" % (k, idx[k], idx[k + 1])
    if idx[0] != 0:
        return "first reported index is %d, not 0" % idx[0]
    last = int(run_starts(a)[-1])
    if idx[-1] != last:
        return "last reported index is %d, not the first sample of the final constant run (%d)" % (idx[-1], last)
    cu = np.concatenate(([0], np.cumsum(a[1:] > a[:-1])))   # cu[i] = number of rises among the steps 0->1 .. (i-1)->i
    cd = np.concatenate(([0], np.cumsum(a[1:] < a[:-1])))
    nu = cu[idx[1:]] - cu[idx[:-1]]
    nd = cd[idx[1:]] - cd[idx[:-1]]
    both = (nu > 0) & (nd > 0)
    if np.any(both):
        k = int(np.argmax(both))
        return "series is not monotone between reported indices %d and %d" % (idx[k], idx[k + 1])
    none = (nu == 0) & (nd == 0)
    if np.any(none):
        k = int(np.argmax(none))
        return "series does not move between reported indices %d and %d" % (idx[k], idx[k + 1])
    rising = nu > 0
    same = rising[1:] == rising[:-1]
    if np.any(same):
        k = int(np.argmax(same))
        return "direction does not alternate at reported index %d" % idx[k + 1]
    flat = a[idx[1:] - 1] == a[idx[1:]]
    if np.any(flat):
        return "reported index %d is not the first sample of its plateau" % idx[1:][int(np.argmax(flat))]
    return None


def kinds_violation(values, idx_all, idx_max, idx_min):
    """'max' / 'min' selections partition the reported indices, each ascending, and an index is a maximum (minimum) iff the
    series is lower (higher) on the side(s) where it has a neighbouring plateau.  None or a message."""
    a = _arr(values)
    n = len(a)
    al, err = _index_array(idx_all, n)
    if err:
        return err
    mx, err = _index_array(idx_max, n)
    if err:
        return "max: " + err
    mn, err = _index_array(idx_min, n)
    if err:
        return "min: " + err
    both = np.sort(np.concatenate((mx, mn)))
    if len(both) != len(al) or not np.array_equal(both, al) or len(np.intersect1d(mx, mn)):
        return "max (%d indices) and min (%d) do not partition the %d reported indices" % (len(mx), len(mn), len(al))
    if np.any(np.diff(mx) < 0) or np.any(np.diff(mn) < 0):
        return "max/min selections are not ascending"
    starts = run_starts(a)
    pv = a[starts]
    m = len(starts)
    for name, sel, sgn in (("max", mx, 1.0), ("min", mn, -1.0)):
        if not len(sel):
            continue
        rid = np.searchsorted(starts, sel, side="right") - 1      # plateau that holds the index
        left_ok = np.ones(len(sel), dtype=bool)
        has_l = rid > 0
        left_ok[has_l] = (pv[rid[has_l]] > pv[rid[has_l] - 1]) if sgn > 0 else (pv[rid[has_l]] < pv[rid[has_l] - 1])
        right_ok = np.ones(len(sel), dtype=bool)
        has_r = rid < m - 1
        right_ok[has_r] = (pv[rid[has_r]] > pv[rid[has_r] + 1]) if sgn > 0 else (pv[rid[has_r]] < pv[rid[has_r] + 1])
        bad = ~(left_ok & right_ok)
        if np.any(bad):
            i = int(sel[int(np.argmax(bad))])
            return "index %d selected as %s but it is not a local %s (value %r)" % (i, name, name, float(a[i]))
    return None


# ---------------------------------------------------------------------------
# C12


def zero_crossings(values, keep_adj_zeros=False):
    """{0} + exact zeros (first of each run unless keep_adj_zeros) + first sample after each strict sign change; int64 ascending."""
    a = _arr(values)
    n = len(a)
    z = a == 0
    pos = a > 0
    neg = a < 0
    flag = np.zeros(n, dtype=bool)
    flag[0] = True
    if keep_adj_zeros:
        flag |= z
    else:
        flag[1:] |= z[1:] & ~z[:-1]
    flag[1:] |= (pos[1:] & neg[:-1]) | (neg[1:] & pos[:-1])
    return np.flatnonzero(flag)


def _sign_runs(a):
    """(sign int8 per sample, run starts, run id per sample, is-excursion per run, largest |value| per run)."""
    s = (a > 0).astype(np.int8) - (a < 0).astype(np.int8)
    rs = run_starts(s)
    lengths = np.diff(np.append(rs, len(a)))
    rid = np.repeat(np.arange(len(rs)), lengths)
    absa = np.abs(a)
    rmax = np.maximum.reduceat(absa, rs)
    return s, rs, rid, s[rs] != 0, rmax, absa


def switched(values):
    """(canonical indices, tie): for each excursion the FIRST index of its largest |value|, plus every reported local peak whose
    value is 0; tie = some excursion attains its largest |value| at more than one index."""
    a = _arr(values)
    n = len(a)
    s, rs, rid, exc, rmax, absa = _sign_runs(a)
    at_max = absa == rmax[rid]
    first = np.minimum.reduceat(np.where(at_max, np.arange(n), n), rs)
    count = np.add.reduceat(at_max.astype(np.int64), rs)
    lp = local_peaks(a)[0]
    zero_tp = lp[a[lp] == 0]
    idx = np.union1d(first[exc], zero_tp).astype(np.int64)
    return idx, bool(np.any(count[exc] > 1))


def switched_violation(values, idx):
    """C12 statement as a predicate on reported switched-peak indices: None or a message."""
    a = _arr(values)
    n = len(a)
    idx, err = _index_array(idx, n)
    if err:
        return err
    d = np.diff(idx)
    if np.any(d <= 0):
        k = int(np.argmax(d <= 0))
        return "indices not strictly ascending at position %d: %d then %d" % (k, idx[k], idx[k + 1])
    s, rs, rid, exc, rmax, absa = _sign_runs(a)
    ends = np.append(rs[1:], n)
    per_run = np.bincount(rid[idx], minlength=len(rs)) if len(idx) else np.zeros(len(rs), dtype=np.int64)
    bad = exc & (per_run != 1)
    if np.any(bad):
        k = int(np.argmax(bad))
        return "excursion [%d,%d) contains %d reported indices, expected exactly one" % (rs[k], ends[k], per_run[k])
    in_exc = s[idx] != 0
    low = in_exc & (absa[idx] != rmax[rid[idx]])
    if np.any(low):
        i = int(idx[int(np.argmax(low))])
        k = int(rid[i])
        return "excursion [%d,%d): reported index %d has |value| %r, the largest is %r" % (rs[k], ends[k], i, float(absa[i]), float(rmax[k]))
    zero_rep = idx[~in_exc]
    if len(zero_rep):
        lp = local_peaks(a)[0]
        zero_tp = lp[a[lp] == 0]
        miss = ~np.isin(zero_rep, zero_tp)
        if np.any(miss):
            return "reported index %d is zero-valued but not a turning point" % int(zero_rep[int(np.argmax(miss))])
    if len(idx) > 1:
        s0, s1 = s[idx[:-1]], s[idx[1:]]
        share = (s0 == s1) & (s0 != 0)
        if np.any(share):
            k = int(np.argmax(share))
            return "consecutive reported indices %d and %d share a strict sign (%r, %r)" % (
                idx[k], idx[k + 1], float(a[idx[k]]), float(a[idx[k + 1]]))
    big = float(np.max(absa))
    if big > 0 and not np.any(absa[idx] == big):
        return "global absolute maximum %r is not among the reported values" % big
    return None


def is_subsequence_sorted(sub, full):
    """`sub` (any order given) can be obtained from the strictly ascending `full` by deleting elements, order kept."""
    sub = np.asarray(sub, dtype=np.int64)
    full = np.asarray(full, dtype=np.int64)
    if len(sub) == 0:
        return True
    if np.any(np.diff(sub) <= 0):
        return False
    return bool(np.all(np.isin(sub, full)))


# ---------------------------------------------------------------------------
# import-time cross-check against the loops of pbt/ref/peaks.py


def _corruptions(idx, n, rs):
    """A handful of wrong / alternative answers derived from a correct one."""
    idx = [int(i) for i in idx]
    out = [idx]
    if len(idx) > 1:
        k = int(rs.randint(len(idx)))
        out.append(idx[:k] + idx[k + 1:])                       # one dropped
        out.append(idx[:k] + [idx[k]] + idx[k:])                # one doubled
        out.append(idx[:-1])
        out.append(idx[1:])
    j = int(rs.randint(n))
    out.append(sorted(set(idx) | {j}))                          # one added
    if idx:
        k = int(rs.randint(len(idx)))
        moved = list(idx)
        moved[k] = min(n - 1, moved[k] + 1)
        out.append(moved)                                       # one shifted (may lose order)
        moved = list(idx)
        moved[k] = max(0, moved[k] - 1)
        out.append(moved)
    out.append(list(range(n)))
    out.append([0])
    out.append([])
    return out


def _self_check():
    import itertools
    series = []
    for n in range(1, 5):
        for tup in itertools.product((-2.0, -1.0, 0.0, 1.0, 2.0), repeat=n):
            series.append(tup)
    for n in range(5, 8):
        for k, tup in enumerate(itertools.product((-1.0, 0.0, 1.0), repeat=n)):
            if n < 7 or k % 5 == 0:
                series.append(tup)
    rs = np.random.RandomState(20260929)
    for _ in range(200):
        n = int(rs.randint(1, 40))
        kind = rs.randint(5)
        if kind == 0:
            v = rs.standard_normal(n)
        elif kind == 1:
            v = np.round(rs.standard_normal(n) * 2)
        elif kind == 2:
            v = np.round(np.cumsum(rs.standard_normal(n)) * 2) / 2
        elif kind == 3:
            v = rs.standard_normal(n) * (rs.uniform(size=n) < 0.7)
        else:
            v = np.where(rs.uniform(size=n) < 0.3, -0.0, np.round(rs.standard_normal(n)))
        series.append(tuple(float(x) for x in v))

    def fail(what, s, got, want):
        raise core.HarnessError("peaks_mid.%s disagrees with the loop reference on %r: %r vs %r" % (what, s, got, want))

    for s in series:
        n = len(s)
        lp, is_max = local_peaks(s)
        l_idx, l_kinds = loop.local_peaks(s)
        if lp.tolist() != l_idx:
            fail("local_peaks", s, lp.tolist(), l_idx)
        const = loop.is_constant(s)
        if is_constant(s) != const:
            fail("is_constant", s, is_constant(s), const)
        if not const and [("max" if k else "min") for k in is_max] != l_kinds:
            fail("local_peaks kinds", s, is_max.tolist(), l_kinds)
        for keep in (False, True):
            if zero_crossings(s, keep).tolist() != loop.zero_crossings(s, keep):
                fail("zero_crossings", s, zero_crossings(s, keep).tolist(), loop.zero_crossings(s, keep))
        sw, tie = switched(s)
        if sw.tolist() != loop.switched_peaks(s) or tie != loop.switched_freedom(s)[0]:
            fail("switched", s, (sw.tolist(), tie), (loop.switched_peaks(s), loop.switched_freedom(s)[0]))
        if n > 3 and rs.randint(8):
            continue                                            # predicates: every series up to length 3, one in eight of the others
        if not const:
            for cand in _corruptions(l_idx, n, rs):
                a_, b_ = peaks_violation(s, cand), loop.peaks_violation(s, cand)
                if (a_ is None) != (b_ is None):
                    fail("peaks_violation(%r)" % (cand,), s, a_, b_)
            mx = [i for i, k in zip(l_idx, l_kinds) if k == "max"]
            mn = [i for i, k in zip(l_idx, l_kinds) if k == "min"]
            for cmx, cmn in ((mx, mn), (mn, mx), (mx[1:], mn + mx[:1]), (mx, mn[:-1]), (mx + mn[-1:], mn[:-1]), (l_idx, [])):
                a_, b_ = kinds_violation(s, l_idx, cmx, cmn), loop.kinds_violation(s, l_idx, cmx, cmn)
                if (a_ is None) != (b_ is None):
                    fail("kinds_violation(%r, %r)" % (cmx, cmn), s, a_, b_)
        if any(x != 0 for x in s):
            for cand in _corruptions(loop.switched_peaks(s), n, rs):
                a_, b_ = switched_violation(s, cand), loop.switched_violation(s, cand)
                if (a_ is None) != (b_ is None):
                    fail("switched_violation(%r)" % (cand,), s, a_, b_)


_self_check()
