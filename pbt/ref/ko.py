"""Reference model for C07 (Konno-Ohmachi 1998 smoothing).

Written from the property statement, not from the library:

* one target frequency at a time (outer Python loop), window evaluated in
  numpy.longdouble: x = b*log10(f/fc), W = (sin x / x)^4, W = 1 where x == 0;
  the zero-frequency bin is dropped; the smoothed amplitude is sum(W*|A|)/sum(W);
* a second, purely scalar double loop (Python floats, math.fsum) exists only to
  validate the first one when the property module is imported;
* every value comes with a *conditioning bound*: how far a correct double
  precision evaluation of the same formula may be from the exact value because the
  window argument itself carries a rounding error.  A double-precision x differs from
  the exact one by at most dx = 4*eps*(b*(1 + |log10 f| + |log10 fc|) + |x|) (covers both
  b*log10(f/fc) and b*(log10 f - log10 fc), eight-fold margin on the former), and by the
  mean-value theorem
      |W(x+d) - W(x)| <= 4*(|sinc x| + s*|d|)^3 * s*|d|,   s = sup|sinc'| <= min(1/2, 2.1/|x|).
  The bound matters only when a target is far outside the grid and a large amplitude
  sits next to a zero of the window (the weight is tiny in absolute terms but its
  relative error is unbounded).
"""
import math

import numpy as np

LD = np.longdouble
EPS = float(np.finfo(float).eps)


def longdouble_ok():
    return np.finfo(LD).nmant >= 63


def drop_zero_bin(freqs, amps=None):
    """The statement's '(non-zero-frequency) Fourier amplitudes': a leading bin at exactly 0 Hz is not part of the mean."""
    freqs = np.asarray(freqs, dtype=float)
    if amps is not None:
        amps = np.asarray(amps)
    if len(freqs) and freqs[0] == 0:
        freqs = freqs[1:]
        if amps is not None:
            amps = amps[1:]
    return freqs, amps


def abs_ld(amps):
    """|A| in long double (complex or real input)."""
    amps = np.asarray(amps)
    if np.iscomplexobj(amps):
        re = amps.real.astype(LD)
        im = amps.imag.astype(LD)
        return np.sqrt(re * re + im * im)
    return np.abs(amps.astype(LD))


def window(f_ld, logf, fc, b):
    """Raw window weights for one target: (w [LD], dw [float] conditioning bound per weight)."""
    fc_ld = LD(float(fc))
    b_ld = LD(float(b))
    x = b_ld * np.log10(f_ld / fc_ld)
    zero = (x == 0)
    xs = np.where(zero, LD(1), x)
    sinc = np.where(zero, LD(1), np.sin(xs) / xs)
    w = sinc * sinc * sinc * sinc
    ax = np.abs(np.asarray(x, dtype=float))
    dx = 4 * EPS * (float(b) * (1.0 + np.abs(logf) + abs(math.log10(float(fc)))) + ax)
    s = np.minimum(0.5, 2.1 / np.maximum(ax, 1e-300))
    dw = 4.0 * (np.abs(np.asarray(sinc, dtype=float)) + s * dx) ** 3 * s * dx
    dw = np.where(zero, 0.0, dw)  # x == 0 <=> f == fc exactly (a correctly rounded quotient of distinct doubles is never 1): weight exactly 1
    return w, dw


def smooth(freqs, amps, targets, b):
    """Smoothed amplitudes at `targets`.

    returns (S [LD, m], cond [float, m]): exact value and conditioning bound (see module docstring)."""
    f, a = drop_zero_bin(freqs, amps)
    if len(f) == 0:
        raise ValueError("no non-zero frequency")
    f_ld = f.astype(LD)
    logf = np.log10(f)
    a_ld = abs_ld(a)
    a_f = np.asarray(a_ld, dtype=float)
    targets = np.asarray(targets, dtype=float)
    out = np.zeros(len(targets), dtype=LD)
    cond = np.zeros(len(targets))
    for j in range(len(targets)):
        w, dw = window(f_ld, logf, targets[j], b)
        sw = np.sum(w)
        s = np.sum(w * a_ld) / sw
        out[j] = s
        room = float(sw) - float(np.sum(dw))
        if room <= 0:
            cond[j] = np.inf
        else:
            cond[j] = float(np.sum((a_f + float(s)) * dw)) / room
    return out, cond


def matrix(freqs, targets, b):
    """Normalised weight matrix.

    returns (W [LD, nf x m], tolW [float, nf x m], colsum_raw [LD, m]): W[i, j] = w_ij / sum_i w_ij, the conditioning bound of
    every entry, and the raw column sums (so that the entry where f == fc is exactly 1/colsum_raw)."""
    f, _ = drop_zero_bin(freqs)
    if len(f) == 0:
        raise ValueError("no non-zero frequency")
    f_ld = f.astype(LD)
    logf = np.log10(f)
    targets = np.asarray(targets, dtype=float)
    big_w = np.zeros((len(f), len(targets)), dtype=LD)
    tol = np.zeros((len(f), len(targets)))
    colsum = np.zeros(len(targets), dtype=LD)
    for j in range(len(targets)):
        w, dw = window(f_ld, logf, targets[j], b)
        sw = np.sum(w)
        colsum[j] = sw
        big_w[:, j] = w / sw
        room = float(sw) - float(np.sum(dw))
        if room <= 0:
            tol[:, j] = np.inf
        else:
            tol[:, j] = (dw + np.asarray(w / sw, dtype=float) * float(np.sum(dw))) / room
    return big_w, tol, colsum


def smooth_scalar_loop(freqs, amps, targets, b):
    """The statement as a plain double loop over (target, Fourier frequency) in Python floats; used to validate `smooth`."""
    out = []
    for fc in targets:
        num = []
        den = []
        for f, a in zip(freqs, amps):
            if f == 0:
                continue
            x = b * math.log10(f / fc)
            w = 1.0 if x == 0 else (math.sin(x) / x) ** 4
            num.append(w * abs(a))
            den.append(w)
        out.append(math.fsum(num) / math.fsum(den))
    return out
