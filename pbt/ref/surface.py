"""Reference model for the shifted-wave surface energy (C19), written from the statement.

A record a[0..n-1] (the *upward* wave) reaches a free surface and comes back as the *downward* wave,
i.e. the same record delayed by s = 2*tt/dt samples.  For a whole number of samples the delayed wave
is the record moved s places to the right; for a fractional delay s = m + f (0 < f < 1) it is the
piecewise-linear interpolant of the record evaluated at k - s, and it is zero wherever k - s falls
outside the recorded interval [0, n-1]:

    down[k] = f*a[k-m-1] + (1-f)*a[k-m]      for  m+1 <= k <= m+n-1      (0 elsewhere)

(the blend of the two neighbouring samples - no call to an interpolation routine).  Then

    acc[k] = up_red*a[k] -/+ down_red*down[k]     (- nodal surface, + anti-nodal)
    v[0] = 0,  v[k] = v[k-1] + dt*(acc[k] + acc[k-1])/2
    E[k] = v[k]*|v[k]|/2

All series are defined for every k >= 0 (the waves are zero after they have passed), so a caller can
ask for any number K of samples.  Arithmetic is numpy.longdouble.
"""
from fractions import Fraction

import numpy as np

LD = np.longdouble
EPS = np.finfo(float).eps


def split_delay(s):
    """Delay in samples (a double >= 0) -> (whole samples m, fraction f in [0, 1)); exact."""
    m = int(np.floor(s))
    return m, float(s - m)


def delayed(a, K, m, f, drop=None):
    """The downward wave on K samples.  `drop` in (None, 'first', 'last') is only used for the
    bracket check of delays that lie within rounding of a whole number (see c19.py).  drop='pad' is the
    second reading of "linearly interpolated": the interpolant of the ZERO-PADDED record (a[-1] = a[n] = 0), which
    ramps over the fractional sample in front of and behind the record: down[m] = (1-f)*a[0], down[m+n] = f*a[n-1]."""
    a = np.asarray(a, dtype=LD)
    n = len(a)
    d = np.zeros(K, dtype=LD)
    if f != 0 and drop == "pad":
        ff = LD(f)
        ax = np.concatenate([np.zeros(1, dtype=LD), a, np.zeros(1, dtype=LD)])
        blend = ff * ax[:-1] + (LD(1) - ff) * ax[1:]  # value at k = m .. m+n
        hi = min(K, m + n + 1)
        if hi > m:
            d[m:hi] = blend[:hi - m]
        return d
    if f == 0:
        hi = min(K, m + n)
        if hi > m:
            d[m:hi] = a[:hi - m]
        if drop == "first" and m < K:
            d[m] = 0
        if drop == "last" and m + n - 1 < K:
            d[m + n - 1] = 0
    else:
        ff = LD(f)
        blend = ff * a[:-1] + (LD(1) - ff) * a[1:]  # value at k = m+1 .. m+n-1
        lo = m + 1
        hi = min(K, m + n)
        if hi > lo:
            d[lo:hi] = blend[:hi - lo]
    return d


def delayed_magnitude(a, K, m, f, pad=False):
    """Sum of the magnitudes entering down[k] (double) - used for rounding bounds."""
    a = np.abs(np.asarray(a, dtype=float))
    n = len(a)
    d = np.zeros(K)
    if f != 0 and pad:
        ax = np.concatenate([[0.0], a, [0.0]])
        both = ax[:-1] + ax[1:]
        hi = min(K, m + n + 1)
        if hi > m:
            d[m:hi] = both[:hi - m]
        return d
    if f == 0:
        hi = min(K, m + n)
        if hi > m:
            d[m:hi] = a[:hi - m]
    else:
        both = a[:-1] + a[1:]
        lo = m + 1
        hi = min(K, m + n)
        if hi > lo:
            d[lo:hi] = both[:hi - lo]
    return d


def up_wave(a, K):
    a = np.asarray(a, dtype=LD)
    u = np.zeros(K, dtype=LD)
    u[:min(K, len(a))] = a[:min(K, len(a))]
    return u


def accel(a, K, m, f, up_red, down_red, nodal, drop=None):
    up = LD(up_red) * up_wave(a, K)
    dn = LD(down_red) * delayed(a, K, m, f, drop)
    return up - dn if nodal else up + dn


def accel_magnitude(a, K, m, f, up_red, down_red, pad=False):
    """(U, D): |up_red*a[k]| and |down_red|*(|a_lo|+|a_hi|) per sample (double)."""
    u = np.zeros(K)
    aa = np.abs(np.asarray(a, dtype=float))
    u[:min(K, len(aa))] = aa[:min(K, len(aa))]
    return abs(float(up_red)) * u, abs(float(down_red)) * delayed_magnitude(a, K, m, f, pad)


# "integrating": the statement does not name the quadrature.  The cumulative first-order rules on the sample grid:
#   trap   v[k] = dt*sum_{j=1..k}(acc[j]+acc[j-1])/2     right  v[k] = dt*sum_{j=1..k} acc[j]
#   left   v[k] = dt*sum_{j=0..k-1} acc[j]               cumsum v[k] = dt*sum_{j=0..k} acc[j]
RULES = ("trap", "right", "left", "cumsum")


def velocity(acc, dt, rule="trap"):
    acc = np.asarray(acc)
    if acc.dtype != np.dtype(float):   # float64 stays float64 (row64), everything else is evaluated in long double
        acc = acc.astype(LD)
    one = acc.dtype.type
    v = np.zeros(len(acc), dtype=acc.dtype)
    if rule == "cumsum":
        return np.cumsum(one(dt) * acc)
    if len(acc) > 1:
        if rule == "trap":
            v[1:] = np.cumsum(one(dt) * (acc[1:] + acc[:-1]) / one(2))
        elif rule == "right":
            v[1:] = np.cumsum(one(dt) * acc[1:])
        elif rule == "left":
            v[1:] = np.cumsum(one(dt) * acc[:-1])
        else:
            raise ValueError(rule)
    return v


def energy(v):
    v = np.asarray(v, dtype=LD)
    return v * np.abs(v) / LD(2)


# ---------------------------------------------------------------------------
# the same definition in double precision, one row at a time, for whole batches at mid-range sizes (c19.py checks every row
# of a batch with it; a hash-chosen sample of rows is checked with the long-double form above as well)


def row64(a, K, m, f, up_red, down_red, nodal, dt=None, rule="trap", pad=False):
    """Acceleration (dt None) or energy of one row on K samples in float64: direct slices, no interpolation routine."""
    a = np.asarray(a, dtype=float)
    n = len(a)
    d = np.zeros(K)
    if f == 0:
        hi = min(K, m + n)
        if hi > m:
            d[m:hi] = a[:hi - m]
    elif pad:
        ax = np.concatenate([[0.0], a, [0.0]])
        hi = min(K, m + n + 1)
        if hi > m:
            d[m:hi] = (f * ax[:-1] + (1.0 - f) * ax[1:])[:hi - m]
    else:
        lo, hi = m + 1, min(K, m + n)
        if hi > lo:
            d[lo:hi] = (f * a[:-1] + (1.0 - f) * a[1:])[:hi - lo]
    d *= float(down_red)
    acc = -d if nodal else d
    k = min(K, n)
    acc[:k] += float(up_red) * a[:k]
    if dt is None:
        return acc
    v = velocity(acc, float(dt), rule)
    return 0.5 * v * np.abs(v)


def shift_rows(x, shift, length):
    """out[k] = x[k - shift] for 0 <= k - shift < len(x), zero otherwise, k in range(length)."""
    x = np.asarray(x)
    out = np.zeros(length, dtype=x.dtype)
    for k in range(length):  # plain loop: this is the definition of a shifted, zero-filled series
        j = k - shift
        if 0 <= j < len(x):
            out[k] = x[j]
    return out


# ---------------------------------------------------------------------------
# oracle guard: the sliced long-double form above against an exact rational evaluation of the
# piecewise-linear interpolant (fractions.Fraction, one sample at a time)


def _delayed_exact(a, K, s):
    a = [Fraction(float(x)) for x in a]
    n = len(a)
    s = Fraction(float(s))
    out = []
    for k in range(K):
        p = Fraction(k) - s
        if p < 0 or p > n - 1:
            out.append(Fraction(0))
            continue
        j = p.numerator // p.denominator
        g = p - j
        out.append(a[j] if g == 0 else a[j] + g * (a[j + 1] - a[j]))
    return out


def validate():
    """Returns None when the reference reproduces the exact rational evaluation, else a message."""
    recs = ([1.0, 2.0, 4.0, -3.0, 5.0], [0.3, -0.7, 0.11, 9.5, -2.25, 0.0, 1e-3], [2.0, 2.0, 2.0])
    for a in recs:
        for s in (0.0, 1.0, 2.5, 0.001, 3.999, 7.0, float(len(a) - 1) + 0.25, 2.0 * len(a) - 0.5):
            K = len(a) + int(s) + 3
            m, f = split_delay(s)
            got = delayed(a, K, m, f)
            want = _delayed_exact(a, K, s)
            for k in range(K):
                w = want[k]
                wl = LD(w.numerator) / LD(w.denominator)
                if abs(got[k] - wl) > 4e-19 * (1 + abs(float(w))):
                    return "delayed wave reference wrong: a=%r s=%r k=%d got %r want %r" % (a, s, k, got[k], float(w))
            # nodal, zero delay: identically zero
    a = np.array(recs[1])
    acc = accel(a, len(a) + 2, 0, 0.0, 0.75, 0.75, True)
    if np.any(acc != 0):
        return "zero-delay nodal acceleration is not zero"
    # constant acceleration c on K samples: v = c*t, E = c^2 t^2/2
    v = velocity(np.full(9, 2.0), 0.5)
    if not np.all(v == LD(2.0) * LD(0.5) * np.arange(9)):
        return "trapezoid velocity of a constant is not c*t"
    if not np.all(energy(-v) == -energy(v)):
        return "energy is not odd in v"
    # the padded reading against the exact rational interpolant of the zero-padded record
    a = recs[1]
    for s_ in (0.25, 2.5, 3.999, 7.125):
        m, f = split_delay(s_)
        K = len(a) + int(s_) + 3
        got = delayed(a, K, m, f, "pad")
        want = _delayed_exact([0.0] + list(a) + [0.0], K + 1, s_)[1:]   # padded record starts one sample earlier
        for k in range(K):
            w = want[k]
            if abs(got[k] - LD(w.numerator) / LD(w.denominator)) > 4e-19 * (1 + abs(float(w))):
                return "padded delayed wave reference wrong: s=%r k=%d got %r want %r" % (s_, k, got[k], float(w))
    # quadrature rules on a ramp acc[k] = k, dt = 0.5: closed forms
    ramp = np.arange(7, dtype=LD)
    kk = np.arange(7, dtype=LD)
    for rule, want in (("trap", kk * kk / 4), ("right", kk * (kk + 1) / 4), ("left", kk * (kk - 1) / 4), ("cumsum", kk * (kk + 1) / 4)):
        if not np.all(velocity(ramp, 0.5, rule) == want):
            return "velocity rule %r wrong on a ramp" % rule
    # the double-precision row form against the long-double form
    a = np.array(recs[1])
    for s_, pad in ((0.0, False), (3.0, False), (2.5, False), (2.5, True), (9.75, True), (20.0, False)):
        m, f = split_delay(s_)
        for nodal in (True, False):
            for rule in RULES:
                K = len(a) + int(s_) + 2
                acc = accel(a, K, m, f, 0.75, 1.5, nodal, "pad" if pad else None)
                e = energy(velocity(acc, 0.25, rule))
                if np.max(np.abs(row64(a, K, m, f, 0.75, 1.5, nodal, pad=pad) - np.asarray(acc, dtype=float))) > 1e-14:
                    return "row64 acceleration disagrees with the long-double form (s=%r)" % s_
                if np.max(np.abs(row64(a, K, m, f, 0.75, 1.5, nodal, 0.25, rule, pad) - np.asarray(e, dtype=float))) > 1e-13:
                    return "row64 energy disagrees with the long-double form (s=%r rule=%s)" % (s_, rule)
    return None
