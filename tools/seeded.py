#!/venv/bin/python
"""Handling of seeded breaking changes (written by independent sub-agents).

  tools/seeded.py import <PROP> <worktree> <k> <name> [--needs "..."]   copy seed<k>.diff / demo<k>.py into seeded/<name>/
  tools/seeded.py verify <name>            suite passes with the patch; demo fails with it and passes without it (scratch worktree)
  tools/seeded.py run <name> [--tier quick|thorough] [--props C01,C03]   run the property's check against the patched tree
  tools/seeded.py table                    markdown table of all seeded changes and what catches them

Everything is done in a scratch git worktree of /repo under /tmp which is removed afterwards; /repo itself is not touched.
"""
import argparse
import glob
import json
import os
import shutil
import subprocess
import sys
import tempfile
import time

VERIF = os.path.dirname(os.path.dirname(os.path.abspath(__file__)))
REPO = "/repo"
PY = "/venv/bin/python"


def sh(cmd, cwd=None, env=None, timeout=3600):
    p = subprocess.run(cmd, cwd=cwd, env=env, capture_output=True, text=True, timeout=timeout, shell=isinstance(cmd, str))
    return p.returncode, p.stdout + p.stderr


class Scratch(object):
    def __init__(self, patch=None):
        self.dir = tempfile.mkdtemp(prefix="seedchk_", dir="/tmp")
        os.rmdir(self.dir)
        self.patch = patch

    def __enter__(self):
        rc, out = sh(["git", "-C", REPO, "worktree", "add", "-q", "--detach", self.dir, "HEAD"])
        if rc:
            raise SystemExit("worktree add failed: " + out)
        # the working tree of /repo may contain uncommitted edits; mirror them (there should be none)
        if self.patch:
            rc, out = sh(["git", "-C", self.dir, "apply", "--whitespace=nowarn", self.patch])
            if rc:
                rc, out = sh(["git", "-C", self.dir, "apply", "--3way", "--whitespace=nowarn", self.patch])
                if rc:
                    self.__exit__()
                    raise SystemExit("patch does not apply to the current HEAD: " + out)
        return self.dir

    def __exit__(self, *a):
        sh(["git", "-C", REPO, "worktree", "remove", "--force", self.dir])
        shutil.rmtree(self.dir, ignore_errors=True)
        sh(["git", "-C", REPO, "worktree", "prune"])


def meta_path(name):
    return os.path.join(VERIF, "seeded", name, "meta.json")


def load_meta(name):
    return json.load(open(meta_path(name)))


def save_meta(name, m):
    json.dump(m, open(meta_path(name), "w"), indent=1)
    open(meta_path(name), "a").write("\n")


def cmd_import(a):
    d = os.path.join(VERIF, "seeded", a.name)
    os.makedirs(d, exist_ok=True)
    shutil.copy(os.path.join(a.worktree, "seed%s.diff" % a.k), os.path.join(d, "patch.diff"))
    src = open(os.path.join(a.worktree, "demo%s.py" % a.k)).read()
    wt = a.worktree.rstrip("/")
    repl = "__import__('os').environ.get('EQSIG_ROOT', '%s')" % wt
    # the demo may assert that eqsig was imported from the sub-agent's worktree; make that path overridable (no other edit)
    src = src.replace("'%s'" % wt, repl).replace('"%s"' % wt, repl).replace("'%s/'" % wt, repl).replace('"%s/"' % wt, repl)
    open(os.path.join(d, "demo.py"), "w").write(src)
    rc, head = sh(["git", "-C", REPO, "rev-parse", "--short", "HEAD"])
    m = {"name": a.name, "property": a.prop.upper(), "breaks": a.prop.upper(), "needs_to_manifest": a.needs or "",
         "base_commit": head.strip(), "origin": "independent sub-agent given only the property text and a scratch worktree",
         "verified": None, "runs": []}
    save_meta(a.name, m)
    print("imported", d)


def cmd_verify(a):
    m = load_meta(a.name)
    d = os.path.join(VERIF, "seeded", a.name)
    patch = os.path.join(d, "patch.diff")
    demo = os.path.join(d, "demo.py")
    res = {}
    with Scratch(patch) as s:
        env = dict(os.environ, PYTHONPATH=s, PYTHONDONTWRITEBYTECODE="1", EQSIG_ROOT=s)
        rc, out = sh([PY, "-m", "pytest", "-q", "-p", "no:cacheprovider", "tests"], cwd=s, env=env)
        res["suite_with_patch"] = "pass" if rc == 0 else "FAIL: " + out[-300:]
        rc, out = sh([PY, demo], cwd=s, env=env, timeout=1200)
        res["demo_with_patch_rc"] = rc
        res["demo_with_patch_tail"] = out[-400:]
    with Scratch(None) as s:
        env = dict(os.environ, PYTHONPATH=s, PYTHONDONTWRITEBYTECODE="1", EQSIG_ROOT=s)
        rc, out = sh([PY, demo], cwd=s, env=env, timeout=1200)
        res["demo_clean_rc"] = rc
        res["demo_clean_tail"] = out[-300:]
    ok = res["suite_with_patch"] == "pass" and res["demo_with_patch_rc"] != 0 and res["demo_clean_rc"] == 0
    res["ok"] = ok
    res["commands"] = ["git worktree add --detach /tmp/seedchk_* HEAD; git apply patch.diff",
                       "PYTHONPATH=<wt> /venv/bin/python -m pytest -q -p no:cacheprovider tests",
                       "PYTHONPATH=<wt> /venv/bin/python demo.py   (with and without the patch)"]
    rc, head = sh(["git", "-C", REPO, "rev-parse", "--short", "HEAD"])
    res["at_commit"] = head.strip()
    m["verified"] = res
    save_meta(a.name, m)
    print(a.name, "VERIFIED" if ok else "NOT-VERIFIED", json.dumps({k: v for k, v in res.items() if k != "commands"})[:600])
    return 0 if ok else 1


def cmd_run(a):
    m = load_meta(a.name)
    d = os.path.join(VERIF, "seeded", a.name)
    props = a.props.upper().split(",") if a.props else [m["property"]]
    out_all = []
    with Scratch(os.path.join(d, "patch.diff")) as s:
        for prop in props:
            env = dict(os.environ, VERIF_EQSIG_PATH=s, VERIF_SEED=str(a.seed), VERIF_EVIDENCE_DIR=os.path.join(s, ".ev"),
                       VERIF_REPLAY_DIR=os.path.join(s, ".rp"))
            if a.no_corpus:
                env["VERIF_NO_CORPUS"] = "1"
            t0 = time.time()
            rc, out = sh([os.path.join(VERIF, "vcheck"), prop, "--tier", a.tier], cwd=VERIF, env=env, timeout=7200)
            lines = [l for l in out.splitlines() if l.startswith(("clause ", "corpus", "VIOLATION", "HARNESS", "INCONCLUSIVE"))]
            rec = {"property": prop, "tier": a.tier, "seed": a.seed, "rc": rc, "detected": rc == 1, "wall_s": round(time.time() - t0, 1),
                   "first_lines": [l[:300] for l in lines[:4]], "cmd": "VERIF_EQSIG_PATH=<patched worktree> ./vcheck %s --tier %s" % (prop, a.tier)}
            out_all.append(rec)
            print(a.name, prop, a.tier, "DETECTED" if rc == 1 else ("rc=%d NOT DETECTED" % rc), lines[0][:200] if lines else "")
    m["runs"] = [r for r in m.get("runs", []) if not any(r["property"] == o["property"] and r["tier"] == o["tier"] for o in out_all)] + out_all
    save_meta(a.name, m)
    return 0


def cmd_table(a):
    rows = []
    for mp in sorted(glob.glob(os.path.join(VERIF, "seeded", "*", "meta.json"))):
        m = json.load(open(mp))
        det = []
        for r in m.get("runs", []):
            det.append("%s/%s:%s" % (r["property"], r["tier"], "yes" if r["detected"] else "NO"))
        rows.append("| %s | %s | %s | %s | %s | %s |" % (m["name"], m["property"], (m.get("needs_to_manifest") or "")[:110],
                                                       "ok" if (m.get("verified") or {}).get("ok") else "?", ", ".join(det),
                                                       (m.get("status_note") or ("missed at first, see meta.json" if m.get("first_verdict") else "detected at first run"))[:160]))
    print("| seeded change | property | needs | verified | detected by (latest runs) | history |\n|---|---|---|---|---|---|")
    print("\n".join(rows))


def main():
    ap = argparse.ArgumentParser()
    sub = ap.add_subparsers(dest="cmd")
    p = sub.add_parser("import")
    p.add_argument("prop")
    p.add_argument("worktree")
    p.add_argument("k")
    p.add_argument("name")
    p.add_argument("--needs", default="")
    p = sub.add_parser("verify")
    p.add_argument("name")
    p = sub.add_parser("run")
    p.add_argument("name")
    p.add_argument("--tier", default="quick")
    p.add_argument("--props", default=None)
    p.add_argument("--seed", type=int, default=1)
    p.add_argument("--no-corpus", action="store_true")
    sub.add_parser("table")
    a = ap.parse_args()
    return {"import": cmd_import, "verify": cmd_verify, "run": cmd_run, "table": cmd_table}[a.cmd](a)


if __name__ == "__main__":
    sys.exit(main())
