#!/venv/bin/python
"""Discovery aid (not a check): for every call form of C05's registry, call the library once with the record in a narrow integer
container (int16 / int32, full range) and once with the same values as float64, and report forms whose results differ.
The result of an analysis function must depend on the values of the record, not on the integer dtype of its container."""
import os, sys, warnings
sys.path.insert(0, os.path.dirname(os.path.dirname(os.path.abspath(__file__))))
import numpy as np
from pbt import core, gen
core.import_eqsig()
from pbt.props import c05

warnings.simplefilter("ignore")
np.seterr(all="ignore")


def flat(x):
    if x is None:
        return []
    if hasattr(x, "values") and hasattr(x, "dt"):
        return [np.asarray(x.values, dtype=complex).ravel(), np.array([x.dt], dtype=complex)]
    if isinstance(x, (tuple, list)) and any(isinstance(v, (np.ndarray, tuple, list)) or hasattr(v, "values") for v in x):
        out = []
        for v in x:
            out += flat(v)
        return out
    try:
        return [np.asarray(x, dtype=complex).ravel()]
    except Exception:
        return []


def run(f, a, b, dt, seed):
    E = c05.Env(a, b, dt, seed)
    try:
        fn = c05._resolve(f.fn, E)
        args = tuple(c05._resolve(x, E) for x in f.args)
        kw = {k: c05._resolve(v, E) for k, v in f.kwargs.items()}
        try:
            return ("ok", flat(fn(*args, **kw)))
        except Exception as e:  # noqa
            return ("raise", "%s: %s" % (type(e).__name__, str(e)[:80]))
    finally:
        E.cleanup()


def main():
    n = int(sys.argv[1]) if len(sys.argv) > 1 else 64
    rs = np.random.RandomState(5)
    base = rs.standard_normal(n) * np.hanning(n) + 0.05
    base2 = rs.standard_normal(n)
    bad = []
    for dtype in ("int16", "int32", "int8"):
        ca, fa = gen.narrow_int(base, dtype)
        cb, fb = gen.narrow_int(base2, dtype)
        for name, f in sorted(c05.FORMS.items()):
            r_int = run(f, ca.copy(), cb.copy(), 0.01, 3)
            r_flt = run(f, fa.copy(), fb.copy(), 0.01, 3)
            if r_int[0] != r_flt[0]:
                bad.append((dtype, name, "int: %s / float: %s" % (r_int[0] if r_int[0] == "ok" else r_int[1], r_flt[0] if r_flt[0] == "ok" else r_flt[1])))
                continue
            if r_int[0] == "raise":
                continue
            A, B = r_int[1], r_flt[1]
            if len(A) != len(B) or any(x.shape != y.shape for x, y in zip(A, B)):
                bad.append((dtype, name, "shapes differ"))
                continue
            worst = 0.0
            for x, y in zip(A, B):
                if x.size:
                    fin = np.isfinite(y)
                    sc = np.max(np.abs(y[fin])) if np.any(fin) else 1.0
                    d = np.abs(np.where(fin, x - y, 0))
                    worst = max(worst, float(np.max(d) / (sc if sc > 0 else 1.0)))
                    if np.any(np.isfinite(x) != fin):
                        worst = max(worst, 1.0)
            if worst > 1e-9:
                bad.append((dtype, name, "relative difference %.3g" % worst))
    seen = set()
    for dtype, name, why in bad:
        print("%-6s %-70s %s" % (dtype, name, why))
    print("%d form x dtype pairs differ (of %d forms)" % (len(bad), len(c05.FORMS)))


if __name__ == "__main__":
    main()
