"""Per-property manifest texts."""
_NOTE = ("Trusted base: NumPy/SciPy numerics (incl. x87 long double), Hypothesis' generators, and the reference models in "
         "/verif/pbt (each written from the property statement; reference models are cross-validated where a closed form exists). "
         "Generated search never establishes absence; tolerances and domain narrowings are listed in the evidence 'assumptions'.")

CHECKS = {
    "C01": dict(
        level="Generated search over records x dt x periods x damping against an independent exact reference (long-double matrix exponential "
              "of the augmented ODE system), plus exact T=0-row / entry-point differentials; quick ~1.2k cases, thorough ~100k cases on 16 shards. "
              "Exploration is the right level: the property quantifies over a continuous input space with a floating-point tolerance.",
        note=_NOTE + " One open known finding (C01-KF1: rounding above the stated allowance for T/dt >= 1000) is routed to a relaxed bound.",
        technique="property-based testing (Hypothesis): reference-model oracle (long-double expm) + differential between entry points"),
    "C02": dict(
        level="Metamorphic generated search: linearity, spectra scaling/sign laws (bitwise for +-2^k), causality and time shift (bitwise), "
              "period permutation/partition/single calls, refinement x2..8; ~2.4k cases quick, ~190k thorough.",
        note=_NOTE,
        technique="property-based testing (Hypothesis): metamorphic relations with derived rounding bounds"),
    "C08": dict(
        level="Generated search over records (float/int/list), dt and integration mode against a long-double loop over the defining increments "
              "(equality on dyadic data), closed forms for constant/linear acceleration, exact peak / sign / 2^k laws.",
        note=_NOTE,
        technique="property-based testing (Hypothesis): reference-model + metamorphic oracles"),
}

NOT_APPLICABLE = {}

NOTES = ("All checks: ./vcheck <ID> [--tier quick|thorough] [--replay FILE]; VERIF_SEED honoured; exit 0 held / 1 VIOLATION / 2 harness error or "
         "inconclusive. Known findings: known_findings.json (committed, read-only at run time). Sensitivity mutants: selftest/. "
         "Seeded breaking changes from independent sub-agents: seeded/.")
