"""Per-property manifest texts."""
_NOTE = ("Trusted base: NumPy/SciPy numerics (incl. x87 long double), Hypothesis' generators, and the reference models in "
         "/verif/pbt (each written from the property statement; reference models are cross-validated where a closed form exists). "
         "Generated search never establishes absence; tolerances and domain narrowings are listed in the evidence 'assumptions'. "
         "Every check also spells optional arguments positionally (pinned signature order) in one case out of three, varies parameter "
         "containers / dtypes / memory layouts where the property takes arrays, and - where DESIGN 8.5 lists one - runs a fixed "
         "enumeration of giant cases next to the random search. Since session 4 every module also runs `mid-range*` enumerations: size "
         "ladders (one size per logarithmic bin between the random generators' ~3e3 and the giant lists' 2^20, for every size dimension - samples, "
         "periods / targets / rows / exponents - and for products of two, placed by a hash of VERIF_SEED, plus sizes aimed at the integer literals "
         "of the source under test) with the whole output checked, option cross products, and object histories at those sizes (DESIGN 8.5 round 5, 8.6). "
         "Records are float64 / int64 / full-range int16, int32, int8 / list containers in several memory layouts (single-precision RECORDS and the "
         "process-global numpy error state are outside the claimed domain, DESIGN 8.5 'limits').")

CHECKS = {
    "C01": dict(
        level="Generated search over records x dt x periods x damping against an independent exact reference (long-double matrix exponential "
              "of the augmented ODE system), plus exact T=0-row / entry-point differentials; quick ~1.2k cases, thorough ~100k cases on 16 shards. "
              "Exploration is the right level: the property quantifies over a continuous input space with a floating-point tolerance.",
        note=_NOTE + " One open known finding (C01-KF1: rounding above the stated allowance for T/dt >= 1000) is routed to a relaxed bound.",
        technique="property-based testing (Hypothesis): reference-model oracle (long-double expm) + differential between entry points"),
    "C02": dict(
        level="Metamorphic generated search: linearity, spectra scaling/sign laws (bitwise for +-2^k), causality and time shift (bitwise), "
              "period permutation/partition/single calls, refinement x2..8; ~2.4k cases quick, ~190k thorough.",
        note=_NOTE,
        technique="property-based testing (Hypothesis): metamorphic relations with derived rounding bounds"),
    "C03": dict(
        level="Generated search: spectra vs max|.| of the library's own series (exact) and vs the long-double exact series (C01 bound), pseudo relations "
              "and the 6-step rule with an ambiguity band, list/tuple/ndarray periods, object API via an existence-of-refinement sandwich oracle for "
              "min_dt_ratio in {1,2,4,8}, energy spectra vs defining sums, spectrum intensities; ~2.9k cases quick, ~100k thorough.",
        note=_NOTE + " Open known finding C03-KF1 (rectangle-rule input energy not sign-definite) routes negative energies that equal the defining sum.",
        technique="property-based testing (Hypothesis): differential + reference-model oracles"),
    "C04": dict(
        level="Complete enumeration of observational cache state (2^7 / 2^2) x 24 mutators/settings changes x 15 observables, and of cache state x read x "
              "other observable (read isolation), plus a Hypothesis rule-based state machine over random histories (24 mutator rules with generated "
              "arguments, reads, explicit regeneration calls); oracle = a freshly constructed object.",
        note=_NOTE + " The enumeration is complete for the fixed records used (quick n=96; thorough n in {95,96,128}); histories are sampled.",
        technique="stateful property-based testing (Hypothesis RuleBasedStateMachine) + exhaustive enumeration of the cache-state space; differential oracle (fresh object)"),
    "C05": dict(
        level="Hypothesis rule-based state machine over ownership histories (caller containers with byte snapshots; construct / reset_values / 15 mutators / "
              "caller writes; invariants after every step), Cluster.time_match/same_start value-type invariant, and a registry of 100 public call forms each "
              "called twice per generated record with argument snapshots before/after and repeatability of results.",
        note=_NOTE + " Functions that reject a container type (lists for some array functions) are counted as rejected; their inputs must still be unchanged.",
        technique="stateful property-based testing (Hypothesis RuleBasedStateMachine) + generated differential (snapshot before/after, call twice)"),
    "C06": dict(
        level="Generated search over records of every length class (odd, 2^e-1/2^e/2^e+1, up to 2000), dt, p2_plus, explicit n, padded/unpadded, Signal/AccSignal "
              "against a direct O(N^2) DFT; linearity / trailing-zero / Parseval laws; inverse helper round trip for every even N; dominant period on "
              "on-grid sinusoids with drawn phase; ~1.6k quick, ~160k thorough.",
        note=_NOTE,
        technique="property-based testing (Hypothesis): reference-model (direct DFT), metamorphic and round-trip oracles"),
    "C07": dict(
        level="Generated search against a long-double per-target loop of the Konno-Ohmachi definition with a derived conditioning bound: direct form, deprecated alias, "
              "object level after every setter, matrix entries / column sums / matrix-vs-direct form, range / constant / scaling / additivity consequences, bandwidth "
              "limits against a margin-filtered scan; targets exactly on, ulps beside, inside and far outside the Fourier grid; ~2k quick, ~190k thorough.",
        note=_NOTE,
        technique="property-based testing (Hypothesis): reference-model, differential and metamorphic oracles"),
    "C08": dict(
        level="Generated search over records (float/int/list), dt and integration mode against a long-double loop over the defining increments "
              "(equality on dyadic data), closed forms for constant/linear acceleration, exact peak / sign / 2^k laws.",
        note=_NOTE,
        technique="property-based testing (Hypothesis): reference-model + metamorphic oracles"),
    "C09": dict(
        level="Generated search against long-double quadrature references for seven cumulative measures (length, exact monotonicity, first/final values), "
              "sign / 2^k (bitwise) / general-alpha scaling and zero-padding laws, and a window-bracket oracle for standardised CAV over integer sampling rates "
              "incl. the float-boundary families (1/dt and k*ns*dt rounding below the integer); ~2.4k quick, ~150k thorough.",
        note=_NOTE,
        technique="property-based testing (Hypothesis): reference-model + metamorphic oracles"),
    "C10": dict(
        level="Generated search against loop references with a +-1e-9 margin bracket for strict thresholds, an exact rational 'ties' clause on dyadic data "
              "(decides strict vs non-strict without a margin), scaling / prepend / nesting laws, bracketed duration incl. no-exceedance; ~3.6k quick, ~210k thorough.",
        note=_NOTE,
        technique="property-based testing (Hypothesis): reference-model (long double / exact rational) + metamorphic oracles"),
    "C11": dict(
        level="Complete enumeration of every non-constant sequence over {0..4} and {-2..2} up to length 8 (976k series, quick: length 7) x ptype all/max/min "
              "against a plateau-based reference AND the statement's validity predicate, plus generated long / plateau-rich / offset series and the cycle counter.",
        note=_NOTE + " The enumeration is complete for the stated alphabets and lengths; longer series are sampled.",
        technique="exhaustive enumeration of small alphabets + property-based testing (Hypothesis): reference-model and validity-predicate oracles"),
    "C12": dict(
        level="Complete enumeration over {-2..2} up to length 8 and {-3..3} up to length 6 (625k series) for zero crossings (both modes) and switched peaks "
              "(statement predicates + canonical reference), enumerated and generated tolerance cases (subsequence relation), generated structured series up to 5000.",
        note=_NOTE + " Open known finding C12-KF1 (tol > 0 opening group) routes extras that precede the first peak >= tol.",
        technique="exhaustive enumeration of small alphabets + property-based testing (Hypothesis): reference-model, validity-predicate and metamorphic (subsequence) oracles"),
    "C13": dict(
        level="Generated search: total-variation identities (equality on integer/dyadic data), offset independence, and the power-law cycle/amplitude series "
              "against a reference built from the reference switched peaks; inverse, scaling, identical-component and array-b relations; ~1.2k quick, ~88k thorough.",
        note=_NOTE,
        technique="property-based testing (Hypothesis): reference-model + metamorphic oracles"),
    "C14": dict(
        level="Generated search over (dt, target) pairs (independent, commensurate, thousandths, +-ulp neighbours of integer quotients, equal) with exact rational step/"
              "ratio/length rules, bitwise retention on refinement, subsequence on decimation, range; Fourier resampling of band-limited periodic signals built in long "
              "double; ~4k quick, ~320k thorough.",
        note=_NOTE + " Open known finding C14-KF1 (reported step != SciPy's actual spacing for incommensurate lengths) routes those cases to reproduction on SciPy's grid.",
        technique="property-based testing (Hypothesis): validity-predicate (exact rationals) + reference-model oracles"),
    "C15": dict(
        level="Generated search against a long-double O(n^2) evaluation of the S-transform definition (n <= 160) and its per-row inverse-FFT form (n <= 1024); both "
              "implementations, linearity, Fourier marginal, inverse, dominant frequency on on-grid cosines with drawn phase; ~3k quick, ~37k thorough.",
        note=_NOTE,
        technique="property-based testing (Hypothesis): reference-model, differential and round-trip oracles"),
    "C16": dict(
        level="Round trip through real files in a per-process temporary directory over records (tiny/large/negative/integer values, float/int/list), dt in "
              "[1e-4,100] on both sides of 1 s, labels over printable ASCII, every loader entry point and factor m; ~1k quick, ~80k thorough.",
        note=_NOTE + " 'Same to 6 / 4 decimals' is read literally (within half a unit of the last kept decimal).",
        technique="property-based testing (Hypothesis): save/load round-trip oracle with a rational model of the format's rounding"),
    "C17": dict(
        level="Generated search: sinusoids in pass / transition / stop band against the closed-form squared digital Butterworth gain (validated against scipy's zpk "
              "design at import) for all types, orders 1-4, Gibbs modes and cut-off containers; linearity with a conditioning-scaled bound; detrending via an orthonormal "
              "polynomial basis (projection, idempotence, invariance); exact element-wise adds and required rejections; running average against a long-double loop; "
              "~1.9k quick, ~115k thorough.",
        note=_NOTE + " Open known finding C17-KF1 (ill-conditioned (b, a) band-pass designs) routes designs failing the conditioning guard to length/dt checks only.",
        technique="property-based testing (Hypothesis): reference-model (analytic gain, projections), metamorphic and rejection oracles"),
    "C18": dict(
        level="Generated search: rotation against a long-double reference and exact-rational angle grid, rotated-measure scans for named parameters and callables "
              "(bitwise vs per-angle measures), lag matching on clusters of 2-4 lagged copies of a record with pairwise distinct samples (equal and unequal "
              "lengths, any master, both lag signs, extreme lags), same-start alignment for any master / number of signals / section; ~2.7k quick, ~160k thorough.",
        note=_NOTE,
        technique="property-based testing (Hypothesis): reference-model and constructed-ground-truth (known lag) oracles"),
    "C19": dict(
        level="Generated search against a long-double loop reference of the shifted-wave definition (fractional / whole / half-sample delays, scalar and array "
              "reductions, all eight nodal x trim x start triples), cumulative-energy laws (bitwise for 2^k), batch-vs-single rows, and the integer shift helpers "
              "with equality; ~1.6k quick, ~128k thorough.",
        note=_NOTE + " Delays within 1e-9 of a whole number of samples are ambiguous and bracket-checked.",
        technique="property-based testing (Hypothesis): reference-model + metamorphic oracles"),
    "C20": dict(
        level="Generated search against loop references for interp2d / interp_left / rolling average / step-fit error and levels, NZS 1170.5 identities, one-sided "
              "limits and rejections, plus a complete geometric grid scan of the design-spectrum functions (enumeration); ~4k quick, ~400k thorough.",
        note=_NOTE + " Open known finding C20-KF1 (integer-dtype truncation of the step-fit error) routes integer inputs to a truncation bracket.",
        technique="property-based testing (Hypothesis): reference-model oracles + exhaustive grid scan"),
}

NOT_APPLICABLE = {}


def _extend_levels():
    """Append the clause list actually registered in each module (names, kinds) and the evaluation count of the committed
    quick evidence to the level text, so that the manifest cannot drift from the code."""
    import importlib
    import json
    import os
    import sys
    verif = os.path.dirname(os.path.dirname(os.path.abspath(__file__)))
    if verif not in sys.path:
        sys.path.insert(0, verif)
    os.environ.setdefault("VERIF_TIER", "quick")
    try:
        from pbt import core
        core.import_eqsig()
    except Exception:  # noqa
        return
    for pid, c in CHECKS.items():
        try:
            mod = importlib.import_module("pbt.props.%s" % pid.lower())
        except Exception:  # noqa
            continue
        names = []
        for cl in mod.CLAUSES:
            kind = {"hyp": "generated", "enum": "enumeration", "machine": "state machine"}[cl.kind]
            if getattr(cl, "thorough_only", False):
                kind += ", thorough only"
            names.append("%s (%s)" % (cl.name, kind))
        ev = ""
        try:
            e = json.load(open(os.path.join(verif, "evidence", pid + ".json")))
            if e.get("tier") == "quick":
                ev = " Committed quick evidence (seed %s): %d evaluations, %d distinct non-trivial." % (
                    e.get("seed"), e["coverage"]["evaluations"], e["coverage"]["distinct_nontrivial"])
        except Exception:  # noqa
            pass
        c["level"] = c["level"] + " Clauses as registered: " + "; ".join(names) + "." + ev + \
            " (Case counts quoted earlier in this text date from the first build; the clause list and the evidence file are current.)"


_extend_levels()

NOTES = ("All checks: ./vcheck <ID> [--tier quick|thorough] [--replay FILE]; VERIF_SEED honoured; exit 0 held / 1 VIOLATION / 2 harness error or "
         "inconclusive. Known findings: known_findings.json (committed, read-only at run time). Sensitivity mutants: selftest/. "
         "Seeded breaking changes from independent sub-agents: seeded/.")
