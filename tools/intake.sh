#!/bin/bash
# tools/intake.sh <PROP> <worktree> <name1> <name2> [norun]: import + verify (+ run) the two seeded changes of one sub-agent
P=$1; WT=$2; N1=$3; N2=$4
r=$(basename $(dirname $WT))
p=$(echo $P | tr A-Z a-z)
for k in 1 2; do
  eval n=\$N$k
  name="$r-$p-$n"
  /venv/bin/python tools/seeded.py import $P $WT $k $name --needs "see REPORT: $n" >/dev/null
  cp $WT/REPORT.txt seeded/$name/REPORT.txt
  /venv/bin/python tools/seeded.py verify $name | cut -c1-400
  if [ "$5" != "norun" ]; then /venv/bin/python tools/seeded.py run $name --no-corpus | cut -c1-400; fi
done
