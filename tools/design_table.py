#!/venv/bin/python
"""Print the per-property table of DESIGN 8.2 (clauses, kinds, quick evaluations, quick wall) from the modules and evidence/*.json."""
import json, os, sys
VERIF = os.path.dirname(os.path.dirname(os.path.abspath(__file__)))
sys.path.insert(0, VERIF)
os.environ.setdefault("VERIF_TIER", "quick")
from pbt import core
core.import_eqsig()
import importlib
rows = []
for i in range(1, 21):
    p = "C%02d" % i
    mod = importlib.import_module("pbt.props.c%02d" % i)
    ev = {}
    try:
        ev = json.load(open(os.path.join(VERIF, "evidence", p + ".json")))
    except Exception:
        pass
    pc = ev.get("coverage", {}).get("per_clause", {})
    cl = []
    for c in mod.CLAUSES:
        tag = {"hyp": "", "enum": " (enum)", "machine": " (machine)"}[c.kind]
        if getattr(c, "thorough_only", False):
            tag = " (enum, thorough only)"
        n = pc.get(c.name, {}).get("evaluations")
        cl.append("%s%s%s" % (c.name, tag, " %d" % n if n else ""))
    rows.append("| %s | %s | %s | %s s |" % (p, "; ".join(cl), ev.get("coverage", {}).get("evaluations", "?"), ev.get("wall_s", "?")))
print("| property | clauses (kind) and quick evaluations at seed 1 | quick evaluations | quick wall |\n|---|---|---|---|")
print("\n".join(rows))
