#!/venv/bin/python
"""Compare generator-health floors (min_nontrivial, require=) with the shares observed in a set of evidence directories
(e.g. the scratch output of selftest/quiet.py).  usage: tools/health_margins.py <dir-with-ev*/> [--factor 0.6]"""
import glob
import importlib
import json
import os
import sys

VERIF = os.path.dirname(os.path.dirname(os.path.abspath(__file__)))
sys.path.insert(0, VERIF)
os.environ.setdefault("VERIF_TIER", "quick")
from pbt import core  # noqa
core.import_eqsig()
base = sys.argv[1]
factor = float(sys.argv[sys.argv.index("--factor") + 1]) if "--factor" in sys.argv else 0.6
obs = {}
for f in glob.glob(os.path.join(base, "ev*", "C*.json")):
    e = json.load(open(f))
    for cl, pc in e["coverage"]["per_clause"].items():
        ev = pc["evaluations"]
        if not ev:
            continue
        d = obs.setdefault((e["property_id"], cl), {"nt": [], "classes": {}})
        d["nt"].append(pc["distinct_nontrivial"] / ev)
        for k, v in pc["classes"].items():
            d["classes"].setdefault(k, []).append(v / ev)
        d.setdefault("n", 0)
        d["n"] += 1
bad = 0
for prop in sorted(set(k[0] for k in obs)):
    mod = importlib.import_module("pbt.props.%s" % prop.lower())
    for cl in mod.CLAUSES:
        d = obs.get((prop, cl.name))
        if not d:
            continue
        mn = min(d["nt"])
        if cl.kind != "enum" and cl.min_nontrivial > factor * mn:
            bad += 1
            print("%s %-22s min_nontrivial floor %.2f vs observed min %.3f over %d runs" % (prop, cl.name, cl.min_nontrivial, mn, d["n"]))
        for lab, fl in cl.require.items():
            shares = d["classes"].get(lab, [])
            m = min(shares) if len(shares) == d["n"] else 0.0
            if fl > factor * m:
                bad += 1
                print("%s %-22s require[%r] floor %.3f vs observed min %.3f" % (prop, cl.name, lab, fl, m))
print("%d floors with less than the requested margin" % bad)
