#!/venv/bin/python
"""Regenerate MANIFEST.json from tools/manifest_data.py (claimed checks) and properties.jsonl; validates against the schema if jsonschema is importable."""
import json
import os
import sys

HERE = os.path.dirname(os.path.abspath(__file__))
VERIF = os.path.dirname(HERE)
sys.path.insert(0, HERE)
import manifest_data as md  # noqa

props = [json.loads(l)["id"] for l in open(os.path.join(VERIF, "properties.jsonl"))]
checks = []
for p in props:
    if p not in md.CHECKS:
        continue
    c = md.CHECKS[p]
    if not os.path.exists(os.path.join(VERIF, "pbt", "props", p.lower() + ".py")):
        raise SystemExit("claimed %s but no module" % p)
    checks.append({
        "property_id": p,
        "quick_cmd": "./vcheck %s --tier quick" % p,
        "thorough_cmd": "./vcheck %s --tier thorough" % p,
        "evidence_file": "evidence/%s.json" % p,
        "replay_cmd_template": "./vcheck %s --replay {path}" % p,
        "engine": "pbt-runner",
        "level_claimed": {"category": "exploration", "text": c["level"], "design_ref": "DESIGN.md §3 " + p},
        "level_note": c["note"],
        "technique": c["technique"],
    })
na = [{"property_id": p, "reason": md.NOT_APPLICABLE.get(p, "check not built yet (work in progress); planned generated-search check is described in DESIGN.md §3")}
      for p in props if p not in md.CHECKS]
m = {
    "version": 1,
    "setup_cmd": "./setup.sh",
    "hooks": {
        "guard": "ENG_TOOLS_EQSIG_VERIF",
        "enable": "no source hooks are needed: every property is observable through the public API; each check imports eqsig from /repo's current working tree in a fresh process (pure Python, nothing to build)",
        "baseline_off_cmd": "cd /repo && /venv/bin/python -m pytest -ra -q -p no:cacheprovider --timeout=900 --continue-on-collection-errors",
        "source_commits": [],
        "add_only": True,
    },
    "engines": [{"name": "pbt-runner", "path": "pbt/runner.py", "serves_properties": [c["property_id"] for c in checks],
                 "kind_free_text": "Hypothesis-driven generated search (given / stateful histories) plus exhaustive enumeration of small finite spaces, each against an explicit oracle (reference model, differential, metamorphic, round trip); shrunk failures become replay files"}],
    "checks": checks,
    "not_applicable": na,
    "notes": md.NOTES,
}
json.dump(m, open(os.path.join(VERIF, "MANIFEST.json"), "w"), indent=1)
try:
    import jsonschema
    jsonschema.validate(m, json.load(open("/root/.vp/MANIFEST.schema.json")))
    print("manifest valid; %d checks, %d not_applicable" % (len(checks), len(na)))
except ImportError:
    print("manifest written (jsonschema not importable here; validate with python3-vt)")
