#!/bin/bash
# Offline setup: make sure Hypothesis is importable by /venv/bin/python (it is on this image).
cd "$(dirname "$0")" || exit 1
PY=${VERIF_PYTHON:-/venv/bin/python}
if ! "$PY" -c 'import hypothesis, numpy, scipy' >/dev/null 2>&1; then
  "$PY" -m pip install -q --no-index --find-links /opt/veriftools/wheels --target .deps hypothesis || exit 1
fi
PYTHONPATH="$PWD/.deps" "$PY" -c 'import hypothesis, numpy, scipy; print("hypothesis", hypothesis.__version__, "numpy", numpy.__version__, "scipy", scipy.__version__)'
