MUTANTS = [
    dict(id="c02-clip", prop="C02", file="eqsig/sdof.py",
         old="    acc = -np.array(acc, dtype=float)\n", new="    acc = -np.clip(np.array(acc, dtype=float), -1e7, 1e7)\n",
         why="nonlinear for very large amplitudes only"),
    dict(id="c02-noncausal-mean", prop="C02", file="eqsig/sdof.py",
         old="    acc = -np.array(acc, dtype=float)\n", new="    acc = -np.array(acc, dtype=float)\n    acc = acc - 1e-7 * acc.mean()\n",
         why="tiny non-causal baseline removal"),
    dict(id="c02-index-dependent", prop="C02", file="eqsig/sdof.py",
         old="        resp_v[s:, i + 1] = (a[1][0]", new="        resp_v[s:, i + 1] = (1 - 1e-7 * (i % 16 == 15)) * (a[1][0]",
         why="response depends on the absolute sample index (breaks shift invariance)"),
    dict(id="c02-sorted-periods", prop="C02", file="eqsig/sdof.py",
         old="    w = 6.2831853 / periods[s:]\n", new="    w = 6.2831853 / np.sort(periods[s:])\n",
         why="rows silently reordered to ascending periods"),
    dict(id="c02-staircase-load", prop="C02", file="eqsig/sdof.py",
         old="b[0][0] * acc[i] + b[0][1] * acc[i + 1])\n        resp_v", new="b[0][0] * acc[i] + b[0][1] * acc[i])\n        resp_v",
         why="displacement load treated as piecewise constant: not refinement invariant"),
    dict(id="c02-absmax", prop="C02", file="eqsig/sdof.py",
         old="    return abs(np.where(-amin > amax, amin, amax))", new="    return abs(amax)",
         why="spectra ignore negative peaks: sign reversal changes them"),
    dict(id="c02-true-spectra-shared-max", prop="C02", file="eqsig/sdof.py",
         old="    svs = absmax(resp_v, axis=1)\n", new="    svs = absmax(resp_v, axis=1)\n    if len(svs) > 3:\n        svs = np.maximum(svs, 1e-6 * svs.max())\n",
         why="true S_v of one period depends on the others in big batches"),
]

# ---- window mutants (mid-range enumerations): below the threshold the pinned code runs, above it a subtly wrong variant
_LOOP = "    for i in range(len(acc) - 1):  # possibly speed up using scipy.signal.lfilter\n"
_BODY = ("        resp_u[s:, i + 1] = (a[0][0] * resp_u[s:, i] + a[0][1] * resp_v[s:, i] + b[0][0] * acc[i] + b[0][1] * acc[i + 1])\n"
         "        resp_v[s:, i + 1] = (a[1][0] * resp_u[s:, i] + a[1][1] * resp_v[s:, i] + b[1][0] * acc[i] + b[1][1] * acc[i + 1])\n")
_CMT = "        # x_i+1 = A cross (u, v) + B cross (acc_i, acc_i+1)  # Eq 2.7a\n"
_ALLOC = ("    resp_u = np.zeros([len(periods), len(acc)], dtype=float)\n"
          "    resp_v = np.zeros([len(periods), len(acc)], dtype=float)\n")
_PSEUDO = ("    resp_u, resp_v, resp_a = nigam_and_jennings_response(motion, dt, periods, xi)\n\n"
           "    sds = absmax(resp_u, axis=1)\n")
_TRUE = ("    resp_u, resp_v, resp_a = nigam_and_jennings_response(motion, dt, periods, xi)\n"
         "    sas = absmax(resp_a, axis=1)\n")
MUTANTS += [
    dict(id="c02-w-seam-load-5000", prop="C02", file="eqsig/sdof.py", old=_LOOP + _CMT + _BODY,
         new="    seam = 2048 if len(acc) > 5000 else 0\n" + _LOOP +
             "        j = i if (seam and i >= 2 * seam and i % seam == 0) else i + 1  # first step of a block reuses the previous sample\n" +
             _BODY.replace("acc[i + 1]", "acc[j]"),
         why="window: records longer than 5 000 samples are integrated in blocks of 2048 steps aligned to the absolute index; from the "
             "third block on the first step of a block takes the old load sample (not shift invariant, not refinement invariant)"),
    dict(id="c02-w-pseudo-decimated-peak-2e6", prop="C02", file="eqsig/sdof.py", old=_PSEUDO,
         new="    resp_u, resp_v, resp_a = nigam_and_jennings_response(motion, dt, periods, xi)\n\n"
             "    if len(periods) * len(motion) > 2000000:\n        sds = absmax(resp_u[:, ::2], axis=1)  # every other sample\n"
             "    else:\n        sds = absmax(resp_u, axis=1)\n",
         why="window: above 2e6 response values pseudo_response_spectra takes the peak over every other sample"),
    dict(id="c02-w-true-dropped-tail-20000", prop="C02", file="eqsig/sdof.py", old=_TRUE,
         new="    resp_u, resp_v, resp_a = nigam_and_jennings_response(motion, dt, periods, xi)\n"
             "    if resp_u.shape[1] > 20000:  # reduce over whole blocks of 8192 samples\n"
             "        m = (resp_u.shape[1] // 8192) * 8192\n"
             "        resp_u, resp_v, resp_a = resp_u[:, :m], resp_v[:, :m], resp_a[:, :m]\n"
             "    sas = absmax(resp_a, axis=1)\n",
         why="window: for records longer than 20 000 samples true_response_spectra reduces over whole blocks of 8192 samples, the last "
             "partial block is dropped"),
    dict(id="c02-w-period-block-sorted-100", prop="C02", file="eqsig/sdof.py",
         old="    w = 6.2831853 / periods[s:]\n",
         new="    w = 6.2831853 / periods[s:]\n    if len(w) > 100:\n        for j0 in range(0, len(w), 64):\n"
             "            w[j0:j0 + 64] = np.sort(w[j0:j0 + 64])  # 'monotone blocks vectorise better'\n",
         why="window: with more than 100 periods the oscillators are sorted inside blocks of 64 and never unsorted: a row depends on its neighbours"),
    dict(id="c02-w-float32-state-70000", prop="C02", file="eqsig/sdof.py", old=_ALLOC,
         new="    st = np.float32 if len(acc) > 70000 else float\n"
             "    resp_u = np.zeros([len(periods), len(acc)], dtype=st)\n    resp_v = np.zeros([len(periods), len(acc)], dtype=st)\n",
         why="window: for records longer than 70 000 samples the state arrays are single precision: superposition holds to 1e-7 only"),
    dict(id="c02-w-product-baseline-3e5", prop="C02", file="eqsig/sdof.py",
         old="    periods = np.array(periods, dtype=float)\n    if periods[0] == 0:\n        s = 1\n    else:\n        s = 0\n    w = 6.2831853 / periods[s:]\n",
         new="    periods = np.array(periods, dtype=float)\n    if len(periods) * len(acc) > 300000:\n        acc = acc - 1e-6 * acc.mean()\n"
             "    if periods[0] == 0:\n        s = 1\n    else:\n        s = 0\n    w = 6.2831853 / periods[s:]\n",
         why="window: above 3e5 response values a tiny (non-causal) baseline is removed from the record"),
    dict(id="c02-w-absmax-row-blocks-700", prop="C02", file="eqsig/sdof.py",
         old="def absmax(a, axis=None):\n",
         new="def absmax(a, axis=None):\n    if axis == 1 and a.shape[0] > 700:  # row blocks of 256\n"
             "        out = np.zeros(a.shape[0])\n        m = (a.shape[0] // 256) * 256\n"
             "        out[:m] = np.abs(a[:m]).max(axis=1)\n        return out\n",
         why="window: with more than 700 rows the row-wise peak is taken over whole blocks of 256 rows; the last partial block stays zero"),
    dict(id="c02-w-pseudo-float32-1.5e7", prop="C02", file="eqsig/sdof.py",
         old="    resp_u, resp_v, resp_a = nigam_and_jennings_response(motion, dt, periods, xi)\n\n    sds",
         new="    if len(periods) * len(motion) > 15000000:\n        motion = np.asarray(motion, dtype=np.float32)\n"
             "    resp_u, resp_v, resp_a = nigam_and_jennings_response(motion, dt, periods, xi)\n\n    sds",
         why="window: above 1.5e7 response values pseudo_response_spectra reads the record in single precision"),
    # behaviour-preserving window refactorings: must stay quiet
    dict(id="c02-s-streamed-peak-correct", prop="C02", file="eqsig/sdof.py", expect="survive", old=_PSEUDO,
         new="    if len(periods) * len(motion) > 2 ** 21:  # running peak instead of the full arrays (simultaneous update of u and v)\n"
             "        acc_ = -np.array(motion, dtype=float)\n        s_ = 1 if periods[0] == 0 else 0\n"
             "        a_, b_ = compute_a_and_b(float(xi), 6.2831853 / periods[s_:], float(dt))\n"
             "        u_ = np.zeros(len(periods) - s_)\n        v_ = np.zeros(len(periods) - s_)\n        sds = np.zeros(len(periods))\n"
             "        for i_ in range(len(acc_) - 1):\n"
             "            u_, v_ = (a_[0][0] * u_ + a_[0][1] * v_ + b_[0][0] * acc_[i_] + b_[0][1] * acc_[i_ + 1],\n"
             "                      a_[1][0] * u_ + a_[1][1] * v_ + b_[1][0] * acc_[i_] + b_[1][1] * acc_[i_ + 1])\n"
             "            np.maximum(sds[s_:], np.abs(u_), out=sds[s_:])\n"
             "    else:\n"
             "        resp_u, resp_v, resp_a = nigam_and_jennings_response(motion, dt, periods, xi)\n        sds = absmax(resp_u, axis=1)\n",
         why="correct streamed peak displacement above 2^21 response values (the seeded r5 change without its defect): must not raise an alarm"),
    dict(id="c02-s-period-blocked-correct", prop="C02", file="eqsig/sdof.py", expect="survive", old=_LOOP + _CMT + _BODY,
         new="    for j0 in range(s, len(periods), 128):  # oscillators advanced in blocks of 128\n"
             "        a, b = compute_a_and_b(xi, 6.2831853 / periods[j0:j0 + 128], dt)\n"
             "        u, v = resp_u[j0:j0 + 128], resp_v[j0:j0 + 128]\n"
             "        for i in range(len(acc) - 1):\n"
             "            u[:, i + 1] = (a[0][0] * u[:, i] + a[0][1] * v[:, i] + b[0][0] * acc[i] + b[0][1] * acc[i + 1])\n"
             "            v[:, i + 1] = (a[1][0] * u[:, i] + a[1][1] * v[:, i] + b[1][0] * acc[i] + b[1][1] * acc[i + 1])\n",
         why="correct period-blocked time loop: must not raise an alarm"),
]
MUTANTS += [
    dict(id="c02-obj-sorted-periods", prop="C02", file="eqsig/single.py",
         old="dh.pseudo_response_spectra(values_interp, dt_interp, self.response_times, xi)",
         new="dh.pseudo_response_spectra(values_interp, dt_interp, np.sort(self.response_times), xi)",
         why="object spectra silently reordered to ascending periods (permutation law on AccSignal.s_d / s_v / s_a)"),
    dict(id="c02-obj-coarser-step", prop="C02", file="eqsig/single.py",
         old="        if target_dt < self.dt:\n            values_interp, dt_interp = interp_array_to_approx_dt(self.values, self.dt, target_dt, even=False)\n",
         new="        if target_dt < self.dt:\n            values_interp, dt_interp = interp_array_to_approx_dt(self.values, self.dt, target_dt, even=False)\n"
             "            values_interp = values_interp[1::2]\n            dt_interp = dt_interp * 2\n",
         why="object spectra computed on every other sample of the refined record, shifted by half a step (not a refinement of the raw "
             "record: the spectra can fall below those of the raw record)"),
    dict(id="c02-true-sv-parabola", prop="C02", file="eqsig/sdof.py",
         old="    svs = absmax(resp_v, axis=1)\n",
         new="    svs = absmax(resp_v, axis=1)\n    if resp_v.shape[1] > 2:\n"
             "        i_ = np.clip(np.argmax(abs(resp_v), axis=1), 1, resp_v.shape[1] - 2)\n        r_ = np.arange(resp_v.shape[0])\n"
             "        y0_, y1_, y2_ = abs(resp_v[r_, i_ - 1]), abs(resp_v[r_, i_]), abs(resp_v[r_, i_ + 1])\n"
             "        c_ = y0_ - 2 * y1_ + y2_\n        svs = np.where(c_ < 0, y1_ - 0.125 * (y2_ - y0_) ** 2 / np.where(c_ < 0, c_, -1.0), svs)\n",
         why="true S_v estimated by a three-point parabolic peak fit (refinement law on true spectra: the estimate of the raw record "
             "exceeds that of the refined one)"),
]

# ---- survivors reported by the audit of C02 (notes/audit/C02.md section 5)
MUTANTS += [
    dict(id="c02-a-s1-setter-keeps-cache-for-same-set", prop="C02", file="eqsig/single.py",
         old="        self._response_times = values\n        self._cached_response_spectra = False\n",
         new="        old = getattr(self, '_response_times', None)\n        self._response_times = values\n"
             "        if old is None or sorted(np.asarray(old, float).tolist()) != sorted(np.asarray(values, float).tolist()):\n"
             "            self._cached_response_spectra = False\n",
         why="audit S1: the response_times setter keeps the cached spectra when the new list holds the same periods in another order"),
    dict(id="c02-a-s2-dt-rounded-12-digits", prop="C02", file="eqsig/sdof.py",
         old="    dt = float(dt)\n    xi = float(xi)\n", new="    dt = round(float(dt), 12)\n    xi = float(xi)\n",
         why="audit S2: dt and dt/m are rounded differently, the refined run integrates a slightly different step"),
    dict(id="c02-a-s3-negate-in-record-dtype", prop="C02", file="eqsig/sdof.py",
         old="    acc = -np.array(acc, dtype=float)\n", new="    acc = np.negative(acc).astype(float)\n",
         why="audit S3: the sign flip happens in the record's dtype - unsigned and most-negative integer samples wrap around"),
    dict(id="c02-a-s4-true-sa-t0-float32", prop="C02", file="eqsig/sdof.py",
         old="    sas = np.where(periods < dt * 6, absmax(motion), sas)\n    return sds, svs, sas\n\n\n# def plot_response_spectra",
         new="    sas = np.where(periods < dt * 6, absmax(motion), sas)\n    if periods[0] == 0:\n        sas[0] = np.float32(sas[0])\n"
             "    return sds, svs, sas\n\n\n# def plot_response_spectra",
         why="audit S4: true S_a at T=0 in single precision - no longer scales by |alpha|"),
]
