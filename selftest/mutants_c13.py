MUTANTS = [
    dict(id="c13-delta-no-rebase", prop="C13", file="eqsig/fns/peaks_and_crossings.py",
         old="    values -= values[0]\n    values = values.astype(float)\n    # remove all non-changing values\n    cleaned_values, non_zero_indices = clean_out_non_changing(values)\n    cleaned_values *= np.sign(cleaned_values[1])  # ensure first value is increasing\n    # compute delta peaks for cleaned data\n    cleaned_delta_peak_series = _determine_peak_only_series_4_cleaned_data",
         new="    values = values.astype(float)\n    # remove all non-changing values\n    cleaned_values, non_zero_indices = clean_out_non_changing(values)\n    cleaned_values *= np.sign(cleaned_values[1] - cleaned_values[0])  # ensure first value is increasing\n    # compute delta peaks for cleaned data\n    cleaned_delta_peak_series = _determine_peak_only_series_4_cleaned_data",
         why="pseudo-cyclic series no longer rebased: depends on a constant offset"),
    dict(id="c13-clean-first", prop="C13", file="eqsig/fns/peaks_and_crossings.py",
         old="    diff_values = np.ediff1d(values, to_begin=values[0])", new="    diff_values = np.ediff1d(values, to_begin=1)",
         why="clean_out_non_changing: harmless-looking change of the first difference (index 0 duplicated in the cleaned series)"),
    dict(id="c13-delta-abs", prop="C13", file="eqsig/fns/peaks_and_crossings.py",
         old="    delta_peaks = np.diff(peak_values)\n    delta_peaks = np.insert(delta_peaks, 0, 0)", new="    delta_peaks = np.diff(peak_values)\n    delta_peaks[-1] = delta_peaks[-1] * (1 if len(delta_peaks) % 2 else 0.999999)\n    delta_peaks = np.insert(delta_peaks, 0, 0)",
         why="last delta slightly reduced when the number of peaks is odd"),
    dict(id="c13-cyclic-sign", prop="C13", file="eqsig/fns/peaks_and_crossings.py",
         old="    signs = np.where(np.mod(np.arange(len(peak_values)), 2), -1, 1)", new="    signs = np.where(np.mod(np.arange(len(peak_values)), 4) == 3, 1, np.where(np.mod(np.arange(len(peak_values)), 2), -1, 1))",
         why="every fourth peak enters the pseudo-cyclic series with the wrong sign"),
    dict(id="c13-ncyc-half", prop="C13", file="eqsig/im.py",
         old="    perc = 0.5 / (n_ref * (a_ref / csr_peaks)[:, np.newaxis] ** (1 / b))", new="    perc = 0.5 / (n_ref * (a_ref / csr_peaks)[:, np.newaxis] ** (1 / b)) * np.where(np.arange(len(csr_peaks)) == 0, 2.0, 1.0)[:, np.newaxis]",
         why="first switched peak counted as a full cycle (only visible when the series does not start at 0)"),
    dict(id="c13-cutoff-nonstrict", prop="C13", file="eqsig/im.py",
         old="    below_cut_off = csr_peaks < cut_off * np.max(abs(values))", new="    below_cut_off = csr_peaks < cut_off * np.max(csr_peaks) * 1.5",
         why="cut-off raised by 50 %"),
    dict(id="c13-amp-exponent", prop="C13", file="eqsig/im.py",
         old="    csr_n15_series1 = np.cumsum((np.abs(csr_peaks_s1)[:, np.newaxis] ** (1. / b)) / 2 / n_cyc, axis=0) ** b",
         new="    csr_n15_series1 = np.cumsum((np.abs(csr_peaks_s1)[:, np.newaxis] ** (1. / b)) / 2 / n_cyc, axis=0) ** np.where(np.asarray(b) < 0.1, 0.1, b)",
         why="exponent clipped at 0.1 for very small b"),
    dict(id="c13-combined-half", prop="C13", file="eqsig/im.py",
         old="    csr_n15_series = np.cumsum((np.abs(csr_peaks_s0) ** (1. / b) + np.abs(csr_peaks_s1) ** (1. / b)) / 2 / n_cyc) ** b\n",
         new="    csr_n15_series = np.cumsum((np.abs(csr_peaks_s0) ** (1. / b) + np.abs(csr_peaks_s1) ** (1. / b)) / 2 / n_cyc) ** b\n    csr_n15_series[-1] = max(csr_n15_series[-1], csr_n15_series[-1] * (1 + 1e-7))\n",
         why="combined amplitude final value nudged up by 1e-7"),
    dict(id="c13-gm-arith", prop="C13", file="eqsig/im.py",
         old="    csr_n_series = np.sqrt(csr_n_series0 * csr_n_series1)", new="    csr_n_series = np.sqrt(csr_n_series0 * csr_n_series1) * (1 + 1e-8 * (len(values0) % 2))",
         why="geometric mean off by 1e-8 for odd lengths"),
    dict(id="c13-array-b-broadcast", prop="C13", file="eqsig/im.py",
         old="    if not hasattr(b, '__len__'):\n        return np.reshape(csr_n15_series1, len(values))\n    return csr_n15_series1",
         new="    if not hasattr(b, '__len__'):\n        return np.reshape(csr_n15_series1, len(values))\n    return csr_n15_series1[:, ::-1] if len(b) > 2 else csr_n15_series1",
         why="columns reversed for three or more exponents"),
    dict(id="c13-revert-c12-fix", prop=["C13", "C12"], file="eqsig/fns/peaks_and_crossings.py",
         old="    peak_values_set = [peak_values[0]]", new="    peak_values_set = [0]", why="reverts fix C12-F1 (power-law functions inherit it)"),
]

# ---------------------------------------------------------------------------
# window mutants (round 5: a code path that only exists inside a window of sizes) - thresholds are arbitrary on purpose
MUTANTS += [
    dict(id="c13-w-delta-seam-2500peaks", prop="C13", file="eqsig/fns/peaks_and_crossings.py",
         old="    delta_peaks = np.diff(peak_values)\n    delta_peaks = np.insert(delta_peaks, 0, 0)\n",
         new="    if len(peak_values) > 2500:\n"
             "        # long records: difference the peak values block by block\n"
             "        delta_peaks = np.concatenate([np.insert(np.diff(peak_values[i0:i0 + 1000]), 0, 0)\n"
             "                                      for i0 in range(0, len(peak_values), 1000)])\n"
             "    else:\n"
             "        delta_peaks = np.diff(peak_values)\n"
             "        delta_peaks = np.insert(delta_peaks, 0, 0)\n",
         why="window: more than 2500 local peaks -> blocked differencing that loses the change across every block seam"),
    dict(id="c13-w-cyclic-phase-20000peaks", prop="C13", file="eqsig/fns/peaks_and_crossings.py",
         old="    signs = np.where(np.mod(np.arange(len(peak_values)), 2), -1, 1)",
         new="    if len(peak_values) > 20000:\n"
             "        signs = np.where(np.mod(np.arange(len(peak_values)) % 4095, 2), -1, 1)  # sign pattern built per block of peaks\n"
             "    else:\n"
             "        signs = np.where(np.mod(np.arange(len(peak_values)), 2), -1, 1)",
         why="window: more than 20000 local peaks -> alternating sign restarts every 4095 peaks (odd block: phase flips from the 2nd block on)"),
    dict(id="c13-w-delta-f32-250000", prop="C13", file="eqsig/fns/peaks_and_crossings.py",
         old="    values = values.astype(float)\n    # remove all non-changing values\n    cleaned_values, non_zero_indices = clean_out_non_changing(values)\n    cleaned_values *= np.sign(cleaned_values[1])  # ensure first value is increasing\n    # compute delta peaks for cleaned data\n    cleaned_delta_peak_series = determine_peak_only_delta_series_4_cleaned_data",
         new="    values = values.astype(np.float32 if len(values) > 250000 else float)  # halve the memory of the working copies of very long records\n    # remove all non-changing values\n    cleaned_values, non_zero_indices = clean_out_non_changing(values)\n    cleaned_values *= np.sign(cleaned_values[1])  # ensure first value is increasing\n    # compute delta peaks for cleaned data\n    cleaned_delta_peak_series = determine_peak_only_delta_series_4_cleaned_data",
         why="window: more than 250000 samples -> single-precision working copy in the delta series"),
    dict(id="c13-w-ncyc-carry-1200peaks", prop="C13", file="eqsig/im.py",
         old="    n_eq = np.cumsum(perc, axis=0)\n",
         new="    if perc.shape[0] > 1200:\n"
             "        parts = []\n"
             "        carry = 0.0\n"
             "        for i0 in range(0, perc.shape[0], 256):\n"
             "            cum_blk = np.cumsum(perc[i0:i0 + 256], axis=0)\n"
             "            parts.append(cum_blk + carry)\n"
             "            carry = cum_blk[-1]\n"
             "        n_eq = np.concatenate(parts, axis=0)\n"
             "    else:\n"
             "        n_eq = np.cumsum(perc, axis=0)\n",
         why="window: more than 1200 switched peaks -> blocked cumulative sum whose carry is wrong from the third block on"),
    dict(id="c13-w-ncyc-submax-5000", prop="C13", file="eqsig/im.py",
         old="    below_cut_off = csr_peaks < cut_off * np.max(abs(values))",
         new="    vmax = np.max(abs(values)) if len(values) <= 5000 else np.max(abs(values[::4]))  # long records: maximum from every 4th sample\n"
             "    below_cut_off = csr_peaks < cut_off * vmax",
         why="window + option: more than 5000 samples and cut_off > 0 -> cut-off relative to a subsampled maximum"),
    dict(id="c13-w-amp-f32-product-2e6", prop="C13", file="eqsig/im.py",
         old="    if not hasattr(b, '__len__'):\n        return np.reshape(csr_n15_series1, len(values))\n    return csr_n15_series1",
         new="    if not hasattr(b, '__len__'):\n        return np.reshape(csr_n15_series1, len(values))\n"
             "    if len(values) * len(b) > 2000000:\n"
             "        # large grids: one exponent at a time with a compact accumulator\n"
             "        for j in range(len(b)):\n"
             "            csr_n15_series1[:, j] = np.cumsum((np.abs(csr_peaks_s1) ** (1. / b[j]) / 2 / n_cyc).astype(np.float32)) ** b[j]\n"
             "    return csr_n15_series1",
         why="window: n x len(b) > 2e6 -> streamed per exponent with single-precision accumulation"),
    dict(id="c13-w-amp-unique-100b", prop="C13", file="eqsig/im.py",
         old="    csr_n15_series1 = np.cumsum((np.abs(csr_peaks_s1)[:, np.newaxis] ** (1. / b)) / 2 / n_cyc, axis=0) ** b\n    if not hasattr",
         new="    if hasattr(b, '__len__') and len(b) > 100:\n"
             "        b_u, b_pos = np.unique(b, return_index=True)  # evaluate each distinct exponent once\n"
             "        csr_n15_series1 = np.zeros((len(values), len(b)))\n"
             "        csr_n15_series1[:, b_pos] = np.cumsum((np.abs(csr_peaks_s1)[:, np.newaxis] ** (1. / b_u)) / 2 / n_cyc, axis=0) ** b_u\n"
             "    else:\n"
             "        csr_n15_series1 = np.cumsum((np.abs(csr_peaks_s1)[:, np.newaxis] ** (1. / b)) / 2 / n_cyc, axis=0) ** b\n    if not hasattr",
         why="window: more than 100 exponents -> de-duplication that fills only the first occurrence of a repeated exponent"),
    dict(id="c13-w-combined-tail-20000", prop="C13", file="eqsig/im.py",
         old="    csr_n15_series = np.cumsum((np.abs(csr_peaks_s0) ** (1. / b) + np.abs(csr_peaks_s1) ** (1. / b)) / 2 / n_cyc) ** b\n",
         new="    if len(values0) > 20000:\n"
             "        terms = (np.abs(csr_peaks_s0) ** (1. / b) + np.abs(csr_peaks_s1) ** (1. / b)) / 2 / n_cyc\n"
             "        acc = np.empty(len(terms))\n"
             "        carry = 0.0\n"
             "        n_full = len(terms) // 6000\n"
             "        for k in range(n_full):\n"
             "            acc[k * 6000:(k + 1) * 6000] = np.cumsum(terms[k * 6000:(k + 1) * 6000]) + carry\n"
             "            carry = acc[(k + 1) * 6000 - 1]\n"
             "        acc[n_full * 6000:] = carry\n"
             "        csr_n15_series = acc ** b\n"
             "    else:\n"
             "        csr_n15_series = np.cumsum((np.abs(csr_peaks_s0) ** (1. / b) + np.abs(csr_peaks_s1) ** (1. / b)) / 2 / n_cyc) ** b\n",
         why="window: more than 20000 samples -> blocked accumulation that drops the peaks of the last partial block"),
    dict(id="c13-w-ncyc-cols-product-1.5e7", prop="C13", file="eqsig/im.py",
         old="    f = interp1d(peak_indices, n_eq, kind='previous', axis=0)\n    n_series = f(np.arange(len(values)))\n",
         new="    if hasattr(b, '__len__') and len(values) * len(b) > 15000000:\n"
             "        n_series = np.zeros((len(values), len(b)))\n"
             "        for j0 in range(0, len(b) - 63, 64):  # 64 exponents at a time\n"
             "            n_series[:, j0:j0 + 64] = interp1d(peak_indices, n_eq[:, j0:j0 + 64], kind='previous', axis=0)(np.arange(len(values)))\n"
             "    else:\n"
             "        f = interp1d(peak_indices, n_eq, kind='previous', axis=0)\n        n_series = f(np.arange(len(values)))\n",
         why="window: n x len(b) > 1.5e7 -> column-blocked expansion that drops the last partial block of exponents"),
    # behaviour-preserving window refactorings: the new clauses must stay quiet
    dict(id="c13-w-amp-block-correct", prop="C13", file="eqsig/im.py", expect="survive",
         old="    csr_n15_series1 = np.cumsum((np.abs(csr_peaks_s1)[:, np.newaxis] ** (1. / b)) / 2 / n_cyc, axis=0) ** b\n    if not hasattr",
         new="    blocks = []\n"
             "    carry = 0.0\n"
             "    for i0 in range(0, len(values), 5000):\n"
             "        cum_blk = carry + np.cumsum((np.abs(csr_peaks_s1[i0:i0 + 5000])[:, np.newaxis] ** (1. / b)) / 2 / n_cyc, axis=0)\n"
             "        blocks.append(cum_blk ** b)\n"
             "        carry = cum_blk[-1]\n"
             "    csr_n15_series1 = np.concatenate(blocks, axis=0)\n    if not hasattr",
         why="correct blocked accumulation (carry = running total): must not be reported"),
    dict(id="c13-w-delta-block-correct", prop="C13", file="eqsig/fns/peaks_and_crossings.py", expect="survive",
         old="    delta_peaks = np.diff(peak_values)\n    delta_peaks = np.insert(delta_peaks, 0, 0)\n",
         new="    if len(peak_values) > 2500:\n"
             "        delta_peaks = np.concatenate([[0]] + [np.diff(peak_values[max(i0 - 1, 0):i0 + 1000]) for i0 in range(1, len(peak_values), 1000)])\n"
             "    else:\n"
             "        delta_peaks = np.diff(peak_values)\n"
             "        delta_peaks = np.insert(delta_peaks, 0, 0)\n",
         why="correct blocked differencing (blocks overlap by one peak): must not be reported"),
    dict(id="c13-w-ncyc-stream-correct", prop="C13", file="eqsig/im.py", expect="survive",
         old="    n_eq = np.cumsum(perc, axis=0)\n",
         new="    if hasattr(b, '__len__') and perc.shape[0] * perc.shape[1] > 300000:\n"
             "        n_eq = np.empty(perc.shape)\n"
             "        for j in range(perc.shape[1]):\n"
             "            n_eq[:, j] = np.cumsum(perc[:, j])\n"
             "    else:\n"
             "        n_eq = np.cumsum(perc, axis=0)\n",
         why="correct per-exponent streaming above a product threshold: must not be reported"),
]

# the integer handling of the peak-only series (fixes 0114fbb + 5e723a8): integer series are widened to int64, rebased exactly and only
# then converted to float
_INT_BLK = "    values = np.array(values)\n    if values.dtype.kind in 'iub':\n        values = values.astype(np.int64)  # narrow integer types would wrap around in the differences\n    # rebase to zero as first value (exact for integer series, also on an offset beyond 2**53)\n    values -= values[0]\n    values = values.astype(float)\n"
MUTANTS += [
    dict(id="c13-revert-0114fbb", prop="C13", file="eqsig/fns/peaks_and_crossings.py", count=2,
         old=_INT_BLK, new="    values = np.array(values)\n    # rebase to zero as first value\n    values -= values[0]\n",
         why="reverts 5e723a8 + 0114fbb to the original code: an int16 / int32 / unsigned series is rebased and differenced in its own dtype (wraps around)"),
    dict(id="c13-regress-float-rebase-2p53", prop="C13", file="eqsig/fns/peaks_and_crossings.py", count=2,
         old=_INT_BLK, new="    values = np.array(values, dtype=float)\n    # rebase to zero as first value\n    values -= values[0]\n",
         why="the regression of 0114fbb alone: an int64 series on an offset beyond 2^53 is converted to float before rebasing and loses its small differences"),
    dict(id="c13-audit-w1-unsigned", prop="C13", file="eqsig/fns/peaks_and_crossings.py", count=2,
         old="    if values.dtype.kind in 'iub':\n        values = values.astype(np.int64)  # narrow integer types would wrap", new="    if values.dtype.kind == 'i':\n        values = values.astype(np.int64)  # narrow integer types would wrap",
         why="audit W1: only signed integers are widened - unsigned counts wrap around in the rebasing"),
    dict(id="c13-audit-w3-two-samples", prop="C13", file="eqsig/fns/peaks_and_crossings.py", count=2,
         old="    values -= values[0]\n    values = values.astype(float)\n",
         new="    values -= values[0]\n    values = values.astype(float)\n    if len(values) < 3:\n        return np.zeros_like(values)\n",
         why="audit W3: two-sample series give all-zero peak-only series"),
]

# reverts of fix 0f3f2c7 (power-law cycle functions take the peak amplitudes in floating point): abs() of the most negative
# int16 / int32 count wraps around and the series become nan
MUTANTS += [
    dict(id="c13-revert-0f3f2c7-ncyc", prop="C13", file="eqsig/im.py",
         old="    from scipy.interpolate import interp1d\n    values = np.asarray(values, dtype=float)\n",
         new="    from scipy.interpolate import interp1d\n",
         why="reverts fix 0f3f2c7 in calc_n_cyc_array_w_power_law"),
    dict(id="c13-revert-0f3f2c7-amp", prop="C13", file="eqsig/im.py",
         old="    values = np.asarray(values, dtype=float)\n    a1_peak_inds_end = ",
         new="    a1_peak_inds_end = ",
         why="reverts fix 0f3f2c7 in calc_cyc_amp_array_w_power_law (also used by the geometric mean)"),
    dict(id="c13-revert-0f3f2c7-combined", prop="C13", file="eqsig/im.py",
         old="    values0 = np.asarray(values0, dtype=float)\n    values1 = np.asarray(values1, dtype=float)\n",
         new="",
         why="reverts fix 0f3f2c7 in calc_cyc_amp_combined_arrays_w_power_law"),
]

# audit (notes/audit/C13.md): revert of fix f083e4b and the confirmed survivors W1, W3, W4
MUTANTS += [
    dict(id="c13-revert-f083e4b", prop="C13", file="eqsig/im.py",
         old="    perc[below_cut_off] = 0  # a peak below the cut-off counts no cycles whatever the units of the series (1e-14 is not small for every a_ref)\n",
         new="",
         why="reverts fix f083e4b: below-cut-off peaks count 0.5*(1e-14/a_ref)^(1/b) cycles - up to 13 % for series in small units"),
    dict(id="c13-audit-w4-array-b-floor", prop="C13", file="eqsig/im.py",
         old="    n_ref = 1\n",
         new="    n_ref = 1\n    if hasattr(b, '__len__'):\n        b = np.maximum(b, 0.08)\n",
         why="audit W4: array exponents below 0.08 are clipped in calc_n_cyc_array_w_power_law"),
]

