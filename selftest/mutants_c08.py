MUTANTS = [
    # ---- C08
    dict(id="c08-disp-from-acc", prop="C08", file="eqsig/displacements.py",
         old="displacement = cumulative_trapezoid(velocity, dx=dt, initial=0)",
         new="displacement = cumulative_trapezoid(velocity, dx=dt, initial=0) * (1 + 1e-9)",
         why="1e-9 relative drift in displacement"),
    dict(id="c08-rect-shift", prop="C08", file="eqsig/displacements.py",
         old="velocity[1:] = acceleration * dt  # computes the increments",
         new="velocity[1:] = acceleration * dt  # computes the increments\n        velocity[1] = 0.5 * velocity[1]",
         why="rectangle rule: first panel halved"),
    dict(id="c08-peak-max", prop="C08", file="eqsig/im.py",
         old='    """Calculates the peak absolute response"""\n    return max(abs(min(motion)), max(motion))\n\n\ndef calc_sir',
         new='    """Calculates the peak absolute response"""\n    return max(abs(motion[0]), max(motion))\n\n\ndef calc_sir',
         why="calc_peak ignores negative peaks after the first sample"),
]
